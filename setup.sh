#!/bin/sh
# Build the whole framework from files on disk only (offline).
set -e
cd "$(dirname "$0")"
export GOFLAGS=-mod=mod GOPROXY=off GOSUMDB=off GOTOOLCHAIN=local
mkdir -p build evidence replays coq/gen
(cd tools/go2coq && go1.26.8 build -o ../../build/go2coq .)
./build/go2coq -repo /repo -out coq/gen || echo "go2coq: translation errors (reported by the checks that depend on them)"
(cd coq && coq_makefile -f _CoqProject -o Makefile && (timeout 3000 make -j16 || echo "coq: some files do not build (reported by the checks that depend on them)"))
(cd ocaml && coqc -Q ../coq LNC ../coq/Extract.v && rm -f ../coq/Extract.vo ../coq/Extract.glob ../coq/.Extract.aux \
  && ocamlfind ocamlopt -w -a -package str -linkpkg lnc_model.mli lnc_model.ml zconv.ml run_*.ml modelrun.ml -o ../build/modelrun) || echo "model extraction failed"
(cd harness && go1.26.8 test -c -tags "verif rpctest" -o ../build/harness.test .) || echo "harness build failed"
echo setup done
