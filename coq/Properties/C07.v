(* C07 — no bytes delivered by the untrusted relay can crash an endpoint.
   Decoders and window code are the go2coq translation from this run, with
   run-time panics explicit (constructor Panic). *)
From LNC Require Import GoLite MessagesGen MsgDataGen QueueGen Codec Gbn Window Totality GbnInv GbnSafety.
From LNC Require Import SyncerGen SyncerTotal.
Open Scope Z_scope.

(* every byte string, any length, any values *)
Theorem c07_gbn_deserialize_total : forall b : list Z, Deserialize b <> Panic.
Proof. exact deserialize_total. Qed.
Print Assumptions c07_gbn_deserialize_total.

Theorem c07_msgdata_deserialize_total : forall b : list Z,
  Forall (fun x => 0 <= x) b -> MsgData_decode b <> Panic.
Proof. exact msgdata_decode_total. Qed.
Print Assumptions c07_msgdata_deserialize_total.

(* all 256 ACK / NACK values against every window state of every sequence space:
   no panic, bookkeeping inside the sequence space, outstanding count never grows *)
Theorem c07_ack_in_range : forall q s base top sq,
  2 <= s <= 255 -> 0 <= base < s -> 0 <= top < s -> 0 <= sq < 256 ->
  queueCfg_s (queue_cfg q) = s -> queue_sequenceBase q = base -> queue_sequenceTop q = top ->
  exists q' r, queue_processACK q sq = Ok (q', r) /\
    0 <= queue_sequenceBase q' < s /\ queue_sequenceTop q' = top /\
    queueCfg_s (queue_cfg q') = s /\ queue_content q' = queue_content q /\
    wsize s (queue_sequenceBase q') top <= wsize s base top /\ (r = false -> q' = q).
Proof. exact processACK_in_range. Qed.
Print Assumptions c07_ack_in_range.

Theorem c07_nack_in_range : forall q s base top sq,
  2 <= s <= 255 -> 0 <= base < s -> 0 <= top < s -> 0 <= sq < 256 ->
  queueCfg_s (queue_cfg q) = s -> queue_sequenceBase q = base -> queue_sequenceTop q = top ->
  exists q' r1 r2, queue_processNACK q sq = Ok (q', r1, r2) /\
    0 <= queue_sequenceBase q' < s /\ queue_sequenceTop q' = top /\
    queueCfg_s (queue_cfg q') = s /\ queue_content q' = queue_content q /\
    wsize s (queue_sequenceBase q') top <= wsize s base top.
Proof. exact processNACK_in_range. Qed.
Print Assumptions c07_nack_in_range.

(* data phase: in every reachable state of the protocol model no event panics *)
Theorem c07_data_phase_total : forall st ev, Inv st -> dstep st ev <> DPanic.
Proof. exact dstep_no_panic. Qed.
Print Assumptions c07_data_phase_total.

(* the resend bookkeeping (gbn/syncer.go initResendUpTo, translated this run) divides by the size of the sequence
   space s = n + 1: total for every non-empty space and every top, a panic for s = 0, which is what a proposed
   window of 255 would produce in uint8 (the handshake refuses it: C10's window theorems, hostile-SYN scenarios) *)
Theorem c07_resend_bookkeeping_total : forall c top, syncer_s c <> 0 -> syncer_initResendUpTo c top <> Panic.
Proof. exact initResendUpTo_total. Qed.
Print Assumptions c07_resend_bookkeeping_total.

Theorem c07_empty_sequence_space_would_panic : forall c top, syncer_s c = 0 -> syncer_initResendUpTo c top = Panic.
Proof. exact initResendUpTo_empty_space_panics. Qed.
Print Assumptions c07_empty_sequence_space_would_panic.

Example c07_ex_short_data : Deserialize [2; 0; 1] = Ok None /\ Deserialize [2] = Ok None /\ Deserialize [] = Ok None.
Proof. repeat split; reflexivity. Qed.
