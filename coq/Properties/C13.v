(* C13 — keepalive: dead peers are detected in bounded time, live idle peers are kept.
   The part that is logic: the keepalive monitor of Model/GbnTimed.v over an endpoint's timed
   observable events (packets received, closure by keepalive). The real endpoints' virtual-time
   histories must be accepted by this monitor; what the monitor accepts has the two properties
   below. Whether the goroutines and tickers meet the monitor is sampled, not proved. *)
From Coq Require Import ZArith List Bool Lia.
From LNC Require Import GbnTimed TimedProofs.
From LNC Require Wakeup WakeupProofs.
Import ListNotations.
Open Scope Z_scope.

(* live peer: in every accepted history, of any length, a keepalive closure is preceded by a
   silence of at least ping + pong — a peer that is heard from more often is never closed *)
Theorem c13_live_peer_kept : forall ping pong slack, 0 <= slack ->
  forall tr st st', k_closed st = false -> krun ping pong slack st tr = Some st' -> k_closed st' = true ->
  exists pre t post st1, tr = pre ++ (t, KClose) :: post /\ krun ping pong slack st pre = Some st1 /\
                         k_closed st1 = false /\ ping + pong <= t - k_last st1.
Proof. exact closure_only_after_silence. Qed.
Print Assumptions c13_live_peer_kept.

(* dead peer: in every accepted history an endpoint that is still open has heard from its peer
   within the last ping + pong + slack, whatever it was doing *)
Theorem c13_dead_peer_detected : forall ping pong slack tr st st' t ev,
  krun ping pong slack st (tr ++ [(t, ev)]) = Some st' -> k_closed st' = false ->
  exists st1, krun ping pong slack st tr = Some st1 /\ t - k_last st1 <= ping + pong + slack.
Proof. exact dead_peer_detected. Qed.
Print Assumptions c13_dead_peer_detected.

(* "a connection whose peer answers ... is never closed": the one place where the pong timer is started WITHOUT a ping
   being sent is the send loop's wait on a full window (the queued packets that are being resent are the probe then).
   Model/Wakeup.v, all interleavings of send loop and receive loop: with a buffered wake-up channel, a send loop that
   sits in that wait although the window has been freed has a wake-up pending - it leaves the wait, finds room and
   sends a real ping; with an unbuffered channel it can sit there with an empty window and nothing pending (the pong
   timer then runs out on a peer that has answered everything: defects 24 / 25). The channel's capacity in the current
   source is the generated table of C09 (c09_wakeup_channels_are_buffered). *)
Theorem c13_full_window_wait_ends_when_the_window_is_freed : forall cap acks sched,
  (cap >= 1)%nat -> let st := Wakeup.wrun cap (Wakeup.winit acks) sched in
  Wakeup.w_spc st = Wakeup.SWait -> Wakeup.w_free st = true -> Wakeup.w_rsig st = false -> (Wakeup.w_pend st > 0)%nat.
Proof. exact WakeupProofs.full_window_wait_is_about_to_end. Qed.
Print Assumptions c13_full_window_wait_ends_when_the_window_is_freed.

Theorem c13_unbuffered_wakeup_leaves_the_loop_waiting_refuted :
  let st := Wakeup.wrun 0 (Wakeup.winit 1) (true :: false :: false :: true :: nil) in
  Wakeup.w_free st = true /\ Wakeup.stuck st = true.
Proof. exact WakeupProofs.unbuffered_signal_refuted. Qed.
Print Assumptions c13_unbuffered_wakeup_leaves_the_loop_waiting_refuted.

Example c13_ex :
  krun 5 3 1 (mk_kst 0 false) [(2, KRx); (7, KPing); (9, KRx); (14, KPing); (17, KClose); (100, KNow)] = Some (mk_kst 9 true)
  /\ krun 5 3 1 (mk_kst 0 false) [(2, KRx); (9, KClose)] = None          (* closing a live peer is rejected *)
  /\ krun 5 3 1 (mk_kst 0 false) [(2, KRx); (12, KNow)] = None.          (* not noticing a dead peer is rejected *)
Proof. vm_compute. repeat split; reflexivity. Qed.
