(* C18 — concurrent use is free of data races and internal panics.
   A data race is a fact about the Go memory model at run time; what is logic is the lock
   discipline. gen/TablesGen.v (regenerated from gbn/*.go on every run) lists every access to a
   field of the shared structs through a method receiver, with the mutexes held at that point
   (functions named ...Unsafe inherit the locks held at all their call sites), and the call graph.
   Model/Tables.v computes which goroutine roles (API callers, send loop, receive loop, ticker
   goroutine, syncer helper) reach each function. PARTIAL: the race detector runs that
   validate the table are sampled. *)
From Coq Require Import String List Bool Arith.
From LNC Require Import TablesGen Tables Lockset LocksetProofs LockOrder LockOrderProofs.
From LNC Require MailboxTables.
Import ListNotations.

(* in the current source: any two accesses to the same field, one of them a write, that two
   goroutines can perform at the same time hold a common mutex (or are both through sync/atomic,
   or belong to construction / handshake code that happens before the goroutines start, or
   are in the explicit exemption list of Model/Tables.v) *)
Theorem c18_lock_discipline_holds : lock_violations = [].
Proof. vm_compute. reflexivity. Qed.
Print Assumptions c18_lock_discipline_holds.

(* no two mutexes of a struct are ever taken in both orders *)
Theorem c18_lock_order_acyclic : lock_order_violations = [].
Proof. vm_compute. reflexivity. Qed.
Print Assumptions c18_lock_order_acyclic.

(* ... also across calls: no lock is acquired (directly or by a callee, transitively) while holding a
   lock that some other path acquires in the opposite order, and no lock is re-acquired while held *)
Theorem c18_no_lock_order_cycle_across_calls : deadlock_pairs = [] /\ acq_closure_stable = true.
Proof. vm_compute. split; reflexivity. Qed.
Print Assumptions c18_no_lock_order_cycle_across_calls.

(* ... in fact the whole order relation is acyclic: the locks have a rank (longest chain of order pairs below them,
   computed from the table) that every order pair strictly increases *)
Theorem c18_lock_order_has_a_rank : order_pairs_ranked = true.
Proof. vm_compute. reflexivity. Qed.
Print Assumptions c18_lock_order_has_a_rank.

(* why a rank matters: in the interleaving model, threads that acquire mutexes in strictly increasing rank, release
   only what they hold and end holding nothing never reach a deadlock (and threads taking two mutexes in opposite
   orders do: LockOrderProofs.opposite_orders_deadlock) *)
Theorem c18_ranked_locking_never_deadlocks : forall (rank : nat -> nat) (prog : list thread),
  Forall (ordered rank []) prog ->
  forall st, reachable (init_state prog) st -> ~ stuck st.
Proof. exact ordered_no_deadlock. Qed.
Print Assumptions c18_ranked_locking_never_deadlocks.

(* the mutexes of mailbox/*.go (ClientConn, ServerConn, Client, ConnData, NoiseGrpcConn): ranked order across calls,
   stable acquisition closure, no lock left held at a return *)
Theorem c18_mailbox_lock_order : MailboxTables.order_pairs_ranked = true /\
  MailboxTables.acq_closure_stable = true /\ MailboxTables.leaked_locks = [].
Proof. vm_compute. repeat split; reflexivity. Qed.
Print Assumptions c18_mailbox_lock_order.

(* ... and the lock discipline of their shared fields: two accesses to one field of ClientConn / ServerConn / Client /
   Server / NoiseGrpcConn / ConnData / connKit / the two client transports, one of them a write, by code that can run
   in two goroutines at once (the methods an application may call concurrently, the GBN connection's send and receive
   callbacks, Dial, Accept), hold a common mutex - counting the mutexes that every call site of the accessing function
   holds (the closure is stable) *)
Theorem c18_mailbox_lock_discipline :
  MailboxTables.lock_violations = [] /\ MailboxTables.inh_stable = true.
Proof. vm_compute. split; reflexivity. Qed.
Print Assumptions c18_mailbox_lock_discipline.

(* the analysis is not vacuous: it sees the guarded accesses (the transport's socket is written by ConnectSend under
   the sendMu of its only caller), and an unguarded write next to a guarded read is reported *)
Example c18_mailbox_discipline_nontrivial :
  existsb (fun e => String.eqb (fst e) "websocketTransport.ConnectSend" && MailboxTables.mem "sendMu" (snd e))
          MailboxTables.inh_table = true /\
  Nat.leb 100 (List.length MailboxTables.acc_roles) = true /\
  MailboxTables.conflict
    (("S", "f", true, "S.a", [], false), ["api"]) (("S", "f", false, "S.b", ["mu"], false), ["gbn-recv"]) = true /\
  MailboxTables.conflict
    (("S", "f", true, "S.a", ["mu"], false), ["api"]) (("S", "f", false, "S.b", ["mu"], false), ["gbn-recv"]) = false.
Proof. vm_compute. repeat split; reflexivity. Qed.

(* no way out of a function leaves one of its mutexes locked *)
Theorem c18_no_lock_left_held : leaked_locks = [].
Proof. vm_compute. reflexivity. Qed.
Print Assumptions c18_no_lock_left_held.

(* deadlocks through channels: every blocking select of the package has a case that shutdown enables, and no
   channel operation outside a select can block forever (the statements of C12, which a goroutine waiting
   inside Reset/Stop while holding resetMtx relies on: the ticker goroutine it waits for must observe quit) *)
Theorem c18_no_goroutine_waits_forever_on_a_channel :
  uncovered_selects = [] /\ unexpected_bare_ops = [] /\ force_tick_callers = [].
Proof. vm_compute. repeat split; reflexivity. Qed.
Print Assumptions c18_no_goroutine_waits_forever_on_a_channel.

Example c18_order_pairs_nontrivial :
  existsb (fun p => String.eqb (fst p) "TimeoutManager.mu" && String.eqb (snd p) "TimeoutManager.sentTimesMu") order_pairs = true /\
  existsb (fun p => String.eqb (fst p) "TimeoutManager.sentTimesMu" && String.eqb (snd p) "TimeoutBooster.mu") order_pairs = true /\
  Nat.leb 8 (List.length order_pairs) = true.
Proof. vm_compute. repeat split; reflexivity. Qed.

(* why the discipline matters: in the interleaving model, a program whose every access to a field
   is made while holding that field's lock has no reachable state with two threads poised at
   conflicting accesses *)
Theorem c18_lockset_sound : forall (lock_of : nat -> nat) (prog : list thread),
  Forall (disciplined lock_of []) prog ->
  forall st, reachable (init_state prog) st -> ~ race st.
Proof. exact lockset_sound. Qed.
Print Assumptions c18_lockset_sound.

Example c18_table_nontrivial :
  Nat.leb 100 (List.length access_table) = true /\
  existsb (fun a => a_write a && String.eqb (a_field a) "sequenceBase") access_table = true /\
  Nat.leb 3 (List.length (roles_of "queue.processACK")) = false /\
  existsb (String.eqb "recv-loop") (roles_of "queue.processACK") = true /\
  existsb (String.eqb "send-loop") (roles_of "queue.size") = true.
Proof. vm_compute. repeat split; reflexivity. Qed.
