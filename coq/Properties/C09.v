(* C09 — the sender never exceeds its window; the sequence space is strictly
   larger than the window and the bookkeeping stays inside it. *)
From Coq Require Import String List.
From LNC Require Import GoLite MessagesGen QueueGen Gbn Window GbnInv GbnSafety.
From LNC Require TablesGen Tables Wakeup WakeupProofs.
From LNC Require Import SyncerGen SyncerProofs.
Open Scope Z_scope.

(* every reachable state of the protocol model, all n in 1..254 *)
Theorem c09_window_bound : forall n evs st,
  1 <= n <= 254 -> drun (dinit n) evs = DOk st ->
  0 <= d_T st - d_B st <= n /\ queue_size (d_q st) = Ok (d_T st - d_B st) /\
  0 <= queue_sequenceBase (d_q st) < n + 1 /\ 0 <= queue_sequenceTop (d_q st) < n + 1 /\
  queueCfg_s (queue_cfg (d_q st)) = n + 1 /\ d_n st = n.
Proof. exact window_bound. Qed.
Print Assumptions c09_window_bound.

(* a new packet is refused exactly when the window is full *)
Theorem c09_full_window_refuses : forall st p,
  Inv st -> d_T st - d_B st = d_n st -> dstep st (DNew p) = DReject.
Proof.
  intros st p HI Hfull. unfold dstep.
  rewrite (size_ghost _ _ _ _ (i_sender st HI)). cbn [lift].
  destruct (d_T st - d_B st <? d_n st) eqn:E; [lia|]. reflexivity.
Qed.
Print Assumptions c09_full_window_refuses.

(* the window algebra for ALL uint8 values (any sequence space 2..255, any base/top
   inside it, any incoming ACK / NACK value 0..255): bookkeeping stays in the
   sequence space and the number of outstanding packets never grows *)
Theorem c09_ack_all_values : forall q s base top sq,
  2 <= s <= 255 -> 0 <= base < s -> 0 <= top < s -> 0 <= sq < 256 ->
  queueCfg_s (queue_cfg q) = s -> queue_sequenceBase q = base -> queue_sequenceTop q = top ->
  exists q' r, queue_processACK q sq = Ok (q', r) /\
    0 <= queue_sequenceBase q' < s /\ queue_sequenceTop q' = top /\
    queueCfg_s (queue_cfg q') = s /\ queue_content q' = queue_content q /\
    wsize s (queue_sequenceBase q') top <= wsize s base top /\ (r = false -> q' = q).
Proof. exact processACK_in_range. Qed.
Print Assumptions c09_ack_all_values.

Theorem c09_nack_all_values : forall q s base top sq,
  2 <= s <= 255 -> 0 <= base < s -> 0 <= top < s -> 0 <= sq < 256 ->
  queueCfg_s (queue_cfg q) = s -> queue_sequenceBase q = base -> queue_sequenceTop q = top ->
  exists q' r1 r2, queue_processNACK q sq = Ok (q', r1, r2) /\
    0 <= queue_sequenceBase q' < s /\ queue_sequenceTop q' = top /\
    queueCfg_s (queue_cfg q') = s /\ queue_content q' = queue_content q /\
    wsize s (queue_sequenceBase q') top <= wsize s base top.
Proof. exact processNACK_in_range. Qed.
Print Assumptions c09_nack_all_values.

Theorem c09_size_all_values : forall q s base top,
  2 <= s <= 255 -> 0 <= base < s -> 0 <= top < s ->
  queueCfg_s (queue_cfg q) = s -> queue_sequenceBase q = base -> queue_sequenceTop q = top ->
  queue_size q = Ok (wsize s base top) /\ 0 <= wsize s base top <= s - 1.
Proof. exact size_in_range. Qed.
Print Assumptions c09_size_all_values.

(* "blocks ... until an acknowledgement frees a slot": the freed slot is announced to the send loop by a
   non-blocking send. Model/Wakeup.v: the send loop tests the window, then waits; the receive loop frees the
   window, then signals; all interleavings. With a buffered signal channel the send loop is never left waiting
   on a window that has room ... *)
Theorem c09_buffered_signal_never_loses_a_wakeup : forall cap acks sched,
  (cap >= 1)%nat -> let st := Wakeup.wrun cap (Wakeup.winit acks) sched in
  Wakeup.w_free st = true -> Wakeup.stuck st = false.
Proof. exact WakeupProofs.buffered_signal_never_stuck. Qed.
Print Assumptions c09_buffered_signal_never_loses_a_wakeup.

Theorem c09_send_loop_takes_new_data_after_the_signal : forall cap acks sched,
  (cap >= 1)%nat -> let st := Wakeup.wrun cap (Wakeup.winit acks) sched in
  Wakeup.w_free st = true -> Wakeup.w_rsig st = false ->
  Wakeup.w_spc (Wakeup.wrun cap st (true :: true :: true :: nil)) = Wakeup.SProceed.
Proof. exact WakeupProofs.buffered_signal_proceeds. Qed.
Print Assumptions c09_send_loop_takes_new_data_after_the_signal.

(* ... with an unbuffered one it is: test (full) / free + signal (dropped) / wait *)
Theorem c09_unbuffered_signal_refuted :
  let st := Wakeup.wrun 0 (Wakeup.winit 1) (true :: false :: false :: true :: nil) in
  Wakeup.w_free st = true /\ Wakeup.stuck st = true.
Proof. exact WakeupProofs.unbuffered_signal_refuted. Qed.
Print Assumptions c09_unbuffered_signal_refuted.

(* ... and in the current source (gen/TablesGen.v, regenerated on every run) every channel that the send loop
   waits on and that is signalled with a non-blocking send is created with a buffer; the ACK signal is one of them *)
Theorem c09_wakeup_channels_are_buffered :
  Tables.unbuffered_wakeups = nil /\
  existsb (fun r => String.eqb (snd (fst r)) "receivedACKSignal") Tables.window_wakeups = true.
Proof. vm_compute. split; reflexivity. Qed.
Print Assumptions c09_wakeup_channels_are_buffered.

(* After a timer-driven resend round the send loop holds back new data until the round is answered
   (syncer.waitForSync): it waits for the ACK of the LAST packet of the window, the predecessor of `top` in the
   sequence space, or for NACK(top). gen/SyncerGen.v is gbn/syncer.go's initResendUpTo as the source has it now.
   For every uint8 sequence space and every top inside it the call cannot panic, the expected NACK is top and the
   expected ACK lies inside the sequence space ... *)
Theorem c09_sync_wait_expectations_in_range : forall c top,
  1 <= syncer_s c <= 255 -> 0 <= top < syncer_s c ->
  exists c', syncer_initResendUpTo c top = Ok c' /\
    syncer_s c' = syncer_s c /\ syncer_state c' = 1 /\ syncer_expectedNACK c' = top /\
    0 <= syncer_expectedACK c' < syncer_s c /\
    syncer_expectedACK c' = ((syncer_s c + top - 1) mod 256) mod syncer_s c.
Proof. exact initResendUpTo_in_range. Qed.
Print Assumptions c09_sync_wait_expectations_in_range.

(* ... it IS the predecessor of top (so the ACK that ends the hold-back is the one that frees the whole window)
   whenever s + top - 1 fits a uint8, in particular for every window of at most 127 packets ... *)
Theorem c09_sync_wait_expects_last_packet : forall c top c',
  1 <= syncer_s c <= 255 -> 0 <= top < syncer_s c -> syncer_s c + top <= 256 ->
  syncer_initResendUpTo c top = Ok c' ->
  (syncer_expectedACK c' + 1) mod syncer_s c = top.
Proof. exact initResendUpTo_predecessor. Qed.
Print Assumptions c09_sync_wait_expects_last_packet.

(* ... and is NOT for larger windows: the uint8 sum wraps (s = 200, top = 100 gives 43, not 99). The hold-back
   then ends only by NACK(top) or its own 3 x RTT timer: slower, and part of known finding K5 (Send held back
   while the window has room), not a second finding: no packet is lost or reordered by it (C01 is about the queue). *)
Theorem c09_sync_wait_expects_last_packet_refuted_for_large_windows : exists c top c',
  1 <= syncer_s c <= 255 /\ 0 <= top < syncer_s c /\
  syncer_initResendUpTo c top = Ok c' /\ (syncer_expectedACK c' + 1) mod syncer_s c <> top.
Proof. exact initResendUpTo_predecessor_refuted. Qed.
Print Assumptions c09_sync_wait_expects_last_packet_refuted_for_large_windows.

Example c09_sync_ex : syncer_initResendUpTo (mk_syncer 4 0 0 0) 0 = Ok (mk_syncer 4 1 3 0)
                   /\ syncer_initResendUpTo (mk_syncer 255 0 0 0) 1 = Ok (mk_syncer 255 1 0 1).
Proof. split; reflexivity. Qed.

Example c09_ex : queue_processACK (mk_queue (mk_queueCfg 4) [None; None; None; None] 3 1) 0
               = Ok (mk_queue (mk_queueCfg 4) [None; None; None; None] 1 1, true)
              /\ queue_processNACK (mk_queue (mk_queueCfg 4) [None; None; None; None] 3 1) 200
               = Ok (mk_queue (mk_queueCfg 4) [None; None; None; None] 3 1, false, false).
Proof. split; reflexivity. Qed.
