(* C01 — GBN delivers every message exactly once, in order and intact.
   Statements only. The sender's window functions are the go2coq translation
   of gbn/queue.go from this run; the system model is Model/Gbn.v; real
   histories are replayed through Model/GbnMonitor.v by the check. *)
From LNC Require Import GoLite MessagesGen QueueGen Gbn GbnInv GbnSafety.
Open Scope Z_scope.

(* For every window size and EVERY event sequence (all channel drop / in-order
   duplicate / delay decisions, all retransmission choices, all NACK
   suppressions, all interleavings of the two ends): what the receiver has
   accepted is exactly a prefix of what the sender queued. *)
Theorem c01_delivered_prefix : forall n evs st,
  1 <= n <= 254 -> drun (dinit n) evs = DOk st ->
  d_delivered st = firstn (length (d_delivered st)) (d_sent st).
Proof. exact delivered_prefix. Qed.
Print Assumptions c01_delivered_prefix.

(* the generated window code never panics in any reachable state *)
Theorem c01_never_panics : forall n evs, 1 <= n <= 254 -> drun (dinit n) evs <> DPanic.
Proof. exact drun_no_panic. Qed.
Print Assumptions c01_never_panics.

(* non-vacuity: a 27-event run with a drop, a duplicate, a NACK, retransmissions
   and a wrap of the sequence space (n = 2, s = 3) is accepted and delivers 5 packets *)
Example c01_run_exists :
  match drun (dinit 2) example_run with
  | DOk st => d_R st = 5 /\ map PacketData_Payload (d_delivered st) = [[10]; [11]; [12]; [13]; [14]]
  | _ => False
  end.
Proof. vm_compute. split; reflexivity. Qed.
