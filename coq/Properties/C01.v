(* C01 — GBN delivers every message exactly once, in order and intact.
   Statements only. The sender's window functions are the go2coq translation
   of gbn/queue.go from this run; the system model is Model/Gbn.v; real
   histories are replayed through Model/GbnMonitor.v by the check. *)
From LNC Require Import GoLite MessagesGen QueueGen Codec Gbn GbnMonitor GbnInv GbnSafety MonitorSafety.
Open Scope Z_scope.

(* For every window size and EVERY event sequence (all channel drop / in-order
   duplicate / delay decisions, all retransmission choices, all NACK
   suppressions, all interleavings of the two ends): what the receiver has
   accepted is exactly a prefix of what the sender queued. *)
Theorem c01_delivered_prefix : forall n evs st,
  1 <= n <= 254 -> drun (dinit n) evs = DOk st ->
  d_delivered st = firstn (length (d_delivered st)) (d_sent st).
Proof. exact delivered_prefix. Qed.
Print Assumptions c01_delivered_prefix.

(* the generated window code never panics in any reachable state *)
Theorem c01_never_panics : forall n evs, 1 <= n <= 254 -> drun (dinit n) evs <> DPanic.
Proof. exact drun_no_panic. Qed.
Print Assumptions c01_never_panics.

(* Both directions at once, at the level of the API: in every history accepted by
   the two-direction monitor (Send / Recv calls, every packet handed to or taken
   from the transport, every channel decision), the messages returned by Recv on
   one side are a prefix of the messages passed to Send on the other side. *)
Theorem c01_messages : forall n cA cB evs st, 1 <= n <= 254 -> 0 <= cA -> 0 <= cB ->
  mrun_all (minit n cA cB) evs = Some st ->
  (a_send_failed (m_apiA st) = false -> is_prefix (a_returned (m_apiB st)) (a_accepted (m_apiA st))) /\
  (a_send_failed (m_apiB st) = false -> is_prefix (a_returned (m_apiA st)) (a_accepted (m_apiB st))).
Proof. exact mrun_messages. Qed.
Print Assumptions c01_messages.

(* the per-direction invariant holds in every state of every accepted history *)
Theorem c01_monitor_invariant : forall n cA cB evs st, 1 <= n <= 254 ->
  mrun_all (minit n cA cB) evs = Some st -> Inv (m_dA st) /\ Inv (m_dB st).
Proof. exact mrun_inv. Qed.
Print Assumptions c01_monitor_invariant.

(* non-vacuity: a 27-event run with a drop, a duplicate, a NACK, retransmissions
   and a wrap of the sequence space (n = 2, s = 3) is accepted and delivers 5 packets *)
Example c01_run_exists :
  match drun (dinit 2) example_run with
  | DOk st => d_R st = 5 /\ map PacketData_Payload (d_delivered st) = [[10]; [11]; [12]; [13]; [14]]
  | _ => False
  end.
Proof. vm_compute. split; reflexivity. Qed.
