(* C15 — secured connections honour the net.Conn stream contract for any buffer size.
   grpc_read = NoiseGrpcConn.Read, buf_read = NoiseConn.Read and connKit.Read,
   tcp_write_records = NoiseConn.Write chunking, grpc_write_records = NoiseGrpcConn.Write. *)
From Coq Require Import ZArith List Lia.
From LNC Require Import Noise NoiseRecord NoiseStream.
Import ListNotations.
Open Scope Z_scope.

(* any record sequence, any sequence of buffer sizes: n <= len(buf) for every Read, and
   the bytes read so far are a prefix of the bytes written — nothing lost, duplicated or reordered *)
Theorem c15_read_contract : forall rd, rd = grpc_read \/ rd = buf_read ->
  forall pending src sizes, Forall (fun b => 0 <= b) sizes ->
  is_prefix (concat (reads rd pending src sizes)) (pending ++ concat src)
  /\ Forall2 (fun out b => len out <= b) (reads rd pending src sizes) sizes.
Proof. exact reads_seq. Qed.
Print Assumptions c15_read_contract.

(* no byte is dropped by a Read: output + what is kept + what is still to come = what there was *)
Theorem c15_grpc_read_conserves : forall pending src b out pending' src', 0 <= b ->
  grpc_read pending src b = (out, pending', src') ->
  out ++ pending' ++ concat src' = pending ++ concat src /\ len out <= b
  /\ (pending = [] \/ len pending <= grpc_cap -> len out <= grpc_cap)
  /\ len out <= Z.max grpc_cap (len pending).
Proof. exact grpc_read_step. Qed.
Print Assumptions c15_grpc_read_conserves.

Theorem c15_buf_read_conserves : forall pending src b out pending' src', 0 <= b ->
  buf_read pending src b = (out, pending', src') ->
  out ++ pending' ++ concat src' = pending ++ concat src /\ len out <= b.
Proof. exact buf_read_step. Qed.
Print Assumptions c15_buf_read_conserves.

(* with a buffer of at least one byte a Read makes progress whenever data is available,
   so repeated reads deliver everything *)
Theorem c15_buf_read_progress : forall pending src b out pending' src', 1 <= b ->
  (pending <> [] \/ exists m, In m src /\ m <> []) ->
  buf_read pending src b = (out, pending', src') -> out <> [].
Proof. exact buf_read_progress. Qed.
Print Assumptions c15_buf_read_progress.

(* a write larger than one record is chunked transparently (TCP) or rejected (gRPC), never truncated *)
Theorem c15_tcp_write_chunks : forall b,
  concat (tcp_write_records b) = b
  /\ Forall (fun c => len c <= max_record) (tcp_write_records b)
  /\ (b <> [] -> Forall (fun c => c <> []) (tcp_write_records b)).
Proof. exact tcp_write_records_spec. Qed.
Print Assumptions c15_tcp_write_chunks.

Theorem c15_grpc_write_rejects : forall b, grpc_write_records b = None <-> max_record < len b.
Proof. exact grpc_write_records_none. Qed.
Print Assumptions c15_grpc_write_rejects.

Example c15_ex : reads grpc_read [] [[1; 2; 3]; []; [4]] [2; 5; 1; 1] = [[1; 2]; [3]; []; [4]]
              /\ reads buf_read [] [[1; 2; 3]; []; [4]] [2; 5; 1] = [[1; 2]; [3]; [4]].
Proof. vm_compute. split; reflexivity. Qed.
