(* C02 — the encrypted stream yields only a prefix of what the peer wrote, else an error.
   Model/Noise.v: WriteMessage / ReadHeader / ReadBody over an ideal AEAD whose
   ciphertext bytes are tagged with the operation that produced them; the
   adversary supplies the reader's whole input as an arbitrary list of such bytes
   (any edit script over the stream, junk, replays, the other direction's bytes). *)
From Coq Require Import ZArith List Lia.
From LNC Require Import Noise NoiseRecord.
Import ListNotations.
Open Scope Z_scope.

(* for EVERY input the adversary can assemble, at every point of the reading *)
Theorem c02_prefix_always : forall dir recs input fuel, wf recs ->
  is_prefix (oks (read_all fuel dir recs (mk_reader 0 false) input)) recs.
Proof. exact prefix_always. Qed.
Print Assumptions c02_prefix_always.

(* the same when the transport also fails transiently at arbitrary points (the input arrives in segments,
   each ending in a transport error such as a read deadline) and the application retries its Read *)
Theorem c02_prefix_with_transient_transport_errors : forall dir recs seg segs fuel, wf recs ->
  is_prefix (oks (read_segs fuel dir recs (mk_reader 0 false) seg segs)) recs.
Proof. exact prefix_always_transient. Qed.
Print Assumptions c02_prefix_with_transient_transport_errors.

(* ... and that latch is what carries it: a reader which stays usable after an error inside a record takes the
   body of a 2-byte record for the next header and returns the next header's plaintext as data *)
Theorem c02_transient_error_without_latch_refuted :
  wf nolatch_recs /\
  oks (read_segs_nolatch 4 true nolatch_recs (mk_reader 0 false) [] nolatch_segs) = [[0; 5]] /\
  ~ is_prefix (oks (read_segs_nolatch 4 true nolatch_recs (mk_reader 0 false) [] nolatch_segs)) nolatch_recs.
Proof. exact transient_without_latch_refuted. Qed.
Print Assumptions c02_transient_error_without_latch_refuted.

(* once a read fails, nothing is ever returned as valid again *)
Theorem c02_no_data_after_error : forall dir recs fuel r input l1 e l2,
  read_all fuel dir recs r input = l1 ++ e :: l2 -> (forall p, e <> ROk p) -> oks l2 = [].
Proof. exact no_ok_after_error. Qed.
Print Assumptions c02_no_data_after_error.

(* the first deviation from the honest stream surfaces as an error: exactly the
   records before it are returned *)
Theorem c02_first_deviation_errors : forall dir recs k tail fuel, wf recs -> (k <= length recs)%nat ->
  (forall p, nth_error recs k = Some p -> ~ is_prefix (record_tags dir (Z.of_nat k) p) tail) ->
  oks (read_all fuel dir recs (mk_reader 0 false) (writer_stream dir (firstn k recs) ++ tail))
  = firstn (Nat.min k fuel) recs.
Proof. exact first_deviation_errors. Qed.
Print Assumptions c02_first_deviation_errors.

(* reflected traffic of the other direction (and junk) is never accepted *)
Theorem c02_cross_direction : forall dir recs input fuel,
  Forall (fun b => match b with Honest d _ _ => d = negb dir | Junk => True end) input ->
  oks (read_all fuel dir recs (mk_reader 0 false) input) = [].
Proof. exact cross_direction. Qed.
Print Assumptions c02_cross_direction.

Example c02_ex : read_all 4 true [[1; 2]; [3]] (mk_reader 0 false)
                   (writer_stream true [[1; 2]] ++ [Junk] ++ writer_stream_from true 1 [[3]])
               = [ROk [1; 2]; RErrMac; RErrMac; RErrMac].
Proof. vm_compute. reflexivity. Qed.
