(* C10 — GBN handshake converges; both ends use the window the client proposed.
   Automata transcribed from gbn_client.go / gbn_server.go (Model/GbnHandshake.v),
   packet classification through the generated Deserialize. *)
From LNC Require Import GoLite MessagesGen Codec GbnHandshake HandshakeProofs.
Open Scope Z_scope.

(* all runs: any stale packets initially in either channel, any loss / in-order
   duplication / delay, any timer expiries, any start order *)
Theorem c10_server_window_valid_and_proposed : forall n sab sba evs st,
  hrun (hinit n sab sba) evs = Some st -> sv_phase (h_s st) = SDone ->
  valid_n (sv_n (h_s st)) = true /\ In (sv_n (h_s st)) (h_syns_ab st).
Proof. exact server_done_valid. Qed.
Print Assumptions c10_server_window_valid_and_proposed.

Theorem c10_agreement : forall n sab sba evs st,
  (forall m, In m (syns_of sab) -> m = n) ->
  hrun (hinit n sab sba) evs = Some st -> sv_phase (h_s st) = SDone -> sv_n (h_s st) = n.
Proof. exact agreement. Qed.
Print Assumptions c10_agreement.

Theorem c10_client_window : forall n sab sba evs st,
  hrun (hinit n sab sba) evs = Some st -> cl_phase (h_c st) = CDone ->
  cl_n (h_c st) = n /\ valid_n n = true.
Proof. exact client_done_valid. Qed.
Print Assumptions c10_client_window.

(* once the channels have drained, one more client timeout and a reliable exchange
   complete the handshake from every configuration in which both are still trying *)
Theorem c10_converge_fresh : forall st, valid_n (cl_n (h_c st)) = true ->
  cl_phase (h_c st) = CWaitSyn -> (sv_phase (h_s st) = SWaitSyn \/ sv_phase (h_s st) = SWaitSynAck) ->
  h_ab st = [] -> h_ba st = [] ->
  exists st', hrun st sched_fresh = Some st' /\ cl_phase (h_c st') = CDone /\ sv_phase (h_s st') = SDone /\
              sv_n (h_s st') = cl_n (h_c st) /\ h_ab st' = [] /\ h_ba st' = [].
Proof. exact converge_fresh. Qed.
Print Assumptions c10_converge_fresh.

(* a client that completed while the server did not (lost SYNACK): the client's next
   DATA packet (application data or keepalive ping) completes the server *)
Theorem c10_converge_lost_synack : forall st,
  cl_phase (h_c st) = CDone -> sv_phase (h_s st) = SWaitSynAck -> h_ab st = [] ->
  exists st', hrun st sched_data_after_timeout = Some st' /\ sv_phase (h_s st') = SDone /\ sv_n (h_s st') = sv_n (h_s st).
Proof. exact converge_data_waiting_synack. Qed.
Print Assumptions c10_converge_lost_synack.

Theorem c10_converge_after_restart : forall st,
  cl_phase (h_c st) = CDone -> sv_phase (h_s st) = SWaitSyn -> sv_resent (h_s st) = true ->
  h_ab st = [] -> exists st', hrun st sched_data = Some st' /\ sv_phase (h_s st') = SDone /\ sv_n (h_s st') = sv_n (h_s st).
Proof. exact converge_data_resent. Qed.
Print Assumptions c10_converge_after_restart.

(* the remaining configuration does NOT converge: unconditional convergence is refuted.
   A stale SYN toward the client completes the client alone (reachable state below);
   from there the server ignores every SYNACK and DATA, whatever the timers do.
   (known finding C10/stale-syn-completes-client-alone; with keepalive on the client's
   pong timeout makes the failure visible) *)
Theorem c10_unconditional_convergence_refuted :
  hrun (hinit 20 [] [HSyn 20]) [HStart; HAB HDrop; HBA HDeliver]
    = Some (mk_hsys (mk_client CDone 20) server_init [HSynAck] [] [20]) /\
  forall evs st,
    Forall (fun e => e = HClientData \/ e = HAB HDeliver \/ e = HAB HKeep \/ e = HAB HDrop \/ e = HServerTimeout \/ e = HClientTimeout) evs ->
    hrun (mk_hsys (mk_client CDone 20) server_init [HSynAck] [] [20]) evs = Some st ->
    sv_phase (h_s st) = SWaitSyn /\ sv_resent (h_s st) = false.
Proof. split; [exact stale_syn_stall_reachable | exact stale_syn_stall]. Qed.
Print Assumptions c10_unconditional_convergence_refuted.

(* ... and so does a lost SYNACK when the client never transmits again (an application that only receives, no
   keepalive): reachable with nothing but the loss of that one packet; from there, whatever the timers do and with a
   perfect transport, the server never completes and both channels stay empty
   (known finding C10/lost-synack-with-a-silent-client; any DATA or ping of the client completes the server:
   c10_converge_lost_synack above) *)
Theorem c10_lost_synack_silent_client_refuted :
  hrun (hinit 20 [] []) [HStart; HAB HDeliver; HBA HDeliver; HAB HDrop]
    = Some (mk_hsys (mk_client CDone 20) (mk_server SWaitSynAck 20 false) [] [] [20]) /\
  forall evs st,
    Forall (fun e => e <> HClientData) evs ->
    hrun (mk_hsys (mk_client CDone 20) (mk_server SWaitSynAck 20 false) [] [] [20]) evs = Some st ->
    cl_phase (h_c st) = CDone /\ h_ab st = [] /\ h_ba st = [] /\
    (sv_phase (h_s st) = SWaitSynAck \/ sv_phase (h_s st) = SWaitSyn).
Proof.
  split; [exact lost_synack_silent_reachable|].
  intros evs st HF H. eapply lost_synack_silent_stall; [|exact HF|exact H].
  repeat split; auto.
Qed.
Print Assumptions c10_lost_synack_silent_client_refuted.

Example c10_ex_clean : exists st, hrun (hinit 20 [] []) [HStart; HAB HDeliver; HBA HDeliver; HAB HDeliver] = Some st
  /\ cl_phase (h_c st) = CDone /\ sv_phase (h_s st) = SDone /\ sv_n (h_s st) = 20.
Proof. eexists. vm_compute. repeat split; reflexivity. Qed.
