(* C17 — both parties derive the same rendezvous from the pairing phrase, per direction.
   Codec: Model/Pairing.v (bit-stream model of crypto.go over bstream, words as indices into the
   aezeed list, whose index map is checked exhaustively by the harness). Identifiers: free terms
   (sha512 / hmac / ecdh collision-free and ecdh symmetric). GetSID: go2coq translation of server.go. *)
From Coq Require Import ZArith List Bool Lia.
From LNC Require Import GoLite SidGen Pairing PairingProofs Sym SidProofs GetSidProofs.
Import ListNotations.
Open Scope Z_scope.

(* all ten-word phrases: the entropy derived from a phrase gives back the phrase *)
Theorem c17_phrase_roundtrip : forall ws, length ws = 10%nat -> Forall word_ok ws ->
  entropy_to_words (words_to_entropy ws) = ws.
Proof. exact words_roundtrip. Qed.
Print Assumptions c17_phrase_roundtrip.

(* all 14-byte entropies: exact inverse on the 110 significant bits (the two unused low bits are cleared) *)
Theorem c17_entropy_roundtrip : forall e, length e = 14%nat -> Forall byte_ok e ->
  words_to_entropy (entropy_to_words e) = clear_unused e.
Proof. exact entropy_roundtrip. Qed.
Print Assumptions c17_entropy_roundtrip.

Theorem c17_distinct_phrases_distinct_entropy : forall w1 w2,
  length w1 = 10%nat -> length w2 = 10%nat -> Forall word_ok w1 -> Forall word_ok w2 ->
  words_to_entropy w1 = words_to_entropy w2 -> w1 = w2.
Proof. exact entropy_injective. Qed.
Print Assumptions c17_distinct_phrases_distinct_entropy.

(* the same secret gives the same identifier on both sides: before pairing (pass phrase) ... *)
Theorem c17_same_sid_passphrase : forall a b e, sid_of (Priv a) None e = sid_of (Priv b) None e.
Proof. exact sid_same_passphrase. Qed.
Print Assumptions c17_same_sid_passphrase.
(* ... and after (each side holds the other's static key) *)
Theorem c17_same_sid_keys : forall a b e1 e2,
  sid_of (Priv a) (Some (Pub (Priv b))) e1 = sid_of (Priv b) (Some (Pub (Priv a))) e2.
Proof. exact sid_symmetric. Qed.
Print Assumptions c17_same_sid_keys.

(* different secrets give different identifiers *)
Theorem c17_distinct_entropy_distinct_sid : forall l1 l2 e1 e2, sid_of l1 None e1 = sid_of l2 None e2 -> e1 = e2.
Proof. exact sid_distinct_entropy. Qed.
Print Assumptions c17_distinct_entropy_distinct_sid.
Theorem c17_distinct_keys_distinct_sid : forall a b a' b' e e',
  sid_of (Priv a) (Some (Pub (Priv b))) e = sid_of (Priv a') (Some (Pub (Priv b'))) e' ->
  (a = a' /\ b = b') \/ (a = b' /\ b = a').
Proof. exact sid_distinct_keys. Qed.
Print Assumptions c17_distinct_keys_distinct_sid.

(* directions (generated GetSID): server-to-client is the identifier itself, client-to-server
   differs from it exactly in the last bit; both ends call GetSID with the same arguments for
   the same direction, so the client's send stream is the server's receive stream *)
Theorem c17_directions_differ : forall sid, len sid = 64 -> forall a b,
  GetSID sid true = Ok a -> GetSID sid false = Ok b -> a <> b /\ firstn 63 a = firstn 63 b.
Proof. exact getsid_differ. Qed.
Print Assumptions c17_directions_differ.

Theorem c17_direction_flip_is_involutive : forall sid, len sid = 64 -> forall a,
  GetSID sid false = Ok a -> len a = 64 /\ GetSID a false = Ok sid.
Proof. exact getsid_involutive. Qed.
Print Assumptions c17_direction_flip_is_involutive.

Example c17_ex : entropy_to_words [255;0;255;0;255;0;255;0;255;0;255;0;255;3] = [2040; 63; 1537; 2032; 127; 1027; 2016; 255; 7; 1984]
  /\ words_to_entropy [2040; 63; 1537; 2032; 127; 1027; 2016; 255; 7; 1984] = [255;0;255;0;255;0;255;0;255;0;255;0;255;0].
Proof. vm_compute. split; reflexivity. Qed.
