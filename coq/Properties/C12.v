(* C12 — Close is idempotent, bounded, wakes blocked callers and leaks nothing.
   What is logic here is structural and taken from the current source text:
   gen/TablesGen.v lists every `select` of gbn/*.go with the channel of each case.
   Close closes g.quit, cancels g.ctx, stops the queue (closing the syncer's quit) and
   stops the tickers (closing their quit). Every BLOCKING select must have a case on one
   of those, otherwise a goroutine or a caller can stay blocked after Close.
   That the goroutines then actually terminate within the bound (scheduling, the transport
   honouring context cancellation) is sampled on virtual-time histories: PARTIAL. *)
From Coq Require Import String List Bool Arith.
From LNC Require Import TablesGen Tables.
From LNC Require MailboxTables.
From LNC Require Reconnect ReconnectProofs.
Import ListNotations.

Theorem c12_every_blocking_select_is_woken_by_close : uncovered_selects = [].
Proof. vm_compute. reflexivity. Qed.
Print Assumptions c12_every_blocking_select_is_woken_by_close.

(* ... and no goroutine or caller blocks on a channel operation outside a select (which Close could not
   wake), except the listed ones that cannot block forever. *)
Theorem c12_no_unwakeable_channel_operation : unexpected_bare_ops = [] /\ force_tick_callers = [].
Proof. vm_compute. split; reflexivity. Qed.
Print Assumptions c12_no_unwakeable_channel_operation.

Example c12_bare_detector_detects :
  existsb (bare_eqb ("GoBackNConn.receivePacketsForever", "g.recvDataChan<-")) allowed_bare_ops = false /\
  Nat.leb 1 (List.length bare_chanop_table) = true.
Proof. vm_compute. split; reflexivity. Qed.

(* the same two checks over mailbox/*.go (ClientConn / ServerConn with their retry loops, Client / Server, Listener):
   every blocking select has a case on a channel its shutdown closes, and the only channel operations outside a
   select are the listed ones (Dial waiting for the previous connection's Done(), the listener's semaphore) *)
Theorem c12_mailbox_blocking_operations_are_woken :
  MailboxTables.uncovered_selects = [] /\ MailboxTables.unexpected_bare_ops = [].
Proof. vm_compute. split; reflexivity. Qed.
Print Assumptions c12_mailbox_blocking_operations_are_woken.

Example c12_mailbox_table_nontrivial :
  Nat.leb 10 (List.length MailboxTablesGen.select_table) = true /\
  existsb (fun r => String.eqb (fst (fst r)) "Server.Accept" && negb (snd (fst r))) MailboxTablesGen.select_table = true.
Proof. vm_compute. split; reflexivity. Qed.

(* the statement is not vacuous: the table is non-trivial and contains blocking selects *)
Example c12_table_nontrivial :
  Nat.leb 20 (List.length select_table) = true /\
  existsb (fun r => negb (snd (fst r))) select_table = true /\
  existsb (fun r => String.eqb (fst (fst r)) "GoBackNConn.sendPacketsForever") select_table = true.
Proof. vm_compute. repeat split; reflexivity. Qed.

(* and the check is able to fail: a select on data channels only is reported *)
Example c12_detector_detects :
  covered ("f", false, ["g.receivedACKSignal"; "g.resendSignal"]) = false /\
  covered ("f", false, ["g.receivedACKSignal"; "g.quit"]) = true /\ covered ("f", true, []) = true.
Proof. vm_compute. repeat split; reflexivity. Qed.

(* "Close may be called any number of times ... at any moment": over the consecutive connections of one session
   (Model/Reconnect.v: every handshake hands out a handle, handles are closed in any order, any number of times,
   also after later connections exist). A second Close of a handle changes nothing, a Close closes the connection it
   was called on, and every connection stays open until its own handle is closed *)
Theorem c12_close_twice_is_close_once : forall st k,
  Reconnect.cstep false (Reconnect.cstep false st (Reconnect.CClose k)) (Reconnect.CClose k)
  = Reconnect.cstep false st (Reconnect.CClose k).
Proof. exact ReconnectProofs.close_twice_is_close_once. Qed.
Print Assumptions c12_close_twice_is_close_once.

Theorem c12_close_closes_its_own_connection : forall st k,
  k < length st -> nth k (Reconnect.cstep false st (Reconnect.CClose k)) false = false.
Proof. exact ReconnectProofs.close_closes_its_own. Qed.
Print Assumptions c12_close_closes_its_own_connection.

Theorem c12_connection_open_until_its_own_close : forall evs j,
  j < Reconnect.handshakes evs -> ~ In (Reconnect.CClose j) evs ->
  nth j (Reconnect.crun false [] evs) false = true.
Proof. exact ReconnectProofs.connection_open_until_its_own_close. Qed.
Print Assumptions c12_connection_open_until_its_own_close.

(* with the session's one shared object as every handle (the code before fix 1556a75) a second Close of
   connection 0 closes connection 1 *)
Theorem c12_shared_handle_close_refuted :
  ~ In (Reconnect.CClose 1) [Reconnect.CHandshake; Reconnect.CClose 0; Reconnect.CHandshake; Reconnect.CClose 0] /\
  nth 1 (Reconnect.crun true [] [Reconnect.CHandshake; Reconnect.CClose 0; Reconnect.CHandshake; Reconnect.CClose 0]) false = false /\
  nth 1 (Reconnect.crun false [] [Reconnect.CHandshake; Reconnect.CClose 0; Reconnect.CHandshake; Reconnect.CClose 0]) false = true.
Proof. exact ReconnectProofs.shared_close_refuted. Qed.
Print Assumptions c12_shared_handle_close_refuted.
