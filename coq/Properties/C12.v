(* C12 — Close is idempotent, bounded, wakes blocked callers and leaks nothing.
   What is logic here is structural and taken from the current source text:
   gen/TablesGen.v lists every `select` of gbn/*.go with the channel of each case.
   Close closes g.quit, cancels g.ctx, stops the queue (closing the syncer's quit) and
   stops the tickers (closing their quit). Every BLOCKING select must have a case on one
   of those, otherwise a goroutine or a caller can stay blocked after Close.
   That the goroutines then actually terminate within the bound (scheduling, the transport
   honouring context cancellation) is sampled on virtual-time histories: PARTIAL. *)
From Coq Require Import String List Bool Arith.
From LNC Require Import TablesGen Tables.
From LNC Require MailboxTables.
Import ListNotations.

Theorem c12_every_blocking_select_is_woken_by_close : uncovered_selects = [].
Proof. vm_compute. reflexivity. Qed.
Print Assumptions c12_every_blocking_select_is_woken_by_close.

(* ... and no goroutine or caller blocks on a channel operation outside a select (which Close could not
   wake), except the listed ones that cannot block forever. *)
Theorem c12_no_unwakeable_channel_operation : unexpected_bare_ops = [] /\ force_tick_callers = [].
Proof. vm_compute. split; reflexivity. Qed.
Print Assumptions c12_no_unwakeable_channel_operation.

Example c12_bare_detector_detects :
  existsb (bare_eqb ("GoBackNConn.receivePacketsForever", "g.recvDataChan<-")) allowed_bare_ops = false /\
  Nat.leb 1 (List.length bare_chanop_table) = true.
Proof. vm_compute. split; reflexivity. Qed.

(* the same two checks over mailbox/*.go (ClientConn / ServerConn with their retry loops, Client / Server, Listener):
   every blocking select has a case on a channel its shutdown closes, and the only channel operations outside a
   select are the listed ones (Dial waiting for the previous connection's Done(), the listener's semaphore) *)
Theorem c12_mailbox_blocking_operations_are_woken :
  MailboxTables.uncovered_selects = [] /\ MailboxTables.unexpected_bare_ops = [].
Proof. vm_compute. split; reflexivity. Qed.
Print Assumptions c12_mailbox_blocking_operations_are_woken.

Example c12_mailbox_table_nontrivial :
  Nat.leb 10 (List.length MailboxTablesGen.select_table) = true /\
  existsb (fun r => String.eqb (fst (fst r)) "Server.Accept" && negb (snd (fst r))) MailboxTablesGen.select_table = true.
Proof. vm_compute. split; reflexivity. Qed.

(* the statement is not vacuous: the table is non-trivial and contains blocking selects *)
Example c12_table_nontrivial :
  Nat.leb 20 (List.length select_table) = true /\
  existsb (fun r => negb (snd (fst r))) select_table = true /\
  existsb (fun r => String.eqb (fst (fst r)) "GoBackNConn.sendPacketsForever") select_table = true.
Proof. vm_compute. repeat split; reflexivity. Qed.

(* and the check is able to fail: a select on data channels only is reported *)
Example c12_detector_detects :
  covered ("f", false, ["g.receivedACKSignal"; "g.resendSignal"]) = false /\
  covered ("f", false, ["g.receivedACKSignal"; "g.quit"]) = true /\ covered ("f", true, []) = true.
Proof. vm_compute. repeat split; reflexivity. Qed.
