(* C14 — message boundaries and contents survive chunking for every size.
   split_msg follows the loop of GoBackNConn.Send, take_msg / reassemble the
   loop of GoBackNConn.Recv (Model/GbnMonitor.v); both are tied to the code by
   the monitored histories (every transmitted DATA packet must be the next
   chunk the model computes, every Recv result the model's reassembly). *)
From LNC Require Import GoLite MessagesGen QueueGen Codec Gbn GbnMonitor Chunking MonitorSafety.
Open Scope Z_scope.

(* all payloads (including empty), all chunk sizes (0 = off), all message sequences:
   one Recv result per Send, identical bytes, nothing merged / split / dropped *)
Theorem c14_split_reassemble : forall c msgs pkts, 0 <= c ->
  map proj pkts = concat (map (split_msg c) msgs) -> reassemble pkts = msgs.
Proof. exact split_reassemble. Qed.
Print Assumptions c14_split_reassemble.

Theorem c14_chunk_bounds : forall c data, 0 < c ->
  Forall (fun ch => len (fst ch) <= c) (split_msg c data) /\
  (forall front lastc, split_msg c data = front ++ [(lastc, true)] -> Forall (fun ch => len (fst ch) = c) front).
Proof. exact split_bounds. Qed.
Print Assumptions c14_chunk_bounds.

Theorem c14_chunks_concat : forall c data, 0 <= c -> concat (map fst (split_msg c data)) = data.
Proof. exact split_concat. Qed.
Print Assumptions c14_chunks_concat.

Theorem c14_exactly_one_final : forall c data, 0 <= c ->
  exists front lastc, split_msg c data = front ++ [(lastc, true)] /\ Forall (fun ch => snd ch = false) front.
Proof. exact split_last_final. Qed.
Print Assumptions c14_exactly_one_final.

(* end to end over the protocol: in every history the monitor accepts (all
   faults, all interleavings), as long as no Send call failed, the messages
   returned by Recv are a prefix of the messages passed to Send — message
   by message, not merely byte by byte *)
Theorem c14_messages_end_to_end : forall n cA cB evs st, 1 <= n <= 254 -> 0 <= cA -> 0 <= cB ->
  mrun_all (minit n cA cB) evs = Some st ->
  (a_send_failed (m_apiA st) = false -> is_prefix (a_returned (m_apiB st)) (a_accepted (m_apiA st))) /\
  (a_send_failed (m_apiB st) = false -> is_prefix (a_returned (m_apiA st)) (a_accepted (m_apiB st))).
Proof. exact mrun_messages. Qed.
Print Assumptions c14_messages_end_to_end.

Example c14_ex : split_msg 2 [1; 2; 3; 4; 5] = [([1; 2], false); ([3; 4], false); ([5], true)]
              /\ split_msg 2 [1; 2] = [([1; 2], true)] /\ split_msg 3 [] = [([], true)] /\ split_msg 0 [7; 7; 7] = [([7; 7; 7], true)].
Proof. repeat split; reflexivity. Qed.

(* The hypothesis `a_send_failed = false` cannot be dropped: a Send that times out
   after some of its chunks were queued leaves a partial message that merges with
   the retry. Witness (n = 1, chunk size 1, message [1;2], deadline after the first
   chunk), accepted by the monitor; the same history was produced by the real code
   (known finding C14/send-timeout-retry-merges-partial-message). *)
Definition c14_witness : list mevent :=
  [ MSendCall SA [1; 2]; MTx SA [2; 0; 0; 0; 1]; MSendRet SA false;
    MSendCall SA [1; 2];
    MCh SA Deliver; MRx SB [2; 0; 0; 0; 1]; MTx SB [3; 0]; MCh SB Deliver; MRx SA [3; 0];
    MTx SA [2; 1; 0; 0; 1];
    MCh SA Deliver; MRx SB [2; 1; 0; 0; 1]; MTx SB [3; 1]; MCh SB Deliver; MRx SA [3; 1];
    MTx SA [2; 0; 1; 0; 2]; MSendRet SA true;
    MCh SA Deliver; MRx SB [2; 0; 1; 0; 2]; MTx SB [3; 0];
    MRecvRet SB (Some [1; 1; 2]) ].

Theorem c14_send_timeout_retry_refuted :
  exists st, mrun_all (minit 1 1 1) c14_witness = Some st /\
             a_accepted (m_apiA st) = [[1; 2]; [1; 2]] /\ a_returned (m_apiB st) = [[1; 1; 2]] /\
             a_send_failed (m_apiA st) = true.
Proof. eexists. vm_compute. repeat split; reflexivity. Qed.
Print Assumptions c14_send_timeout_retry_refuted.
