(* C20 — adaptive resend timeout stays within its bounds.
   Model/Timeout.v is gbn/timeout_manager.go with an explicit clock; the float32
   arithmetic of the boost is Flocq's binary32 (fboost32). The real
   TimeoutManager is run against this model op by op under virtual time. *)
From Coq Require Import ZArith List Lia.
From LNC Require Import Timeout TimeoutProofs.
Import ListNotations.
Open Scope Z_scope.

(* all histories of Sent / Received / clock ticks, all multipliers, frequencies, percentages num/den *)
Theorem c20_floor : forall num den mult freq hs ops, 0 <= num -> 0 < den -> 0 < mult -> 0 < freq ->
  second <= get_resend (fboost32 num den) (tm_run (tm_init false second mult freq hs) ops).
Proof. exact floor_f32. Qed.
Print Assumptions c20_floor.

Theorem c20_static : forall num den resend mult freq hs ops,
  get_resend (fboost32 num den) (tm_run (tm_init true resend mult freq hs) ops) = resend
  /\ get_handshake (fboost32 num den) (tm_run (tm_init true resend mult freq hs) ops) = hs.
Proof. exact static_f32. Qed.
Print Assumptions c20_static.

(* a recomputation returns the timeout to max(1 s, multiplier * rtt) with zero boost *)
Theorem c20_reset_on_sample : forall num den m o ts tr fr, t_static m = false ->
  g_samples (tm_step m o) = g_samples m ++ [(ts, tr, fr)] ->
  get_resend (fboost32 num den) (tm_step m o)
    = (let mul := wrap64 (t_mult m * (tr - ts)) in if mul <? second then second else mul)
  /\ tr = t_now m.
Proof. exact reset_f32. Qed.
Print Assumptions c20_reset_on_sample.

(* every recomputation uses a sample of a packet whose last Sent was not a retransmission *)
Theorem c20_samples_not_retransmitted : forall static resend mult freq hs ops,
  Forall (fun s => snd s = true) (g_samples (tm_run (tm_init static resend mult freq hs) ops)).
Proof. exact samples_fresh. Qed.
Print Assumptions c20_samples_not_retransmitted.

(* the timeout changes only on a recomputation or on a retransmission of DATA *)
Theorem c20_changes_only_on_sample_or_resend : forall num den m o,
  g_samples (tm_step m o) = g_samples m -> (forall seq, o <> TSent KData seq true) ->
  get_resend (fboost32 num den) (tm_step m o) = get_resend (fboost32 num den) m.
Proof. exact resend_stable_f32. Qed.
Print Assumptions c20_changes_only_on_sample_or_resend.

(* effective boosts since the last recomputation are at least one base timeout apart,
   each adds exactly one step *)
Theorem c20_boost_rate : forall mult freq hs ops, 0 < mult -> 0 < freq -> Forall tick_ok ops ->
  let m := tm_run (tm_init false second mult freq hs) ops in
  spaced (b_orig (t_rb m)) (g_boosts m) /\ b_count (t_rb m) = Z.of_nat (length (g_boosts m)).
Proof. exact boost_rate_f32. Qed.
Print Assumptions c20_boost_rate.

Theorem c20_value : forall num den mult freq hs ops,
  let m := tm_run (tm_init false second mult freq hs) ops in
  get_resend (fboost32 num den) m
  = b_orig (t_rb m) + fboost32 num den (b_orig (t_rb m)) (Z.of_nat (length (g_boosts m))).
Proof. exact resend_value_f32. Qed.
Print Assumptions c20_value.

(* non-vacuity: a history with a sample, two spaced retransmissions and a premature one *)
Example c20_ex :
  let ops := [TSent KData 0 false; TTick 300000000; TReceived KAck 0;
              TSent KData 1 false; TTick 2000000000; TSent KData 1 true; TTick 100000000; TSent KData 1 true;
              TTick 1500000000; TSent KData 1 true] in
  let m := tm_run (tm_init false second 5 1 second) ops in
  get_resend (fboost32 1 2) m = 3000000000 /\ g_samples m = [(0, 300000000, true)] /\ length (g_boosts m) = 2%nat.
Proof. vm_compute. repeat split; reflexivity. Qed.
