(* C06 — GBN progress. The part that is logic: the progress monitor of Model/GbnTimed.v
   (every message accepted by Send is delivered within `bound` of the later of its acceptance
   and the moment the transport became reliable, unless the connection closed), the safety
   invariant it rests on (C01: what is delivered is a prefix, so "delivered" is well defined),
   and quiescence of the protocol model (nothing is retransmitted from an empty window).
   That the timers of gbn_conn.go meet the monitor is sampled on virtual-time histories. *)
From Coq Require Import ZArith List Bool Lia.
From LNC Require Import GoLite MessagesGen QueueGen Gbn GbnProgress Window GbnInv GbnSafety ProgressProofs GbnTimed TimedProofs.
Import ListNotations.
Open Scope Z_scope.

(* in every accepted timed history no pending message of an open connection is overdue *)
Theorem c06_no_overdue_message : forall bound tr st st' t ev,
  prun bound st (tr ++ [(t, ev)]) = Some st' -> p_closed st' = false -> ev <> PClosed -> ev <> PReliable ->
  exists st1, prun bound st tr = Some st1 /\ overdue bound t st1 = false.
Proof. exact no_overdue_message. Qed.
Print Assumptions c06_no_overdue_message.

(* once everything is acknowledged (B = T) the window is empty in the code's own terms:
   size() = 0, which is the guard under which resend() transmits nothing *)
Theorem c06_quiescent_window_is_empty : forall st, Inv st -> d_B st = d_T st -> queue_size (d_q st) = Ok 0.
Proof.
  intros st HI Heq. rewrite (size_ghost _ _ _ _ (i_sender st HI)). f_equal. lia.
Qed.
Print Assumptions c06_quiescent_window_is_empty.

(* every retransmission carries a packet that was queued and is not older than one window *)
Theorem c06_retransmissions_are_window_packets : forall st k st',
  Inv st -> dstep st (DRetx k) = DOk st' -> Inv st'.
Proof. intros st k st' HI H. exact (dstep_inv st (DRetx k) st' HI H). Qed.
Print Assumptions c06_retransmissions_are_window_packets.

(* PROGRESS of the protocol model, for every state the system can be in (whatever was lost, duplicated,
   delayed or is still queued in either channel): once the transport is reliable, draining the channels,
   ONE resend round of the sender (queue.resend: sequenceBase .. sequenceTop-1) and draining again
   delivers every packet the sender ever accepted, in order, and acknowledges all of them: the window
   is empty and nothing is left in flight. The receiver answers every packet (its NACK back-off has
   expired). So after the fault period the protocol needs one resend timeout plus the channel latency,
   independently of the history - the logical core of the bounded-delivery claim; that the timers of
   gbn_conn.go fire within the bound is what the timed histories sample. *)
Theorem c06_one_reliable_round_delivers_everything : forall st, 1 <= d_n st <= 254 -> Inv st ->
  exists st', reliable_round st = DOk st' /\ Inv st' /\
    d_T st' = d_T st /\ d_R st' = d_T st /\ d_B st' = d_T st /\
    d_fwd st' = [] /\ d_bwd st' = [] /\ d_pend st' = None /\
    d_sent st' = d_sent st /\ d_delivered st' = d_sent st.
Proof. exact reliable_round_delivers. Qed.
Print Assumptions c06_one_reliable_round_delivers_everything.

Theorem c06_progress_from_every_reachable_state : forall n evs st, 1 <= n <= 254 -> drun (dinit n) evs = DOk st ->
  exists st', reliable_round st = DOk st' /\ quiescent st' = true /\ d_delivered st' = d_sent st.
Proof. exact reliable_round_from_any_run. Qed.
Print Assumptions c06_progress_from_every_reachable_state.

(* non-vacuity: a state with lost data, lost ACKs, a duplicate and junk in both channels *)
Example c06_progress_ex :
  match drun (dinit 2) [DNew (pk 10); DNew (pk 11); DFwd Drop; DFwd DeliverKeep; DReply; DRetx 0; DRetx 1; DFwd Deliver; DReply] with
  | DOk st => d_B st = 0 /\ d_R st = 0 /\ d_T st = 2 /\ length (d_fwd st) = 2%nat /\ length (d_bwd st) = 2%nat /\
              match reliable_round st with
              | DOk st' => quiescent st' = true /\ map PacketData_Payload (d_delivered st') = [[10]; [11]]
              | _ => False end
  | _ => False
  end.
Proof. vm_compute. repeat split; reflexivity. Qed.

Example c06_ex :
  prun 10 (mk_pst [] 0 false) [(1, PAccept 0); (50, PReliable); (58, PDeliver 0); (70, PNow)] = Some (mk_pst [] 50 false)
  /\ prun 10 (mk_pst [] 0 false) [(1, PAccept 0); (50, PReliable); (61, PNow)] = None.   (* a silent stall is rejected *)
Proof. vm_compute. split; reflexivity. Qed.
