(* C06 — GBN progress. The part that is logic: the progress monitor of Model/GbnTimed.v
   (every message accepted by Send is delivered within `bound` of the later of its acceptance
   and the moment the transport became reliable, unless the connection closed), the safety
   invariant it rests on (C01: what is delivered is a prefix, so "delivered" is well defined),
   and quiescence of the protocol model (nothing is retransmitted from an empty window).
   That the timers of gbn_conn.go meet the monitor is sampled on virtual-time histories. *)
From Coq Require Import ZArith List Bool Lia.
From LNC Require Import GoLite MessagesGen QueueGen Gbn Window GbnInv GbnSafety GbnTimed TimedProofs.
Import ListNotations.
Open Scope Z_scope.

(* in every accepted timed history no pending message of an open connection is overdue *)
Theorem c06_no_overdue_message : forall bound tr st st' t ev,
  prun bound st (tr ++ [(t, ev)]) = Some st' -> p_closed st' = false -> ev <> PClosed -> ev <> PReliable ->
  exists st1, prun bound st tr = Some st1 /\ overdue bound t st1 = false.
Proof. exact no_overdue_message. Qed.
Print Assumptions c06_no_overdue_message.

(* once everything is acknowledged (B = T) the window is empty in the code's own terms:
   size() = 0, which is the guard under which resend() transmits nothing *)
Theorem c06_quiescent_window_is_empty : forall st, Inv st -> d_B st = d_T st -> queue_size (d_q st) = Ok 0.
Proof.
  intros st HI Heq. rewrite (size_ghost _ _ _ _ (i_sender st HI)). f_equal. lia.
Qed.
Print Assumptions c06_quiescent_window_is_empty.

(* every retransmission carries a packet that was queued and is not older than one window *)
Theorem c06_retransmissions_are_window_packets : forall st k st',
  Inv st -> dstep st (DRetx k) = DOk st' -> Inv st'.
Proof. intros st k st' HI H. exact (dstep_inv st (DRetx k) st' HI H). Qed.
Print Assumptions c06_retransmissions_are_window_packets.

Example c06_ex :
  prun 10 (mk_pst [] 0 false) [(1, PAccept 0); (50, PReliable); (58, PDeliver 0); (70, PNow)] = Some (mk_pst [] 50 false)
  /\ prun 10 (mk_pst [] 0 false) [(1, PAccept 0); (50, PReliable); (61, PNow)] = None.   (* a silent stall is rejected *)
Proof. vm_compute. split; reflexivity. Qed.
