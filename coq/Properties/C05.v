(* C05 — end to end: bytes written on one side arrive intact through the relay.
   Model/Stack.v composes the layers through what their own theorems guarantee:
   GBN hands over a prefix of the messages given to it (C01/C14), the control-message framing
   is the identity on payloads (C19), connKit.Read and io.ReadFull present the concatenation of
   the delivered payloads (C15/C16), the record layer returns a prefix of the records for any
   input (C02/C08), NoiseGrpcConn.Read re-chunks without loss (C15). *)
From Coq Require Import ZArith List Bool Lia.
From LNC Require Import Noise NoiseRecord NoiseStream Stack StackProofs.
Import ListNotations.
Open Scope Z_scope.

(* all write-size sequences (records <= 65535 bytes), ANY number of GBN messages delivered so far
   (all relay fault schedules), any Read buffer sizes: bytes read are a prefix of bytes written
   and no Read exceeds its buffer *)
Theorem c05_stream_prefix : forall dir recs delivered fuel sizes,
  wf recs -> Forall (fun b => 0 <= b) sizes ->
  is_prefix (concat (stack_read dir recs delivered fuel sizes)) (concat recs)
  /\ Forall2 (fun out b => len out <= b) (stack_read dir recs delivered fuel sizes) sizes.
Proof. exact stack_stream_prefix. Qed.
Print Assumptions c05_stream_prefix.

(* once every message has been delivered, every record is read back *)
Theorem c05_complete_when_delivered : forall dir recs, wf recs ->
  oks (read_all (S (length recs)) dir recs (mk_reader 0 false)
         (concat (firstn (2 * length recs) (stack_messages dir recs)))) = recs.
Proof. exact stack_all_delivered. Qed.
Print Assumptions c05_complete_when_delivered.

(* every message payload the relay sees in the data phase consists of ciphertext bytes only *)
Theorem c05_relay_sees_only_ciphertext : forall dir recs,
  Forall (Forall (honest_tag dir)) (stack_messages dir recs).
Proof. exact relay_sees_only_ciphertext. Qed.
Print Assumptions c05_relay_sees_only_ciphertext.

Example c05_ex : stack_read true [[1; 2; 3]; [4]] 3 5 [2; 2; 2] = [[1; 2]; [3]; []]
              /\ stack_read true [[1; 2; 3]; [4]] 4 5 [2; 2; 2] = [[1; 2]; [3]; [4]].
Proof. vm_compute. split; reflexivity. Qed.
