(* C16 — handshake and record framing do not depend on transport fragmentation;
   Flush emits exactly the remaining bytes once. *)
From Coq Require Import ZArith List Lia.
From LNC Require Import Noise NoiseRecord NoiseStream.
Import ListNotations.
Open Scope Z_scope.

(* io.ReadFull over a transport that returns the stream in arbitrary fragments: the bytes
   obtained, and what is left, are the same for every fragmentation *)
Theorem c16_read_full_fragmentation : forall chunks k, 0 <= k <= len (concat chunks) ->
  exists rest, read_full k chunks = Some (firstn (Z.to_nat k) (concat chunks), rest)
               /\ concat rest = skipn (Z.to_nat k) (concat chunks).
Proof. exact read_full_frag. Qed.
Print Assumptions c16_read_full_fragmentation.

Theorem c16_fragmentation_independent : forall chunks1 chunks2 k out1 rest1 out2 rest2,
  concat chunks1 = concat chunks2 -> 0 <= k <= len (concat chunks1) ->
  read_full k chunks1 = Some (out1, rest1) -> read_full k chunks2 = Some (out2, rest2) ->
  out1 = out2 /\ concat rest1 = concat rest2.
Proof. exact read_full_frag_indep. Qed.
Print Assumptions c16_fragmentation_independent.

(* any partition of the record's wire bytes into partial writes separated by timeouts:
   emitted ++ still pending = header ++ body, i.e. every byte exactly once, in order *)
Theorem c16_flush_exactly_once : forall accs st out nn st',
  Forall (fun a => 0 <= fst a /\ 0 <= snd a) accs ->
  flush_all st accs = (out, nn, st') ->
  out ++ pw_hdr st' ++ pw_body st' = pw_hdr st ++ pw_body st.
Proof. exact flush_conservation. Qed.
Print Assumptions c16_flush_exactly_once.

(* the counts reported add up to exactly the plaintext length *)
Theorem c16_flush_counts_plaintext : forall accs hdr body out nn st',
  Forall (fun a => 0 <= fst a /\ 0 <= snd a) accs -> mac <= len body ->
  flush_all (mk_pendingw hdr body) accs = (out, nn, st') ->
  pending_nonempty st' = false -> nn = len body - mac.
Proof. exact flush_count. Qed.
Print Assumptions c16_flush_counts_plaintext.

Theorem c16_flush_progress : forall st a1 a2 out nn err st',
  1 <= a1 -> 1 <= a2 -> pending_nonempty st = true ->
  flush st a1 a2 = (out, nn, err, st') ->
  len (pw_hdr st') + len (pw_body st') < len (pw_hdr st) + len (pw_body st).
Proof. exact flush_progress. Qed.
Print Assumptions c16_flush_progress.

Example c16_ex : read_full 5 [[1]; [2; 3]; []; [4; 5; 6]] = Some ([1; 2; 3; 4; 5], [[6]])
              /\ read_full 5 [[1; 2; 3; 4; 5; 6]] = Some ([1; 2; 3; 4; 5], [[6]]).
Proof. vm_compute. split; reflexivity. Qed.
