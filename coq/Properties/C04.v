(* C04 — completed handshakes agree on keys, version, identities and auth payload.
   Adversary: a man in the middle who rewrites each act into ANY list of fields (any version
   bytes, any points, any reordering / replay / reflection) but cannot make a new ciphertext
   that opens: every Seal term it delivers was transmitted by an honest party in this run
   (no_forgery_run). For the XX act-1 MAC, which is under the public all-zero key with the
   unmasked ephemeral in its associated data, "cannot forge" stands for "cannot unmask without
   the pass phrase". *)
From Coq Require Import ZArith List Bool Lia.
From LNC Require Import Sym SymLemmas SymProofs SymHonest SymTamper.
Import ListNotations.
Open Scope Z_scope.

(* all 81 version quadruples, both patterns, any payload: honest delivery gives agreement or
   no completion by the initiator (and for XX by neither) *)
Theorem c04_honest_agreement : forall c, wf c -> vr c ->
  (c_kk c = false -> c_pwi c = c_pwr c) ->
  (c_kk c = true -> c_exp_i c = Pub (Priv (c_sr c)) /\ c_exp_r c = Pub (Priv (c_si c))) ->
  (completed (r_init (run c faithful)) = true /\ completed (r_resp (run c faithful)) = true /\
   exists si sr, r_init (run c faithful) = Completed si /\ r_resp (run c faithful) = Completed sr /\
     s_send si = s_recv sr /\ s_recv si = s_send sr /\ s_version si = c_maxr c /\ s_version sr = c_maxr c /\
     s_remote si = Some (Pub (Priv (c_sr c))) /\ s_remote sr = Some (Pub (Priv (c_si c))) /\
     s_auth si = Some (c_payload c)) \/
  (completed (r_init (run c faithful)) = false /\
   (c_kk c = false -> completed (r_resp (run c faithful)) = false)).
Proof. exact honest_agreement_or_no_completion. Qed.
Print Assumptions c04_honest_agreement.

(* under ANY no-forgery man in the middle: two parties that both complete hold complementary
   traffic keys, each other's true static key, and the initiator holds exactly the responder's
   auth payload *)
Theorem c04_tamper_agreement : forall c adv si sr, no_forgery_run c adv ->
  r_init (run c adv) = Completed si -> r_resp (run c adv) = Completed sr ->
  s_send si = s_recv sr /\ s_recv si = s_send sr /\
  s_remote si = Some (Pub (Priv (c_sr c))) /\ s_remote sr = Some (Pub (Priv (c_si c))) /\
  s_auth si = Some (c_payload c).
Proof. exact tamper_agreement_run. Qed.
Print Assumptions c04_tamper_agreement.

(* the negotiated version is NOT protected: agreement on the version is refuted (known finding
   C04/version-byte-unauthenticated): act 2's byte 2 -> 1 and act 3's 1 -> 2 leave the
   initiator at version 1 and the responder at version 2, and only the responder stores the
   peer's key (so only it moves to the key-derived rendezvous) *)
Theorem c04_version_agreement_refuted : exists c adv si sr,
  no_forgery_run c adv /\ r_init (run c adv) = Completed si /\ r_resp (run c adv) = Completed sr /\
  s_version si <> s_version sr /\ s_set_remote si <> s_set_remote sr.
Proof. exact tamper_version_refuted_run. Qed.
Print Assumptions c04_version_agreement_refuted.

(* ... and holds exactly when the version bytes are left alone *)
Theorem c04_version_agreement_if_bytes_kept : forall c adv si sr, keeps_version adv ->
  r_init (run c adv) = Completed si -> r_resp (run c adv) = Completed sr -> s_version si = s_version sr.
Proof. exact version_agreement_if_bytes_kept. Qed.
Print Assumptions c04_version_agreement_if_bytes_kept.

(* a version-0 responder with an auth payload that does not fit act two fails instead of truncating *)
Theorem c04_v0_large_payload_rejected : forall c adv,
  c_kk c = false -> c_maxr c = 0 -> 498 < c_plen c ->
  completed (r_resp (run c adv)) = false /\ completed (r_init (run c adv)) = false.
Proof. exact v0_large_payload_rejected. Qed.
Print Assumptions c04_v0_large_payload_rejected.

Example c04_ex :
  match r_init (run (example_cfg false 0 2 0 2) version_swap), r_resp (run (example_cfg false 0 2 0 2) version_swap) with
  | Completed a, Completed b => s_version a = 1 /\ s_version b = 2 /\ s_send a = s_recv b
  | _, _ => False
  end.
Proof. vm_compute. repeat split; reflexivity. Qed.
