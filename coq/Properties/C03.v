(* C03 — only holders of the pairing secret or paired keys can complete a handshake.
   Symbolic model Model/Sym.v of noise.go (free term algebra: hash, HKDF, scrypt injective;
   ECDH symmetric and otherwise free; the AEAD opens exactly the term that was sealed with the
   same key, nonce and associated data). Every act of every scenario of the harness is
   re-computed to bytes from these terms and compared with the real wire. *)
From Coq Require Import ZArith List Bool Lia.
From LNC Require Import Sym SymLemmas SymProofs SymHonest.
Import ListNotations.
Open Scope Z_scope.

(* first pairing: any two different pass phrases (differing in any bit), any keys, versions, payload *)
Theorem c03_xx_wrong_passphrase : forall c, c_kk c = false -> c_pwi c <> c_pwr c ->
  completed (r_resp (run c faithful)) = false /\ completed (r_init (run c faithful)) = false /\
  r_resp_out (run c faithful) = [].
Proof. exact xx_wrong_passphrase. Qed.
Print Assumptions c03_xx_wrong_passphrase.

(* repeat handshake: either side storing a key that is not the other's static key *)
Theorem c03_kk_key_mismatch : forall c a b, c_kk c = true -> wf c ->
  c_exp_i c = Pub (Priv a) -> c_exp_r c = Pub (Priv b) ->
  (a <> c_sr c \/ b <> c_si c) ->
  completed (r_resp (run c faithful)) = false /\ completed (r_init (run c faithful)) = false /\
  r_resp_out (run c faithful) = [].
Proof. exact kk_key_mismatch. Qed.
Print Assumptions c03_kk_key_mismatch.

(* whatever is delivered as act 1 (any adversary): a responder that rejects it has emitted
   nothing, so its auth payload was never released *)
Theorem c03_responder_silent : forall c adv,
  (exists o, r_resp (run c adv) = o /\ (o = Failed 1 \/ o = BadConfig)) ->
  r_resp_out (run c adv) = [] /\ (length (r_wire (run c adv)) <= 1)%nat.
Proof. exact responder_silent. Qed.
Print Assumptions c03_responder_silent.

(* with the same secret / the right keys and compatible version ranges the handshake completes *)
Theorem c03_match_completes : forall c, wf c -> vr c ->
  (c_kk c = false -> c_pwi c = c_pwr c) ->
  (c_kk c = true -> c_exp_i c = Pub (Priv (c_sr c)) /\ c_exp_r c = Pub (Priv (c_si c))) ->
  let mi := (if c_kk c then Z.max 2 (c_mini c) else c_mini c) in
  let mr := (if c_kk c then Z.max 2 (c_minr c) else c_minr c) in
  mi <= c_maxi c -> mr <= c_maxr c -> mr <= mi <= c_maxr c -> mi <= c_maxr c <= c_maxi c ->
  (c_maxr c = 0 -> c_plen c <= 498) ->
  exists si sr, r_init (run c faithful) = Completed si /\ r_resp (run c faithful) = Completed sr /\
    s_send si = s_recv sr /\ s_recv si = s_send sr /\ s_version si = c_maxr c /\ s_version sr = c_maxr c /\
    s_remote si = Some (Pub (Priv (c_sr c))) /\ s_remote sr = Some (Pub (Priv (c_si c))) /\
    s_auth si = Some (c_payload c).
Proof. exact match_completes. Qed.
Print Assumptions c03_match_completes.

Example c03_ex :
  completed (r_resp (run (mk_cfg false 1 2 3 4 (Stretch (Lit [7])) (Stretch (Lit [8])) Empty Empty (Lit [1]) 1 0 2 0 2) faithful)) = false
  /\ completed (r_resp (run (example_cfg false 0 2 0 2) faithful)) = true.
Proof. vm_compute. split; reflexivity. Qed.
