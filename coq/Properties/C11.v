(* C11 — one live connection per session; reconnect and post-pairing switch line up.
   Exclusivity: the session monitor of Model/Session.v over Accept / Dial histories (the real
   Server / Client over a fake relay must produce accepted histories: sampled, PARTIAL).
   Switch: session identifiers and patterns as free terms (Model/Sym.v). *)
From Coq Require Import ZArith List Bool Lia.
From LNC Require Import GoLite Noise GbnMonitor Reconnect ReconnectProofs Session SessionProofs Sym SidProofs.
Import ListNotations.
Open Scope Z_scope.

(* every accepted history, at every point: at most one handed-out connection is open *)
Theorem c11_exclusive : forall pre post st', srun sinit (pre ++ post) = Some st' ->
  (length (open_after pre []) <= 1)%nat.
Proof. exact exclusive_at_every_point. Qed.
Print Assumptions c11_exclusive.

Theorem c11_handed_out_only_after_close : forall st id st',
  sstep st (SRet id) = Some st' -> s_open st = None /\ s_open st' = Some id.
Proof. exact ret_requires_closed. Qed.
Print Assumptions c11_handed_out_only_after_close.

(* after a pairing in which static keys were exchanged both sides derive the SAME new identifier ... *)
Theorem c11_switch_same_rendezvous : forall a b e1 e2,
  sid_of (Priv a) (Some (Pub (Priv b))) e1 = sid_of (Priv b) (Some (Pub (Priv a))) e2.
Proof. exact sid_symmetric. Qed.
Print Assumptions c11_switch_same_rendezvous.
(* ... different from the pass-phrase one, and both use the key-based pattern *)
Theorem c11_switch_new_rendezvous : forall a b e e',
  sid_of (Priv a) (Some (Pub (Priv b))) e <> sid_of (Priv a) None e'.
Proof. exact sid_pairing_changes. Qed.
Print Assumptions c11_switch_new_rendezvous.
Theorem c11_switch_pattern : forall r, pattern_kk (Some r) = true /\ pattern_kk None = false.
Proof. exact pattern_after_pairing. Qed.
Print Assumptions c11_switch_pattern.

(* ... but the move is not atomic. A first pairing that loses its LAST message (a relay failure): the client has
   completed and stored the server's key, the server has failed and stored nothing; what each side now derives its
   rendezvous and its pattern from differs, so they never meet again and no fresh connection is handed out
   (known finding C11/first-pairing-loses-its-last-message; the harness replays it against the implementation) *)
Theorem c11_interrupted_first_pairing_splits_refuted : forall e e',
  let r := run (example_cfg false 0 2 0 2) drop_act3 in
  (exists s, r_init r = Completed s /\ s_set_remote s = true /\ s_remote s = Some (Pub (Priv 2))) /\
  r_resp r = Failed 3 /\
  sid_of (Priv 1) (Some (Pub (Priv 2))) e <> sid_of (Priv 2) None e' /\
  pattern_kk (Some (Pub (Priv 2))) = true /\ pattern_kk None = false.
Proof. exact interrupted_first_pairing_splits. Qed.
Print Assumptions c11_interrupted_first_pairing_splits_refuted.

(* a client that only knows the pass phrase is an XX initiator; against the paired server (a KK
   responder) its first message is rejected, whatever its keys and pass phrase *)
Theorem c11_stranger_rejected : forall stranger server,
  p_kk stranger = false -> p_init stranger = true -> p_kk server = true -> p_init server = false ->
  (exists s0 e0 rs0 pw0 pl0 n0 mn mx, new_party true false s0 e0 rs0 pw0 pl0 n0 mn mx = Some stranger) ->
  (exists s1 e1 r1 pw1 pl1 n1 mn1 mx1, new_party false true s1 e1 (Some r1) pw1 pl1 n1 mn1 mx1 = Some server) ->
  stranger_result stranger server = None.
Proof. exact stranger_rejected. Qed.
Print Assumptions c11_stranger_rejected.

(* "a fresh working connection": one reader object serves all connections of a session (NoiseGrpcConn, handshaken
   again on every reconnect); since its handshake clears the unread tail of the previous connection, what is read on
   a connection is a prefix of what was written on THAT connection, for both reader kinds, any number of connections,
   any records and any buffer sizes. Without the reset (the code before fix 8891881) the statement is false. *)
Theorem c11_fresh_connection_starts_fresh : forall rd, rd = grpc_read \/ rd = buf_read ->
  forall conns pending,
  Forall (fun c : connection => Forall (fun b => 0 <= b) (snd c)) conns ->
  Forall2 (fun outs (c : connection) => is_prefix (concat outs) (concat (fst c)))
          (Reconnect.session true rd pending conns) conns.
Proof. exact session_streams_are_per_connection. Qed.
Print Assumptions c11_fresh_connection_starts_fresh.

Theorem c11_stale_tail_without_reset_refuted :
  exists conns, ~ Forall2 (fun outs (c : connection) => is_prefix (concat outs) (concat (fst c)))
                          (Reconnect.session false grpc_read [] conns) conns.
Proof. exact session_without_reset_refuted. Qed.
Print Assumptions c11_stale_tail_without_reset_refuted.

Example c11_ex :
  srun sinit [SCall; SRet 0; SCall; SClosed 0; SRet 1] = Some (mk_sst (Some 1) 2 0)
  /\ srun sinit [SCall; SRet 0; SCall; SRet 1] = None.
Proof. vm_compute. split; reflexivity. Qed.
