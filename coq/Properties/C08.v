(* C08 — fresh nonces, lock-step key rotation, no plaintext on the wire. *)
From Coq Require Import ZArith List Lia.
From LNC Require Import Noise NoiseRecord.
Import ListNotations.
Open Scope Z_scope.

(* the m-th AEAD operation of a direction uses key #(m / 1000) and nonce m mod 1000, for every m *)
Theorem c08_schedule : forall m : nat, kn_iter m (0, 0) = kn_of (Z.of_nat m).
Proof. exact kn_iter_spec. Qed.
Print Assumptions c08_schedule.

(* no (key, nonce) pair is ever used twice in a direction *)
Theorem c08_fresh : forall a b : nat, kn_iter a (0, 0) = kn_iter b (0, 0) -> a = b.
Proof. exact kn_iter_inj. Qed.
Print Assumptions c08_fresh.

(* every byte on the wire is ciphertext of some operation, and no (operation, offset) repeats *)
Theorem c08_wire_is_sealed : forall dir recs,
  Forall (fun b => exists op off, b = Honest dir op off) (writer_stream dir recs).
Proof. exact writer_all_sealed. Qed.
Print Assumptions c08_wire_is_sealed.

Theorem c08_no_reuse : forall dir recs, NoDup (writer_stream dir recs).
Proof. exact writer_nodup. Qed.
Print Assumptions c08_no_reuse.

Theorem c08_equal_plaintexts_differ : forall dir k k' p,
  0 <= k -> 0 <= k' -> k <> k' -> record_tags dir k p <> record_tags dir k' p.
Proof. exact equal_plaintexts_distinct. Qed.
Print Assumptions c08_equal_plaintexts_differ.

(* streams of ANY length decrypt to exactly what was written: reader and writer use the
   same operation index (hence the same key and nonce) for every record, across rotations *)
Theorem c08_roundtrip : forall dir recs, wf recs ->
  read_all (S (length recs)) dir recs (mk_reader 0 false) (writer_stream dir recs)
  = map ROk recs ++ [RErrShort].
Proof. exact roundtrip. Qed.
Print Assumptions c08_roundtrip.

Example c08_ex : kn_iter 999 (0, 0) = (0, 999) /\ kn_iter 1000 (0, 0) = (1, 0) /\ kn_iter 2001 (0, 0) = (2, 1).
Proof. vm_compute. repeat split; reflexivity. Qed.
