(* Progress core of the Go-Back-N model (C06): what happens once the transport has
   become reliable. `drain` delivers everything that is in flight in both channels, in
   order, the receiver transmitting every reply it owes (its NACK back-off has expired);
   `resend_events` is one round of queue.resend (retransmit sequenceBase .. sequenceTop-1);
   `reliable_round` = drain, one resend round, drain.  The theorem about it
   (Proofs/ProgressProofs.v) says that from ANY state satisfying the invariant - whatever
   was lost, duplicated or is still queued in the channels - one such round delivers
   every accepted packet and acknowledges all of them. *)
From LNC Require Import GoLite MessagesGen QueueGen Gbn.
Open Scope Z_scope.

Definition flush_step (st : dsys) : option devent :=
  match d_pend st with
  | Some _ => Some DReply
  | None =>
      match d_fwd st with
      | _ :: _ => Some (DFwd Deliver)
      | [] => match d_bwd st with _ :: _ => Some (DBwd Deliver) | [] => None end
      end
  end.

Fixpoint drain (fuel : nat) (st : dsys) : dres :=
  match fuel with
  | O => DOk st
  | S f =>
      match flush_step st with
      | None => DOk st
      | Some ev => match dstep st ev with DOk st' => drain f st' | r => r end
      end
  end.

Definition drain_fuel (st : dsys) : nat := 3 * length (d_fwd st) + length (d_bwd st) + 2.
Definition drain_all (st : dsys) : dres := drain (drain_fuel st) st.

Fixpoint retx_list (fuel : nat) (k top s : Z) : list devent :=
  match fuel with
  | O => []
  | S f => if k =? top then [] else DRetx k :: retx_list f ((k + 1) mod s) top s
  end.

Definition resend_events (st : dsys) : list devent :=
  let q := d_q st in
  let s := queueCfg_s (queue_cfg q) in
  retx_list (Z.to_nat s) (queue_sequenceBase q) (queue_sequenceTop q) s.

Definition dbind (r : dres) (k : dsys -> dres) : dres :=
  match r with DOk st => k st | other => other end.

Definition reliable_round (st : dsys) : dres :=
  dbind (drain_all st) (fun st1 =>
  dbind (drun st1 (resend_events st1)) drain_all).

Definition quiescent (st : dsys) : bool :=
  (d_B st =? d_T st) && (d_R st =? d_T st) &&
  match d_fwd st, d_bwd st, d_pend st with [], [], None => true | _, _, _ => false end.
