(* GBN handshake: the client and server automata of gbn_client.go /
   gbn_server.go (clientHandshake, serverHandshake), and a closed system of
   both with two FIFO channels that may drop, duplicate in order and delay and
   that may initially hold stale packets of an earlier connection.
   Timeouts are events, so every timing is a run. *)
From LNC Require Import GoLite MessagesGen Codec.
Open Scope Z_scope.

(* what the handshake code distinguishes about a received packet *)
Inductive hpkt := HSyn (n : Z) | HSynAck | HData | HOther | HBad.

Definition classify (b : list Z) : hpkt :=
  match Deserialize b with
  | Ok (Some (Message_PacketSYN v)) => HSyn (PacketSYN_N v)
  | Ok (Some (Message_PacketSYNACK _)) => HSynAck
  | Ok (Some (Message_PacketData _)) => HData
  | Ok (Some _) => HOther
  | Ok None => HBad
  | Panic => HBad
  end.

Definition hpkt_eqb (a b : hpkt) : bool :=
  match a, b with
  | HSyn x, HSyn y => x =? y
  | HSynAck, HSynAck | HData, HData | HOther, HOther | HBad, HBad => true
  | _, _ => false
  end.

(* a window size the protocol can represent: s = n + 1 must fit a uint8 and n >= 1 *)
Definition valid_n (n : Z) : bool := (1 <=? n) && (n <=? 254).

(* ---- server ---- *)
Inductive sphase := SWaitSyn | SWaitSynAck | SDone | SFailed.
Record server := mk_server { sv_phase : sphase; sv_n : Z; sv_resent : bool }.

Definition server_init : server := mk_server SWaitSyn 0 false.

Definition server_syn (s : server) (n : Z) (resent : bool) : server * list hpkt :=
  if valid_n n then (mk_server SWaitSynAck n resent, [HSyn n])
  else (mk_server SFailed (sv_n s) resent, []).

Definition server_rx (s : server) (p : hpkt) : server * list hpkt :=
  match sv_phase s with
  | SWaitSyn =>
      match p with
      | HSyn n => server_syn s n (sv_resent s)
      | HSynAck | HData =>
          (* after a restart, SYNACK or DATA proves the client completed *)
          if sv_resent s then (mk_server SDone (sv_n s) true, []) else (s, [])
      | HOther => (s, [])
      | HBad => (mk_server SFailed (sv_n s) (sv_resent s), [])
      end
  | SWaitSynAck =>
      match p with
      | HSynAck => (mk_server SDone (sv_n s) (sv_resent s), [])
      | HSyn n => server_syn s n true
      | _ => (mk_server SFailed (sv_n s) (sv_resent s), [])
      end
  | _ => (s, [])
  end.

Definition server_timeout (s : server) : server :=
  match sv_phase s with
  | SWaitSynAck => mk_server SWaitSyn (sv_n s) true
  | _ => s
  end.

(* ---- client ---- *)
Inductive cphase := CInit | CWaitSyn | CDone | CFailed.
Record client := mk_client { cl_phase : cphase; cl_n : Z }.

Definition client_init (n : Z) : client := mk_client (if valid_n n then CInit else CFailed) n.

Definition client_start (c : client) : client * list hpkt :=
  match cl_phase c with
  | CInit => (mk_client CWaitSyn (cl_n c), [HSyn (cl_n c)])
  | _ => (c, [])
  end.

Definition client_rx (c : client) (p : hpkt) : client * list hpkt :=
  match cl_phase c with
  | CWaitSyn =>
      match p with
      | HSyn n => if n =? cl_n c then (mk_client CDone (cl_n c), [HSynAck]) else (mk_client CFailed (cl_n c), [])
      | HBad => (mk_client CFailed (cl_n c), [])
      | _ => (c, [])
      end
  | _ => (c, [])
  end.

Definition client_timeout (c : client) : client * list hpkt :=
  match cl_phase c with
  | CWaitSyn => (c, [HSyn (cl_n c)])
  | _ => (c, [])
  end.

(* ---- closed system ---- *)
Inductive hop := HDeliver | HKeep | HDrop.

Record hsys := mk_hsys {
  h_c : client; h_s : server;
  h_ab : list hpkt;  (* client -> server *)
  h_ba : list hpkt;  (* server -> client *)
  h_syns_ab : list Z (* ghost: N of every SYN ever put into the client -> server channel *)
}.

Inductive hevent :=
  | HStart | HClientTimeout | HServerTimeout
  | HAB (o : hop)    (* decision on the head of client -> server *)
  | HBA (o : hop)
  | HClientData.     (* a client in the data phase transmits DATA (application data or keepalive ping) *)

Definition syns_of (l : list hpkt) : list Z :=
  flat_map (fun p => match p with HSyn n => [n] | _ => [] end) l.

Definition after_hop {A} (o : hop) (h : A) (rest : list A) : list A :=
  match o with HKeep => h :: rest | _ => rest end.

Definition hstep (st : hsys) (ev : hevent) : option hsys :=
  match ev with
  | HStart =>
      let '(c', out) := client_start (h_c st) in
      Some (mk_hsys c' (h_s st) (h_ab st ++ out) (h_ba st) (h_syns_ab st ++ syns_of out))
  | HClientTimeout =>
      let '(c', out) := client_timeout (h_c st) in
      Some (mk_hsys c' (h_s st) (h_ab st ++ out) (h_ba st) (h_syns_ab st ++ syns_of out))
  | HServerTimeout => Some (mk_hsys (h_c st) (server_timeout (h_s st)) (h_ab st) (h_ba st) (h_syns_ab st))
  | HAB o =>
      match h_ab st with
      | [] => None
      | p :: rest =>
          match o with
          | HDrop => Some (mk_hsys (h_c st) (h_s st) rest (h_ba st) (h_syns_ab st))
          | _ => let '(s', out) := server_rx (h_s st) p in
                 Some (mk_hsys (h_c st) s' (after_hop o p rest) (h_ba st ++ out) (h_syns_ab st))
          end
      end
  | HBA o =>
      match h_ba st with
      | [] => None
      | p :: rest =>
          match o with
          | HDrop => Some (mk_hsys (h_c st) (h_s st) (h_ab st) rest (h_syns_ab st))
          | _ => let '(c', out) := client_rx (h_c st) p in
                 Some (mk_hsys c' (h_s st) (h_ab st ++ out) (after_hop o p rest) (h_syns_ab st ++ syns_of out))
          end
      end
  | HClientData =>
      match cl_phase (h_c st) with
      | CDone => Some (mk_hsys (h_c st) (h_s st) (h_ab st ++ [HData]) (h_ba st) (h_syns_ab st))
      | _ => None
      end
  end.

Fixpoint hrun (st : hsys) (evs : list hevent) : option hsys :=
  match evs with
  | [] => Some st
  | ev :: rest => match hstep st ev with Some st' => hrun st' rest | None => None end
  end.

(* initial state: stale packets of an earlier connection may sit in both channels *)
Definition hinit (n : Z) (stale_ab stale_ba : list hpkt) : hsys :=
  mk_hsys (client_init n) server_init stale_ab stale_ba (syns_of stale_ab).

(* ---- monitor over one endpoint's observable events, with hidden timeouts ----
   The log shows what an endpoint read from the transport and what it
   transmitted, not when its timer fired nor when a packet that its reader
   goroutine fetched ahead was actually processed. The monitor keeps the set of
   configurations the automaton may be in: (state, transmissions owed, packets
   read but not yet processed). *)
Inductive oev := ORx (p : hpkt) | OTx (p : hpkt) | ODone (ok : bool).

Fixpoint hlist_eqb (a b : list hpkt) : bool :=
  match a, b with
  | [], [] => true
  | x :: a', y :: b' => hpkt_eqb x y && hlist_eqb a' b'
  | _, _ => false
  end.
Definition sphase_eqb (a b : sphase) : bool :=
  match a, b with SWaitSyn, SWaitSyn | SWaitSynAck, SWaitSynAck | SDone, SDone | SFailed, SFailed => true | _, _ => false end.
Definition cphase_eqb (a b : cphase) : bool :=
  match a, b with CInit, CInit | CWaitSyn, CWaitSyn | CDone, CDone | CFailed, CFailed => true | _, _ => false end.
Definition server_eqb (a b : server) : bool :=
  sphase_eqb (sv_phase a) (sv_phase b) && (sv_n a =? sv_n b) && Bool.eqb (sv_resent a) (sv_resent b).
Definition client_eqb (a b : client) : bool :=
  cphase_eqb (cl_phase a) (cl_phase b) && (cl_n a =? cl_n b).

Fixpoint dedup {A} (eqb : A -> A -> bool) (l : list A) : list A :=
  match l with
  | [] => []
  | x :: rest => if existsb (eqb x) rest then dedup eqb rest else x :: dedup eqb rest
  end.

Section Observer.
  Variable S : Type.
  Variable rx : S -> hpkt -> S * list hpkt.
  Variable timeout : S -> S * list hpkt.
  Variable outcome : S -> option bool.   (* Some true = constructor returned nil, Some false = error *)
  Variable seqb : S -> S -> bool.

  Definition cand := (S * list hpkt * list hpkt)%type.  (* state, owed, read-ahead *)
  Definition cand_eqb (a b : cand) : bool :=
    seqb (fst (fst a)) (fst (fst b)) && hlist_eqb (snd (fst a)) (snd (fst b)) && hlist_eqb (snd a) (snd b).

  (* one silent step: the timer fires, or the next read-ahead packet is processed *)
  Definition silent (c : cand) : list cand :=
    let '(st, owed, inbuf) := c in
    match owed with
    | _ :: _ => []
    | [] =>
        (let '(st', out) := timeout st in [(st', out, inbuf)]) ++
        match inbuf with
        | [] => []
        | p :: rest => let '(st', out) := rx st p in [(st', out, rest)]
        end
    end.

  Fixpoint closure (fuel : nat) (cs : list cand) : list cand :=
    match fuel with
    | O => cs
    | Datatypes.S f => closure f (dedup cand_eqb (cs ++ flat_map silent cs))
    end.

  Definition observe (cs : list cand) (e : oev) : list cand :=
    match e with
    | ORx p => map (fun c => (fst (fst c), snd (fst c), snd c ++ [p])) cs
    | OTx p =>
        let all := closure (Datatypes.S (Datatypes.S (fold_right Nat.max O (map (fun c => length (snd c)) cs)))) cs in
        dedup cand_eqb (flat_map (fun c =>
          match snd (fst c) with
          | q :: rest => if hpkt_eqb p q then [(fst (fst c), rest, snd c)] else []
          | [] =>
              (* a failed handshake closes the connection, which transmits a FIN *)
              match outcome (fst (fst c)) with
              | Some false => if hpkt_eqb p HOther then [c] else []
              | _ => []
              end
          end) all)
    | ODone ok =>
        let all := closure (Datatypes.S (Datatypes.S (fold_right Nat.max O (map (fun c => length (snd c)) cs)))) cs in
        dedup cand_eqb (flat_map (fun c =>
          match snd (fst c), outcome (fst (fst c)) with
          | [], Some r => if Bool.eqb r ok then [c] else []
          | _, _ => []
          end) all)
    end.
End Observer.

Definition server_outcome (s : server) : option bool :=
  match sv_phase s with SDone => Some true | SFailed => Some false | _ => None end.
Definition client_outcome (c : client) : option bool :=
  match cl_phase c with CDone => Some true | CFailed => Some false | _ => None end.

Definition s_observe := observe server server_rx (fun s => (server_timeout s, [])) server_outcome server_eqb.
Definition c_observe := observe client client_rx client_timeout client_outcome client_eqb.

Definition s_obs_init : list (cand server) := [(server_init, [], [])].
Definition c_obs_init (n : Z) : list (cand client) :=
  let '(c, out) := client_start (client_init n) in [(c, out, [])].
