(* Timed obligations of a GoBackNConn endpoint, as deterministic monitors over
   its observable timed events (virtual nanoseconds). These are the parts of
   C13 (keepalive) and C06 (progress) that are logic; the timers and
   goroutines that are supposed to meet the obligations are only sampled. *)
From Coq Require Import ZArith List Bool Lia.
Import ListNotations.
Open Scope Z_scope.

(* ---- keepalive ---- *)
Inductive kev :=
  | KRx      (* the endpoint received some packet *)
  | KPing    (* it transmitted a keepalive ping *)
  | KClose   (* it closed the connection because of the keepalive timeout *)
  | KNow.    (* nothing: a point in time at which the endpoint is observed *)

Record kst := mk_kst { k_last : Z; k_closed : bool }.

Section Keepalive.
  Variables ping pong slack : Z.

  Definition kstep (st : kst) (e : Z * kev) : option kst :=
    let '(t, ev) := e in
    if k_closed st then Some st else
    (* a dead peer must have been detected by now *)
    if ping + pong + slack <? t - k_last st then
      match ev with KClose => Some (mk_kst (k_last st) true) | _ => None end
    else
      match ev with
      | KRx => Some (mk_kst t false)
      | KPing => if t - k_last st <? ping then None else Some st    (* no ping while the peer is talking *)
      | KClose => if t - k_last st <? ping + pong then None else Some (mk_kst (k_last st) true)
      | KNow => Some st
      end.

  Fixpoint krun (st : kst) (tr : list (Z * kev)) : option kst :=
    match tr with
    | [] => Some st
    | e :: rest => match kstep st e with Some st' => krun st' rest | None => None end
    end.
End Keepalive.

(* ---- progress ---- *)
Inductive pev :=
  | PAccept (i : Z)    (* Send accepted message i *)
  | PDeliver (i : Z)   (* the peer's Recv returned message i *)
  | PClosed
  | PReliable          (* from now on the transport is reliable: the bound runs from here for what is pending *)
  | PNow.

Record pst := mk_pst {
  p_pending : list (Z * Z);   (* accepted, undelivered: (message, instant from which the bound runs) *)
  p_reliable_from : Z;
  p_closed : bool
}.

Section Progress.
  Variable bound : Z.

  Definition overdue (t : Z) (st : pst) : bool :=
    existsb (fun m => bound <? t - snd m) (p_pending st).

  Definition pstep (st : pst) (e : Z * pev) : option pst :=
    let '(t, ev) := e in
    if p_closed st then Some st else
    match ev with
    | PClosed => Some (mk_pst (p_pending st) (p_reliable_from st) true)
    | PReliable => Some (mk_pst (map (fun m => (fst m, Z.max t (snd m))) (p_pending st)) t false)
    | _ =>
      if overdue t st then None else
      match ev with
      | PAccept i => Some (mk_pst (p_pending st ++ [(i, Z.max t (p_reliable_from st))]) (p_reliable_from st) false)
      | PDeliver i => Some (mk_pst (filter (fun m => negb (fst m =? i)) (p_pending st)) (p_reliable_from st) false)
      | _ => Some st
      end
    end.

  Fixpoint prun (st : pst) (tr : list (Z * pev)) : option pst :=
    match tr with
    | [] => Some st
    | e :: rest => match pstep st e with Some st' => prun st' rest | None => None end
    end.
End Progress.
