(* The wake-up protocol between the GBN receive loop and the send loop waiting on a full window
   (gbn/gbn_conn.go: sendPacketsForever's inner loop / receivePacketsForever's ACK and NACK cases).

     send loop:     for { if size() < n { break }          (SCheck)
                          log; ...                          (SGap: tested "full", not yet waiting)
                          select { case <-signal: ... } }   (SWait)
     receive loop:  processACK / processNACK frees the window      (free := true)
                    select { case signal <- struct{}{}: default: }  (non-blocking send)

   The signal channel has capacity cap. A non-blocking send succeeds when the receiver is waiting or the
   buffer has room, and is dropped otherwise. *)
From Coq Require Import Arith List Bool Lia.
Import ListNotations.

Inductive spc := SCheck | SGap | SWait | SProceed.

Record ws := mk_ws {
  w_free : bool;   (* the window has room *)
  w_pend : nat;    (* signals in the channel buffer *)
  w_spc  : spc;    (* send loop's position *)
  w_rsig : bool;   (* receive loop is between freeing the window and signalling *)
  w_acks : nat     (* acknowledgements the receive loop has still to process *)
}.

Definition winit (acks : nat) : ws := mk_ws false 0 SCheck false acks.

(* who = true: the send loop takes a step; false: the receive loop. None: that side cannot move. *)
Definition wstep (cap : nat) (st : ws) (who : bool) : option ws :=
  if who then
    match w_spc st with
    | SCheck => Some (mk_ws (w_free st) (w_pend st) (if w_free st then SProceed else SGap) (w_rsig st) (w_acks st))
    | SGap => Some (mk_ws (w_free st) (w_pend st) SWait (w_rsig st) (w_acks st))
    | SWait => match w_pend st with
               | O => None
               | S p => Some (mk_ws (w_free st) p SCheck (w_rsig st) (w_acks st))
               end
    | SProceed => None
    end
  else
    if w_rsig st then
      match w_spc st, w_pend st with
      | SWait, O => Some (mk_ws (w_free st) 0 SCheck false (w_acks st))       (* handed to the waiting receiver *)
      | _, p => Some (mk_ws (w_free st) (if p <? cap then S p else p) (w_spc st) false (w_acks st))
      end
    else
      match w_acks st with
      | O => None
      | S a => Some (mk_ws true (w_pend st) (w_spc st) true a)
      end.

(* a schedule: who moves next; a side that cannot move is skipped *)
Fixpoint wrun (cap : nat) (st : ws) (sched : list bool) : ws :=
  match sched with
  | [] => st
  | who :: rest => wrun cap (match wstep cap st who with Some st' => st' | None => st end) rest
  end.

(* the send loop is stuck for good: it waits, nothing is buffered, and the receive loop has nothing left to do *)
Definition stuck (st : ws) : bool :=
  match w_spc st, w_pend st, w_rsig st, w_acks st with
  | SWait, O, false, O => true
  | _, _, _, _ => false
  end.
