(* Go-Back-N data phase, one direction: a sender (the go2coq-generated queue
   functions over the generated record), a receiver (transcribed from
   receivePacketsForever), a FIFO channel of DATA packets that may drop,
   duplicate in order and delay, and a FIFO channel of ACK/NACK back.
   All nondeterminism (scheduling, channel decisions, whether a NACK is
   emitted, which slot is retransmitted) is in the event list.

   Ghost state (never read by the transitions that mirror the code): the
   unbounded counters B (base), T (top), R (receiver's next), the history
   `sent` / `delivered`, and per in-flight item the index it carries. *)
From LNC Require Import GoLite MessagesGen QueueGen.
Open Scope Z_scope.

Record fitem := mk_fitem { f_pkt : PacketData; f_d : Z; f_t : Z }.
Inductive ctrl := CAck (seq : Z) | CNack (seq : Z).
Record bitem := mk_bitem { b_ctrl : ctrl; b_e : Z }.

Record dsys := mk_dsys {
  d_n : Z;                       (* window size (config.n of the sender) *)
  d_q : queue;                   (* sender's queue: cfg.s, content, sequenceBase, sequenceTop *)
  d_recv : Z;                    (* receiver's recvSeq *)
  d_rs : Z;                      (* receiver's cfg.s *)
  d_pend : option ctrl;          (* reply the receiver may transmit next *)
  d_fwd : list fitem;            (* DATA channel, head first *)
  d_bwd : list bitem;            (* ACK/NACK channel, head first *)
  d_B : Z; d_T : Z; d_R : Z;     (* ghosts *)
  d_sent : list PacketData;      (* every packet the sender ever queued, with its Seq *)
  d_delivered : list PacketData  (* every packet the receiver accepted in sequence *)
}.

Inductive chop := Deliver | DeliverKeep | Drop.

Inductive devent :=
  | DNew (p : PacketData)   (* sender queues a new packet and transmits it *)
  | DRetx (k : Z)           (* sender retransmits the packet stored in slot k *)
  | DFwd (o : chop)         (* decision on the head of the DATA channel *)
  | DReply                  (* receiver transmits its pending ACK / NACK *)
  | DBwd (o : chop).        (* decision on the head of the ACK/NACK channel *)

Inductive dres := DOk (st : dsys) | DReject | DPanic.

Definition lift {A} (r : res A) (k : A -> dres) : dres :=
  match r with Ok a => k a | Panic => DPanic end.

Definition upd_q st q := mk_dsys (d_n st) q (d_recv st) (d_rs st) (d_pend st) (d_fwd st) (d_bwd st)
  (d_B st) (d_T st) (d_R st) (d_sent st) (d_delivered st).

(* ghost index of the packet stored in slot k: the largest d < T with d mod s = k *)
Definition slot_index (T s k : Z) : Z := T - 1 - ((T - 1 - k) mod s).

Definition after_op {A} (o : chop) (h : A) (rest : list A) : list A :=
  match o with DeliverKeep => h :: rest | _ => rest end.

Definition dstep (st : dsys) (ev : devent) : dres :=
  let s := d_n st + 1 in
  match ev with
  | DNew p =>
      lift (queue_size (d_q st)) (fun sz =>
      if negb (sz <? d_n st) then DReject else
      lift (queue_addPacket (d_q st) p) (fun '(q', p') =>
      DOk (mk_dsys (d_n st) q' (d_recv st) (d_rs st) (d_pend st)
             (d_fwd st ++ [mk_fitem p' (d_T st) (d_T st + 1)]) (d_bwd st)
             (d_B st) (d_T st + 1) (d_R st) (d_sent st ++ [p']) (d_delivered st))))
  | DRetx k =>
      if (k =? queue_sequenceTop (d_q st)) || (k <? 0) || (queueCfg_s (queue_cfg (d_q st)) <=? k) then DReject else
      match idx (queue_content (d_q st)) k with
      | Ok (Some p) =>
          DOk (mk_dsys (d_n st) (d_q st) (d_recv st) (d_rs st) (d_pend st)
                 (d_fwd st ++ [mk_fitem p (slot_index (d_T st) s k) (d_T st)]) (d_bwd st)
                 (d_B st) (d_T st) (d_R st) (d_sent st) (d_delivered st))
      | _ => DReject
      end
  | DFwd o =>
      match d_fwd st with
      | [] => DReject
      | it :: rest =>
          let fwd' := after_op o it rest in
          match o with
          | Drop => DOk (mk_dsys (d_n st) (d_q st) (d_recv st) (d_rs st) (d_pend st) fwd' (d_bwd st)
                           (d_B st) (d_T st) (d_R st) (d_sent st) (d_delivered st))
          | _ =>
              let p := f_pkt it in
              if PacketData_Seq p =? d_recv st then
                (* expected data: ACK it, recvSeq = (recvSeq + 1) % s, hand it up *)
                lift (umod (u8 (d_recv st + 1)) (d_rs st)) (fun r' =>
                DOk (mk_dsys (d_n st) (d_q st) r' (d_rs st) (Some (CAck (PacketData_Seq p))) fwd' (d_bwd st)
                       (d_B st) (d_T st) (d_R st + 1) (d_sent st) (d_delivered st ++ [p])))
              else
                (* unexpected data: the receiver may NACK recvSeq (or stay silent: back-off) *)
                DOk (mk_dsys (d_n st) (d_q st) (d_recv st) (d_rs st) (Some (CNack (d_recv st))) fwd' (d_bwd st)
                       (d_B st) (d_T st) (d_R st) (d_sent st) (d_delivered st))
          end
      end
  | DReply =>
      match d_pend st with
      | None => DReject
      | Some c =>
          DOk (mk_dsys (d_n st) (d_q st) (d_recv st) (d_rs st) None (d_fwd st)
                 (d_bwd st ++ [mk_bitem c (d_R st)])
                 (d_B st) (d_T st) (d_R st) (d_sent st) (d_delivered st))
      end
  | DBwd o =>
      match d_bwd st with
      | [] => DReject
      | it :: rest =>
          let bwd' := after_op o it rest in
          match o with
          | Drop => DOk (mk_dsys (d_n st) (d_q st) (d_recv st) (d_rs st) (d_pend st) (d_fwd st) bwd'
                           (d_B st) (d_T st) (d_R st) (d_sent st) (d_delivered st))
          | _ =>
              let k q' :=
                let adv := (queue_sequenceBase q' - queue_sequenceBase (d_q st)) mod s in
                DOk (mk_dsys (d_n st) q' (d_recv st) (d_rs st) (d_pend st) (d_fwd st) bwd'
                       (d_B st + adv) (d_T st) (d_R st) (d_sent st) (d_delivered st)) in
              match b_ctrl it with
              | CAck a => lift (queue_processACK (d_q st) a) (fun '(q', _) => k q')
              | CNack v => lift (queue_processNACK (d_q st) v) (fun '(q', _, _) => k q')
              end
          end
      end
  end.

Fixpoint drun (st : dsys) (evs : list devent) : dres :=
  match evs with
  | [] => DOk st
  | ev :: rest =>
      match dstep st ev with
      | DOk st' => drun st' rest
      | r => r
      end
  end.

Definition dinit (n : Z) : dsys :=
  mk_dsys n (mk_queue (mk_queueCfg (n + 1)) (repeat None (Z.to_nat (n + 1))) 0 0)
    0 (n + 1) None [] [] 0 0 0 [] [].

(* messages seen by the application: non-ping packets *)
Definition app_packets (l : list PacketData) : list PacketData :=
  filter (fun p => negb (PacketData_IsPing p)) l.

(* a concrete run used for non-vacuity checks: n = 2, a drop, a duplicate,
   a NACK, a retransmission and a wrap of the sequence space *)
Definition pk (b : Z) : PacketData := mk_PacketData 0 true false [b].
Definition example_run : list devent :=
  [ DNew (pk 10); DNew (pk 11); DFwd Drop; DFwd Deliver; DReply; DBwd Deliver;
    DRetx 0; DRetx 1; DFwd DeliverKeep; DReply; DFwd Deliver; DFwd Deliver; DReply;
    DBwd Deliver; DBwd Deliver; DNew (pk 12); DNew (pk 13); DFwd Deliver; DReply; DFwd Deliver; DReply;
    DBwd Deliver; DBwd Drop; DNew (pk 14); DFwd Deliver; DReply; DBwd Deliver ].
