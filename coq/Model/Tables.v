(* Structural checks over the tables that tools/go2coq extracts from gbn/*.go
   (gen/TablesGen.v): every blocking select has a case that Close enables (C12),
   and the lock discipline: two accesses to one field of a shared struct from
   different goroutine roles, one of them a write, hold a common lock (C18). *)
From Coq Require Import String Ascii List Bool Arith.
From LNC Require Import TablesGen.
Import ListNotations.
Open Scope string_scope.

Definition mem (s : string) (l : list string) : bool := existsb (String.eqb s) l.

(* ---- C12 ---- *)
(* channels that are closed (or contexts cancelled) by GoBackNConn.Close:
   g.quit (close(g.quit)), g.ctx (g.cancel()), the queue's / syncer's quit (sendQueue.stop()),
   a ticker's quit (Stop()), handshakeComplete (closed when the handshake function returns) *)
Definition shutdown_chans : list string :=
  ["g.quit"; "g.ctx.Done()"; "c.quit"; "t.quit"; "handshakeComplete"].

Definition covered (row : string * bool * list string) : bool :=
  let '(_, has_default, cases) := row in
  has_default || existsb (fun c => mem c shutdown_chans) cases.

Definition uncovered_selects : list (string * bool * list string) :=
  filter (fun r => negb (covered r)) select_table.

(* A channel send / receive / range OUTSIDE a select blocks with no alternative, so Close cannot
   wake it. Each such operation in the source must be one of the following, which cannot block forever:
   - the handshake reader goroutines report one error on errChan, a channel of capacity 1 that each
     goroutine sends to at most once (it returns right after);
   - ForceTick sends on the unbuffered Force channel; nothing in the library calls it (checked below);
   - Send / Recv give back the one-slot semaphore (sendSem / recvSem) that the same call took, in a select with quit
     and its timer, before working on a message of several packets: the token it put is still in the channel, so
     the receive that takes it out again cannot block. *)
Definition allowed_bare_ops : list (string * string) :=
  [ ("GoBackNConn.clientHandshake$go1", "errChan<-");
    ("GoBackNConn.serverHandshake$go1", "errChan<-");
    ("IntervalAwareForceTicker.ForceTick", "t.Force<-");
    ("GoBackNConn.Send", "<-g.sendSem");
    ("GoBackNConn.Recv", "<-g.recvSem") ].

Definition bare_eqb (a b : string * string) : bool :=
  String.eqb (fst a) (fst b) && String.eqb (snd a) (snd b).

Definition unexpected_bare_ops : list (string * string) :=
  filter (fun o => negb (existsb (bare_eqb o) allowed_bare_ops)) bare_chanop_table.

Definition force_tick_callers : list string :=
  map fst (filter (fun e => String.eqb (snd e) "ForceTick") call_table).

(* ---- C18 ---- *)
Definition short_name (f : string) : string :=
  (* text after the last '.' *)
  let fix go (s acc : string) : string :=
    match s with
    | EmptyString => acc
    | String c rest => if Ascii.eqb c (ascii_of_nat 46) then go rest rest else go rest acc
    end in go f f.

(* callee names in call_table are bare method / function names *)
Definition callees (f : string) : list string :=
  map snd (filter (fun e => String.eqb (fst e) f) call_table).
Definition resolve (short : string) : list string :=
  filter (fun f => String.eqb (short_name f) short) function_table.

Fixpoint reach (fuel : nat) (frontier seen : list string) : list string :=
  match fuel with
  | O => seen
  | S n =>
      let next := flat_map (fun f => flat_map resolve (callees f)) frontier in
      let fresh := filter (fun f => negb (mem f seen)) next in
      match fresh with
      | [] => seen
      | _ => reach n (nodup string_dec fresh) (seen ++ nodup string_dec fresh)
      end
  end.

(* goroutine roles and their entry points *)
Definition roles : list (string * list string) :=
  [ ("api", ["GoBackNConn.Send"; "GoBackNConn.Recv"; "GoBackNConn.Close"; "GoBackNConn.SetSendTimeout"; "GoBackNConn.SetRecvTimeout"]);
    ("send-loop", ["GoBackNConn.sendPacketsForever"; "GoBackNConn.start$go2"]);
    ("recv-loop", ["GoBackNConn.receivePacketsForever"; "GoBackNConn.start$go1"]);
    ("ticker", ["IntervalAwareForceTicker.start$go1"]);
    ("sync-helper", ["syncer.proceedAfterTime"]) ].

Definition role_funcs (r : string * list string) : list string := reach 40 (snd r) (snd r).

(* computed once, when this file is compiled against the current gen/TablesGen.v *)
Definition role_table : list (string * list string) :=
  Eval vm_compute in map (fun r => (fst r, role_funcs r)) roles.

Definition roles_of (f : string) : list string :=
  map fst (filter (fun r => mem f (snd r)) role_table).

(* functions that only run before the connection's goroutines exist (construction and
   handshake happen-before `go` in start()) *)
Definition init_funcs : list string :=
  ["newGoBackNConn"; "GoBackNConn.setN"; "GoBackNConn.start"; "newQueue"; "newSyncer"; "NewTimeOutManager";
   "NewTimeoutBooster"; "NewIntervalAwareForceTicker"; "IntervalAwareForceTicker.start";
   "GoBackNConn.clientHandshake"; "GoBackNConn.serverHandshake";
   "GoBackNConn.clientHandshake$go1"; "GoBackNConn.serverHandshake$go1"; "NewClientConn"; "NewServerConn"; "newConfig"].

(* fields whose accesses are ordered by something other than a lock, with the reason *)
Definition exempt : list (string * string * string) :=
  [ ("IntervalAwareForceTicker", "ticker", "written only between wg.Wait() for the reader goroutine and the start of the next one");
    ("IntervalAwareForceTicker", "quit", "same goroutine life cycle as `ticker`");
    ("IntervalAwareForceTicker", "wg", "sync.WaitGroup");
    ("GoBackNConn", "wg", "sync.WaitGroup");
    ("GoBackNConn", "closeOnce", "sync.Once") ].

Definition is_exempt (s f : string) : bool :=
  existsb (fun e => String.eqb (fst (fst e)) s && String.eqb (snd (fst e)) f) exempt.

Definition acc := (string * string * bool * string * list string * bool)%type.
Definition a_struct (a : acc) := fst (fst (fst (fst (fst a)))).
Definition a_field (a : acc) := snd (fst (fst (fst (fst a)))).
Definition a_write (a : acc) := snd (fst (fst (fst a))).
Definition a_fn (a : acc) := snd (fst (fst a)).
Definition a_locks (a : acc) := snd (fst a).
Definition a_atomic (a : acc) := snd a.

Definition share_lock (a b : acc) : bool := existsb (fun l => mem l (a_locks b)) (a_locks a).

(* the accesses that matter: not in construction / handshake code, not exempt; with their roles *)
Definition relevant (a : acc) : bool :=
  negb (mem (a_fn a) init_funcs) && negb (is_exempt (a_struct a) (a_field a)).

Definition acc_roles : list (acc * list string) :=
  Eval vm_compute in map (fun a => (a, roles_of (a_fn a))) (filter relevant access_table).

(* can the two accesses be performed by two goroutines at once? *)
Definition concurrent (ra rb : list string) : bool :=
  existsb (fun x => existsb (fun y => negb (String.eqb x y) || String.eqb x "api") rb) ra.

Definition conflict (a b : acc * list string) : bool :=
  String.eqb (a_field (fst a)) (a_field (fst b)) && String.eqb (a_struct (fst a)) (a_struct (fst b)) &&
  (a_write (fst a) || a_write (fst b)) && negb (a_atomic (fst a) && a_atomic (fst b)) &&
  negb (share_lock (fst a) (fst b)) && concurrent (snd a) (snd b).

Definition lock_violations : list (acc * acc) :=
  flat_map (fun a => map (fun b => (fst a, fst b)) (filter (conflict a) acc_roles)) acc_roles.

(* lock order: every access that holds two locks lists them in acquisition order; the set of
   (first, second) pairs must not contain both (a, b) and (b, a) *)
Definition lock_pairs : list (string * string) :=
  flat_map (fun a => match a_locks a with
                      | l1 :: l2 :: _ => [((a_struct a ++ "." ++ l1)%string, (a_struct a ++ "." ++ l2)%string)]
                      | _ => []
                      end) access_table.
Definition lock_order_violations : list (string * string) :=
  filter (fun p => existsb (fun q => String.eqb (fst p) (snd q) && String.eqb (snd p) (fst q)) lock_pairs) lock_pairs.

(* A mutex locked in a function must be released on every way out of it: lock_leak_table lists the
   returns (and function ends) reached with such a lock held and no deferred Unlock covering it. A leaked
   lock blocks every later caller for good. *)
Definition leaked_locks : list (string * string) := lock_leak_table.

(* Interprocedural lock order. acquire_table lists every Lock/RLock with the locks already held;
   call_lock_table lists every call inside the package with the locks held at the call site.
   A function's acquisition closure is what it or anything it calls may lock. An ordered pair
   (held, acquired) arises from a direct acquisition or from a call made while holding a lock;
   two goroutines deadlock when both (a, b) and (b, a) can arise, or a lock is re-acquired (a, a). *)
Definition dedup (l : list string) : list string :=
  fold_right (fun x acc => if mem x acc then acc else x :: acc) [] l.

Definition function_names : list string :=
  dedup (function_table ++ map (fun r => fst (fst r)) acquire_table ++
         map (fun r => fst (fst r)) call_lock_table ++ map (fun r => snd (fst r)) call_lock_table).

Definition direct_acquires (f : string) : list string :=
  map (fun r => snd (fst r)) (filter (fun r => String.eqb (fst (fst r)) f) acquire_table).

Definition qcallees (f : string) : list string :=
  dedup (map (fun r => snd (fst r)) (filter (fun r => String.eqb (fst (fst r)) f) call_lock_table)).

Definition lookup_acq (tbl : list (string * list string)) (f : string) : list string :=
  match find (fun e => String.eqb (fst e) f) tbl with Some e => snd e | None => [] end.

Definition acq_round (tbl : list (string * list string)) : list (string * list string) :=
  map (fun f => (f, dedup (direct_acquires f ++ flat_map (lookup_acq tbl) (qcallees f)))) function_names.

Fixpoint acq_iter (n : nat) (tbl : list (string * list string)) : list (string * list string) :=
  match n with O => tbl | S k => acq_iter k (acq_round tbl) end.

(* 12 rounds: longer than any call chain of the package (checked: one more round changes nothing) *)
Definition acq_closure : list (string * list string) :=
  Eval vm_compute in acq_iter 12 (map (fun f => (f, [])) function_names).

Definition acq_closure_stable : bool :=
  forallb (fun e => Nat.eqb (List.length (snd e)) (List.length (lookup_acq (acq_round acq_closure) (fst e)))) acq_closure.

Definition order_pairs : list (string * string) :=
  Eval vm_compute in
  (flat_map (fun r => map (fun h => (h, snd (fst r))) (snd r)) acquire_table ++
   flat_map (fun r => flat_map (fun h => map (fun l => (h, l)) (lookup_acq acq_closure (snd (fst r)))) (snd r)) call_lock_table).

(* A rank for the locks: rank l = length of the longest chain of order pairs ending in l, computed by
   |locks| rounds of relaxation. If every order pair goes from a smaller to a larger rank the order relation is
   acyclic (cycles of any length make the test fail), and ranked acquisition cannot deadlock
   (Proofs/LockOrderProofs.v, ordered_no_deadlock). *)
Definition lock_names : list string :=
  Eval vm_compute in dedup (map fst order_pairs ++ map snd order_pairs).

Definition rank_lookup (tbl : list (string * nat)) (l : string) : nat :=
  match find (fun e => String.eqb (fst e) l) tbl with Some e => snd e | None => 0 end.

Definition rank_round (tbl : list (string * nat)) : list (string * nat) :=
  map (fun l => (l, fold_left Nat.max
                       (map (fun p => S (rank_lookup tbl (fst p)))
                            (filter (fun p => String.eqb (snd p) l && negb (String.eqb (fst p) l)) order_pairs)) 0))
      lock_names.

Fixpoint rank_iter (n : nat) (tbl : list (string * nat)) : list (string * nat) :=
  match n with O => tbl | S k => rank_iter k (rank_round tbl) end.

Definition lock_rank_table : list (string * nat) :=
  Eval vm_compute in rank_iter (List.length lock_names) (map (fun l => (l, 0)) lock_names).

Definition lock_rank (l : string) : nat := rank_lookup lock_rank_table l.

Definition order_pairs_ranked : bool :=
  forallb (fun p => Nat.ltb (lock_rank (fst p)) (lock_rank (snd p))) order_pairs.

Definition deadlock_pairs : list (string * string) :=
  filter (fun p => String.eqb (fst p) (snd p) ||
                   existsb (fun q => String.eqb (fst p) (snd q) && String.eqb (snd p) (fst q)) order_pairs) order_pairs.

(* ---- C09 / C13: the wake-up of the send loop ---- *)
(* the channels the send loop waits on and that another goroutine signals with a non-blocking send *)
Definition send_loop_waits_on (ch : string) : bool :=
  existsb (fun row => String.eqb (fst (fst row)) "GoBackNConn.sendPacketsForever" && mem ("g." ++ ch) (snd row))
          select_table.

Definition window_wakeups : list (string * string * string) :=
  filter (fun r => send_loop_waits_on (snd (fst r))) signal_table.

Definition unbuffered_wakeups : list (string * string * string) :=
  filter (fun r => String.eqb (snd r) "0" || String.eqb (snd r) "?") window_wakeups.
