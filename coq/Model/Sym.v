(* Symbolic model of the Noise handshakes of mailbox/noise.go (XX with the
   SPAKE2-masked ephemeral, and KK): a free term algebra for the
   cryptographic values, the symmetric / handshake state, and writeMsgPattern /
   readMsgPattern / writeTokens / readTokens / split token by token. *)
From Coq Require Import ZArith List Bool Lia.
Import ListNotations.
Open Scope Z_scope.

Inductive term :=
  | Lit (b : list Z)               (* literal bytes *)
  | Priv (id : Z)                  (* a private scalar *)
  | Pub (k : term)                 (* its public point *)
  | Mask (p pw : term)             (* p + N*pw            (ekeMask) *)
  | Unmask (p pw : term)           (* p - N*pw, not cancelling *)
  | DH (a b : term)                (* sha256 of the shared point of two known scalars (a <= b) *)
  | DHx (priv pt : term)           (* ECDH with a point whose scalar is unknown *)
  | Hash (h x : term)              (* sha256(h || x)       (mixHash) *)
  | Hkdf1 (salt ikm : term)        (* first / second 32 bytes of HKDF-SHA256(ikm, salt) *)
  | Hkdf2 (salt ikm : term)
  | Seal (k : term) (n : Z) (ad p : term)   (* ChaCha20-Poly1305 *)
  | Stretch (pw : term)            (* scrypt *)
  | V0Pad (p : term)               (* 500-byte act-2 payload of version 0: uint16 length, data, zero padding *)
  | Be32Len (p : term)             (* 4-byte big-endian length of p *)
  | Empty
  | ZeroKey                        (* 32 zero bytes *)
  | ProtoName (kk : bool)          (* sha256("Noise_<pattern>_secp256k1_ChaChaPoly_SHA256") *)
  | Prologue.

Fixpoint zl_eqb (a b : list Z) : bool :=
  match a, b with
  | [], [] => true
  | x :: a', y :: b' => (x =? y) && zl_eqb a' b'
  | _, _ => false
  end.

Fixpoint term_eqb (a b : term) : bool :=
  match a, b with
  | Lit x, Lit y => zl_eqb x y
  | Priv x, Priv y => x =? y
  | Pub x, Pub y => term_eqb x y
  | Mask p q, Mask p' q' | Unmask p q, Unmask p' q' | DH p q, DH p' q' | DHx p q, DHx p' q'
  | Hash p q, Hash p' q' | Hkdf1 p q, Hkdf1 p' q' | Hkdf2 p q, Hkdf2 p' q' => term_eqb p p' && term_eqb q q'
  | Seal k n ad p, Seal k' n' ad' p' => term_eqb k k' && (n =? n') && term_eqb ad ad' && term_eqb p p'
  | Stretch x, Stretch y | V0Pad x, V0Pad y | Be32Len x, Be32Len y => term_eqb x y
  | Empty, Empty | ZeroKey, ZeroKey | Prologue, Prologue => true
  | ProtoName x, ProtoName y => Bool.eqb x y
  | _, _ => false
  end.

(* group operations, normalising *)
Definition unmask (p pw : term) : term :=
  match p with
  | Mask q pw' => if term_eqb pw pw' then q else Unmask p pw
  | _ => Unmask p pw
  end.

Definition dh (priv pt : term) : term :=
  match priv, pt with
  | Priv a, Pub (Priv b) => if a <=? b then DH (Priv a) (Priv b) else DH (Priv b) (Priv a)
  | _, _ => DHx priv pt
  end.

(* what btcec.ParsePubKey accepts *)
Definition is_point (t : term) : bool :=
  match t with Pub _ | Mask _ _ | Unmask _ _ => true | _ => false end.

(* ---- symmetric state ---- *)
Record sym := mk_sym { hd : term; ck : term; key : term; nonce : Z }.

Definition mix_hash (s : sym) (x : term) : sym := mk_sym (Hash (hd s) x) (ck s) (key s) (nonce s).
Definition mix_key (s : sym) (input : term) : sym :=
  mk_sym (hd s) (Hkdf1 (ck s) input) (Hkdf2 (ck s) input) 0.
Definition encrypt_and_hash (s : sym) (p : term) : sym * term :=
  let c := Seal (key s) (nonce s) (hd s) p in
  (mk_sym (Hash (hd s) c) (ck s) (key s) (nonce s + 1), c).
Definition decrypt_and_hash (s : sym) (c : term) : option (sym * term) :=
  match c with
  | Seal k n ad p =>
      if term_eqb k (key s) && (n =? nonce s) && term_eqb ad (hd s)
      then Some (mk_sym (Hash (hd s) c) (ck s) (key s) (nonce s + 1), p)
      else None
  | _ => None
  end.

(* ---- handshake state ---- *)
Inductive token := Te | Tme | Ts | Tee | Tes | Tse | Tss.

Record party := mk_party {
  p_init : bool;
  p_kk : bool;
  p_static : term;            (* local static private scalar *)
  p_eph : term;               (* the scalar ephemeralGen will return *)
  p_rs : option term;         (* remote static public point (expected for KK, learned for XX) *)
  p_re : option term;
  p_pw : term;                (* stretched pass phrase (XX) *)
  p_payload : term;           (* auth payload to send (responder) *)
  p_payload_len : Z;          (* its length in bytes *)
  p_received : option term;
  p_min : Z; p_max : Z; p_version : Z;
  p_sym : sym
}.

Definition upd_sym (p : party) (s : sym) : party :=
  mk_party (p_init p) (p_kk p) (p_static p) (p_eph p) (p_rs p) (p_re p) (p_pw p) (p_payload p) (p_payload_len p)
           (p_received p) (p_min p) (p_max p) (p_version p) s.
Definition upd_rs (p : party) (v : option term) : party :=
  mk_party (p_init p) (p_kk p) (p_static p) (p_eph p) v (p_re p) (p_pw p) (p_payload p) (p_payload_len p)
           (p_received p) (p_min p) (p_max p) (p_version p) (p_sym p).
Definition upd_re (p : party) (v : option term) : party :=
  mk_party (p_init p) (p_kk p) (p_static p) (p_eph p) (p_rs p) v (p_pw p) (p_payload p) (p_payload_len p)
           (p_received p) (p_min p) (p_max p) (p_version p) (p_sym p).
Definition upd_received (p : party) (v : option term) : party :=
  mk_party (p_init p) (p_kk p) (p_static p) (p_eph p) (p_rs p) (p_re p) (p_pw p) (p_payload p) (p_payload_len p)
           v (p_min p) (p_max p) (p_version p) (p_sym p).
Definition upd_version (p : party) (v : Z) : party :=
  mk_party (p_init p) (p_kk p) (p_static p) (p_eph p) (p_rs p) (p_re p) (p_pw p) (p_payload p) (p_payload_len p)
           (p_received p) (p_min p) (p_max p) v (p_sym p).

(* NewBrontideMachine + newHandshakeState; None = constructor error *)
Definition new_party (init kk : bool) (static eph : term) (rs : option term) (pw payload : term) (plen : Z)
                     (minv maxv : Z) : option party :=
  if kk && (maxv <? 2) then None else
  let minv' := if kk && (minv <? 2) then 2 else minv in
  let s0 := mk_sym (ProtoName kk) (ProtoName kk) ZeroKey 0 in
  let s1 := mix_hash s0 Prologue in
  let start := if init then minv' else maxv in
  if kk then
    match rs with
    | None => None
    | Some r =>
        (* pre-messages: -> s, <- s *)
        let ipub := if init then Pub static else r in
        let rpub := if init then r else Pub static in
        Some (mk_party init kk static eph rs None pw payload plen None minv' maxv start
                       (mix_hash (mix_hash s1 ipub) rpub))
    end
  else Some (mk_party init kk static eph rs None pw payload plen None minv' maxv start s1).

Definition pattern (kk : bool) : list (list token * bool * Z) :=   (* tokens, sent by initiator?, act number *)
  if kk then [([Te; Tes; Tss], true, 1); ([Te; Tee; Tse], false, 2)]
  else [([Tme], true, 1); ([Te; Tee; Ts; Tes], false, 2); ([Ts; Tse], true, 3)].

(* a DH token needs both operands *)
Definition dh_opt (priv : term) (pt : option term) : option term :=
  match pt with Some q => Some (dh priv q) | None => None end.

Definition dh_token (p : party) (t : token) : option term :=
  match t with
  | Tee => dh_opt (p_eph p) (p_re p)
  | Tss => dh_opt (p_static p) (p_rs p)
  | Tes => if p_init p then dh_opt (p_eph p) (p_rs p) else dh_opt (p_static p) (p_re p)
  | Tse => if p_init p then dh_opt (p_static p) (p_re p) else dh_opt (p_eph p) (p_rs p)
  | _ => None
  end.

Fixpoint write_tokens (p : party) (ts : list token) (out : list term) : option (party * list term) :=
  match ts with
  | [] => Some (p, out)
  | t :: rest =>
      match t with
      | Te =>
          let e := Pub (p_eph p) in
          write_tokens (upd_sym p (mix_hash (p_sym p) e)) rest (out ++ [e])
      | Tme =>
          let e := Pub (p_eph p) in
          write_tokens (upd_sym p (mix_hash (p_sym p) e)) rest (out ++ [Mask e (p_pw p)])
      | Ts =>
          let '(s', c) := encrypt_and_hash (p_sym p) (Pub (p_static p)) in
          write_tokens (upd_sym p s') rest (out ++ [c])
      | _ =>
          match dh_token p t with
          | Some k => write_tokens (upd_sym p (mix_key (p_sym p) k)) rest out
          | None => None
          end
      end
  end.

Fixpoint read_tokens (p : party) (ts : list token) (fields : list term) : option (party * list term) :=
  match ts with
  | [] => Some (p, fields)
  | t :: rest =>
      match t with
      | Te =>
          match fields with
          | f :: fs => if is_point f then read_tokens (upd_sym (upd_re p (Some f)) (mix_hash (p_sym p) f)) rest fs else None
          | [] => None
          end
      | Tme =>
          match fields with
          | f :: fs =>
              if is_point f then
                let e := unmask f (p_pw p) in
                read_tokens (upd_sym (upd_re p (Some e)) (mix_hash (p_sym p) e)) rest fs
              else None
          | [] => None
          end
      | Ts =>
          match fields with
          | f :: fs =>
              match decrypt_and_hash (p_sym p) f with
              | Some (s', rs) => if is_point rs then read_tokens (upd_sym (upd_rs p (Some rs)) s') rest fs else None
              | None => None
              end
          | [] => None
          end
      | _ =>
          match dh_token p t with
          | Some k => read_tokens (upd_sym p (mix_key (p_sym p) k)) rest fields
          | None => None
          end
      end
  end.

Definition act2_payload_max_v0 : Z := 498.

(* writeMsgPattern: version byte, tokens, payload in the format of the writer's version *)
Definition write_act (p : party) (ts : list token) (act : Z) : option (party * list term) :=
  match write_tokens p ts [Lit [p_version p]] with
  | None => None
  | Some (p1, out) =>
      let v := p_version p in
      if v =? 0 then
        if act =? 2 then
          if act2_payload_max_v0 <? p_payload_len p then None else
          let '(s', c) := encrypt_and_hash (p_sym p1) (V0Pad (p_payload p)) in Some (upd_sym p1 s', out ++ [c])
        else
          let '(s', c) := encrypt_and_hash (p_sym p1) Empty in Some (upd_sym p1 s', out ++ [c])
      else if (v =? 1) || (v =? 2) then
        if act =? 2 then
          let '(s1, c1) := encrypt_and_hash (p_sym p1) (Be32Len (p_payload p)) in
          let '(s2, c2) := encrypt_and_hash s1 (p_payload p) in
          Some (upd_sym p1 s2, out ++ [c1; c2])
        else
          let '(s', c) := encrypt_and_hash (p_sym p1) Empty in Some (upd_sym p1 s', out ++ [c])
      else None
  end.

(* readMsgPattern *)
Definition read_act (p : party) (ts : list token) (act : Z) (fields : list term) : option party :=
  match fields with
  | Lit [v] :: fs =>
      let vok :=
        if (act =? 1) || (act =? 2) then (p_min p <=? v) && (v <=? p_max p)
        else v =? p_version p in
      if negb vok then None else
      let p0 := if ((act =? 1) || (act =? 2)) && p_init p then upd_version p v else p in
      match read_tokens p0 ts fs with
      | None => None
      | Some (p1, rest) =>
          if v =? 0 then
            match rest with
            | [c] =>
                match decrypt_and_hash (p_sym p1) c with
                | None => None
                | Some (s', pl) =>
                    let p2 := upd_sym p1 s' in
                    if act =? 2 then
                      match pl with V0Pad x => Some (upd_received p2 (Some x)) | _ => None end
                    else match pl with Empty => Some p2 | _ => None end
                end
            | _ => None
            end
          else if (v =? 1) || (v =? 2) then
            if act =? 2 then
              match rest with
              | [c1; c2] =>
                  match decrypt_and_hash (p_sym p1) c1 with
                  | Some (s1, Be32Len x) =>
                      match decrypt_and_hash s1 c2 with
                      | Some (s2, pl) => if term_eqb pl x then Some (upd_received (upd_sym p1 s2) (Some pl)) else None
                      | None => None
                      end
                  | _ => None
                  end
              | _ => None
              end
            else
              match rest with
              | [c] =>
                  match decrypt_and_hash (p_sym p1) c with
                  | Some (s', Empty) => Some (upd_sym p1 s')
                  | _ => None
                  end
              | _ => None
              end
          else None
      end
  | _ => None
  end.

(* what a party holds after a completed handshake *)
Record session := mk_session {
  s_send : term; s_recv : term; s_version : Z; s_remote : option term; s_auth : option term;
  s_set_remote : bool   (* DoHandshake called ConnData.SetRemote (version >= 2) *)
}.

Definition finish (p : party) : session :=
  let k1 := Hkdf1 (ck (p_sym p)) Empty in
  let k2 := Hkdf2 (ck (p_sym p)) Empty in
  mk_session (if p_init p then k1 else k2) (if p_init p then k2 else k1) (p_version p) (p_rs p)
             (if p_init p then p_received p else None) (2 <=? p_version p).

(* ---- two parties with a man in the middle ---- *)
Inductive outcome := Completed (s : session) | Failed (act : Z) | NoAnswer | BadConfig.

(* adv act msg = what is delivered instead of msg *)
Definition adversary := Z -> list term -> list term.
Definition faithful : adversary := fun _ m => m.

Record result := mk_result {
  r_init : outcome; r_resp : outcome;
  r_wire : list (list term);        (* every message as transmitted by its sender *)
  r_resp_out : list (list term)     (* what the responder emitted *)
}.

Definition run_xx (pi pr : party) (adv : adversary) : result :=
  match write_act pi [Tme] 1 with
  | None => mk_result (Failed 1) NoAnswer [] []
  | Some (i1, m1) =>
      match read_act pr [Tme] 1 (adv 1 m1) with
      | None => mk_result NoAnswer (Failed 1) [m1] []
      | Some r1 =>
          match write_act r1 [Te; Tee; Ts; Tes] 2 with
          | None => mk_result NoAnswer (Failed 2) [m1] []
          | Some (r2, m2) =>
              match read_act i1 [Te; Tee; Ts; Tes] 2 (adv 2 m2) with
              | None => mk_result (Failed 2) NoAnswer [m1; m2] [m2]
              | Some i2 =>
                  match write_act i2 [Ts; Tse] 3 with
                  | None => mk_result (Failed 3) NoAnswer [m1; m2] [m2]
                  | Some (i3, m3) =>
                      match read_act r2 [Ts; Tse] 3 (adv 3 m3) with
                      | None => mk_result (Completed (finish i3)) (Failed 3) [m1; m2; m3] [m2]
                      | Some r3 => mk_result (Completed (finish i3)) (Completed (finish r3)) [m1; m2; m3] [m2]
                      end
                  end
              end
          end
      end
  end.

Definition run_kk (pi pr : party) (adv : adversary) : result :=
  match write_act pi [Te; Tes; Tss] 1 with
  | None => mk_result (Failed 1) NoAnswer [] []
  | Some (i1, m1) =>
      match read_act pr [Te; Tes; Tss] 1 (adv 1 m1) with
      | None => mk_result NoAnswer (Failed 1) [m1] []
      | Some r1 =>
          match write_act r1 [Te; Tee; Tse] 2 with
          | None => mk_result NoAnswer (Failed 2) [m1] []
          | Some (r2, m2) =>
              match read_act i1 [Te; Tee; Tse] 2 (adv 2 m2) with
              | None => mk_result (Failed 2) (Completed (finish r2)) [m1; m2] [m2]
              | Some i2 => mk_result (Completed (finish i2)) (Completed (finish r2)) [m1; m2] [m2]
              end
          end
      end
  end.

Definition run_pair (kk : bool) (opi opr : option party) (adv : adversary) : result :=
  match opi, opr with
  | Some pi, Some pr => if kk then run_kk pi pr adv else run_xx pi pr adv
  | None, Some _ => mk_result BadConfig NoAnswer [] []
  | Some _, None => mk_result NoAnswer BadConfig [] []
  | None, None => mk_result BadConfig BadConfig [] []
  end.

(* ---- configurations of two honest parties ---- *)
Record cfg := mk_cfg {
  c_kk : bool;
  c_si : Z; c_sr : Z; c_ei : Z; c_er : Z;       (* scalar ids: statics and ephemerals *)
  c_pwi : term; c_pwr : term;                   (* stretched pass phrases *)
  c_exp_i : term; c_exp_r : term;               (* KK: the static key each side stored for the other *)
  c_payload : term; c_plen : Z;                 (* responder's auth payload *)
  c_mini : Z; c_maxi : Z; c_minr : Z; c_maxr : Z
}.

Definition mk_init (c : cfg) : option party :=
  new_party true (c_kk c) (Priv (c_si c)) (Priv (c_ei c)) (if c_kk c then Some (c_exp_i c) else None)
            (c_pwi c) Empty 0 (c_mini c) (c_maxi c).
Definition mk_resp (c : cfg) : option party :=
  new_party false (c_kk c) (Priv (c_sr c)) (Priv (c_er c)) (if c_kk c then Some (c_exp_r c) else None)
            (c_pwr c) (c_payload c) (c_plen c) (c_minr c) (c_maxr c).
Definition run (c : cfg) (adv : adversary) : result := run_pair (c_kk c) (mk_init c) (mk_resp c) adv.

Definition completed (o : outcome) : bool := match o with Completed _ => true | _ => false end.

Definition is_seal (t : term) : bool := match t with Seal _ _ _ _ => true | _ => false end.

(* the adversary may rewrite, replay, drop, reorder and substitute anything, but every
   ciphertext it delivers is one an honest party transmitted in this run *)
Definition no_forgery (c : cfg) (adv : adversary) : Prop :=
  forall a m f, In f (adv a m) -> is_seal f = true ->
    exists m', In m' (r_wire (run c adv)) /\ In f m'.

(* the adversary leaves the cleartext version byte (first field) of every message alone *)
Definition keeps_version (adv : adversary) : Prop :=
  forall a m, hd_error (adv a m) = hd_error m.

(* the version-byte attack: act 2's byte 2 -> 1, act 3's byte 1 -> 2 *)
Definition version_swap : adversary := fun a m =>
  match m with
  | Lit [v] :: rest => if (a =? 2) && (v =? 2) then Lit [1] :: rest
                       else if (a =? 3) && (v =? 1) then Lit [2] :: rest else m
  | _ => m
  end.

Definition example_cfg (kk : bool) (mini maxi minr maxr : Z) : cfg :=
  mk_cfg kk 1 2 3 4 (Stretch (Lit [7])) (Stretch (Lit [7])) (Pub (Priv 2)) (Pub (Priv 1))
         (Lit [109; 97; 99]) 3 mini maxi minr maxr.

(* ---- session identifiers (conndata.go SID): sha512(entropy) before pairing,
        sha512(hmac(ecdh(remote, local), "mailbox")) afterwards ---- *)
Inductive sidterm := SidPass (entropy : list Z) | SidKeys (shared : term).

Definition sid_of (local : term) (remote : option term) (entropy : list Z) : sidterm :=
  match remote with
  | None => SidPass entropy
  | Some r => SidKeys (dh local r)
  end.

(* the handshake pattern chosen from the stored remote key (HandshakePattern) *)
Definition pattern_kk (remote : option term) : bool :=
  match remote with Some _ => true | None => false end.

(* an unpaired client (XX initiator, pass phrase only) against a paired server (KK responder) *)
Definition stranger_result (stranger server : party) : option party :=
  match write_act stranger [Tme] 1 with
  | Some (_, m1) => read_act server [Te; Tes; Tss] 1 m1
  | None => None
  end.
