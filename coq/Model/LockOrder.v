(* Lock ordering in the interleaving model of Model/Lockset.v (C18): if every thread acquires
   mutexes in strictly increasing rank (each Lock m is made while every mutex the thread holds
   has a smaller rank), releases only what it holds and ends holding nothing, then no reachable
   state is a deadlock: as long as some thread has actions left, some thread can take a step. *)
From Coq Require Import List Bool Arith Lia.
From LNC Require Import Lockset.
Import ListNotations.

Fixpoint ordered (rank : nat -> nat) (held : list nat) (t : thread) : Prop :=
  match t with
  | [] => held = []
  | ALock m :: rest => (forall h, In h held -> rank h < rank m) /\ ordered rank (m :: held) rest
  | AUnlock m :: rest => In m held /\ ordered rank (remove Nat.eq_dec m held) rest
  | AAccess _ _ :: rest => ordered rank held rest
  end.

(* every thread has run to completion *)
Definition finished (st : state) : Prop :=
  forall i t, nth_error (threads st) i = Some t -> t = [].

(* a deadlock: work is left but no thread can move *)
Definition stuck (st : state) : Prop :=
  ~ finished st /\ forall i, step st i = None.
