(* mailbox.Server.Accept / mailbox.Client.Dial: one live connection per session.
   Monitor over the observable events of one side: a connection is handed out
   (Accept / Dial returns), a handed-out connection closes, Accept / Dial is called. *)
From Coq Require Import ZArith List Bool Lia.
Import ListNotations.
Open Scope Z_scope.

Inductive sev :=
  | SCall            (* Accept / Dial called *)
  | SRet (id : Z)    (* ... returned connection number id *)
  | SClosed (id : Z) (* connection id is closed (its Done channel is closed) *)
  | SFail.           (* ... returned an error *)

Record sst := mk_sst {
  s_open : option Z;     (* the handed-out connection that is still open *)
  s_next : Z;            (* connections are numbered in the order they are handed out *)
  s_calls : Z            (* calls in progress *)
}.

Definition sstep (st : sst) (e : sev) : option sst :=
  match e with
  | SCall => Some (mk_sst (s_open st) (s_next st) (s_calls st + 1))
  | SRet id =>
      match s_open st with
      | Some _ => None                                  (* a second connection while one is open *)
      | None => if (id =? s_next st) && (0 <? s_calls st)
                then Some (mk_sst (Some id) (s_next st + 1) (s_calls st - 1)) else None
      end
  | SClosed id =>
      match s_open st with
      | Some j => if id =? j then Some (mk_sst None (s_next st) (s_calls st)) else Some st
      | None => Some st
      end
  | SFail => if 0 <? s_calls st then Some (mk_sst (s_open st) (s_next st) (s_calls st - 1)) else None
  end.

Fixpoint srun (st : sst) (tr : list sev) : option sst :=
  match tr with
  | [] => Some st
  | e :: rest => match sstep st e with Some st' => srun st' rest | None => None end
  end.

Definition sinit : sst := mk_sst None 0 0.

(* connections open after a history: handed out and not closed since *)
Fixpoint open_after (tr : list sev) (acc : list Z) : list Z :=
  match tr with
  | [] => acc
  | SRet id :: rest => open_after rest (id :: acc)
  | SClosed id :: rest => open_after rest (filter (fun j => negb (j =? id)) acc)
  | _ :: rest => open_after rest acc
  end.
