(* The structural checks of Model/Tables.v (C12: blocking selects and channel operations; C18: lock order and
   lock leaks) over the tables that tools/go2coq extracts from mailbox/*.go (gen/MailboxTablesGen.v): the
   ClientConn / ServerConn wrappers with their retry loops, Client / Server, the Noise connection objects. *)
From Coq Require Import String Ascii List Bool Arith.
From LNC Require MailboxTablesGen.
Import ListNotations.
Open Scope string_scope.

Module M := MailboxTablesGen.

Definition mem (s : string) (l : list string) : bool := existsb (String.eqb s) l.
Definition dedup (l : list string) : list string :=
  fold_right (fun x acc => if mem x acc then acc else x :: acc) [] l.

(* channels closed (contexts cancelled) when a mailbox connection / client / server / listener shuts down:
   c.quit (ClientConn / ServerConn Close), the context handed to the retry loops (cancelled by Close),
   l.quit (Listener.Close), s.quit / s.ctx (Server.Close), and Done() of the connection handed out last *)
Definition shutdown_chans : list string :=
  ["c.quit"; "ctx.Done()"; "l.quit"; "s.quit"; "s.ctx.Done()"; "s.mailboxConn.Done()"].

(* a case on a timer channel wakes the select by itself after the timer's duration (the send stream's
   lingering period after its connection has ended, lockWithContext's polling interval) *)
Definition is_timer (c : string) : bool := String.prefix "time.After(" c.

Definition covered (row : string * bool * list string) : bool :=
  let '(_, has_default, cases) := row in
  has_default || existsb (fun c => mem c shutdown_chans || is_timer c) cases.

Definition uncovered_selects : list (string * bool * list string) :=
  filter (fun r => negb (covered r)) M.select_table.

(* channel operations outside a select:
   - Client.Dial waits for Done() of the connection it handed out before: that is the exclusivity of C11, and
     Done() is closed by that connection's Close;
   - the TCP listener's handshake semaphore: a buffered channel pre-filled with its capacity in NewListener
     (never blocks there), one token taken per pending handshake in a select with l.quit (listen) and put back
     when the handshake ends (doHandshake: the slot it took is free, the send cannot block). *)
Definition allowed_bare_ops : list (string * string) :=
  [ ("Client.Dial", "<-c.mailboxConn.Done()");
    ("Listener.doHandshake", "l.handshakeSema<-");
    ("Listener.listen", "l.handshakeSema<-");
    ("NewListener", "brontideListener.handshakeSema<-") ].

Definition bare_eqb (a b : string * string) : bool :=
  String.eqb (fst a) (fst b) && String.eqb (snd a) (snd b).

Definition unexpected_bare_ops : list (string * string) :=
  filter (fun o => negb (existsb (bare_eqb o) allowed_bare_ops)) M.bare_chanop_table.

(* ---- lock order across calls, as in Tables.v ---- *)
Definition function_names : list string :=
  dedup (M.function_table ++ map (fun r => fst (fst r)) M.acquire_table ++
         map (fun r => fst (fst r)) M.call_lock_table ++ map (fun r => snd (fst r)) M.call_lock_table).

Definition direct_acquires (f : string) : list string :=
  map (fun r => snd (fst r)) (filter (fun r => String.eqb (fst (fst r)) f) M.acquire_table).

Definition qcallees (f : string) : list string :=
  dedup (map (fun r => snd (fst r)) (filter (fun r => String.eqb (fst (fst r)) f) M.call_lock_table)).

Definition lookup_acq (tbl : list (string * list string)) (f : string) : list string :=
  match find (fun e => String.eqb (fst e) f) tbl with Some e => snd e | None => [] end.

Definition acq_round (tbl : list (string * list string)) : list (string * list string) :=
  map (fun f => (f, dedup (direct_acquires f ++ flat_map (lookup_acq tbl) (qcallees f)))) function_names.

Fixpoint acq_iter (n : nat) (tbl : list (string * list string)) : list (string * list string) :=
  match n with O => tbl | S k => acq_iter k (acq_round tbl) end.

Definition acq_closure : list (string * list string) :=
  Eval vm_compute in acq_iter 12 (map (fun f => (f, [])) function_names).

Definition acq_closure_stable : bool :=
  forallb (fun e => Nat.eqb (List.length (snd e)) (List.length (lookup_acq (acq_round acq_closure) (fst e)))) acq_closure.

Definition order_pairs : list (string * string) :=
  Eval vm_compute in
  (flat_map (fun r => map (fun h => (h, snd (fst r))) (snd r)) M.acquire_table ++
   flat_map (fun r => flat_map (fun h => map (fun l => (h, l)) (lookup_acq acq_closure (snd (fst r)))) (snd r)) M.call_lock_table).

Definition lock_names : list string :=
  Eval vm_compute in dedup (map fst order_pairs ++ map snd order_pairs).

Definition rank_lookup (tbl : list (string * nat)) (l : string) : nat :=
  match find (fun e => String.eqb (fst e) l) tbl with Some e => snd e | None => 0 end.

Definition rank_round (tbl : list (string * nat)) : list (string * nat) :=
  map (fun l => (l, fold_left Nat.max
                       (map (fun p => S (rank_lookup tbl (fst p)))
                            (filter (fun p => String.eqb (snd p) l && negb (String.eqb (fst p) l)) order_pairs)) 0))
      lock_names.

Fixpoint rank_iter (n : nat) (tbl : list (string * nat)) : list (string * nat) :=
  match n with O => tbl | S k => rank_iter k (rank_round tbl) end.

Definition lock_rank_table : list (string * nat) :=
  Eval vm_compute in rank_iter (List.length lock_names) (map (fun l => (l, 0)) lock_names).

Definition lock_rank (l : string) : nat := rank_lookup lock_rank_table l.

Definition order_pairs_ranked : bool :=
  forallb (fun p => Nat.ltb (lock_rank (fst p)) (lock_rank (snd p))) order_pairs.

Definition leaked_locks : list (string * string) := M.lock_leak_table.
