(* The structural checks of Model/Tables.v (C12: blocking selects and channel operations; C18: lock order and
   lock leaks) over the tables that tools/go2coq extracts from mailbox/*.go (gen/MailboxTablesGen.v): the
   ClientConn / ServerConn wrappers with their retry loops, Client / Server, the Noise connection objects. *)
From Coq Require Import String Ascii List Bool Arith.
From LNC Require MailboxTablesGen.
Import ListNotations.
Open Scope string_scope.

Module M := MailboxTablesGen.

Definition mem (s : string) (l : list string) : bool := existsb (String.eqb s) l.
Definition dedup (l : list string) : list string :=
  fold_right (fun x acc => if mem x acc then acc else x :: acc) [] l.

(* channels closed (contexts cancelled) when a mailbox connection / client / server / listener shuts down:
   c.quit (ClientConn / ServerConn Close), the context handed to the retry loops (cancelled by Close),
   l.quit (Listener.Close), s.quit / s.ctx (Server.Close), and Done() of the connection handed out last *)
Definition shutdown_chans : list string :=
  ["c.quit"; "ctx.Done()"; "l.quit"; "s.quit"; "s.ctx.Done()"; "s.mailboxConn.Done()"].

(* a case on a timer channel wakes the select by itself after the timer's duration (the send stream's
   lingering period after its connection has ended, lockWithContext's polling interval) *)
Definition is_timer (c : string) : bool := String.prefix "time.After(" c.

Definition covered (row : string * bool * list string) : bool :=
  let '(_, has_default, cases) := row in
  has_default || existsb (fun c => mem c shutdown_chans || is_timer c) cases.

Definition uncovered_selects : list (string * bool * list string) :=
  filter (fun r => negb (covered r)) M.select_table.

(* channel operations outside a select:
   - Client.Dial waits for Done() of the connection it handed out before: that is the exclusivity of C11, and
     Done() is closed by that connection's Close;
   - the TCP listener's handshake semaphore: a buffered channel pre-filled with its capacity in NewListener
     (never blocks there), one token taken per pending handshake in a select with l.quit (listen) and put back
     when the handshake ends (doHandshake: the slot it took is free, the send cannot block). *)
Definition allowed_bare_ops : list (string * string) :=
  [ ("Client.Dial", "<-c.mailboxConn.Done()");
    ("Listener.doHandshake", "l.handshakeSema<-");
    ("Listener.listen", "l.handshakeSema<-");
    ("NewListener", "brontideListener.handshakeSema<-") ].

Definition bare_eqb (a b : string * string) : bool :=
  String.eqb (fst a) (fst b) && String.eqb (snd a) (snd b).

Definition unexpected_bare_ops : list (string * string) :=
  filter (fun o => negb (existsb (bare_eqb o) allowed_bare_ops)) M.bare_chanop_table.

(* ---- lock order across calls, as in Tables.v ---- *)
Definition function_names : list string :=
  dedup (M.function_table ++ map (fun r => fst (fst r)) M.acquire_table ++
         map (fun r => fst (fst r)) M.call_lock_table ++ map (fun r => snd (fst r)) M.call_lock_table).

Definition direct_acquires (f : string) : list string :=
  map (fun r => snd (fst r)) (filter (fun r => String.eqb (fst (fst r)) f) M.acquire_table).

Definition qcallees (f : string) : list string :=
  dedup (map (fun r => snd (fst r)) (filter (fun r => String.eqb (fst (fst r)) f) M.call_lock_table)).

Definition lookup_acq (tbl : list (string * list string)) (f : string) : list string :=
  match find (fun e => String.eqb (fst e) f) tbl with Some e => snd e | None => [] end.

Definition acq_round (tbl : list (string * list string)) : list (string * list string) :=
  map (fun f => (f, dedup (direct_acquires f ++ flat_map (lookup_acq tbl) (qcallees f)))) function_names.

Fixpoint acq_iter (n : nat) (tbl : list (string * list string)) : list (string * list string) :=
  match n with O => tbl | S k => acq_iter k (acq_round tbl) end.

Definition acq_closure : list (string * list string) :=
  Eval vm_compute in acq_iter 12 (map (fun f => (f, [])) function_names).

Definition acq_closure_stable : bool :=
  forallb (fun e => Nat.eqb (List.length (snd e)) (List.length (lookup_acq (acq_round acq_closure) (fst e)))) acq_closure.

Definition order_pairs : list (string * string) :=
  Eval vm_compute in
  (flat_map (fun r => map (fun h => (h, snd (fst r))) (snd r)) M.acquire_table ++
   flat_map (fun r => flat_map (fun h => map (fun l => (h, l)) (lookup_acq acq_closure (snd (fst r)))) (snd r)) M.call_lock_table).

Definition lock_names : list string :=
  Eval vm_compute in dedup (map fst order_pairs ++ map snd order_pairs).

Definition rank_lookup (tbl : list (string * nat)) (l : string) : nat :=
  match find (fun e => String.eqb (fst e) l) tbl with Some e => snd e | None => 0 end.

Definition rank_round (tbl : list (string * nat)) : list (string * nat) :=
  map (fun l => (l, fold_left Nat.max
                       (map (fun p => S (rank_lookup tbl (fst p)))
                            (filter (fun p => String.eqb (snd p) l && negb (String.eqb (fst p) l)) order_pairs)) 0))
      lock_names.

Fixpoint rank_iter (n : nat) (tbl : list (string * nat)) : list (string * nat) :=
  match n with O => tbl | S k => rank_iter k (rank_round tbl) end.

Definition lock_rank_table : list (string * nat) :=
  Eval vm_compute in rank_iter (List.length lock_names) (map (fun l => (l, 0)) lock_names).

Definition lock_rank (l : string) : nat := rank_lookup lock_rank_table l.

Definition order_pairs_ranked : bool :=
  forallb (fun p => Nat.ltb (lock_rank (fst p)) (lock_rank (snd p))) order_pairs.

Definition leaked_locks : list (string * string) := M.lock_leak_table.

(* ---- C18: the lock discipline of the shared fields of mailbox/*.go ----
   Two accesses to one field of a shared struct, one of them a write, performed by code that can run in two
   goroutines at once, hold a common mutex. The locks of an access are those taken in its own function plus those
   that EVERY call site of that function holds (transitively): ClientConn guards its transport with sendMu /
   receiveMu around the calls into it, NoiseGrpcConn.read runs under the reader's proxyConnMtx, and so on. *)
Fixpoint last_seg (s acc : string) : string :=
  match s with
  | EmptyString => acc
  | String c r => if Ascii.eqb c "."%char then last_seg r "" else last_seg r (acc ++ String c "")
  end.
Definition short_name (f : string) : string := last_seg f "".

(* calls inside the package, with the callee's type: Type.method, or Interface.method for a call through an interface
   of the package, which resolves to every function of that name *)
Definition callees (f : string) : list string :=
  map (fun r => snd (fst r)) (filter (fun r => String.eqb (fst (fst r)) f) M.call_lock_table).
Definition resolve (callee : string) : list string :=
  if mem callee M.function_table then [callee]
  else filter (fun f => String.eqb (short_name f) (short_name callee)) M.function_table.

Fixpoint reach (fuel : nat) (frontier seen : list string) : list string :=
  match fuel with
  | O => seen
  | S n =>
      let next := flat_map (fun f => flat_map resolve (callees f)) frontier in
      let fresh := filter (fun f => negb (mem f seen)) next in
      match fresh with
      | [] => seen
      | _ => reach n (nodup string_dec fresh) (List.app seen (nodup string_dec fresh))
      end
  end.

(* who can run at the same time: the methods an application (gRPC) may call from any goroutine; the two callbacks
   that the GBN connection calls from its own goroutines (send: from its send loop, its receive loop (ACKs) and
   Close (FIN), so also concurrently with itself; recv: one goroutine); Dial and Accept, which their caller (gRPC's
   dialer / Serve loop) calls one at a time *)
Definition roles : list (string * list string) :=
  [ ("api", ["ClientConn.Close"; "ClientConn.ReceiveControlMsg"; "ClientConn.SendControlMsg"; "ClientConn.SetRecvTimeout";
             "ClientConn.SetSendTimeout"; "ClientConn.Done";
             "ServerConn.Close"; "ServerConn.Stop"; "ServerConn.ReceiveControlMsg"; "ServerConn.SendControlMsg";
             "ServerConn.SetRecvTimeout"; "ServerConn.SetSendTimeout"; "ServerConn.Done";
             "connKit.Read"; "connKit.Write"; "connKit.SetDeadline"; "connKit.SetReadDeadline"; "connKit.SetWriteDeadline";
             "connKit.LocalAddr"; "connKit.RemoteAddr";
             "NoiseGrpcConn.Read"; "NoiseGrpcConn.Write"; "NoiseGrpcConn.Close"; "NoiseGrpcConn.LocalAddr";
             "NoiseGrpcConn.RemoteAddr"; "NoiseGrpcConn.ClientHandshake"; "NoiseGrpcConn.ServerHandshake"; "NoiseGrpcConn.Clone";
             "noiseGrpcSessionConn.Read"; "noiseGrpcSessionConn.Write"; "noiseGrpcSessionConn.Close";
             "Client.ConnStatus"; "Server.Close"; "Server.Addr";
             "ConnData.SID"; "ConnData.RemoteKey"; "ConnData.SetRemote"; "ConnData.AuthData"; "ConnData.SetAuthData";
             "ConnData.HandshakePattern"; "ConnData.LocalKey"; "ConnData.PassphraseEntropy"]);
    ("gbn-send", ["ClientConn.send"; "ServerConn.sendToStream"]);
    ("gbn-recv", ["ClientConn.recv"; "ServerConn.recvFromStream"]);
    ("dial", ["Client.Dial"]);
    ("accept", ["Server.Accept"]) ].

Definition self_concurrent (r : string) : bool := String.eqb r "api" || String.eqb r "gbn-send".

Definition role_table : list (string * list string) :=
  Eval vm_compute in map (fun r => (fst r, reach 40 (snd r) (snd r))) roles.
Definition roles_of (f : string) : list string := map fst (filter (fun r => mem f (snd r)) role_table).

(* construction: the object is not shared yet *)
Definition init_funcs : list string :=
  ["NewClientConn"; "RefreshClientConn"; "refreshClientConn"; "NewServerConn"; "RefreshServerConn"; "NewClient"; "NewServer";
   "NewNoiseGrpcConn"; "NewConnData"; "newGrpcTransport"; "newWebsocketTransport"; "grpcTransport.Refresh";
   "websocketTransport.Refresh"; "WithMinHandshakeVersion"; "WithMaxHandshakeVersion"].

(* locks held by every caller *)
Definition entry_points : list string := flat_map snd roles.
Definition calls_to (f : string) : list (string * string * list string) :=
  filter (fun r => String.eqb (snd (fst r)) f ||
                   (negb (mem (snd (fst r)) M.function_table) && String.eqb (short_name (snd (fst r))) (short_name f)))
         M.call_lock_table.
Definition inter (a b : list string) : list string := filter (fun x => mem x b) a.
Definition inh_round (tbl : list (string * list string)) : list (string * list string) :=
  map (fun f =>
         (f, if mem f entry_points then [] else
             match calls_to f with
             | [] => []
             | c :: cs =>
                 let eff := fun r : string * string * list string =>
                              List.app (map short_name (snd r)) (lookup_acq tbl (fst (fst r))) in
                 fold_left (fun acc r => inter acc (eff r)) cs (eff c)
             end)) M.function_table.
Fixpoint inh_iter (n : nat) (tbl : list (string * list string)) : list (string * list string) :=
  match n with O => tbl | S k => inh_iter k (inh_round tbl) end.
Definition inh_table : list (string * list string) :=
  Eval vm_compute in inh_iter 8 (map (fun f => (f, [])) M.function_table).
Definition same_set (a b : list string) : bool := forallb (fun x => mem x b) a && forallb (fun x => mem x a) b.
Definition inh_stable : bool :=
  forallb (fun p => same_set (snd (fst p)) (snd (snd p))) (combine inh_table (inh_round inh_table)).

Definition acc := (string * string * bool * string * list string * bool)%type.
Definition a_struct (a : acc) := fst (fst (fst (fst (fst a)))).
Definition a_field (a : acc) := snd (fst (fst (fst (fst a)))).
Definition a_write (a : acc) := snd (fst (fst (fst a))).
Definition a_fn (a : acc) := snd (fst (fst a)).
Definition a_locks (a : acc) := List.app (snd (fst a)) (lookup_acq inh_table (snd (fst (fst a)))).
Definition a_atomic (a : acc) := snd a.
Definition share_lock (a b : acc) : bool := existsb (fun l => mem l (a_locks b)) (a_locks a).

Definition acc_roles : list (acc * list string) :=
  Eval vm_compute in map (fun a => (a, roles_of (a_fn a)))
                         (filter (fun a => negb (mem (a_fn a) init_funcs)) M.access_table).

Definition concurrent (ra rb : list string) : bool :=
  existsb (fun x => existsb (fun y => negb (String.eqb x y) || self_concurrent x) rb) ra.

Definition conflict (a b : acc * list string) : bool :=
  String.eqb (a_field (fst a)) (a_field (fst b)) && String.eqb (a_struct (fst a)) (a_struct (fst b)) &&
  (a_write (fst a) || a_write (fst b)) && negb (a_atomic (fst a) && a_atomic (fst b)) &&
  negb (share_lock (fst a) (fst b)) && concurrent (snd a) (snd b).

(* struct, field, the two functions *)
Definition lock_violations : list (string * string * string * string) :=
  flat_map (fun a => map (fun b => (a_struct (fst a), a_field (fst a), a_fn (fst a), a_fn (fst b)))
                         (filter (conflict a) acc_roles)) acc_roles.
