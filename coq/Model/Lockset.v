(* A small interleaving model of threads with mutexes, for the lock-discipline
   argument of C18: if every access to a field is made while holding that
   field's lock, no reachable state has two threads poised at conflicting
   accesses to the same field (a data race in the interleaving model). *)
From Coq Require Import List Bool Arith Lia.
Import ListNotations.

Inductive action :=
  | ALock (m : nat)
  | AUnlock (m : nat)
  | AAccess (f : nat) (write : bool).

Definition thread := list action.

Record state := mk_state {
  threads : list thread;          (* remaining actions of each thread *)
  owner : nat -> option nat       (* mutex -> index of the thread holding it *)
}.

Definition set_owner (o : nat -> option nat) (m : nat) (v : option nat) : nat -> option nat :=
  fun k => if Nat.eqb k m then v else o k.

Fixpoint set_nth {A} (l : list A) (i : nat) (v : A) : list A :=
  match l, i with
  | [], _ => []
  | _ :: t, O => v :: t
  | h :: t, S j => h :: set_nth t j v
  end.

(* thread i performs its next action *)
Definition step (st : state) (i : nat) : option state :=
  match nth_error (threads st) i with
  | Some (a :: rest) =>
      match a with
      | ALock m =>
          match owner st m with
          | None => Some (mk_state (set_nth (threads st) i rest) (set_owner (owner st) m (Some i)))
          | Some _ => None      (* blocked *)
          end
      | AUnlock m =>
          match owner st m with
          | Some j => if Nat.eqb j i then Some (mk_state (set_nth (threads st) i rest) (set_owner (owner st) m None)) else None
          | None => None
          end
      | AAccess _ _ => Some (mk_state (set_nth (threads st) i rest) (owner st))
      end
  | _ => None
  end.

Inductive reachable (init : state) : state -> Prop :=
  | r_init : reachable init init
  | r_step : forall st i st', reachable init st -> step st i = Some st' -> reachable init st'.

(* two different threads are both about to access the same field, at least one writing *)
Definition race (st : state) : Prop :=
  exists i j f w1 w2 r1 r2, i <> j /\
    nth_error (threads st) i = Some (AAccess f w1 :: r1) /\
    nth_error (threads st) j = Some (AAccess f w2 :: r2) /\ (w1 || w2) = true.

(* static discipline of one thread: walking its actions with the set of locks it holds
   (initially `held`), every access to f is made while lock_of f is held, locks are not
   re-acquired while held, and only held locks are released *)
Fixpoint disciplined (lock_of : nat -> nat) (held : list nat) (t : thread) : Prop :=
  match t with
  | [] => True
  | ALock m :: rest => ~ In m held /\ disciplined lock_of (m :: held) rest
  | AUnlock m :: rest => In m held /\ disciplined lock_of (remove Nat.eq_dec m held) rest
  | AAccess f _ :: rest => In (lock_of f) held /\ disciplined lock_of held rest
  end.

Definition init_state (prog : list thread) : state := mk_state prog (fun _ => None).
