(* The layers composed: NoiseGrpcConn.Write -> Flush (header, body) ->
   connKit.Write -> MsgData -> GBN message -> ... -> GBN Recv -> MsgData ->
   connKit.Read buffer -> ReadHeader/ReadBody (io.ReadFull) -> NoiseGrpcConn.Read.
   The transport layers are represented by what their own theorems guarantee:
   GBN hands over a PREFIX of the messages given to it (C01), the control-message
   framing is the identity on payloads (C19), connKit.Read / ReadFull present the
   concatenation of the delivered payloads as a byte stream (C15, C16). *)
From Coq Require Import ZArith List Bool Lia.
From LNC Require Import Noise.
Import ListNotations.
Open Scope Z_scope.

(* the GBN messages produced for the records: two per record *)
Fixpoint stack_messages_from (dir : bool) (k : Z) (recs : list (list Z)) : list (list wbyte) :=
  match recs with
  | [] => []
  | p :: rest => seal_tags dir (2 * k) 2 :: seal_tags dir (2 * k + 1) (len p) :: stack_messages_from dir (k + 1) rest
  end.
Definition stack_messages (dir : bool) (recs : list (list Z)) := stack_messages_from dir 0 recs.

(* what the reading side returns when GBN has delivered the first `delivered` messages,
   for the given Read buffer sizes *)
Definition stack_read (dir : bool) (recs : list (list Z)) (delivered : nat) (fuel : nat) (sizes : list Z)
  : list (list Z) :=
  let input := concat (firstn delivered (stack_messages dir recs)) in
  let got := oks (read_all fuel dir recs (mk_reader 0 false) input) in
  reads grpc_read [] got sizes.

Definition honest_tag (dir : bool) (b : wbyte) : Prop := exists op off, b = Honest dir op off.
