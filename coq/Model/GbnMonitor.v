(* Monitor for histories of a real pair of GoBackNConn endpoints (data phase).
   State = two one-direction systems (Model/Gbn.v), the interleaving of DATA
   and ACK/NACK inside each physical channel, and the application interface
   (Send chunking, Recv reassembly). `mstep` is deterministic; a rejected
   event means the implementation did something the model does not allow. *)
From LNC Require Import GoLite MessagesGen QueueGen Codec Gbn.
Open Scope Z_scope.

Inductive side := SA | SB.
Definition peer (x : side) : side := match x with SA => SB | SB => SA end.

Inductive tag := TgData | TgCtrl | TgOther (raw : list Z).

Record api := mk_api {
  a_chunk : Z;                        (* maxChunkSize, 0 = off *)
  a_pending : list (list Z * bool);   (* chunks of Send calls not yet queued: payload, FinalChunk *)
  a_sending : bool;                   (* a Send call is in progress *)
  a_rbuf : list PacketData;           (* accepted non-ping packets not yet returned by Recv *)
  a_accepted : list (list Z);         (* ghost: every message passed to Send, in order *)
  a_returned : list (list Z);         (* ghost: every message returned by Recv, in order *)
  a_send_failed : bool                (* ghost: some Send returned an error *)
}.

Record msys := mk_msys {
  m_dA : dsys;  (* direction A -> B: sender A, receiver B *)
  m_dB : dsys;  (* direction B -> A *)
  m_chA : list tag;  (* physical channel A -> B *)
  m_chB : list tag;
  m_stA : option (tag * chop);  (* packet staged in A's inbox by the last channel decision *)
  m_stB : option (tag * chop);
  m_apiA : api;
  m_apiB : api
}.

Inductive mevent :=
  | MSendCall (x : side) (msg : list Z)
  | MSendRet (x : side) (ok : bool)
  | MRecvCall (x : side)
  | MRecvRet (x : side) (r : option (list Z))
  | MTx (x : side) (b : list Z)
  | MCh (x : side) (o : chop)
  | MRx (x : side) (b : list Z)
  | MRxRefused (x : side) (b : list Z)  (* x read the staged in-sequence DATA packet and refused it: no room *)
  | MSnap (x : side) (n s base top recv : Z).

(* rejection reasons, reported by the driver *)
Inductive mres := MOk (st : msys) | MBad (code : Z).

Definition dsnd (st : msys) (x : side) : dsys := match x with SA => m_dA st | SB => m_dB st end.
Definition drcv (st : msys) (x : side) : dsys := dsnd st (peer x).
Definition chan (st : msys) (x : side) := match x with SA => m_chA st | SB => m_chB st end.
Definition stage (st : msys) (x : side) := match x with SA => m_stA st | SB => m_stB st end.
Definition apiof (st : msys) (x : side) := match x with SA => m_apiA st | SB => m_apiB st end.

Definition set_dsnd st x d := match x with
  | SA => mk_msys d (m_dB st) (m_chA st) (m_chB st) (m_stA st) (m_stB st) (m_apiA st) (m_apiB st)
  | SB => mk_msys (m_dA st) d (m_chA st) (m_chB st) (m_stA st) (m_stB st) (m_apiA st) (m_apiB st) end.
Definition set_chan st x c := match x with
  | SA => mk_msys (m_dA st) (m_dB st) c (m_chB st) (m_stA st) (m_stB st) (m_apiA st) (m_apiB st)
  | SB => mk_msys (m_dA st) (m_dB st) (m_chA st) c (m_stA st) (m_stB st) (m_apiA st) (m_apiB st) end.
Definition set_stage st x v := match x with
  | SA => mk_msys (m_dA st) (m_dB st) (m_chA st) (m_chB st) v (m_stB st) (m_apiA st) (m_apiB st)
  | SB => mk_msys (m_dA st) (m_dB st) (m_chA st) (m_chB st) (m_stA st) v (m_apiA st) (m_apiB st) end.
Definition set_api st x a := match x with
  | SA => mk_msys (m_dA st) (m_dB st) (m_chA st) (m_chB st) (m_stA st) (m_stB st) a (m_apiB st)
  | SB => mk_msys (m_dA st) (m_dB st) (m_chA st) (m_chB st) (m_stA st) (m_stB st) (m_apiA st) a end.

Fixpoint zlist_eqb (a b : list Z) : bool :=
  match a, b with
  | [], [] => true
  | x :: a', y :: b' => (x =? y) && zlist_eqb a' b'
  | _, _ => false
  end.

Definition pkt_eqb (p q : PacketData) : bool :=
  (PacketData_Seq p =? PacketData_Seq q) && Bool.eqb (PacketData_FinalChunk p) (PacketData_FinalChunk q) &&
  Bool.eqb (PacketData_IsPing p) (PacketData_IsPing q) && zlist_eqb (PacketData_Payload p) (PacketData_Payload q).

(* ---- Send: splitting a message into chunks, following the loop in GoBackNConn.Send ---- *)

Fixpoint split_fuel (fuel : nat) (c : Z) (data : list Z) : list (list Z * bool) :=
  match fuel with
  | O => []
  | S f =>
      if len data <=? c then [(data, true)]
      else (firstn (Z.to_nat c) data, false) :: split_fuel f c (skipn (Z.to_nat c) data)
  end.

Definition split_msg (c : Z) (data : list Z) : list (list Z * bool) :=
  if c =? 0 then [(data, true)]
  else match data with
       | [] => [([], true)]   (* an empty payload is sent as one empty final chunk *)
       | _ => split_fuel (length data) c data
       end.

(* ---- Recv: take packets up to and including the first FinalChunk ---- *)
Fixpoint take_msg (buf : list PacketData) (acc : list Z) : option (list Z * list PacketData) :=
  match buf with
  | [] => None
  | p :: rest =>
      let acc' := acc ++ PacketData_Payload p in
      if PacketData_FinalChunk p then Some (acc', rest) else take_msg rest acc'
  end.

Definition ctrl_bytes (c : ctrl) : list Z :=
  match c with CAck a => [3; a] | CNack v => [4; v] end.

Definition lastn_pkt (d : dsys) : option PacketData :=
  match rev (d_fwd d) with it :: _ => Some (f_pkt it) | [] => None end.

Definition dlift (r : dres) (code : Z) (k : dsys -> mres) : mres :=
  match r with DOk d => k d | DReject => MBad code | DPanic => MBad (code + 1000) end.

Definition mstep (st : msys) (ev : mevent) : mres :=
  match ev with
  | MSendCall x msg =>
      let a := apiof st x in
      if a_sending a then MBad 1 else
      MOk (set_api st x (mk_api (a_chunk a) (a_pending a ++ split_msg (a_chunk a) msg) true (a_rbuf a)
                            (a_accepted a ++ [msg]) (a_returned a) (a_send_failed a)))
  | MSendRet x ok =>
      let a := apiof st x in
      if negb (a_sending a) then MBad 2 else
      if ok then
        (* the hand-off of the last chunk to the send loop may still be in flight *)
        if 1 <? len (a_pending a) then MBad 3 else
        MOk (set_api st x (mk_api (a_chunk a) (a_pending a) false (a_rbuf a) (a_accepted a) (a_returned a) (a_send_failed a)))
      else
        MOk (set_api st x (mk_api (a_chunk a) [] false (a_rbuf a) (a_accepted a) (a_returned a) true))
  | MRecvCall x => MOk st
  | MRecvRet x None => MOk st
  | MRecvRet x (Some msg) =>
      let a := apiof st x in
      match take_msg (a_rbuf a) [] with
      | None => MBad 4
      | Some (m, rest) =>
          if negb (zlist_eqb m msg) then MBad 5 else
          MOk (set_api st x (mk_api (a_chunk a) (a_pending a) (a_sending a) rest (a_accepted a)
                                (a_returned a ++ [msg]) (a_send_failed a)))
      end
  | MTx x b =>
      match Deserialize b with
      | Panic => MBad 10
      | Ok None => MOk (set_chan st x (chan st x ++ [TgOther b]))
      | Ok (Some (Message_PacketData p)) =>
          let d := dsnd st x in
          if PacketData_Seq p =? queue_sequenceTop (d_q d) then
            (* a new packet: a ping, or the next chunk of the pending Send *)
            let a := apiof st x in
            let api_ok :=
              if PacketData_IsPing p then Some a
              else match a_pending a with
                   | (pl, fin) :: rest =>
                       if zlist_eqb pl (PacketData_Payload p) && Bool.eqb fin (PacketData_FinalChunk p)
                       then Some (mk_api (a_chunk a) rest (a_sending a) (a_rbuf a) (a_accepted a) (a_returned a) (a_send_failed a))
                       else None
                   | [] => None
                   end in
            match api_ok with
            | None => MBad 11
            | Some a' =>
                dlift (dstep d (DNew p)) 12 (fun d' =>
                match lastn_pkt d' with
                | Some p' => if pkt_eqb p p' then MOk (set_chan (set_api (set_dsnd st x d') x a') x (chan st x ++ [TgData])) else MBad 13
                | None => MBad 13
                end)
            end
          else
            dlift (dstep d (DRetx (PacketData_Seq p))) 14 (fun d' =>
            match lastn_pkt d' with
            | Some p' => if pkt_eqb p p' then MOk (set_chan (set_dsnd st x d') x (chan st x ++ [TgData])) else MBad 15
            | None => MBad 15
            end)
      | Ok (Some (Message_PacketACK a)) =>
          let d := drcv st x in
          match d_pend d with
          | Some (CAck a') =>
              if PacketACK_Seq a =? a' then
                dlift (dstep d DReply) 16 (fun d' => MOk (set_chan (set_dsnd st (peer x) d') x (chan st x ++ [TgCtrl])))
              else MBad 17
          | _ => MBad 17
          end
      | Ok (Some (Message_PacketNACK v)) =>
          let d := drcv st x in
          match d_pend d with
          | Some (CNack v') =>
              if PacketNACK_Seq v =? v' then
                dlift (dstep d DReply) 18 (fun d' => MOk (set_chan (set_dsnd st (peer x) d') x (chan st x ++ [TgCtrl])))
              else MBad 19
          | _ => MBad 19
          end
      | Ok (Some _) => MOk (set_chan st x (chan st x ++ [TgOther b]))
      end
  | MCh x o =>
      match chan st x, stage st (peer x) with
      | [], _ => MBad 20
      | _, Some _ => MBad 21
      | tg :: rest, None =>
          let st1 := set_chan st x (after_op o tg rest) in
          match o with
          | Drop =>
              match tg with
              | TgData => dlift (dstep (dsnd st x) (DFwd Drop)) 22 (fun d' => MOk (set_dsnd st1 x d'))
              | TgCtrl => dlift (dstep (drcv st x) (DBwd Drop)) 23 (fun d' => MOk (set_dsnd st1 (peer x) d'))
              | TgOther _ => MOk st1
              end
          | _ => MOk (set_stage st1 (peer x) (Some (tg, o)))
          end
      end
  | MRx y b =>
      match stage st y with
      | None => MBad 30
      | Some (tg, o) =>
          let st1 := set_stage st y None in
          match tg with
          | TgOther raw => if zlist_eqb raw b then MOk st1 else MBad 31
          | TgData =>
              let d := drcv st y in
              match d_fwd d with
              | [] => MBad 32
              | it :: _ =>
                  match PacketData_Serialize (f_pkt it) with
                  | Ok (Some bytes) =>
                      if negb (zlist_eqb bytes b) then MBad 33 else
                      dlift (dstep d (DFwd o)) 34 (fun d' =>
                      let accepted := d_R d <? d_R d' in
                      let a := apiof st y in
                      let a' := if accepted && negb (PacketData_IsPing (f_pkt it))
                                then mk_api (a_chunk a) (a_pending a) (a_sending a) (a_rbuf a ++ [f_pkt it])
                                            (a_accepted a) (a_returned a) (a_send_failed a)
                                else a in
                      MOk (set_api (set_dsnd st1 (peer y) d') y a'))
                  | _ => MBad 35
                  end
              end
          | TgCtrl =>
              let d := dsnd st y in
              match d_bwd d with
              | [] => MBad 36
              | it :: _ =>
                  if negb (zlist_eqb (ctrl_bytes (b_ctrl it)) b) then MBad 37 else
                  dlift (dstep d (DBwd o)) 38 (fun d' => MOk (set_dsnd st1 y d'))
              end
          end
      end
  | MRxRefused y b =>
      (* the receive loop read an in-sequence data packet while n accepted packets were still waiting for Recv: it
         neither acknowledges nor delivers it. For the protocol that is a loss of the packet. *)
      match stage st y with
      | Some (TgData, o) =>
          let st1 := set_stage st y None in
          let d := drcv st y in
          match d_fwd d with
          | [] => MBad 32
          | it :: _ =>
              match PacketData_Serialize (f_pkt it) with
              | Ok (Some bytes) =>
                  if negb (zlist_eqb bytes b) then MBad 33 else
                  if negb ((PacketData_Seq (f_pkt it) =? d_recv d) && negb (PacketData_IsPing (f_pkt it)) &&
                           (d_n d <=? len (a_rbuf (apiof st y)))) then MBad 42 else
                  match o with
                  | Deliver => dlift (dstep d (DFwd Drop)) 34 (fun d' => MOk (set_dsnd st1 (peer y) d'))
                  | _ => MOk st1   (* DeliverKeep: the retained copy is still in the channel *)
                  end
              | _ => MBad 35
              end
          end
      | _ => MBad 30
      end
  | MSnap x n s base top recv =>
      let d := dsnd st x in
      if (n =? d_n d) && (s =? queueCfg_s (queue_cfg (d_q d))) && (base =? queue_sequenceBase (d_q d)) &&
         (top =? queue_sequenceTop (d_q d))
      then
        (* recvSeq is compared only when no ACK is pending (the code bumps it after sending the ACK) *)
        match d_pend (drcv st x) with
        | Some (CAck _) => MOk st
        | _ => if recv =? d_recv (drcv st x) then MOk st else MBad 41
        end
      else MBad 40
  end.

Definition api_init (chunk : Z) : api := mk_api chunk [] false [] [] [] false.

Definition minit (n chunkA chunkB : Z) : msys :=
  mk_msys (dinit n) (dinit n) [] [] None None (api_init chunkA) (api_init chunkB).

(* run, reporting the index of the first rejected event *)
Fixpoint mrun (st : msys) (evs : list mevent) (i : Z) : msys * option (Z * Z) :=
  match evs with
  | [] => (st, None)
  | ev :: rest =>
      match mstep st ev with
      | MOk st' => mrun st' rest (i + 1)
      | MBad c => (st, Some (i, c))
      end
  end.

(* all events accepted *)
Fixpoint mrun_all (st : msys) (evs : list mevent) : option msys :=
  match evs with
  | [] => Some st
  | ev :: rest => match mstep st ev with MOk st' => mrun_all st' rest | MBad _ => None end
  end.

(* (payload, FinalChunk) projection of a packet; Recv reads nothing else *)
Definition proj (p : PacketData) : list Z * bool := (PacketData_Payload p, PacketData_FinalChunk p).
Definition chunk_pkts (l : list (list Z * bool)) : list PacketData :=
  map (fun c => mk_PacketData 0 (snd c) false (fst c)) l.

(* repeated Recv over a buffer of delivered packets *)
Fixpoint reassemble_fuel (fuel : nat) (buf : list PacketData) : list (list Z) :=
  match fuel with
  | O => []
  | S f => match take_msg buf [] with
           | Some (m, rest) => m :: reassemble_fuel f rest
           | None => []
           end
  end.
Definition reassemble (buf : list PacketData) : list (list Z) := reassemble_fuel (length buf) buf.

Definition is_prefix {A} (a b : list A) : Prop := exists t, b = a ++ t.
