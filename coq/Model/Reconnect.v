(* A session is a sequence of connections served by ONE reader object (NoiseGrpcConn is gRPC's transport
   credentials: the same object is handshaken again on every reconnect). Its only state across Reads is the
   unread tail of the last record (`pending`, nextMsg in the code). `session reset` runs the Reads of every
   connection in turn; with reset = true the handshake clears the tail (the code after fix 8891881), with
   reset = false it is carried into the next connection (the code before). *)
From LNC Require Import GoLite Noise.
Open Scope Z_scope.

Definition reader := list Z -> list (list Z) -> Z -> list Z * list Z * list (list Z).

Fixpoint reads_final (rd : reader) (pending : list Z) (src : list (list Z)) (sizes : list Z) : list Z :=
  match sizes with
  | [] => pending
  | b :: rest => let '(_, pending', src') := rd pending src b in reads_final rd pending' src' rest
  end.

(* one connection: the records its peer wrote on it, and the buffer sizes of the Reads made on it *)
Definition connection := (list (list Z) * list Z)%type.

Fixpoint session (reset : bool) (rd : reader) (pending : list Z) (conns : list connection) : list (list (list Z)) :=
  match conns with
  | [] => []
  | (src, sizes) :: rest =>
      let p0 := if reset then [] else pending in
      reads rd p0 src sizes :: session reset rd (reads_final rd p0 src sizes) rest
  end.
