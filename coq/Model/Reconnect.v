(* A session is a sequence of connections served by ONE reader object (NoiseGrpcConn is gRPC's transport
   credentials: the same object is handshaken again on every reconnect). Its only state across Reads is the
   unread tail of the last record (`pending`, nextMsg in the code). `session reset` runs the Reads of every
   connection in turn; with reset = true the handshake clears the tail (the code after fix 8891881), with
   reset = false it is carried into the next connection (the code before). *)
From LNC Require Import GoLite Noise.
Open Scope Z_scope.

Definition reader := list Z -> list (list Z) -> Z -> list Z * list Z * list (list Z).

Fixpoint reads_final (rd : reader) (pending : list Z) (src : list (list Z)) (sizes : list Z) : list Z :=
  match sizes with
  | [] => pending
  | b :: rest => let '(_, pending', src') := rd pending src b in reads_final rd pending' src' rest
  end.

(* one connection: the records its peer wrote on it, and the buffer sizes of the Reads made on it *)
Definition connection := (list (list Z) * list Z)%type.

Fixpoint session (reset : bool) (rd : reader) (pending : list Z) (conns : list connection) : list (list (list Z)) :=
  match conns with
  | [] => []
  | (src, sizes) :: rest =>
      let p0 := if reset then [] else pending in
      reads rd p0 src sizes :: session reset rd (reads_final rd p0 src sizes) rest
  end.

(* ---- Close of the connections of one session ----
   Every handshake establishes a connection over a new transport and hands out a handle to it; the owner of a
   handle may close it any number of times, also late, after later connections have been established (gRPC closes
   a transport's connection from several goroutines). `shared = true` is the code before fix 1556a75: every handle
   is the session's one NoiseGrpcConn and its Close closes whatever transport the object holds now, i.e. the
   latest; `shared = false` is the code after it: a handle closes the transport it was established over. *)
Inductive cev := CHandshake | CClose (k : nat).

Fixpoint set_closed (k : nat) (l : list bool) : list bool :=
  match l, k with
  | [], _ => []
  | _ :: rest, O => false :: rest
  | b :: rest, S k' => b :: set_closed k' rest
  end.

(* the state: for every transport so far, is it still open *)
Definition cstep (shared : bool) (st : list bool) (ev : cev) : list bool :=
  match ev with
  | CHandshake => st ++ [true]
  | CClose k =>
      if Nat.ltb k (length st)
      then set_closed (if shared then Nat.pred (length st) else k) st
      else st   (* no such handle yet *)
  end.

Definition crun (shared : bool) (st : list bool) (evs : list cev) : list bool := fold_left (cstep shared) evs st.

Fixpoint handshakes (evs : list cev) : nat :=
  match evs with
  | [] => O
  | CHandshake :: rest => S (handshakes rest)
  | _ :: rest => handshakes rest
  end.
