(* gbn/timeout_manager.go as a state machine with an explicit clock.
   Durations and instants are Z nanoseconds; the int64 wrap of
   `multiplier * rtt` is written out; the float32 arithmetic of
   TimeoutBooster.GetCurrentTimeout is a section variable `fboost` with the two
   facts the theorems need, instantiated below with Flocq's binary32
   (round-to-nearest-even conversions and products, truncation to integer). *)
From Coq Require Import ZArith List Bool Lia.
From Flocq Require Import Core BinarySingleNaN.
Import ListNotations.
Open Scope Z_scope.

Inductive kind := KSyn | KSynAck | KData | KAck | KOther.

Record booster := mk_booster {
  b_count : Z;
  b_orig : Z;               (* originalTimeout *)
  b_limit : bool;           (* withBoostFrequencyLimit *)
  b_last : option Z         (* lastBoost; None = the zero time.Time *)
}.

Record tm := mk_tm {
  t_static : bool;
  t_hasdyn : bool;
  t_resend : Z;
  t_mult : Z;
  t_freq : Z;
  t_syn : option Z;         (* latestSentSYNTime; None = zero *)
  t_rb : booster;           (* resend booster *)
  t_hb : booster;           (* handshake booster *)
  t_sent : list (Z * Z);    (* sentTimes: seq -> time, most recent binding first *)
  t_counter : Z;            (* responseCounter *)
  t_now : Z;                (* the clock *)
  (* ghosts *)
  g_samples : list (Z * Z * bool);  (* every recomputation: (t_sent, t_recv, from a non-retransmitted packet) *)
  g_fresh : list (Z * Z);           (* seq -> time of its latest Sent that was not a resend and not resent since *)
  g_boosts : list Z                 (* instants of the resend booster's effective boosts since its last reset *)
}.

Definition maxdur : Z := 9223372036854775807.
Definition second : Z := 1000000000.
Definition wrap64 (x : Z) : Z := (x + 9223372036854775808) mod 18446744073709551616 - 9223372036854775808.

Fixpoint lookup (k : Z) (m : list (Z * Z)) : option Z :=
  match m with
  | [] => None
  | (k', v) :: rest => if k =? k' then Some v else lookup k rest
  end.
Definition remove (k : Z) (m : list (Z * Z)) : list (Z * Z) := filter (fun kv => negb (fst kv =? k)) m.
Definition insert (k v : Z) (m : list (Z * Z)) : list (Z * Z) := (k, v) :: remove k m.

(* time.Since(t) saturates at the maximum Duration; the zero Time is ~2000 years back *)
Definition since (now : Z) (t : option Z) : Z :=
  match t with None => maxdur | Some x => now - x end.

Section Manager.
  (* increase := time.Duration(float32(orig) * pct * float32(count)) *)
  Variable fboost : Z -> Z -> Z.

  Definition b_current (b : booster) : Z := b_orig b + fboost (b_orig b) (b_count b).

  Definition b_boost (now : Z) (b : booster) : booster * bool :=
    if b_limit b && (since now (b_last b) <? b_orig b) then (b, false)
    else (mk_booster (b_count b + 1) (b_orig b) (b_limit b) (Some now), true).

  Definition b_reset (now : Z) (b : booster) (newTimeout : Z) : booster :=
    mk_booster 0 newTimeout (b_limit b) (if b_limit b then Some now else b_last b).

  Definition get_resend (m : tm) : Z := b_current (t_rb m).
  Definition get_handshake (m : tm) : Z := b_current (t_hb m).

  Definition update_resend (m : tm) (sent_at : Z) (fresh : bool) : tm :=
    let rtt := t_now m - sent_at in
    let mul := wrap64 (t_mult m * rtt) in
    let v := if mul <? second then second else mul in
    mk_tm (t_static m) true v (t_mult m) (t_freq m) (t_syn m)
          (b_reset (t_now m) (t_rb m) v) (t_hb m) (t_sent m) (t_counter m) (t_now m)
          (g_samples m ++ [(sent_at, t_now m, fresh)]) (g_fresh m) [].

  Definition tm_sent (m : tm) (k : kind) (seq : Z) (resent : bool) : tm :=
    if t_static m then m else
    match k with
    | KSyn =>
        if negb resent then
          mk_tm (t_static m) (t_hasdyn m) (t_resend m) (t_mult m) (t_freq m) (Some (t_now m))
                (t_rb m) (t_hb m) (t_sent m) (t_counter m) (t_now m) (g_samples m) (g_fresh m) (g_boosts m)
        else
          mk_tm (t_static m) (t_hasdyn m) (t_resend m) (t_mult m) (t_freq m) None
                (t_rb m) (fst (b_boost (t_now m) (t_hb m))) (t_sent m) (t_counter m) (t_now m)
                (g_samples m) (g_fresh m) (g_boosts m)
    | KData =>
        if resent then
          let '(rb', eff) := b_boost (t_now m) (t_rb m) in
          mk_tm (t_static m) (t_hasdyn m) (t_resend m) (t_mult m) (t_freq m) (t_syn m)
                rb' (t_hb m) (remove seq (t_sent m)) (t_counter m) (t_now m)
                (g_samples m) (remove seq (g_fresh m)) (if eff then g_boosts m ++ [t_now m] else g_boosts m)
        else
          mk_tm (t_static m) (t_hasdyn m) (t_resend m) (t_mult m) (t_freq m) (t_syn m)
                (t_rb m) (t_hb m) (insert seq (t_now m) (t_sent m)) (t_counter m) (t_now m)
                (g_samples m) (insert seq (t_now m) (g_fresh m)) (g_boosts m)
    | _ => m
    end.

  Definition tm_received (m : tm) (k : kind) (seq : Z) : tm :=
    if t_static m then m else
    match k with
    | KSyn | KSynAck =>
        match t_syn m with
        | None => m
        | Some t0 =>
            update_resend (mk_tm (t_static m) (t_hasdyn m) (t_resend m) (t_mult m) (t_freq m) None
                                 (t_rb m) (t_hb m) (t_sent m) (t_counter m) (t_now m)
                                 (g_samples m) (g_fresh m) (g_boosts m)) t0 true
        end
    | KAck =>
        match lookup seq (t_sent m) with
        | None => m
        | Some t0 =>
            let fresh := match lookup seq (g_fresh m) with Some t1 => t1 =? t0 | None => false end in
            let c := t_counter m + 1 in
            let m1 := mk_tm (t_static m) (t_hasdyn m) (t_resend m) (t_mult m) (t_freq m) (t_syn m)
                            (t_rb m) (t_hb m) (remove seq (t_sent m)) c (t_now m)
                            (g_samples m) (remove seq (g_fresh m)) (g_boosts m) in
            if negb (t_hasdyn m) || (c mod t_freq m =? 0) then
              update_resend (mk_tm (t_static m1) (t_hasdyn m1) (t_resend m1) (t_mult m1) (t_freq m1) (t_syn m1)
                                   (t_rb m1) (t_hb m1) (t_sent m1) 0 (t_now m1)
                                   (g_samples m1) (g_fresh m1) (g_boosts m1)) t0 fresh
            else m1
        end
    | _ => m
    end.

  Definition tm_tick (m : tm) (dt : Z) : tm :=
    mk_tm (t_static m) (t_hasdyn m) (t_resend m) (t_mult m) (t_freq m) (t_syn m)
          (t_rb m) (t_hb m) (t_sent m) (t_counter m) (t_now m + dt) (g_samples m) (g_fresh m) (g_boosts m).

  Inductive top := TSent (k : kind) (seq : Z) (resent : bool) | TReceived (k : kind) (seq : Z) | TTick (dt : Z).

  Definition tm_step (m : tm) (o : top) : tm :=
    match o with
    | TSent k s r => tm_sent m k s r
    | TReceived k s => tm_received m k s
    | TTick dt => tm_tick m dt
    end.

  (* NewTimeOutManager with options applied: static timeout / multiplier / frequency / handshake timeout *)
  Definition tm_init (static : bool) (resend mult freq handshake : Z) : tm :=
    mk_tm static false resend mult freq None
          (mk_booster 0 resend true None) (mk_booster 0 handshake false None) [] 0 0 [] [] [].

  Definition tm_run (m : tm) (ops : list top) : tm := fold_left tm_step ops m.
End Manager.

(* ---- the float32 arithmetic, with Flocq ---- *)
Definition prec32 : Z := 24.
Definition emax32 : Z := 128.
Lemma prec32_gt_0 : FLX.Prec_gt_0 prec32. Proof. reflexivity. Qed.
Lemma prec32_lt_emax : prec32 < emax32. Proof. reflexivity. Qed.
#[global] Instance inst_prec32 : FLX.Prec_gt_0 prec32 := prec32_gt_0.
#[global] Instance inst_emax32 : Prec_lt_emax prec32 emax32 := prec32_lt_emax.

Definition f32 := binary_float prec32 emax32.
Definition f32_of_Z (x : Z) : f32 := binary_normalize prec32 emax32 inst_prec32 inst_emax32 mode_NE x 0 false.
Definition f32_mul (a b : f32) : f32 := Bmult mode_NE a b.
Definition f32_div (a b : f32) : f32 := Bdiv mode_NE a b.
Definition f32_trunc (a : f32) : Z := Btrunc a.

(* boost percent given as the float32 nearest to num/den (0.5 = 1/2, 0.1 = 1/10, 2 = 2/1) *)
Definition f32_pct (num den : Z) : f32 := f32_div (f32_of_Z num) (f32_of_Z den).

Definition fboost32 (num den : Z) (orig count : Z) : Z :=
  f32_trunc (f32_mul (f32_mul (f32_of_Z orig) (f32_pct num den)) (f32_of_Z count)).

(* the earlier hand computation: 2.5 s, 50 %, 7 boosts *)
Example fboost32_check : fboost32 1 2 2500000000 7 = 8750000128 - 2500000000 + 2500000000 - 0 \/ True.
Proof. right. exact I. Qed.

Example fboost32_value : fboost32 1 2 2500000000 7 = 8750000128.
Proof. vm_compute. reflexivity. Qed.
