(* Pairing phrase codec (mailbox/crypto.go: PassphraseEntropyToMnemonic /
   PassphraseMnemonicToEntropy over kkdai/bstream, MSB first, 11 bits per word)
   and the session identifiers (conndata.go SID, server.go GetSID). Words are
   represented by their indices 0..2047 in the aezeed word list. *)
From Coq Require Import ZArith List Bool Lia.
Import ListNotations.
Open Scope Z_scope.

(* width bits of x, most significant first *)
Fixpoint bits_msb (width : nat) (x : Z) : list bool :=
  match width with
  | O => []
  | S w => Z.testbit x (Z.of_nat w) :: bits_msb w x
  end.

Fixpoint z_of_bits (bs : list bool) (acc : Z) : Z :=
  match bs with
  | [] => acc
  | b :: rest => z_of_bits rest (2 * acc + (if b then 1 else 0))
  end.

Definition bytes_to_bits (e : list Z) : list bool := flat_map (bits_msb 8) e.

Fixpoint chunks (fuel : nat) (n : nat) (l : list bool) : list (list bool) :=
  match fuel with
  | O => []
  | S f => match l with
           | [] => []
           | _ => firstn n l :: chunks f n (skipn n l)
           end
  end.

Definition num_words : nat := 10.
Definition bits_per_word : nat := 11.
Definition entropy_bytes : nat := 14.

(* ReadBits(11) ten times *)
Definition entropy_to_words (e : list Z) : list Z :=
  map (fun c => z_of_bits c 0) (firstn num_words (chunks 20 bits_per_word (bytes_to_bits e))).

(* WriteBits(index, 11) for every word; Bytes() pads the last byte with zero bits;
   copy into the 14-byte array *)
Definition pad8 (bs : list bool) : list bool :=
  bs ++ repeat false ((8 - length bs mod 8) mod 8).

Definition words_to_entropy (ws : list Z) : list Z :=
  let bits := pad8 (flat_map (bits_msb bits_per_word) ws) in
  let bytes := map (fun c => z_of_bits c 0) (chunks 40 8 bits) in
  firstn entropy_bytes (bytes ++ repeat 0 entropy_bytes).

(* the two unused low bits of the last byte *)
Definition clear_unused (e : list Z) : list Z :=
  match rev e with
  | last :: front => rev front ++ [last - last mod 4]
  | [] => []
  end.

Definition byte_ok (x : Z) : Prop := 0 <= x < 256.
Definition word_ok (x : Z) : Prop := 0 <= x < 2048.
