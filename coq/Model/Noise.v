(* The Noise record layer of mailbox/noise.go (cipherState, WriteMessage,
   Flush, ReadHeader/ReadBody) and the stream adapters built on it
   (NoiseGrpcConn.Read/Write, NoiseConn.Read/Write, connKit.Read), over an
   IDEAL AEAD: ciphertext bytes are tagged with the operation that produced
   them, and a ciphertext opens under (direction, operation) iff it is exactly
   the bytes that operation produced. *)
From Coq Require Import ZArith List Bool Lia.
Import ListNotations.
Open Scope Z_scope.

Definition len {A} (l : list A) : Z := Z.of_nat (length l).

(* ---- cipher state schedule: (key index, nonce) ---- *)
Definition rotation : Z := 1000.
Definition kn := (Z * Z)%type.
(* Encrypt / Decrypt: use (key, nonce), then nonce++ and rotate when it reaches 1000 *)
Definition kn_next (s : kn) : kn :=
  let '(i, c) := s in if c + 1 =? rotation then (i + 1, 0) else (i, c + 1).
Fixpoint kn_iter (m : nat) (s : kn) : kn :=
  match m with O => s | S m' => kn_next (kn_iter m' s) end.
Definition kn_of (m : Z) : kn := (m / rotation, m mod rotation).

(* ---- ideal AEAD with tagged ciphertext bytes ---- *)
Inductive wbyte :=
  | Honest (dir : bool) (op : Z) (off : Z)   (* byte `off` of the ciphertext of operation `op` of direction `dir` *)
  | Junk.                                    (* anything else (altered, injected) *)

Definition wbyte_eqb (a b : wbyte) : bool :=
  match a, b with
  | Honest d1 o1 f1, Honest d2 o2 f2 => Bool.eqb d1 d2 && (o1 =? o2) && (f1 =? f2)
  | _, _ => false   (* Junk never equals the honest byte it stands next to *)
  end.

Fixpoint tags_from (dir : bool) (op : Z) (off : Z) (n : nat) : list wbyte :=
  match n with O => [] | S n' => Honest dir op off :: tags_from dir op (off + 1) n' end.

Definition mac : Z := 16.
(* ciphertext of a plaintext of length L sealed by operation `op` *)
Definition seal_tags (dir : bool) (op : Z) (L : Z) : list wbyte := tags_from dir op 0 (Z.to_nat (L + mac)).

Fixpoint wlist_eqb (a b : list wbyte) : bool :=
  match a, b with
  | [], [] => true
  | x :: a', y :: b' => wbyte_eqb x y && wlist_eqb a' b'
  | _, _ => false
  end.

(* what the writer of direction `dir` sealed at each operation: 2k = length header of record k, 2k+1 = its body *)
Definition be16 (x : Z) : list Z := [(x / 256) mod 256; x mod 256].
Definition plain_of (recs : list (list Z)) (op : Z) : option (list Z) :=
  match nth_error recs (Z.to_nat (op / 2)) with
  | None => None
  | Some p => if op <? 0 then None else if op mod 2 =? 0 then Some (be16 (len p)) else Some p
  end.

(* open: succeeds iff the presented bytes are exactly operation `op`'s ciphertext *)
Definition open_ideal (dir : bool) (recs : list (list Z)) (op : Z) (c : list wbyte) : option (list Z) :=
  match plain_of recs op with
  | Some p => if wlist_eqb c (seal_tags dir op (len p)) then Some p else None
  | None => None
  end.

(* ---- writer ---- *)
Definition record_tags (dir : bool) (k : Z) (p : list Z) : list wbyte :=
  seal_tags dir (2 * k) 2 ++ seal_tags dir (2 * k + 1) (len p).

Fixpoint writer_stream_from (dir : bool) (k : Z) (recs : list (list Z)) : list wbyte :=
  match recs with
  | [] => []
  | p :: rest => record_tags dir k p ++ writer_stream_from dir (k + 1) rest
  end.
Definition writer_stream (dir : bool) (recs : list (list Z)) : list wbyte := writer_stream_from dir 0 recs.

(* ---- reader (ReadMessage = ReadHeader + ReadBody), one failure is final ---- *)
Inductive rres := ROk (p : list Z) | RErrMac | RErrShort.

Record reader := mk_reader { r_op : Z; r_failed : bool }.

Definition take {A} (n : Z) (l : list A) : option (list A * list A) :=
  if len l <? n then None else Some (firstn (Z.to_nat n) l, skipn (Z.to_nat n) l).

(* returns the result, the new reader state and the unread input *)
Definition read_message (dir : bool) (recs : list (list Z)) (r : reader) (input : list wbyte)
  : rres * reader * list wbyte :=
  if r_failed r then (RErrMac, r, input) else
  match take 18 input with
  | None => (RErrShort, mk_reader (r_op r) true, [])
  | Some (hdr, rest) =>
      match open_ideal dir recs (r_op r) hdr with
      | None => (RErrMac, mk_reader (r_op r + 1) true, rest)
      | Some lenb =>
          let L := match lenb with [hi; lo] => hi * 256 + lo | _ => 0 end in
          match take (L + mac) rest with
          | None => (RErrShort, mk_reader (r_op r + 1) true, [])
          | Some (body, rest') =>
              match open_ideal dir recs (r_op r + 1) body with
              | None => (RErrMac, mk_reader (r_op r + 2) true, rest')
              | Some p => (ROk p, mk_reader (r_op r + 2) false, rest')
              end
          end
      end
  end.

Fixpoint read_all (fuel : nat) (dir : bool) (recs : list (list Z)) (r : reader) (input : list wbyte) : list rres :=
  match fuel with
  | O => []
  | S f =>
      let '(res, r', rest) := read_message dir recs r input in
      res :: match res with
             | RErrShort => []
             | _ => read_all f dir recs r' rest
             end
  end.

(* ---- a transport that fails transiently (a read deadline, a malformed relay message) ----
   The reader's input arrives in segments; at the end of each segment the transport returns an
   error and the application retries its Read on the next one (net.Conn permits that after a
   timeout). An error with nothing of the next record consumed leaves the reader as it was; an
   error inside a record (header or body partly consumed) is final, as any other failure. *)
Definition read_message_t (dir : bool) (recs : list (list Z)) (r : reader) (input : list wbyte)
  : rres * reader * list wbyte :=
  if r_failed r then (RErrMac, r, input) else
  match input with
  | [] => (RErrShort, r, [])
  | _ => read_message dir recs r input
  end.

Fixpoint read_segs (fuel : nat) (dir : bool) (recs : list (list Z)) (r : reader)
  (cur : list wbyte) (more : list (list wbyte)) : list rres :=
  match fuel with
  | O => []
  | S f =>
      let '(res, r', rest) := read_message_t dir recs r cur in
      res :: match res with
             | RErrShort => match more with
                            | [] => []
                            | s :: more' => read_segs f dir recs r' s more'
                            end
             | _ => read_segs f dir recs r' rest more
             end
  end.

Definition oks (l : list rres) : list (list Z) :=
  flat_map (fun r => match r with ROk p => [p] | _ => [] end) l.

(* ---- stream adapters ---- *)

(* NoiseGrpcConn.Read: at most 32 KiB per call, the rest of the record is kept *)
Definition grpc_cap : Z := 32768.
Definition zmin3 (a b c : Z) : Z := Z.min a (Z.min b c).

(* state: pending bytes of the current record; source: remaining records *)
Definition grpc_read (pending : list Z) (src : list (list Z)) (bufsize : Z)
  : list Z * list Z * list (list Z) :=
  match pending with
  | _ :: _ =>
      let n := Z.min bufsize (len pending) in
      (firstn (Z.to_nat n) pending, skipn (Z.to_nat n) pending, src)
  | [] =>
      match src with
      | [] => ([], [], [])
      | m :: rest =>
          let n := zmin3 bufsize grpc_cap (len m) in
          (firstn (Z.to_nat n) m, skipn (Z.to_nat n) m, rest)
      end
  end.

(* NoiseConn.Read / connKit.Read: bytes.Buffer refilled with the next non-empty record *)
Fixpoint drop_empty (src : list (list Z)) : list (list Z) :=
  match src with [] :: rest => drop_empty rest | _ => src end.

Definition buf_read (pending : list Z) (src : list (list Z)) (bufsize : Z)
  : list Z * list Z * list (list Z) :=
  match pending with
  | _ :: _ =>
      let n := Z.min bufsize (len pending) in
      (firstn (Z.to_nat n) pending, skipn (Z.to_nat n) pending, src)
  | [] =>
      match drop_empty src with
      | [] => ([], [], [])
      | m :: rest =>
          let n := Z.min bufsize (len m) in
          (firstn (Z.to_nat n) m, skipn (Z.to_nat n) m, rest)
      end
  end.

(* a sequence of Read calls with the given buffer sizes *)
Fixpoint reads (rd : list Z -> list (list Z) -> Z -> list Z * list Z * list (list Z))
               (pending : list Z) (src : list (list Z)) (sizes : list Z) : list (list Z) :=
  match sizes with
  | [] => []
  | b :: rest =>
      let '(out, pending', src') := rd pending src b in
      out :: reads rd pending' src' rest
  end.

(* NoiseConn.Write: a write larger than one record is cut into 65535-byte records *)
Definition max_record : Z := 65535.
Fixpoint chunk_fuel (fuel : nat) (b : list Z) : list (list Z) :=
  match fuel with
  | O => []
  | S f =>
      if len b <=? max_record then [b]
      else firstn (Z.to_nat max_record) b :: chunk_fuel f (skipn (Z.to_nat max_record) b)
  end.
Definition tcp_write_records (b : list Z) : list (list Z) := chunk_fuel (S (length b)) b.
(* NoiseGrpcConn.Write: rejected when larger than one record *)
Definition grpc_write_records (b : list Z) : option (list (list Z)) :=
  if max_record <? len b then None else Some [b].

(* ---- Flush: partial writes separated by timeout errors ---- *)
Record pendingw := mk_pendingw { pw_hdr : list wbyte; pw_body : list wbyte }.

(* the writer accepts `acc` bytes of what it is offered (error iff fewer than offered) *)
Definition offer (acc : Z) (data : list wbyte) : Z := Z.max 0 (Z.min acc (len data)).

(* one Flush call against a writer that accepts at most acc1 bytes in the header
   write and acc2 in the body write; returns (emitted bytes, plaintext count nn, error?, new state) *)
Definition flush (st : pendingw) (acc1 acc2 : Z) : list wbyte * Z * bool * pendingw :=
  let h := pw_hdr st in
  let n1 := match h with [] => 0 | _ => offer acc1 h end in
  let h' := skipn (Z.to_nat n1) h in
  let out1 := firstn (Z.to_nat n1) h in
  match h' with
  | _ :: _ => (out1, 0, true, mk_pendingw h' (pw_body st))
  | [] =>
      let b := pw_body st in
      match b with
      | [] => (out1, 0, false, mk_pendingw [] [])
      | _ =>
          let n2 := offer acc2 b in
          let b' := skipn (Z.to_nat n2) b in
          let start := len b in
          let stop := len b' in
          let nn := if (mac <? start) && (stop <=? mac) then n2 - (mac - stop)
                    else if (mac <? start) && (mac <? stop) then n2 else 0 in
          (out1 ++ firstn (Z.to_nat n2) b, nn, negb (len b' =? 0), mk_pendingw [] b')
      end
  end.

(* repeated Flush until nothing is pending (fuel = number of calls allowed) *)
Fixpoint flush_all (st : pendingw) (accs : list (Z * Z)) : list wbyte * Z * pendingw :=
  match accs with
  | [] => ([], 0, st)
  | (a1, a2) :: rest =>
      let '(out, nn, _, st') := flush st a1 a2 in
      let '(out', nn', st'') := flush_all st' rest in
      (out ++ out', nn + nn', st'')
  end.

Definition pending_nonempty (st : pendingw) : bool :=
  match pw_hdr st, pw_body st with [], [] => false | _, _ => true end.

(* ---- reads from a fragmenting transport: io.ReadFull over short reads ---- *)
(* a transport delivers the stream in chunks; Read(k) returns at most the rest of the current chunk *)
Fixpoint read_full_fuel (fuel : nat) (k : Z) (chunks : list (list Z)) (acc : list Z)
  : option (list Z * list (list Z)) :=
  match fuel with
  | O => None
  | S f =>
      if k <=? 0 then Some (acc, chunks) else
      match chunks with
      | [] => None
      | c :: rest =>
          if len c <=? k then read_full_fuel f (k - len c) rest (acc ++ c)
          else Some (acc ++ firstn (Z.to_nat k) c, skipn (Z.to_nat k) c :: rest)
      end
  end.
Definition read_full (k : Z) (chunks : list (list Z)) : option (list Z * list (list Z)) :=
  read_full_fuel (S (length chunks)) k chunks [].
