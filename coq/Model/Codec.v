(* Hand-written glue over the generated codecs: Go's dynamic dispatch of
   Message.Serialize, and the way mailbox callers use MsgData.Deserialize
   (on a freshly constructed NewMsgData(ProtocolVersion, nil)). *)
From LNC Require Import GoLite MessagesGen MsgDataGen.
Open Scope Z_scope.

Definition Message_Serialize (m : Message) : res (option (list Z)) :=
  match m with
  | Message_PacketData v => PacketData_Serialize v
  | Message_PacketACK v => PacketACK_Serialize v
  | Message_PacketSYN v => PacketSYN_Serialize v
  | Message_PacketNACK v => PacketNACK_Serialize v
  | Message_PacketFIN v => PacketFIN_Serialize v
  | Message_PacketSYNACK v => PacketSYNACK_Serialize v
  end.

(* NewMsgData(version, nil) *)
Definition NewMsgData (version : Z) (payload : list Z) : MsgData := mk_MsgData version payload.

(* connKit.Read: data := NewMsgData(ProtocolVersion, nil); data.Deserialize(b) *)
Definition MsgData_decode (b : list Z) : res (option MsgData) :=
  '(m, err) <- MsgData_Deserialize (NewMsgData 0 []) b ;;
  Ok (if err then None else Some m).
