(* Extraction of the executable models to OCaml for the correspondence runs.
   ExtrOcamlBasic only (bool, option, list, prod, unit, sumbool mapped to the
   OCaml types); Z / positive / N / nat stay the extracted inductive types. *)
From Coq Require Import Extraction ExtrOcamlBasic.
From LNC Require Noise Sym Pairing GbnTimed Session Reconnect.
From LNC Require Import GoLite MessagesGen QueueGen SyncerGen MsgDataGen SidGen Codec Gbn GbnMonitor GbnHandshake Timeout.

Extraction Language OCaml.
Set Extraction KeepSingleton.

Extraction "lnc_model.ml"
  Deserialize Message_Serialize MsgData_Serialize MsgData_decode MsgData_Deserialize
  containsSequence queue_size queue_addPacket queue_processACK queue_processNACK
  syncer_initResendUpTo GetSID
  dstep drun dinit mstep minit mrun split_msg
  classify s_observe c_observe s_obs_init c_obs_init hstep hrun hinit
  tm_step tm_init get_resend get_handshake fboost32
  Noise.kn_iter Noise.kn_of Noise.read_all Noise.read_segs Noise.writer_stream Noise.reads Noise.grpc_read Noise.buf_read
  Noise.tcp_write_records Noise.grpc_write_records Noise.flush Noise.flush_all Noise.read_full Noise.seal_tags
  Sym.run Sym.mk_init Sym.mk_resp Sym.faithful Sym.term_eqb Sym.completed
  Pairing.entropy_to_words Pairing.words_to_entropy
  GbnTimed.kstep GbnTimed.pstep
  Session.sstep Session.sinit Reconnect.crun.
