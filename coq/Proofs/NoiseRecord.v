(* Proofs about the Noise record layer model (Model/Noise.v):
   C08 (key/nonce schedule, no reuse, lock-step round trip) and
   C02 (the reader only ever returns a prefix of what the writer sealed;
        a failure is final; first deviation is an error; cross-direction). *)
From Coq Require Import ZArith List Bool Lia.
From LNC Require Import Noise.
Import ListNotations.
Open Scope Z_scope.

Definition is_prefix {A} (a b : list A) : Prop := exists t, b = a ++ t.
Definition wf (recs : list (list Z)) : Prop := Forall (fun p => len p <= 65535) recs.

(* ------------------------------------------------------------------ *)
(* generic list helpers                                                *)
(* ------------------------------------------------------------------ *)

Lemma len_nonneg : forall A (l : list A), 0 <= len l.
Proof. intros; unfold len; lia. Qed.

Lemma len_app : forall A (a b : list A), len (a ++ b) = len a + len b.
Proof. intros; unfold len; rewrite app_length; lia. Qed.

Lemma NoDup_app_intro : forall A (a b : list A),
  NoDup a -> NoDup b -> (forall x, In x a -> ~ In x b) -> NoDup (a ++ b).
Proof.
  induction a as [|x a IH]; intros b Ha Hb Hd; cbn [app]; [assumption|].
  inversion Ha as [|? ? Hx Ha']; subst.
  constructor.
  - intro Hin. apply in_app_or in Hin. destruct Hin as [Hin|Hin]; [contradiction|].
    apply (Hd x); [left; reflexivity | assumption].
  - apply IH; [assumption | assumption |].
    intros y Hy. apply Hd. right; assumption.
Qed.

Lemma skipn_nth : forall A (l : list A) k p,
  nth_error l k = Some p -> skipn k l = p :: skipn (S k) l.
Proof.
  induction l as [|x l IH]; intros [|k] p H; cbn in H; try discriminate.
  - injection H as ->. reflexivity.
  - cbn [skipn]. rewrite (IH k p H). reflexivity.
Qed.

Lemma nth_error_lt_some : forall A (l : list A) k,
  (k < length l)%nat -> exists p, nth_error l k = Some p.
Proof.
  intros A l k H. destruct (nth_error l k) eqn:E; [eauto|].
  apply nth_error_None in E. lia.
Qed.

(* injection simplifies Z terms such as 2 * k; these do not *)
Lemma triple_inj : forall A B C (a a' : A) (b b' : B) (c c' : C),
  (a, b, c) = (a', b', c') -> a = a' /\ b = b' /\ c = c'.
Proof. intros A B C a a' b b' c c' H. injection H; auto. Qed.

Lemma take_spec : forall A n (l a b : list A), take n l = Some (a, b) -> l = a ++ b.
Proof.
  unfold take; intros A n l a b H. destruct (len l <? n); [discriminate|].
  injection H as <- <-. symmetry; apply firstn_skipn.
Qed.

Lemma take_len : forall A n (l a b : list A), 0 <= n -> take n l = Some (a, b) -> len a = n.
Proof.
  unfold take; intros A n l a b Hn H. destruct (Z.ltb_spec (len l) n); [discriminate|].
  injection H as <- <-. unfold len in *. rewrite firstn_length. lia.
Qed.

Lemma take_app : forall A n (a b : list A), len a = n -> take n (a ++ b) = Some (a, b).
Proof.
  intros A n a b H. unfold take.
  destruct (Z.ltb_spec (len (a ++ b)) n) as [Hlt|_].
  - rewrite len_app in Hlt. pose proof (len_nonneg _ b). lia.
  - assert (E : Z.to_nat n = length a) by (unfold len in H; lia).
    rewrite E, firstn_app, skipn_app, Nat.sub_diag, firstn_all, skipn_all.
    cbn [firstn skipn app]. rewrite app_nil_r. reflexivity.
Qed.

Lemma take_nil_pos : forall A n, 0 < n -> take n (@nil A) = None.
Proof.
  intros A n H. unfold take. destruct (Z.ltb_spec (len (@nil A)) n) as [_|Hge]; [reflexivity|].
  unfold len in Hge; cbn in Hge; lia.
Qed.

(* ------------------------------------------------------------------ *)
(* C08.1 / C08.2 : the (key, nonce) schedule                           *)
(* ------------------------------------------------------------------ *)

Lemma kn_next_of : forall m, kn_next (kn_of m) = kn_of (m + 1).
Proof.
  intros m. unfold kn_next, kn_of, rotation.
  destruct (Z.eqb_spec (m mod 1000 + 1) 1000) as [E|E]; f_equal;
    Z.div_mod_to_equations; lia.
Qed.

Theorem kn_iter_spec : forall m : nat, kn_iter m (0, 0) = kn_of (Z.of_nat m).
Proof.
  induction m as [|m IH].
  - reflexivity.
  - cbn [kn_iter]. rewrite IH, kn_next_of. f_equal; f_equal; lia.
Qed.

(* the hypotheses 0 <= m, 0 <= m' are not needed; kept as in the statement *)
Lemma kn_of_inj_gen : forall m m', kn_of m = kn_of m' -> m = m'.
Proof.
  intros m m' H. unfold kn_of, rotation in H. injection H as Hq Hr.
  pose proof (Z.div_mod m 1000). pose proof (Z.div_mod m' 1000). lia.
Qed.

Theorem kn_of_inj : forall m m', 0 <= m -> 0 <= m' -> kn_of m = kn_of m' -> m = m'.
Proof. intros m m' _ _. apply kn_of_inj_gen. Qed.

(* consequence: two different operations never share a (key, nonce) pair *)
Corollary kn_iter_inj : forall a b : nat, kn_iter a (0, 0) = kn_iter b (0, 0) -> a = b.
Proof.
  intros a b H. rewrite !kn_iter_spec in H. apply kn_of_inj_gen in H. lia.
Qed.

(* ------------------------------------------------------------------ *)
(* tags                                                                *)
(* ------------------------------------------------------------------ *)

Lemma tags_from_length : forall dir op n off, length (tags_from dir op off n) = n.
Proof. induction n as [|n IH]; intros off; cbn [tags_from length]; [reflexivity|]. rewrite IH; reflexivity. Qed.

Lemma In_tags_from : forall dir op n off b,
  In b (tags_from dir op off n) -> exists o, b = Honest dir op o /\ off <= o < off + Z.of_nat n.
Proof.
  induction n as [|n IH]; intros off b H; cbn [tags_from] in H.
  - destruct H.
  - destruct H as [<-|H].
    + exists off. split; [reflexivity | lia].
    + apply IH in H. destruct H as (o & -> & Ho). exists o. split; [reflexivity | lia].
Qed.

Lemma NoDup_tags_from : forall dir op n off, NoDup (tags_from dir op off n).
Proof.
  induction n as [|n IH]; intros off; cbn [tags_from]; constructor.
  - intro H. apply In_tags_from in H. destruct H as (o & E & Ho). injection E as E. lia.
  - apply IH.
Qed.

Lemma seal_tags_len : forall dir op L, 0 <= L -> len (seal_tags dir op L) = L + mac.
Proof.
  intros dir op L HL. unfold seal_tags, len. rewrite tags_from_length. unfold mac. lia.
Qed.

Lemma In_seal_tags : forall dir op L b,
  In b (seal_tags dir op L) -> exists o, b = Honest dir op o.
Proof.
  intros dir op L b H. apply In_tags_from in H. destruct H as (o & -> & _). eauto.
Qed.

Lemma seal_tags_hd : forall dir op L, 0 <= L ->
  exists t, seal_tags dir op L = Honest dir op 0 :: t.
Proof.
  intros dir op L HL. unfold seal_tags.
  destruct (Z.to_nat (L + mac)) as [|n] eqn:E.
  - unfold mac in E. lia.
  - cbn [tags_from]. eauto.
Qed.

Lemma In_record_tags : forall dir k p b,
  In b (record_tags dir k p) -> exists op o, b = Honest dir op o /\ 2 * k <= op <= 2 * k + 1.
Proof.
  intros dir k p b H. unfold record_tags in H. apply in_app_or in H.
  destruct H as [H|H]; apply In_seal_tags in H; destruct H as (o & ->).
  - exists (2 * k), o. split; [reflexivity | lia].
  - exists (2 * k + 1), o. split; [reflexivity | lia].
Qed.

Lemma In_writer_stream_from : forall dir recs k b,
  In b (writer_stream_from dir k recs) -> exists op o, b = Honest dir op o /\ 2 * k <= op.
Proof.
  induction recs as [|p recs IH]; intros k b H; cbn [writer_stream_from] in H.
  - destruct H.
  - apply in_app_or in H. destruct H as [H|H].
    + apply In_record_tags in H. destruct H as (op & o & -> & Hop). exists op, o. split; [reflexivity | lia].
    + apply IH in H. destruct H as (op & o & -> & Hop). exists op, o. split; [reflexivity | lia].
Qed.

(* ------------------------------------------------------------------ *)
(* C08.3 : everything the writer emits is sealed in its own direction  *)
(* ------------------------------------------------------------------ *)

Theorem writer_all_sealed : forall dir recs,
  Forall (fun b => exists op off, b = Honest dir op off) (writer_stream dir recs).
Proof.
  intros dir recs. apply Forall_forall. intros b H.
  apply In_writer_stream_from in H. destruct H as (op & o & -> & _). eauto.
Qed.

(* ------------------------------------------------------------------ *)
(* C08.4 : no (operation, offset) is ever produced twice               *)
(* ------------------------------------------------------------------ *)

Lemma NoDup_record_tags : forall dir k p, NoDup (record_tags dir k p).
Proof.
  intros dir k p. unfold record_tags, seal_tags. apply NoDup_app_intro.
  - apply NoDup_tags_from.
  - apply NoDup_tags_from.
  - intros x Hx Hy. apply In_tags_from in Hx. apply In_tags_from in Hy.
    destruct Hx as (o & -> & _). destruct Hy as (o' & E & _). injection E as E _. lia.
Qed.

Lemma NoDup_writer_stream_from : forall dir recs k, NoDup (writer_stream_from dir k recs).
Proof.
  induction recs as [|p recs IH]; intros k; cbn [writer_stream_from].
  - constructor.
  - apply NoDup_app_intro; [apply NoDup_record_tags | apply IH |].
    intros x Hx Hy. apply In_record_tags in Hx. apply In_writer_stream_from in Hy.
    destruct Hx as (op & o & -> & Hop). destruct Hy as (op' & o' & E & Hop').
    injection E as E _. lia.
Qed.

Theorem writer_nodup : forall dir recs, NoDup (writer_stream dir recs).
Proof. intros; apply NoDup_writer_stream_from. Qed.

(* ------------------------------------------------------------------ *)
(* C08.5 : equal plaintexts at different positions give different ciphertexts *)
(* ------------------------------------------------------------------ *)

Lemma record_tags_hd : forall dir k p, exists t, record_tags dir k p = Honest dir (2 * k) 0 :: t.
Proof.
  intros dir k p. unfold record_tags.
  destruct (seal_tags_hd dir (2 * k) 2) as (t & ->); [lia|].
  cbn [app]. eauto.
Qed.

Theorem equal_plaintexts_distinct : forall dir k k' p,
  0 <= k -> 0 <= k' -> k <> k' -> record_tags dir k p <> record_tags dir k' p.
Proof.
  intros dir k k' p _ _ Hne H.
  destruct (record_tags_hd dir k p) as (t & E). destruct (record_tags_hd dir k' p) as (t' & E').
  rewrite E, E' in H.
  apply (f_equal (fun l => match l with Honest _ op _ :: _ => op | _ => 0 end)) in H.
  cbv beta iota in H. lia.
Qed.

(* ------------------------------------------------------------------ *)
(* ideal AEAD facts                                                    *)
(* ------------------------------------------------------------------ *)

Lemma wbyte_eqb_eq : forall a b, wbyte_eqb a b = true -> a = b.
Proof.
  intros [d1 o1 f1|] [d2 o2 f2|] H; cbn [wbyte_eqb] in H; try discriminate.
  apply andb_prop in H. destruct H as [H Hf]. apply andb_prop in H. destruct H as [Hd Ho].
  apply eqb_prop in Hd. apply Z.eqb_eq in Ho. apply Z.eqb_eq in Hf. subst. reflexivity.
Qed.

Lemma wbyte_eqb_honest_refl : forall d o f, wbyte_eqb (Honest d o f) (Honest d o f) = true.
Proof. intros. cbn [wbyte_eqb]. rewrite eqb_reflx, !Z.eqb_refl. reflexivity. Qed.

Lemma wlist_eqb_eq : forall a b, wlist_eqb a b = true -> a = b.
Proof.
  induction a as [|x a IH]; intros [|y b] H; cbn [wlist_eqb] in H; try discriminate; [reflexivity|].
  apply andb_prop in H. destruct H as [Hx Hr]. apply wbyte_eqb_eq in Hx. apply IH in Hr. subst. reflexivity.
Qed.

Lemma wlist_eqb_tags_refl : forall d o n f, wlist_eqb (tags_from d o f n) (tags_from d o f n) = true.
Proof.
  induction n as [|n IH]; intros f; cbn [tags_from wlist_eqb]; [reflexivity|].
  rewrite wbyte_eqb_honest_refl, IH. reflexivity.
Qed.

Lemma open_ideal_inv : forall dir recs op c p,
  open_ideal dir recs op c = Some p -> plain_of recs op = Some p /\ c = seal_tags dir op (len p).
Proof.
  intros dir recs op c p H. unfold open_ideal in H.
  destruct (plain_of recs op) as [q|]; [|discriminate].
  destruct (wlist_eqb c (seal_tags dir op (len q))) eqn:E; [|discriminate].
  injection H as ->. apply wlist_eqb_eq in E. auto.
Qed.

Lemma open_ideal_honest : forall dir recs op p,
  plain_of recs op = Some p -> open_ideal dir recs op (seal_tags dir op (len p)) = Some p.
Proof.
  intros dir recs op p H. unfold open_ideal. rewrite H.
  unfold seal_tags. rewrite wlist_eqb_tags_refl. reflexivity.
Qed.

Lemma even_div : forall k, (2 * k) / 2 = k.
Proof. intros; Z.div_mod_to_equations; lia. Qed.
Lemma even_mod : forall k, (2 * k) mod 2 = 0.
Proof. intros; Z.div_mod_to_equations; lia. Qed.
Lemma odd_div : forall k, (2 * k + 1) / 2 = k.
Proof. intros; Z.div_mod_to_equations; lia. Qed.
Lemma odd_mod : forall k, (2 * k + 1) mod 2 = 1.
Proof. intros; Z.div_mod_to_equations; lia. Qed.

Lemma plain_of_even : forall recs k p,
  nth_error recs k = Some p -> plain_of recs (2 * Z.of_nat k) = Some (be16 (len p)).
Proof.
  intros recs k p H. unfold plain_of. rewrite even_div, Nat2Z.id, H, even_mod.
  destruct (Z.ltb_spec (2 * Z.of_nat k) 0); [lia | reflexivity].
Qed.

Lemma plain_of_odd : forall recs k p,
  nth_error recs k = Some p -> plain_of recs (2 * Z.of_nat k + 1) = Some p.
Proof.
  intros recs k p H. unfold plain_of. rewrite odd_div, Nat2Z.id, H, odd_mod.
  destruct (Z.ltb_spec (2 * Z.of_nat k + 1) 0); [lia | reflexivity].
Qed.

Lemma plain_of_even_inv : forall recs k q,
  plain_of recs (2 * Z.of_nat k) = Some q -> exists p, nth_error recs k = Some p /\ q = be16 (len p).
Proof.
  intros recs k q H. unfold plain_of in H. rewrite even_div, Nat2Z.id, even_mod in H.
  destruct (nth_error recs k) as [p|]; [|discriminate].
  destruct (2 * Z.of_nat k <? 0); [discriminate|].
  injection H as <-. eauto.
Qed.

Lemma plain_of_odd_inv : forall recs k q,
  plain_of recs (2 * Z.of_nat k + 1) = Some q -> nth_error recs k = Some q.
Proof.
  intros recs k q H. unfold plain_of in H. rewrite odd_div, Nat2Z.id, odd_mod in H.
  destruct (nth_error recs k) as [p|]; [|discriminate].
  destruct (2 * Z.of_nat k + 1 <? 0); [discriminate|].
  injection H as <-. reflexivity.
Qed.

(* the 2-byte big-endian length header decodes to the length it encodes *)
Definition decode_len (lenb : list Z) : Z :=
  match lenb with [hi; lo] => hi * 256 + lo | _ => 0 end.

Lemma be16_decode : forall x, 0 <= x <= 65535 -> decode_len (be16 x) = x.
Proof.
  intros x Hx. unfold decode_len, be16.
  Z.div_mod_to_equations. lia.
Qed.

Lemma be16_len : forall x, len (be16 x) = 2.
Proof. reflexivity. Qed.

(* ------------------------------------------------------------------ *)
(* one honest read                                                     *)
(* ------------------------------------------------------------------ *)

Lemma read_all_S : forall f dir recs r input,
  read_all (S f) dir recs r input =
  let '(res, r', rest) := read_message dir recs r input in
  res :: match res with RErrShort => [] | _ => read_all f dir recs r' rest end.
Proof. reflexivity. Qed.

Lemma read_message_unfold : forall dir recs op input,
  read_message dir recs (mk_reader op false) input =
  match take 18 input with
  | None => (RErrShort, mk_reader op true, [])
  | Some (hdr, rest) =>
      match open_ideal dir recs op hdr with
      | None => (RErrMac, mk_reader (op + 1) true, rest)
      | Some lenb =>
          match take (decode_len lenb + mac) rest with
          | None => (RErrShort, mk_reader (op + 1) true, [])
          | Some (body, rest') =>
              match open_ideal dir recs (op + 1) body with
              | None => (RErrMac, mk_reader (op + 2) true, rest')
              | Some p => (ROk p, mk_reader (op + 2) false, rest')
              end
          end
      end
  end.
Proof. reflexivity. Qed.

Lemma read_message_honest : forall dir recs k p rest,
  nth_error recs k = Some p -> len p <= 65535 ->
  read_message dir recs (mk_reader (2 * Z.of_nat k) false) (record_tags dir (Z.of_nat k) p ++ rest)
  = (ROk p, mk_reader (2 * Z.of_nat (S k)) false, rest).
Proof.
  intros dir recs k p rest Hn Hlen.
  pose proof (len_nonneg _ p) as Hp0.
  rewrite read_message_unfold. unfold record_tags. rewrite <- app_assoc.
  rewrite (take_app _ 18) by (rewrite seal_tags_len by lia; reflexivity).
  assert (O1 : open_ideal dir recs (2 * Z.of_nat k) (seal_tags dir (2 * Z.of_nat k) 2)
               = Some (be16 (len p)))
    by exact (open_ideal_honest dir recs _ _ (plain_of_even recs k p Hn)).
  rewrite O1.
  rewrite be16_decode by lia.
  rewrite (take_app _ (len p + mac)) by (apply seal_tags_len; lia).
  rewrite (open_ideal_honest dir recs _ _ (plain_of_odd recs k p Hn)).
  f_equal. f_equal. f_equal. lia.
Qed.

(* ------------------------------------------------------------------ *)
(* C08.6 : round trip, lock-step operation index                       *)
(* ------------------------------------------------------------------ *)

Lemma wf_nth : forall recs k p, wf recs -> nth_error recs k = Some p -> len p <= 65535.
Proof.
  intros recs k p Hwf Hn. unfold wf in Hwf. rewrite Forall_forall in Hwf.
  apply Hwf. eapply nth_error_In; eassumption.
Qed.

Lemma roundtrip_from : forall dir recs, wf recs -> forall n k,
  length recs = (k + n)%nat ->
  read_all (S n) dir recs (mk_reader (2 * Z.of_nat k) false)
           (writer_stream_from dir (Z.of_nat k) (skipn k recs))
  = map ROk (skipn k recs) ++ [RErrShort].
Proof.
  intros dir recs Hwf. induction n as [|n IH]; intros k Hlen.
  - rewrite skipn_all2 by lia. cbn [writer_stream_from map app].
    rewrite read_all_S, read_message_unfold, take_nil_pos by lia. reflexivity.
  - destruct (nth_error_lt_some _ recs k) as (p & Hp); [lia|].
    rewrite (skipn_nth _ _ _ _ Hp). cbn [writer_stream_from map app].
    rewrite read_all_S, (read_message_honest dir recs k p _ Hp (wf_nth _ _ _ Hwf Hp)).
    cbv beta iota zeta. f_equal.
    replace (Z.of_nat k + 1) with (Z.of_nat (S k)) by lia.
    apply IH. lia.
Qed.

Theorem roundtrip : forall dir recs, wf recs ->
  read_all (S (length recs)) dir recs (mk_reader 0 false) (writer_stream dir recs)
  = map ROk recs ++ [RErrShort].
Proof.
  intros dir recs Hwf. apply (roundtrip_from dir recs Hwf (length recs) 0%nat). reflexivity.
Qed.

(* ------------------------------------------------------------------ *)
(* C02 : what a read can return                                        *)
(* ------------------------------------------------------------------ *)

Lemma oks_cons_ok : forall p l, oks (ROk p :: l) = p :: oks l.
Proof. reflexivity. Qed.
Lemma oks_cons_mac : forall l, oks (RErrMac :: l) = oks l.
Proof. reflexivity. Qed.
Lemma oks_cons_short : forall l, oks (RErrShort :: l) = oks l.
Proof. reflexivity. Qed.
Lemma oks_app : forall a b, oks (a ++ b) = oks a ++ oks b.
Proof. intros; unfold oks; apply flat_map_app. Qed.

Lemma read_message_failed : forall dir recs r input,
  r_failed r = true -> read_message dir recs r input = (RErrMac, r, input).
Proof. intros dir recs r input H. unfold read_message. rewrite H. reflexivity. Qed.

(* a failed reader never returns a record again *)
Lemma oks_failed : forall dir recs fuel r input,
  r_failed r = true -> oks (read_all fuel dir recs r input) = [].
Proof.
  induction fuel as [|f IH]; intros r input H; [reflexivity|].
  rewrite read_all_S, read_message_failed by assumption. cbv beta iota zeta.
  rewrite oks_cons_mac. apply IH; assumption.
Qed.

(* any non-Ok result leaves the reader failed *)
Lemma read_message_fail_final : forall dir recs r input res r' rest,
  read_message dir recs r input = (res, r', rest) -> (forall p, res <> ROk p) -> r_failed r' = true.
Proof.
  intros dir recs r input res r' rest H Hno.
  destruct (r_failed r) eqn:Hf.
  - rewrite read_message_failed in H by assumption. injection H as _ <- _. assumption.
  - destruct r as [op fl]. cbn [r_failed] in Hf. subst fl.
    rewrite read_message_unfold in H.
    destruct (take 18 input) as [[hdr rest1]|]; [|injection H as _ <- _; reflexivity].
    destruct (open_ideal dir recs op hdr) as [lenb|]; [|injection H as _ <- _; reflexivity].
    destruct (take (decode_len lenb + mac) rest1) as [[body rest2]|]; [|injection H as _ <- _; reflexivity].
    destruct (open_ideal dir recs (op + 1) body) as [p|]; [|injection H as _ <- _; reflexivity].
    injection H as <- _ _. exfalso. eapply Hno. reflexivity.
Qed.

(* a successful read at operation 2k: returns record k, consumed exactly its
   ciphertext, moves to operation 2(k+1) *)
Lemma read_message_ok_inv : forall dir recs k input p r' rest,
  read_message dir recs (mk_reader (2 * Z.of_nat k) false) input = (ROk p, r', rest) ->
  nth_error recs k = Some p /\ r' = mk_reader (2 * Z.of_nat (S k)) false
  /\ input = record_tags dir (Z.of_nat k) p ++ rest.
Proof.
  intros dir recs k input p r' rest H.
  rewrite read_message_unfold in H.
  destruct (take 18 input) as [[hdr rest1]|] eqn:T1; [|discriminate].
  destruct (open_ideal dir recs (2 * Z.of_nat k) hdr) as [lenb|] eqn:O1; [|discriminate].
  destruct (take (decode_len lenb + mac) rest1) as [[body rest2]|] eqn:T2; [|discriminate].
  destruct (open_ideal dir recs (2 * Z.of_nat k + 1) body) as [q|] eqn:O2; [|discriminate].
  apply triple_inj in H. destruct H as (Hq & <- & <-).
  assert (q = p) by congruence. subst q. clear Hq.
  apply take_spec in T1. apply take_spec in T2.
  apply open_ideal_inv in O1. destruct O1 as [P1 ->].
  apply open_ideal_inv in O2. destruct O2 as [P2 ->].
  apply plain_of_odd_inv in P2. apply plain_of_even_inv in P1.
  destruct P1 as (p0 & Hp0 & ->). rewrite P2 in Hp0. injection Hp0 as <-.
  split; [assumption|]. split; [f_equal; lia|].
  subst input rest1. unfold record_tags. rewrite be16_len, <- app_assoc. reflexivity.
Qed.

Lemma read_message_cases : forall dir recs k input res r' rest,
  read_message dir recs (mk_reader (2 * Z.of_nat k) false) input = (res, r', rest) ->
  (exists p, res = ROk p /\ nth_error recs k = Some p /\ r' = mk_reader (2 * Z.of_nat (S k)) false
             /\ input = record_tags dir (Z.of_nat k) p ++ rest)
  \/ ((forall p, res <> ROk p) /\ r_failed r' = true).
Proof.
  intros dir recs k input res r' rest H.
  destruct res as [p| |].
  - left. exists p. apply read_message_ok_inv in H. tauto.
  - right. split; [intros; discriminate|].
    eapply read_message_fail_final; [eassumption | intros; discriminate].
  - right. split; [intros; discriminate|].
    eapply read_message_fail_final; [eassumption | intros; discriminate].
Qed.

(* ------------------------------------------------------------------ *)
(* C02.7 : the records returned are always a prefix of the records sealed *)
(* ------------------------------------------------------------------ *)

Lemma is_prefix_nil : forall A (l : list A), is_prefix [] l.
Proof. intros; exists l; reflexivity. Qed.

Lemma is_prefix_cons : forall A (x : A) a b, is_prefix a b -> is_prefix (x :: a) (x :: b).
Proof. intros A x a b [t ->]. exists t. reflexivity. Qed.

Lemma is_prefix_skipn : forall A (a l : list A) k, is_prefix a (skipn k l) -> is_prefix (firstn k l ++ a) l.
Proof.
  intros A a l k [t E]. exists t. rewrite <- app_assoc, <- E. symmetry; apply firstn_skipn.
Qed.

(* invariant: from operation 2k the Oks are a prefix of the records from k on.
   (wf is not needed for this direction.) *)
Lemma prefix_from : forall dir recs fuel k input,
  is_prefix (oks (read_all fuel dir recs (mk_reader (2 * Z.of_nat k) false) input)) (skipn k recs).
Proof.
  intros dir recs. induction fuel as [|f IH]; intros k input.
  - apply is_prefix_nil.
  - rewrite read_all_S.
    destruct (read_message dir recs (mk_reader (2 * Z.of_nat k) false) input) as [[res r'] rest] eqn:E.
    destruct (read_message_cases _ _ _ _ _ _ _ E) as [(p & -> & Hn & -> & _) | [Hno Hf]].
    + rewrite oks_cons_ok, (skipn_nth _ _ _ _ Hn). apply is_prefix_cons. apply IH.
    + destruct res as [p| |].
      * exfalso. eapply Hno; reflexivity.
      * rewrite oks_cons_mac, oks_failed by assumption. apply is_prefix_nil.
      * apply is_prefix_nil.
Qed.

Theorem prefix_always : forall dir recs input fuel, wf recs ->
  is_prefix (oks (read_all fuel dir recs (mk_reader 0 false) input)) recs.
Proof.
  intros dir recs input fuel _. apply (prefix_from dir recs fuel 0%nat input).
Qed.

(* ------------------------------------------------------------------ *)
(* C02.7t : the same with a transport that fails transiently and a reader that retries *)
(* ------------------------------------------------------------------ *)

Lemma read_segs_S : forall f dir recs r cur more,
  read_segs (S f) dir recs r cur more =
  let '(res, r', rest) := read_message_t dir recs r cur in
  res :: match res with
         | RErrShort => match more with [] => [] | s :: more' => read_segs f dir recs r' s more' end
         | _ => read_segs f dir recs r' rest more
         end.
Proof. reflexivity. Qed.

Lemma read_message_t_failed : forall dir recs r input,
  r_failed r = true -> read_message_t dir recs r input = (RErrMac, r, input).
Proof. intros dir recs r input H. unfold read_message_t. rewrite H. reflexivity. Qed.

Lemma oks_segs_failed : forall dir recs fuel r cur more,
  r_failed r = true -> oks (read_segs fuel dir recs r cur more) = [].
Proof.
  induction fuel as [|f IH]; intros r cur more H; [reflexivity|].
  rewrite read_segs_S, read_message_t_failed by assumption. cbv beta iota zeta.
  rewrite oks_cons_mac. apply IH; assumption.
Qed.

Lemma prefix_segs_from : forall dir recs fuel k cur more,
  is_prefix (oks (read_segs fuel dir recs (mk_reader (2 * Z.of_nat k) false) cur more)) (skipn k recs).
Proof.
  intros dir recs. induction fuel as [|f IH]; intros k cur more.
  - apply is_prefix_nil.
  - rewrite read_segs_S. unfold read_message_t. cbn [r_failed].
    destruct cur as [|b cur'].
    + rewrite oks_cons_short. destruct more as [|s more']; [apply is_prefix_nil | apply IH].
    + destruct (read_message dir recs (mk_reader (2 * Z.of_nat k) false) (b :: cur')) as [[res r'] rest] eqn:E.
      destruct (read_message_cases _ _ _ _ _ _ _ E) as [(p & -> & Hn & -> & _) | [Hno Hf]].
      * rewrite oks_cons_ok, (skipn_nth _ _ _ _ Hn). apply is_prefix_cons. apply IH.
      * destruct res as [p| |].
        -- exfalso. eapply Hno; reflexivity.
        -- rewrite oks_cons_mac, oks_segs_failed by assumption. apply is_prefix_nil.
        -- rewrite oks_cons_short. destruct more as [|s more'].
           ++ apply is_prefix_nil.
           ++ rewrite oks_segs_failed by assumption. apply is_prefix_nil.
Qed.

Theorem prefix_always_transient : forall dir recs seg segs fuel, wf recs ->
  is_prefix (oks (read_segs fuel dir recs (mk_reader 0 false) seg segs)) recs.
Proof.
  intros dir recs seg segs fuel _. apply (prefix_segs_from dir recs fuel 0%nat seg segs).
Qed.

(* without the latch (an error inside a record leaves the reader usable) the claim is false: the
   reader takes the body of a 2-byte record for a header. Stated over the model of such a reader. *)
Definition read_message_nolatch (dir : bool) (recs : list (list Z)) (r : reader) (input : list wbyte)
  : rres * reader * list wbyte :=
  let '(res, r', rest) := read_message_t dir recs r input in
  match res with
  | RErrShort => (res, mk_reader (r_op r') false, rest)
  | _ => (res, r', rest)
  end.

Fixpoint read_segs_nolatch (fuel : nat) (dir : bool) (recs : list (list Z)) (r : reader)
  (cur : list wbyte) (more : list (list wbyte)) : list rres :=
  match fuel with
  | O => []
  | S f =>
      let '(res, r', rest) := read_message_nolatch dir recs r cur in
      res :: match res with
             | RErrShort => match more with
                            | [] => []
                            | s :: more' => read_segs_nolatch f dir recs r' s more'
                            end
             | _ => read_segs_nolatch f dir recs r' rest more
             end
  end.

Definition nolatch_recs : list (list Z) := [[0; 2]; [104; 101; 108; 108; 111]].
Definition nolatch_segs : list (list wbyte) :=
  [firstn 18 (writer_stream true nolatch_recs); skipn 18 (writer_stream true nolatch_recs)].

Theorem transient_without_latch_refuted :
  wf nolatch_recs /\
  oks (read_segs_nolatch 4 true nolatch_recs (mk_reader 0 false) [] nolatch_segs) = [[0; 5]] /\
  ~ is_prefix (oks (read_segs_nolatch 4 true nolatch_recs (mk_reader 0 false) [] nolatch_segs)) nolatch_recs.
Proof.
  assert (E : oks (read_segs_nolatch 4 true nolatch_recs (mk_reader 0 false) [] nolatch_segs) = [[0; 5]])
    by (vm_compute; reflexivity).
  split; [|split; [exact E|]].
  - unfold wf, nolatch_recs. repeat constructor; vm_compute; discriminate.
  - rewrite E. intros [t Ht]. discriminate Ht.
Qed.

(* ------------------------------------------------------------------ *)
(* C02.8 : nothing is returned after an error                          *)
(* ------------------------------------------------------------------ *)

Theorem no_ok_after_error : forall dir recs fuel r input l1 e l2,
  read_all fuel dir recs r input = l1 ++ e :: l2 -> (forall p, e <> ROk p) -> oks l2 = [].
Proof.
  intros dir recs. induction fuel as [|f IH]; intros r input l1 e l2 H Hno.
  - cbn [read_all] in H. destruct l1; discriminate.
  - rewrite read_all_S in H.
    destruct (read_message dir recs r input) as [[res r'] rest] eqn:E.
    destruct l1 as [|x l1]; cbn [app] in H.
    + injection H as -> H.
      pose proof (read_message_fail_final _ _ _ _ _ _ _ E Hno) as Hf.
      destruct e as [p| |].
      * exfalso. eapply Hno; reflexivity.
      * rewrite <- H. apply oks_failed; assumption.
      * rewrite <- H. reflexivity.
    + injection H as _ H.
      destruct res as [p| |].
      * eapply IH; eassumption.
      * eapply IH; eassumption.
      * destruct l1; discriminate.
Qed.

(* ------------------------------------------------------------------ *)
(* C02.10 : bytes of the other direction (or junk) never open          *)
(* ------------------------------------------------------------------ *)

Definition foreign (dir : bool) (b : wbyte) : Prop :=
  match b with Honest d _ _ => d = negb dir | Junk => True end.

Lemma read_message_foreign : forall dir recs r input res r' rest,
  Forall (foreign dir) input ->
  read_message dir recs r input = (res, r', rest) -> forall p, res <> ROk p.
Proof.
  intros dir recs r input res r' rest Hin H p ->.
  destruct (r_failed r) eqn:Hf.
  - rewrite read_message_failed in H by assumption. discriminate.
  - destruct r as [op fl]. cbn [r_failed] in Hf. subst fl.
    rewrite read_message_unfold in H.
    destruct (take 18 input) as [[hdr rest1]|] eqn:T1; [|discriminate].
    destruct (open_ideal dir recs op hdr) as [lenb|] eqn:O1; [|discriminate].
    apply take_spec in T1. apply open_ideal_inv in O1. destruct O1 as [_ ->].
    destruct (seal_tags_hd dir op (len lenb) (len_nonneg _ _)) as (t & Et).
    rewrite Et in T1. subst input. cbn [app] in Hin.
    inversion Hin as [|? ? Hb _]; subst. cbn [foreign] in Hb. destruct dir; discriminate.
Qed.

Theorem cross_direction : forall dir recs input fuel,
  Forall (fun b => match b with Honest d _ _ => d = negb dir | Junk => True end) input ->
  oks (read_all fuel dir recs (mk_reader 0 false) input) = [].
Proof.
  intros dir recs input [|f] Hin; [reflexivity|].
  rewrite read_all_S.
  destruct (read_message dir recs (mk_reader 0 false) input) as [[res r'] rest] eqn:E.
  pose proof (read_message_foreign _ _ _ _ _ _ _ Hin E) as Hno.
  pose proof (read_message_fail_final _ _ _ _ _ _ _ E Hno) as Hf.
  destruct res as [p| |].
  - exfalso. eapply Hno; reflexivity.
  - rewrite oks_cons_mac. apply oks_failed; assumption.
  - reflexivity.
Qed.

(* ------------------------------------------------------------------ *)
(* C02.9 : the first deviation from the honest stream is an error      *)
(* ------------------------------------------------------------------ *)

(* (a) a read at operation 2k on input that does not start with the
       ciphertext of record k never returns Ok (wf not needed) *)
Lemma read_deviation_not_ok : forall dir recs k input res r' rest,
  (forall p, nth_error recs k = Some p -> ~ is_prefix (record_tags dir (Z.of_nat k) p) input) ->
  read_message dir recs (mk_reader (2 * Z.of_nat k) false) input = (res, r', rest) ->
  forall q, res <> ROk q.
Proof.
  intros dir recs k input res r' rest Hdev H q ->.
  apply read_message_ok_inv in H. destruct H as (Hn & _ & Ein).
  apply (Hdev q Hn). exists rest. assumption.
Qed.

Lemma oks_deviation : forall dir recs k input fuel,
  (forall p, nth_error recs k = Some p -> ~ is_prefix (record_tags dir (Z.of_nat k) p) input) ->
  oks (read_all fuel dir recs (mk_reader (2 * Z.of_nat k) false) input) = [].
Proof.
  intros dir recs k input [|f] Hdev; [reflexivity|].
  rewrite read_all_S.
  destruct (read_message dir recs (mk_reader (2 * Z.of_nat k) false) input) as [[res r'] rest] eqn:E.
  pose proof (read_deviation_not_ok _ _ _ _ _ _ _ Hdev E) as Hno.
  pose proof (read_message_fail_final _ _ _ _ _ _ _ E Hno) as Hf.
  destruct res as [p| |].
  - exfalso. eapply Hno; reflexivity.
  - rewrite oks_cons_mac. apply oks_failed; assumption.
  - reflexivity.
Qed.

Lemma first_deviation_from : forall dir recs tail, wf recs -> forall k j fuel,
  (j + k <= length recs)%nat ->
  (forall p, nth_error recs (j + k) = Some p -> ~ is_prefix (record_tags dir (Z.of_nat (j + k)) p) tail) ->
  oks (read_all fuel dir recs (mk_reader (2 * Z.of_nat j) false)
         (writer_stream_from dir (Z.of_nat j) (firstn k (skipn j recs)) ++ tail))
  = firstn (Nat.min k fuel) (skipn j recs).
Proof.
  intros dir recs tail Hwf. induction k as [|k IH]; intros j fuel Hle Hdev.
  - cbn [firstn writer_stream_from app Nat.min]. rewrite Nat.add_0_r in Hdev.
    apply oks_deviation; assumption.
  - destruct (nth_error_lt_some _ recs j) as (p & Hp); [lia|].
    rewrite (skipn_nth _ _ _ _ Hp). cbn [firstn writer_stream_from].
    destruct fuel as [|f]; [reflexivity|].
    rewrite <- app_assoc, read_all_S, (read_message_honest dir recs j p _ Hp (wf_nth _ _ _ Hwf Hp)).
    cbv beta iota zeta. rewrite oks_cons_ok. cbn [Nat.min firstn]. f_equal.
    replace (Z.of_nat j + 1) with (Z.of_nat (S j)) by lia.
    apply IH; [lia|].
    replace (S j + k)%nat with (j + S k)%nat by lia. assumption.
Qed.

Theorem first_deviation_errors : forall dir recs k tail fuel, wf recs -> (k <= length recs)%nat ->
  (forall p, nth_error recs k = Some p -> ~ is_prefix (record_tags dir (Z.of_nat k) p) tail) ->
  oks (read_all fuel dir recs (mk_reader 0 false) (writer_stream dir (firstn k recs) ++ tail))
  = firstn (Nat.min k fuel) recs.
Proof.
  intros dir recs k tail fuel Hwf Hle Hdev.
  apply (first_deviation_from dir recs tail Hwf k 0%nat fuel); assumption.
Qed.

(* ------------------------------------------------------------------ *)
(* non-vacuity checks by computation                                   *)
(* ------------------------------------------------------------------ *)

Example roundtrip_ex :
  read_all 3 true [[1; 2; 3]; []] (mk_reader 0 false) (writer_stream true [[1; 2; 3]; []])
  = [ROk [1; 2; 3]; ROk []; RErrShort].
Proof. vm_compute. reflexivity. Qed.

(* one altered byte in the second record: the first record is returned, then
   an error, then nothing *)
Example tamper_ex :
  let s := writer_stream true [[1; 2; 3]; [4]; [5]] in
  let s' := firstn 40 s ++ Junk :: skipn 41 s in
  read_all 5 true [[1; 2; 3]; [4]; [5]] (mk_reader 0 false) s'
  = [ROk [1; 2; 3]; RErrMac; RErrMac; RErrMac; RErrMac].
Proof. vm_compute. reflexivity. Qed.

(* key rotation: operation 999 is the last use of key 0, operation 1000 uses key 1 nonce 0 *)
Example rotation_ex : kn_iter 999 (0, 0) = (0, 999) /\ kn_iter 1000 (0, 0) = (1, 0) /\ kn_iter 2001 (0, 0) = (2, 1).
Proof. vm_compute. repeat split; reflexivity. Qed.

Print Assumptions kn_iter_spec.
Print Assumptions kn_of_inj.
Print Assumptions writer_all_sealed.
Print Assumptions writer_nodup.
Print Assumptions equal_plaintexts_distinct.
Print Assumptions roundtrip.
Print Assumptions prefix_always.
Print Assumptions no_ok_after_error.
Print Assumptions first_deviation_errors.
Print Assumptions cross_direction.
