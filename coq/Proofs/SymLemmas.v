(* Basic facts about the symbolic Noise model (Model/Sym.v). *)
From Coq Require Import ZArith List Bool Lia.
From LNC Require Import Sym.
Import ListNotations.
Open Scope Z_scope.

Lemma zl_eqb_eq : forall a b, zl_eqb a b = true <-> a = b.
Proof.
  induction a as [|x a IH]; destruct b as [|y b]; simpl; split; intro H; try congruence; try discriminate.
  - apply andb_true_iff in H. destruct H as [H1 H2]. apply Z.eqb_eq in H1. apply IH in H2. congruence.
  - inversion H; subst. apply andb_true_iff. split; [apply Z.eqb_refl | apply IH; reflexivity].
Qed.

Lemma term_eqb_refl : forall a, term_eqb a a = true.
Proof.
  induction a; simpl; rewrite ?IHa, ?IHa1, ?IHa2, ?IHa3, ?Z.eqb_refl; simpl; auto.
  - apply zl_eqb_eq; reflexivity.
  - destruct kk; reflexivity.
Qed.

Lemma term_eqb_true : forall a b, term_eqb a b = true -> a = b.
Proof.
  induction a; intros t H; destruct t; simpl in H; try discriminate; try reflexivity;
    repeat match goal with
           | H : _ && _ = true |- _ => apply andb_true_iff in H; destruct H
           end;
    repeat match goal with
           | IH : forall b, term_eqb ?a b = true -> ?a = b, H : term_eqb ?a _ = true |- _ =>
               apply IH in H
           | H : (_ =? _) = true |- _ => apply Z.eqb_eq in H
           | H : zl_eqb _ _ = true |- _ => apply zl_eqb_eq in H
           | H : Bool.eqb _ _ = true |- _ => apply Bool.eqb_prop in H
           end; subst; reflexivity.
Qed.

Theorem term_eqb_eq : forall a b, term_eqb a b = true <-> a = b.
Proof.
  split; [apply term_eqb_true | intros ->; apply term_eqb_refl].
Qed.

Lemma term_eqb_neq : forall a b, term_eqb a b = false <-> a <> b.
Proof.
  intros a b; split.
  - intros H E; subst. rewrite term_eqb_refl in H; discriminate.
  - intros H. destruct (term_eqb a b) eqn:E; auto. apply term_eqb_true in E; contradiction.
Qed.

Lemma decrypt_inv : forall s c s' p,
  decrypt_and_hash s c = Some (s', p) ->
  c = Seal (key s) (nonce s) (hd s) p /\ s' = mk_sym (Hash (hd s) c) (ck s) (key s) (nonce s + 1).
Proof.
  intros s c s' p H. unfold decrypt_and_hash in H.
  destruct c; try discriminate.
  destruct (term_eqb c1 (key s) && (n =? nonce s) && term_eqb c2 (hd s)) eqn:E; try discriminate.
  apply andb_true_iff in E; destruct E as [E E3].
  apply andb_true_iff in E; destruct E as [E1 E2].
  apply term_eqb_true in E1, E3. apply Z.eqb_eq in E2. subst.
  inversion H; subst. auto.
Qed.

Lemma decrypt_own : forall s p,
  decrypt_and_hash s (Seal (key s) (nonce s) (hd s) p) =
  Some (mk_sym (Hash (hd s) (Seal (key s) (nonce s) (hd s) p)) (ck s) (key s) (nonce s + 1), p).
Proof.
  intros. unfold decrypt_and_hash. rewrite !term_eqb_refl, Z.eqb_refl. reflexivity.
Qed.

Lemma decrypt_some_iff : forall s k n ad p,
  decrypt_and_hash s (Seal k n ad p) <> None <-> (k = key s /\ n = nonce s /\ ad = hd s).
Proof.
  intros; split.
  - destruct (decrypt_and_hash s (Seal k n ad p)) as [[s' q]|] eqn:E; [|congruence].
    intros _. apply decrypt_inv in E. destruct E as [E _]. inversion E; auto.
  - intros (-> & -> & ->). rewrite decrypt_own. discriminate.
Qed.

Lemma unmask_mask : forall p pw, unmask (Mask p pw) pw = p.
Proof. intros. unfold unmask. rewrite term_eqb_refl. reflexivity. Qed.

Lemma unmask_mask_neq : forall p pw pw', pw <> pw' -> unmask (Mask p pw) pw' = Unmask (Mask p pw) pw'.
Proof.
  intros. unfold unmask. destruct (term_eqb pw' pw) eqn:E; auto.
  apply term_eqb_true in E. congruence.
Qed.

Lemma dh_priv_pub : forall a b,
  dh (Priv a) (Pub (Priv b)) = DH (Priv (Z.min a b)) (Priv (Z.max a b)).
Proof.
  intros. unfold dh. destruct (a <=? b) eqn:E.
  - apply Z.leb_le in E. rewrite Z.min_l, Z.max_r by lia. reflexivity.
  - apply Z.leb_gt in E. rewrite Z.min_r, Z.max_l by lia. reflexivity.
Qed.

Lemma dh_comm : forall a b, dh (Priv a) (Pub (Priv b)) = dh (Priv b) (Pub (Priv a)).
Proof. intros. rewrite !dh_priv_pub, Z.min_comm, Z.max_comm. reflexivity. Qed.

Theorem dh_normal_form : forall a b a' b',
  dh (Priv a) (Pub (Priv b)) = dh (Priv a') (Pub (Priv b')) ->
  (a = a' /\ b = b') \/ (a = b' /\ b = a').
Proof.
  intros a b a' b' H. rewrite !dh_priv_pub in H. inversion H. lia.
Qed.

(* dh with a point that is not Pub (Priv _) is a DHx term; never equal to a DH term *)
Lemma dh_is_DH_inv : forall x pt u v, dh x pt = DH u v -> exists a b, x = Priv a /\ pt = Pub (Priv b).
Proof.
  intros x pt u v H. unfold dh in H.
  destruct x; try discriminate. destruct pt; try discriminate. destruct pt; try discriminate.
  eauto.
Qed.

Lemma dh_eq_priv_inv : forall a b x pt,
  dh (Priv a) (Pub (Priv b)) = dh x pt -> exists a' b', x = Priv a' /\ pt = Pub (Priv b').
Proof.
  intros a b x pt H. rewrite dh_priv_pub in H. symmetry in H. eapply dh_is_DH_inv; eauto.
Qed.

(* free algebra: constructors injective / distinct (samples; `congruence`/`injection` give all) *)
Lemma Seal_inj : forall k n ad p k' n' ad' p',
  Seal k n ad p = Seal k' n' ad' p' -> k = k' /\ n = n' /\ ad = ad' /\ p = p'.
Proof. intros. inversion H; auto. Qed.
Lemma Hash_inj : forall h x h' x', Hash h x = Hash h' x' -> h = h' /\ x = x'.
Proof. intros. inversion H; auto. Qed.
Lemma Hkdf2_inj : forall h x h' x', Hkdf2 h x = Hkdf2 h' x' -> h = h' /\ x = x'.
Proof. intros. inversion H; auto. Qed.
Lemma Hkdf1_inj : forall h x h' x', Hkdf1 h x = Hkdf1 h' x' -> h = h' /\ x = x'.
Proof. intros. inversion H; auto. Qed.
Lemma Pub_inj : forall a b, Pub a = Pub b -> a = b.
Proof. intros. inversion H; auto. Qed.
Lemma Priv_inj : forall a b, Priv a = Priv b -> a = b.
Proof. intros. inversion H; auto. Qed.
Lemma Hkdf1_Hkdf2_distinct : forall a b c d, Hkdf1 a b <> Hkdf2 c d.
Proof. intros; discriminate. Qed.
Lemma Hkdf2_ZeroKey_distinct : forall a b, Hkdf2 a b <> ZeroKey.
Proof. intros; discriminate. Qed.
Lemma Unmask_Pub_distinct : forall a b c, Unmask a b <> Pub c.
Proof. intros; discriminate. Qed.

(* ------------------------------------------------------------------ *)
(* keep the group operations and the term comparison folded under cbn/simpl *)
Arguments dh : simpl never.
Arguments unmask : simpl never.
Arguments term_eqb : simpl never.
Arguments decrypt_and_hash : simpl never.

Lemma decrypt_mk : forall h c k n p,
  decrypt_and_hash (mk_sym h c k n) (Seal k n h p) = Some (mk_sym (Hash h (Seal k n h p)) c k (n + 1), p).
Proof. intros. apply (decrypt_own (mk_sym h c k n) p). Qed.

(* ---- fields preserved by the token processors ---- *)
Definition same_static (p p' : party) : Prop :=
  p_version p' = p_version p /\ p_init p' = p_init p /\ p_kk p' = p_kk p /\
  p_payload_len p' = p_payload_len p /\ p_payload p' = p_payload p /\
  p_min p' = p_min p /\ p_max p' = p_max p /\ p_static p' = p_static p /\ p_eph p' = p_eph p /\
  p_received p' = p_received p.

Lemma same_static_refl : forall p, same_static p p.
Proof. intros; unfold same_static; repeat split. Qed.

Lemma same_static_trans : forall p q r, same_static p q -> same_static q r -> same_static p r.
Proof.
  unfold same_static; intros p q r H1 H2.
  destruct H1 as (?&?&?&?&?&?&?&?&?&?), H2 as (?&?&?&?&?&?&?&?&?&?).
  repeat split; congruence.
Qed.

Lemma write_tokens_pres : forall ts p out p' out',
  write_tokens p ts out = Some (p', out') -> same_static p p' /\ exists o, out' = out ++ o.
Proof.
  induction ts as [|t ts IH]; intros p out p' out' H; simpl in H.
  - inversion H; subst. split; [apply same_static_refl | exists []; rewrite app_nil_r; reflexivity].
  - destruct t;
      try (destruct (dh_token p _) eqn:E; [|discriminate]);
      apply IH in H; destruct H as [S [o Ho]];
      (split; [eapply same_static_trans; [|exact S]; unfold same_static; repeat split
              | try (rewrite <- app_assoc in Ho); eauto]).
Qed.

Lemma read_tokens_pres : forall ts p fs p' rest,
  read_tokens p ts fs = Some (p', rest) -> same_static p p'.
Proof.
  induction ts as [|t ts IH]; intros p fs p' rest H; simpl in H.
  - inversion H; subst. apply same_static_refl.
  - destruct t.
    + destruct fs as [|f fs]; [discriminate|]. destruct (is_point f); [|discriminate].
      apply IH in H. eapply same_static_trans; [|exact H]. unfold same_static; repeat split.
    + destruct fs as [|f fs]; [discriminate|]. destruct (is_point f); [|discriminate].
      apply IH in H. eapply same_static_trans; [|exact H]. unfold same_static; repeat split.
    + destruct fs as [|f fs]; [discriminate|].
      destruct (decrypt_and_hash (p_sym p) f) as [[s' rs]|]; [|discriminate].
      destruct (is_point rs); [|discriminate].
      apply IH in H. eapply same_static_trans; [|exact H]. unfold same_static; repeat split.
    + destruct (dh_token p Tee); [|discriminate].
      apply IH in H. eapply same_static_trans; [|exact H]. unfold same_static; repeat split.
    + destruct (dh_token p Tes); [|discriminate].
      apply IH in H. eapply same_static_trans; [|exact H]. unfold same_static; repeat split.
    + destruct (dh_token p Tse); [|discriminate].
      apply IH in H. eapply same_static_trans; [|exact H]. unfold same_static; repeat split.
    + destruct (dh_token p Tss); [|discriminate].
      apply IH in H. eapply same_static_trans; [|exact H]. unfold same_static; repeat split.
Qed.

(* ---- inversion of write_act / read_act ---- *)
Definition seal_of (s : sym) (x : term) : term := Seal (key s) (nonce s) (hd s) x.
Definition after_seal (s : sym) (x : term) : sym :=
  mk_sym (Hash (hd s) (seal_of s x)) (ck s) (key s) (nonce s + 1).

Lemma encrypt_eq : forall s x, encrypt_and_hash s x = (after_seal s x, seal_of s x).
Proof. reflexivity. Qed.

Lemma decrypt_inv' : forall s c s' p,
  decrypt_and_hash s c = Some (s', p) -> c = seal_of s p /\ s' = after_seal s p.
Proof. intros. apply decrypt_inv in H. destruct H; subst. auto. Qed.

Lemma write_act_inv : forall p ts act p' m,
  write_act p ts act = Some (p', m) ->
  exists p1 out,
    write_tokens p ts [Lit [p_version p]] = Some (p1, out) /\
    let s := p_sym p1 in let v := p_version p in let pl := p_payload p in
    ( (act <> 2 /\ 0 <= v <= 2 /\ m = out ++ [seal_of s Empty] /\ p' = upd_sym p1 (after_seal s Empty)) \/
      (act = 2 /\ v = 0 /\ p_payload_len p <= 498 /\
         m = out ++ [seal_of s (V0Pad pl)] /\ p' = upd_sym p1 (after_seal s (V0Pad pl))) \/
      (act = 2 /\ 1 <= v <= 2 /\
         m = out ++ [seal_of s (Be32Len pl); seal_of (after_seal s (Be32Len pl)) pl] /\
         p' = upd_sym p1 (after_seal (after_seal s (Be32Len pl)) pl)) ).
Proof.
  intros p ts act p' m H. unfold write_act in H.
  destruct (write_tokens p ts [Lit [p_version p]]) as [[p1 out]|] eqn:W; [|discriminate].
  exists p1, out. split; [reflexivity|]. cbv zeta.
  rewrite !encrypt_eq in H. unfold act2_payload_max_v0 in H.
  destruct (p_version p =? 0) eqn:V0.
  - apply Z.eqb_eq in V0.
    destruct (act =? 2) eqn:A.
    + apply Z.eqb_eq in A. destruct (498 <? p_payload_len p) eqn:L; [discriminate|].
      apply Z.ltb_ge in L. inversion H; subst. right; left. repeat split; auto.
    + apply Z.eqb_neq in A. inversion H; subst. left. repeat split; auto; lia.
  - apply Z.eqb_neq in V0.
    destruct ((p_version p =? 1) || (p_version p =? 2)) eqn:V12; [|discriminate].
    assert (1 <= p_version p <= 2).
    { apply orb_true_iff in V12. destruct V12 as [E|E]; apply Z.eqb_eq in E; lia. }
    destruct (act =? 2) eqn:A.
    + apply Z.eqb_eq in A. inversion H; subst. right; right. repeat split; auto; lia.
    + apply Z.eqb_neq in A. inversion H; subst. left. repeat split; auto; lia.
Qed.

Lemma read_act_inv : forall p ts act fields p',
  read_act p ts act fields = Some p' ->
  exists v fs p1 rest,
    fields = Lit [v] :: fs /\
    (if (act =? 1) || (act =? 2) then (p_min p <=? v) && (v <=? p_max p) else v =? p_version p) = true /\
    read_tokens (if ((act =? 1) || (act =? 2)) && p_init p then upd_version p v else p) ts fs = Some (p1, rest) /\
    let s := p_sym p1 in
    ( (act <> 2 /\ 0 <= v <= 2 /\ rest = [seal_of s Empty] /\ p' = upd_sym p1 (after_seal s Empty)) \/
      (act = 2 /\ v = 0 /\ exists x, rest = [seal_of s (V0Pad x)] /\
         p' = upd_received (upd_sym p1 (after_seal s (V0Pad x))) (Some x)) \/
      (act = 2 /\ 1 <= v <= 2 /\ exists x,
         rest = [seal_of s (Be32Len x); seal_of (after_seal s (Be32Len x)) x] /\
         p' = upd_received (upd_sym p1 (after_seal (after_seal s (Be32Len x)) x)) (Some x)) ).
Proof.
  intros p ts act fields p' H. unfold read_act in H.
  destruct fields as [|f0 fs]; [discriminate|].
  destruct f0 as [l| | | | | | | | | | | | | | | | |]; try discriminate.
  destruct l as [|v l]; [discriminate|]. destruct l; [|discriminate].
  match type of H with (if negb ?b then _ else _) = _ => destruct b eqn:VOK end; [|discriminate].
  cbn [negb] in H.
  match type of H with match ?r with _ => _ end = _ => destruct r as [[p1 rest]|] eqn:RT end; [|discriminate].
  exists v, fs, p1, rest. split; [reflexivity|]. split; [exact VOK|]. split; [exact RT|]. cbv zeta.
  destruct (v =? 0) eqn:V0.
  - apply Z.eqb_eq in V0.
    destruct rest as [|c rest]; [discriminate|]. destruct rest; [|discriminate].
    destruct (decrypt_and_hash (p_sym p1) c) as [[s' pl]|] eqn:D; [|discriminate].
    apply decrypt_inv' in D. destruct D as [-> ->].
    destruct (act =? 2) eqn:A.
    + apply Z.eqb_eq in A. destruct pl; try discriminate. inversion H; subst.
      right; left. repeat split; auto. eexists; split; reflexivity.
    + apply Z.eqb_neq in A. destruct pl; try discriminate. inversion H; subst.
      left. repeat split; auto; lia.
  - apply Z.eqb_neq in V0.
    destruct ((v =? 1) || (v =? 2)) eqn:V12; [|discriminate].
    assert (1 <= v <= 2).
    { apply orb_true_iff in V12. destruct V12 as [E|E]; apply Z.eqb_eq in E; lia. }
    destruct (act =? 2) eqn:A.
    + apply Z.eqb_eq in A.
      destruct rest as [|c1 rest]; [discriminate|]. destruct rest as [|c2 rest]; [discriminate|].
      destruct rest; [|discriminate].
      destruct (decrypt_and_hash (p_sym p1) c1) as [[s1 pl1]|] eqn:D1; [|discriminate].
      apply decrypt_inv' in D1. destruct D1 as [-> ->].
      destruct pl1; try discriminate.
      destruct (decrypt_and_hash _ c2) as [[s2 pl2]|] eqn:D2; [|discriminate].
      apply decrypt_inv' in D2. destruct D2 as [-> ->].
      destruct (term_eqb pl2 pl1) eqn:TE; [|discriminate]. apply term_eqb_true in TE. subst pl2.
      inversion H; subst. right; right. repeat split; auto; try lia. eexists; split; reflexivity.
    + apply Z.eqb_neq in A.
      destruct rest as [|c rest]; [discriminate|]. destruct rest; [|discriminate].
      destruct (decrypt_and_hash (p_sym p1) c) as [[s' pl]|] eqn:D; [|discriminate].
      apply decrypt_inv' in D. destruct D as [-> ->].
      destruct pl; try discriminate. inversion H; subst. left. repeat split; auto; lia.
Qed.

Lemma same_static_upd_sym : forall p s, same_static p (upd_sym p s).
Proof. intros; unfold same_static; repeat split. Qed.

Lemma write_act_static : forall p ts act p' m,
  write_act p ts act = Some (p', m) ->
  same_static p p' /\ hd_error m = Some (Lit [p_version p]).
Proof.
  intros p ts act p' m H. apply write_act_inv in H.
  destruct H as (p1 & out & W & H). cbv zeta in H.
  apply write_tokens_pres in W. destruct W as [S [o ->]].
  assert (forall s, same_static p (upd_sym p1 s)) as SS.
  { intro s. eapply same_static_trans; [exact S | apply same_static_upd_sym]. }
  destruct H as [(_ & _ & -> & ->) | [(_ & _ & _ & -> & ->) | (_ & _ & -> & ->)]]; split; auto.
Qed.

Lemma read_act_static : forall p ts act fields p',
  read_act p ts act fields = Some p' ->
  exists v, hd_error fields = Some (Lit [v]) /\
    p_version p' = (if ((act =? 1) || (act =? 2)) && p_init p then v else p_version p) /\
    p_init p' = p_init p /\ p_payload_len p' = p_payload_len p /\ p_kk p' = p_kk p.
Proof.
  intros p ts act fields p' H. apply read_act_inv in H.
  destruct H as (v & fs & p1 & rest & -> & _ & RT & H). cbv zeta in H.
  exists v. split; [reflexivity|].
  apply read_tokens_pres in RT. destruct RT as (Sv & Si & Sk & Sl & _).
  assert (p_version p' = p_version p1 /\ p_init p' = p_init p1 /\ p_payload_len p' = p_payload_len p1
          /\ p_kk p' = p_kk p1) as (E1 & E2 & E3 & E4).
  { destruct H as [(_ & _ & _ & ->) | [(_ & _ & x & _ & ->) | (_ & _ & x & _ & ->)]]; repeat split. }
  rewrite E1, E2, E3, E4, Sv, Si, Sk, Sl.
  destruct (((act =? 1) || (act =? 2)) && p_init p); repeat split.
Qed.

(* ---- the constructor ---- *)
Lemma new_party_fields : forall init kk st eph rs pw pl plen minv maxv p,
  new_party init kk st eph rs pw pl plen minv maxv = Some p ->
  p_init p = init /\ p_kk p = kk /\ p_payload_len p = plen /\ p_max p = maxv /\
  p_version p = (if init then (if kk && (minv <? 2) then 2 else minv) else maxv) /\
  p_min p = (if kk && (minv <? 2) then 2 else minv).
Proof.
  intros until p. unfold new_party.
  destruct (kk && (maxv <? 2)); [discriminate|].
  destruct kk.
  - destruct rs; [|discriminate]. intro H; inversion H; subst; cbn; repeat split.
  - intro H; inversion H; subst; cbn; repeat split.
Qed.

(* ---- shape of complete runs ---- *)
Lemma run_xx_completed : forall pi pr adv si sr,
  r_init (run_xx pi pr adv) = Completed si -> r_resp (run_xx pi pr adv) = Completed sr ->
  exists i1 m1 r1 r2 m2 i2 i3 m3 r3,
    write_act pi [Tme] 1 = Some (i1, m1) /\
    read_act pr [Tme] 1 (adv 1 m1) = Some r1 /\
    write_act r1 [Te; Tee; Ts; Tes] 2 = Some (r2, m2) /\
    read_act i1 [Te; Tee; Ts; Tes] 2 (adv 2 m2) = Some i2 /\
    write_act i2 [Ts; Tse] 3 = Some (i3, m3) /\
    read_act r2 [Ts; Tse] 3 (adv 3 m3) = Some r3 /\
    r_wire (run_xx pi pr adv) = [m1; m2; m3] /\ si = finish i3 /\ sr = finish r3.
Proof.
  intros pi pr adv si sr. unfold run_xx.
  destruct (write_act pi [Tme] 1) as [[i1 m1]|] eqn:E1; [|discriminate].
  destruct (read_act pr [Tme] 1 (adv 1 m1)) as [r1|] eqn:E2; [|discriminate].
  destruct (write_act r1 [Te; Tee; Ts; Tes] 2) as [[r2 m2]|] eqn:E3; [|discriminate].
  destruct (read_act i1 [Te; Tee; Ts; Tes] 2 (adv 2 m2)) as [i2|] eqn:E4; [|discriminate].
  destruct (write_act i2 [Ts; Tse] 3) as [[i3 m3]|] eqn:E5; [|discriminate].
  destruct (read_act r2 [Ts; Tse] 3 (adv 3 m3)) as [r3|] eqn:E6; cbn; [|discriminate].
  intros Hi Hr. inversion Hi; inversion Hr; subst.
  exists i1, m1, r1, r2, m2, i2, i3, m3, r3. repeat split; auto.
Qed.

Lemma run_kk_completed : forall pi pr adv si sr,
  r_init (run_kk pi pr adv) = Completed si -> r_resp (run_kk pi pr adv) = Completed sr ->
  exists i1 m1 r1 r2 m2 i2,
    write_act pi [Te; Tes; Tss] 1 = Some (i1, m1) /\
    read_act pr [Te; Tes; Tss] 1 (adv 1 m1) = Some r1 /\
    write_act r1 [Te; Tee; Tse] 2 = Some (r2, m2) /\
    read_act i1 [Te; Tee; Tse] 2 (adv 2 m2) = Some i2 /\
    r_wire (run_kk pi pr adv) = [m1; m2] /\ si = finish i2 /\ sr = finish r2.
Proof.
  intros pi pr adv si sr. unfold run_kk.
  destruct (write_act pi [Te; Tes; Tss] 1) as [[i1 m1]|] eqn:E7; [|discriminate].
  destruct (read_act pr [Te; Tes; Tss] 1 (adv 1 m1)) as [r1|] eqn:E8; [|discriminate].
  destruct (write_act r1 [Te; Tee; Tse] 2) as [[r2 m2]|] eqn:E9; [|discriminate].
  destruct (read_act i1 [Te; Tee; Tse] 2 (adv 2 m2)) as [i2|] eqn:E10; cbn; [|discriminate].
  intros Hi Hr. inversion Hi; inversion Hr; subst.
  exists i1, m1, r1, r2, m2, i2. repeat split; auto.
Qed.

Lemma run_completed : forall c adv si sr,
  r_init (run c adv) = Completed si -> r_resp (run c adv) = Completed sr ->
  exists pi pr, mk_init c = Some pi /\ mk_resp c = Some pr /\
    run c adv = (if c_kk c then run_kk pi pr adv else run_xx pi pr adv).
Proof.
  intros c adv si sr. unfold run, run_pair.
  destruct (mk_init c) as [pi|], (mk_resp c) as [pr|]; cbn; try discriminate.
  intros _ _. exists pi, pr. auto.
Qed.

(* normalise party / sym record expressions: call-by-need evaluation of everything except the
   group operations, the term comparison and integer arithmetic, then arithmetic on literals *)
Ltac pnorm_goal :=
  lazy -[dh unmask term_eqb decrypt_and_hash Z.leb Z.ltb Z.eqb Z.add Z.le Z.lt Z.max Z.min not
         c_kk c_si c_sr c_ei c_er c_pwi c_pwr c_exp_i c_exp_r c_payload c_plen c_mini c_maxi c_minr c_maxr
         write_act read_act];
  cbn [Z.add Pos.add Pos.succ Z.eqb Z.leb Z.ltb Z.compare Pos.compare Pos.compare_cont Pos.eqb
       CompOpp andb orb negb].
Ltac pnorm_in H :=
  lazy -[dh unmask term_eqb decrypt_and_hash Z.leb Z.ltb Z.eqb Z.add Z.le Z.lt Z.max Z.min not
         c_kk c_si c_sr c_ei c_er c_pwi c_pwr c_exp_i c_exp_r c_payload c_plen c_mini c_maxi c_minr c_maxr
         write_act read_act] in H;
  cbn [Z.add Pos.add Pos.succ Z.eqb Z.leb Z.ltb Z.compare Pos.compare Pos.compare_cont Pos.eqb
       CompOpp andb orb negb] in H.
Tactic Notation "psimpl" := pnorm_goal.
Tactic Notation "psimpl" "in" hyp(H) := pnorm_in H.
