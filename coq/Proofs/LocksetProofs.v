(* C18: soundness of the static lock discipline for the interleaving model of
   Model/Lockset.v.  If every thread of a program is disciplined (every access to
   a field f is made while holding lock_of f, no re-acquisition of a held lock,
   only held locks are released), then no reachable state is a race. *)
From Coq Require Import List Bool Arith Lia.
Import ListNotations.
From LNC Require Import Lockset.

(* ---------- set_nth / nth_error ---------- *)

Lemma set_nth_length : forall A (l : list A) i v, length (set_nth l i v) = length l.
Proof.
  induction l as [|h t IH]; intros [|i] v; simpl; auto.
Qed.

Lemma nth_error_set_nth_eq : forall A (l : list A) i v,
  i < length l -> nth_error (set_nth l i v) i = Some v.
Proof.
  induction l as [|h t IH]; intros [|i] v Hlt; simpl in *; try lia; auto.
  apply IH. lia.
Qed.

Lemma nth_error_set_nth_neq : forall A (l : list A) i j v,
  i <> j -> nth_error (set_nth l i v) j = nth_error l j.
Proof.
  induction l as [|h t IH]; intros [|i] [|j] v Hne; simpl; auto;
    try congruence; try (apply IH; congruence).
Qed.

Lemma nth_error_some_lt : forall A (l : list A) i x,
  nth_error l i = Some x -> i < length l.
Proof.
  intros A l i x H. apply nth_error_Some. congruence.
Qed.

(* ---------- set_owner ---------- *)

Lemma set_owner_eq : forall o m v, set_owner o m v m = v.
Proof. intros. unfold set_owner. now rewrite Nat.eqb_refl. Qed.

Lemma set_owner_neq : forall o m v x, x <> m -> set_owner o m v x = o x.
Proof.
  intros o m v x H. unfold set_owner.
  destruct (Nat.eqb_spec x m); congruence.
Qed.

(* ---------- remove ---------- *)

Lemma in_remove_iff : forall (l : list nat) x m,
  In x (remove Nat.eq_dec m l) <-> In x l /\ x <> m.
Proof.
  induction l as [|h t IH]; intros x m; simpl.
  - tauto.
  - destruct (Nat.eq_dec m h) as [E|E].
    + subst h. rewrite IH. split.
      * intros [H1 H2]. auto.
      * intros [[H1|H1] H2]; [congruence | auto].
    + simpl. rewrite IH. split.
      * intros [H1|[H1 H2]]; [subst; split; auto; congruence | auto].
      * intros [[H1|H1] H2]; auto.
Qed.

(* ---------- the invariant ---------- *)

(* every thread's remaining code is disciplined w.r.t. exactly the set of
   mutexes it currently owns *)
Definition inv (lock_of : nat -> nat) (st : state) : Prop :=
  forall i t, nth_error (threads st) i = Some t ->
    exists held, disciplined lock_of held t /\
                 (forall m, In m held <-> owner st m = Some i).

Lemma inv_init : forall lock_of prog,
  Forall (disciplined lock_of []) prog -> inv lock_of (init_state prog).
Proof.
  intros lock_of prog HF i t Hn. simpl in Hn.
  exists []. split.
  - rewrite Forall_forall in HF. apply HF. eapply nth_error_In; eauto.
  - intros m. simpl. split; [tauto | discriminate].
Qed.

Lemma inv_step : forall lock_of st k st',
  inv lock_of st -> step st k = Some st' -> inv lock_of st'.
Proof.
  intros lock_of st k st' Hinv Hstep.
  unfold step in Hstep.
  destruct (nth_error (threads st) k) as [tk|] eqn:Hk; [|discriminate].
  destruct tk as [|a rest]; [discriminate|].
  pose proof (nth_error_some_lt _ _ _ _ Hk) as Hlt.
  destruct (Hinv k _ Hk) as [heldk [Hdk Hok]].
  destruct a as [m|m|f w].
  - (* ALock m *)
    destruct (owner st m) eqn:Hom; [discriminate|].
    inversion Hstep; subst st'; clear Hstep.
    intros i t Hn. simpl in Hn. simpl owner.
    destruct (Nat.eq_dec k i) as [E|E].
    + subst i. rewrite nth_error_set_nth_eq in Hn by assumption.
      inversion Hn; subst t; clear Hn.
      simpl in Hdk. destruct Hdk as [Hnin Hd].
      exists (m :: heldk). split; [assumption|].
      intros x. destruct (Nat.eq_dec x m) as [Ex|Ex].
      * subst x. rewrite set_owner_eq. simpl. tauto.
      * rewrite set_owner_neq by assumption. simpl. rewrite <- Hok.
        split; [intros [H|H]; [congruence|assumption] | auto].
    + rewrite nth_error_set_nth_neq in Hn by assumption.
      destruct (Hinv i t Hn) as [held [Hd Ho]].
      exists held. split; [assumption|].
      intros x. destruct (Nat.eq_dec x m) as [Ex|Ex].
      * subst x. rewrite set_owner_eq. split.
        -- intros H. apply Ho in H. congruence.
        -- intros H. congruence.
      * rewrite set_owner_neq by assumption. apply Ho.
  - (* AUnlock m *)
    destruct (owner st m) as [j|] eqn:Hom; [|discriminate].
    destruct (Nat.eqb_spec j k) as [Ej|Ej]; [|discriminate].
    subst j.
    inversion Hstep; subst st'; clear Hstep.
    intros i t Hn. simpl in Hn. simpl owner.
    destruct (Nat.eq_dec k i) as [E|E].
    + subst i. rewrite nth_error_set_nth_eq in Hn by assumption.
      inversion Hn; subst t; clear Hn.
      simpl in Hdk. destruct Hdk as [Hin Hd].
      exists (remove Nat.eq_dec m heldk). split; [assumption|].
      intros x. rewrite in_remove_iff.
      destruct (Nat.eq_dec x m) as [Ex|Ex].
      * subst x. rewrite set_owner_eq. split; [tauto | discriminate].
      * rewrite set_owner_neq by assumption. rewrite Hok. tauto.
    + rewrite nth_error_set_nth_neq in Hn by assumption.
      destruct (Hinv i t Hn) as [held [Hd Ho]].
      exists held. split; [assumption|].
      intros x. destruct (Nat.eq_dec x m) as [Ex|Ex].
      * subst x. rewrite set_owner_eq. split.
        -- intros H. apply Ho in H. congruence.
        -- discriminate.
      * rewrite set_owner_neq by assumption. apply Ho.
  - (* AAccess f w *)
    inversion Hstep; subst st'; clear Hstep.
    intros i t Hn. simpl in Hn. simpl owner.
    destruct (Nat.eq_dec k i) as [E|E].
    + subst i. rewrite nth_error_set_nth_eq in Hn by assumption.
      inversion Hn; subst t; clear Hn.
      simpl in Hdk. destruct Hdk as [_ Hd].
      exists heldk. split; assumption.
    + rewrite nth_error_set_nth_neq in Hn by assumption.
      apply Hinv; assumption.
Qed.

Lemma inv_reachable : forall lock_of init st,
  inv lock_of init -> reachable init st -> inv lock_of st.
Proof.
  intros lock_of init st Hi Hr. induction Hr as [|st i st' Hr IH Hs].
  - assumption.
  - eapply inv_step; eauto.
Qed.

Lemma inv_no_race : forall lock_of st, inv lock_of st -> ~ race st.
Proof.
  intros lock_of st Hinv (i & j & f & w1 & w2 & r1 & r2 & Hne & Hi & Hj & _).
  destruct (Hinv i _ Hi) as [hi [Hdi Hoi]].
  destruct (Hinv j _ Hj) as [hj [Hdj Hoj]].
  simpl in Hdi, Hdj.
  destruct Hdi as [Hini _]. destruct Hdj as [Hinj _].
  apply Hoi in Hini. apply Hoj in Hinj. congruence.
Qed.

(* the number of threads never changes *)
Lemma step_length : forall st k st',
  step st k = Some st' -> length (threads st') = length (threads st).
Proof.
  intros st k st' Hstep. unfold step in Hstep.
  destruct (nth_error (threads st) k) as [[|a rest]|]; try discriminate.
  destruct a as [m|m|f w].
  - destruct (owner st m); [discriminate|].
    inversion Hstep; subst; simpl. apply set_nth_length.
  - destruct (owner st m) as [j|]; [|discriminate].
    destruct (Nat.eqb j k); [|discriminate].
    inversion Hstep; subst; simpl. apply set_nth_length.
  - inversion Hstep; subst; simpl. apply set_nth_length.
Qed.

Lemma reachable_length : forall init st,
  reachable init st -> length (threads st) = length (threads init).
Proof.
  intros init st Hr. induction Hr as [|st i st' Hr IH Hs]; auto.
  rewrite (step_length _ _ _ Hs). assumption.
Qed.

(* a mutex is owned by at most one thread, trivially (owner is a function);
   the content of the invariant is that ownership agrees with the static held set *)

(* ---------- main theorem ---------- *)

Theorem lockset_sound : forall (lock_of : nat -> nat) (prog : list thread),
  Forall (disciplined lock_of []) prog ->
  forall st, reachable (init_state prog) st -> ~ race st.
Proof.
  intros lock_of prog HF st Hr.
  apply (inv_no_race lock_of).
  eapply inv_reachable; [apply inv_init; eassumption | eassumption].
Qed.

(* ---------- non-vacuity ---------- *)

Definition ex_prog : list thread :=
  [ [ALock 0; AAccess 7 true; AUnlock 0];
    [ALock 0; AAccess 7 false; AUnlock 0] ].

Example ex_prog_disciplined : Forall (disciplined (fun _ => 0) []) ex_prog.
Proof.
  unfold ex_prog. repeat constructor; simpl; try tauto.
  all: destruct (Nat.eq_dec 0 0); simpl; tauto.
Qed.

Example ex_prog_race_free :
  forall st, reachable (init_state ex_prog) st -> ~ race st.
Proof. exact (lockset_sound (fun _ => 0) ex_prog ex_prog_disciplined). Qed.

(* the example program can actually run: thread 0 locks, is poised at its write,
   and thread 1 is blocked (so the reachable set is not just the initial state) *)
Example ex_prog_runs :
  exists st, step (init_state ex_prog) 0 = Some st /\
             nth_error (threads st) 0 = Some [AAccess 7 true; AUnlock 0] /\
             step st 1 = None.
Proof. eexists. split; [reflexivity|]. split; reflexivity. Qed.

Definition bad_prog : list thread := [ [AAccess 7 true]; [AAccess 7 false] ].

(* without the lock, the initial state is already a race ... *)
Example bad_prog_race : race (init_state bad_prog).
Proof.
  exists 0, 1, 7, true, false, [], []. simpl.
  repeat split; auto.
Qed.

(* ... and indeed the premise of the theorem fails for it, for every lock_of *)
Example bad_prog_not_disciplined : forall lock_of,
  ~ Forall (disciplined lock_of []) bad_prog.
Proof.
  intros lock_of HF.
  apply (lockset_sound lock_of bad_prog HF (init_state bad_prog)).
  - constructor.
  - exact bad_prog_race.
Qed.

Print Assumptions lockset_sound.
Print Assumptions ex_prog_race_free.
Print Assumptions bad_prog_race.
