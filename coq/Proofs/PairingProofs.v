(* Proofs about the pairing-phrase codec model (Model/Pairing.v):
   14 entropy bytes <-> 10 word indices of 11 bits, MSB first.

   T1 words_roundtrip     entropy_to_words (words_to_entropy ws) = ws
   T2 entropy_roundtrip   words_to_entropy (entropy_to_words e) = clear_unused e
   T3 words_in_range      entropy_to_words yields 10 indices in [0,2048)
   T4 entropy_in_range    words_to_entropy yields 14 bytes in [0,256)
   T5 words_injective     (up to the two dropped low bits of the last byte)
   T6 entropy_injective *)
From Coq Require Import ZArith List Bool Lia.
From LNC Require Import Pairing.
Import ListNotations.
Open Scope Z_scope.

Local Notation z0 := (fun c : list bool => z_of_bits c 0).
Local Notation len n := (fun c : list bool => length c = n).

(* ------------------------------------------------------------------ *)
(* Bit-list <-> integer lemmas                                          *)
(* ------------------------------------------------------------------ *)

Lemma bits_msb_length : forall w x, length (bits_msb w x) = w.
Proof. induction w as [|w IH]; intros x; cbn [bits_msb length]; auto. Qed.

Lemma pow2_S : forall n : nat, 2 ^ Z.of_nat (S n) = 2 * 2 ^ Z.of_nat n.
Proof. intros n. rewrite Nat2Z.inj_succ, Z.pow_succ_r by lia. reflexivity. Qed.

Lemma pow2_pos : forall n : nat, 0 < 2 ^ Z.of_nat n.
Proof. intros n. apply Z.pow_pos_nonneg; lia. Qed.

Lemma z_of_bits_acc : forall bs acc,
  z_of_bits bs acc = acc * 2 ^ Z.of_nat (length bs) + z_of_bits bs 0.
Proof.
  induction bs as [|b rest IH]; intros acc.
  - cbn [z_of_bits length]. change (2 ^ Z.of_nat 0) with 1. lia.
  - cbn [z_of_bits length]. rewrite pow2_S.
    rewrite (IH (2 * acc + (if b then 1 else 0))).
    rewrite (IH (2 * 0 + (if b then 1 else 0))). ring.
Qed.

Lemma z_of_bits_range : forall bs, 0 <= z_of_bits bs 0 < 2 ^ Z.of_nat (length bs).
Proof.
  induction bs as [|b rest IH].
  - cbn [z_of_bits length]. change (2 ^ Z.of_nat 0) with 1. lia.
  - cbn [z_of_bits length]. rewrite pow2_S, z_of_bits_acc.
    destruct b; lia.
Qed.

Lemma testbit_top : forall (b : bool) L r, 0 <= L -> 0 <= r < 2 ^ L ->
  Z.testbit ((if b then 1 else 0) * 2 ^ L + r) L = b.
Proof.
  intros b L r HL Hr.
  apply Z.b2z_inj. rewrite Z.testbit_spec' by lia.
  rewrite Z.div_add_l by lia. rewrite Z.div_small by lia.
  destruct b; reflexivity.
Qed.

Lemma bits_msb_mod : forall w m x, (w <= m)%nat ->
  bits_msb w (x mod 2 ^ Z.of_nat m) = bits_msb w x.
Proof.
  induction w as [|w IH]; intros m x H; cbn [bits_msb]; auto.
  f_equal.
  - apply Z.mod_pow2_bits_low; lia.
  - apply IH; lia.
Qed.

(* decoding then re-encoding a bit list gives the bit list back *)
Lemma bits_msb_z_of_bits : forall bs, bits_msb (length bs) (z_of_bits bs 0) = bs.
Proof.
  induction bs as [|b rest IH]; [reflexivity|].
  cbn [length bits_msb z_of_bits].
  rewrite z_of_bits_acc.
  replace (2 * 0 + (if b then 1 else 0)) with (if b then 1 else 0) by lia.
  pose proof (z_of_bits_range rest) as Hr.
  f_equal.
  - apply testbit_top; lia.
  - rewrite <- (bits_msb_mod (length rest) (length rest)) by lia.
    rewrite Z.add_comm, Z.mod_add by (pose proof (pow2_pos (length rest)); lia).
    rewrite Z.mod_small by lia. exact IH.
Qed.

(* encoding then decoding gives the value modulo 2^width (any x, incl. negative) *)
Lemma z_of_bits_bits_msb : forall w x,
  z_of_bits (bits_msb w x) 0 = x mod 2 ^ Z.of_nat w.
Proof.
  induction w as [|w IH]; intros x.
  - cbn [bits_msb z_of_bits]. change (2 ^ Z.of_nat 0) with 1. rewrite Z.mod_1_r. reflexivity.
  - cbn [bits_msb z_of_bits]. rewrite z_of_bits_acc, bits_msb_length, IH, pow2_S.
    rewrite (Z.mul_comm 2 (2 ^ Z.of_nat w)).
    rewrite Z.rem_mul_r by (pose proof (pow2_pos w); lia).
    pose proof (Z.testbit_spec' x (Z.of_nat w) ltac:(lia)) as Hb.
    rewrite <- Hb. unfold Z.b2z. ring.
Qed.

(* ------------------------------------------------------------------ *)
(* List lemmas: firstn/skipn/chunks/concat                              *)
(* ------------------------------------------------------------------ *)

Lemma firstn_exact : forall (A : Type) (c X : list A) n,
  length c = n -> firstn n (c ++ X) = c.
Proof.
  intros A c X n H. rewrite firstn_app, H, Nat.sub_diag.
  cbn [firstn]. rewrite app_nil_r. apply firstn_all2. lia.
Qed.

Lemma skipn_exact : forall (A : Type) (c X : list A) n,
  length c = n -> skipn n (c ++ X) = X.
Proof.
  intros A c X n H. subst n. induction c as [|a c IH]; cbn [length skipn app]; auto.
Qed.

Lemma chunks_S : forall f n l, l <> [] ->
  chunks (S f) n l = firstn n l :: chunks f n (skipn n l).
Proof. intros f n l H. destruct l; [congruence|reflexivity]. Qed.

Lemma chunks_nil : forall f n, chunks f n [] = [].
Proof. intros f n. destruct f; reflexivity. Qed.

(* chunking a concatenation of equal-length blocks returns the blocks *)
Lemma chunks_concat : forall n ls tl fuel, (0 < n)%nat ->
  Forall (len n) ls -> (length ls <= fuel)%nat ->
  chunks fuel n (concat ls ++ tl) = ls ++ chunks (fuel - length ls) n tl.
Proof.
  intros n ls tl fuel Hn Hf. revert fuel.
  induction Hf as [|c ls Hc Hf IH]; intros fuel Hfuel.
  - cbn [concat app length]. rewrite Nat.sub_0_r. reflexivity.
  - cbn [length] in Hfuel. destruct fuel as [|fuel]; [lia|].
    cbn [concat length]. rewrite <- app_assoc.
    rewrite chunks_S.
    + rewrite firstn_exact, skipn_exact by exact Hc.
      rewrite IH by lia. reflexivity.
    + destruct c; cbn [length] in Hc; [lia|discriminate].
Qed.

(* a list of length k*n is a concatenation of k blocks of length n *)
Lemma blocks_exist : forall n k (bs : list bool), length bs = (k * n)%nat ->
  exists ls, concat ls = bs /\ length ls = k /\ Forall (len n) ls.
Proof.
  intros n k. induction k as [|k IH]; intros bs H.
  - exists []. destruct bs; [|discriminate]. repeat split; constructor.
  - destruct (IH (skipn n bs)) as (ls & Hc & Hl & Hf).
    { rewrite skipn_length, H. cbn [Nat.mul]. lia. }
    exists (firstn n bs :: ls). split; [|split].
    + cbn [concat]. rewrite Hc. apply firstn_skipn.
    + cbn [length]. congruence.
    + constructor; [|exact Hf]. rewrite firstn_length, H. cbn [Nat.mul]. lia.
Qed.

Lemma flat_map_length_const : forall (A : Type) (f : A -> list bool) n l,
  (forall x, length (f x) = n) -> length (flat_map f l) = (length l * n)%nat.
Proof.
  intros A f n l H. induction l as [|a l IH]; [reflexivity|].
  cbn [flat_map length Nat.mul]. rewrite app_length, H, IH. reflexivity.
Qed.

Lemma map_bits_len : forall n (l : list Z), Forall (len n) (map (bits_msb n) l).
Proof.
  intros n l. induction l as [|a l IH]; cbn [map]; constructor; auto.
  apply bits_msb_length.
Qed.

(* re-encoding the values of n-bit blocks gives back their concatenation *)
Lemma flat_bits_z0 : forall n ls, Forall (len n) ls ->
  flat_map (bits_msb n) (map z0 ls) = concat ls.
Proof.
  intros n ls Hf. induction Hf as [|c ls Hc Hf IH]; [reflexivity|].
  cbn [map flat_map concat]. rewrite IH. f_equal.
  rewrite <- Hc. apply bits_msb_z_of_bits.
Qed.

Lemma z0_ok : forall n ls, Forall (len n) ls ->
  Forall (fun x => 0 <= x < 2 ^ Z.of_nat n) (map z0 ls).
Proof.
  intros n ls Hf. induction Hf as [|c ls Hc Hf IH]; cbn [map]; constructor; auto.
  rewrite <- Hc. apply z_of_bits_range.
Qed.

Lemma map_z0_bits_id : forall n (l : list Z),
  Forall (fun x => 0 <= x < 2 ^ Z.of_nat n) l ->
  map z0 (map (bits_msb n) l) = l.
Proof.
  intros n l Hf. induction Hf as [|x l Hx Hf IH]; [reflexivity|].
  cbn [map]. rewrite IH. f_equal.
  rewrite z_of_bits_bits_msb. apply Z.mod_small. exact Hx.
Qed.

Lemma snoc_decomp : forall (A : Type) (e : list A) n, length e = S n ->
  exists front last, e = front ++ [last] /\ length front = n.
Proof.
  intros A e n H.
  assert (He : e = rev (rev e)) by (symmetry; apply rev_involutive).
  destruct (rev e) as [|a r].
  - subst e. discriminate.
  - exists (rev r), a. cbn [rev] in He. split; [exact He|].
    rewrite He, app_length in H. cbn [length] in H. lia.
Qed.

(* ------------------------------------------------------------------ *)
(* Structure of the two codec directions                                *)
(* ------------------------------------------------------------------ *)

Lemma bytes_to_bits_length : forall e, length (bytes_to_bits e) = (length e * 8)%nat.
Proof. intros e. apply flat_map_length_const. intros x. apply bits_msb_length. Qed.

(* entropy_to_words: the first 110 bits regrouped in ten 11-bit blocks *)
Lemma e2w_struct : forall e, length e = 14%nat ->
  exists ls, length ls = 10%nat /\ Forall (len 11%nat) ls /\
             concat ls = firstn 110 (bytes_to_bits e) /\
             entropy_to_words e = map z0 ls.
Proof.
  intros e Hlen.
  pose proof (bytes_to_bits_length e) as Hb. rewrite Hlen in Hb.
  change (14 * 8)%nat with 112%nat in Hb.
  destruct (blocks_exist 11 10 (firstn 110 (bytes_to_bits e))) as (ls & Hc & Hl & Hf).
  { rewrite firstn_length, Hb. reflexivity. }
  exists ls. repeat split; auto.
  unfold entropy_to_words, num_words, bits_per_word.
  set (b := bytes_to_bits e) in *.
  replace b with (concat ls ++ skipn 110 b) at 1
    by (rewrite Hc; apply firstn_skipn).
  rewrite chunks_concat by (try lia; auto).
  rewrite firstn_exact by exact Hl. reflexivity.
Qed.

(* words_to_entropy: 110 bits + two zero bits regrouped in fourteen 8-bit blocks *)
Lemma w2e_gen : forall ws ls, length ws = 10%nat -> length ls = 14%nat ->
  Forall (len 8%nat) ls ->
  concat ls = flat_map (bits_msb 11) ws ++ [false; false] ->
  words_to_entropy ws = map z0 ls.
Proof.
  intros ws ls Hw Hl Hf Hc.
  assert (Hfl : length (flat_map (bits_msb 11) ws) = 110%nat).
  { rewrite (flat_map_length_const _ _ 11) by (intros; apply bits_msb_length).
    rewrite Hw. reflexivity. }
  assert (Hpad : pad8 (flat_map (bits_msb 11) ws) = flat_map (bits_msb 11) ws ++ [false; false]).
  { unfold pad8. rewrite Hfl. reflexivity. }
  unfold words_to_entropy, entropy_bytes, bits_per_word. cbv zeta.
  rewrite Hpad, <- Hc. rewrite <- (app_nil_r (concat ls)).
  rewrite chunks_concat by (try lia; auto).
  rewrite chunks_nil, app_nil_r.
  apply firstn_exact. rewrite map_length. exact Hl.
Qed.

Lemma w2e_struct : forall ws, length ws = 10%nat ->
  exists ls, length ls = 14%nat /\ Forall (len 8%nat) ls /\
             concat ls = flat_map (bits_msb 11) ws ++ [false; false] /\
             words_to_entropy ws = map z0 ls.
Proof.
  intros ws Hw.
  destruct (blocks_exist 8 14 (flat_map (bits_msb 11) ws ++ [false; false]))
    as (ls & Hc & Hl & Hf).
  { rewrite app_length, (flat_map_length_const _ _ 11) by (intros; apply bits_msb_length).
    rewrite Hw. reflexivity. }
  exists ls. repeat split; auto.
  apply w2e_gen; auto.
Qed.

(* ------------------------------------------------------------------ *)
(* The last byte: its two low bits are dropped                          *)
(* ------------------------------------------------------------------ *)

Lemma clr_eq : forall x, x - x mod 4 = (x / 2 ^ 2) * 2 ^ 2.
Proof. intros x. change (2 ^ 2) with 4. pose proof (Z.div_mod x 4). lia. Qed.

Lemma clr_hi : forall x i, 2 <= i -> Z.testbit (x - x mod 4) i = Z.testbit x i.
Proof.
  intros x i Hi. rewrite clr_eq, Z.mul_pow2_bits, Z.div_pow2_bits by lia.
  f_equal. lia.
Qed.

Lemma clr_lo : forall x i, i < 2 -> Z.testbit (x - x mod 4) i = false.
Proof. intros x i Hi. rewrite clr_eq. apply Z.mul_pow2_bits_low. exact Hi. Qed.

Lemma last_byte_bits : forall x,
  bits_msb 8 (x - x mod 4) = firstn 6 (bits_msb 8 x) ++ [false; false].
Proof.
  intros x. cbn [bits_msb firstn app].
  rewrite !clr_hi by lia. rewrite !clr_lo by lia. reflexivity.
Qed.

Lemma clear_unused_snoc : forall front last,
  clear_unused (front ++ [last]) = front ++ [last - last mod 4].
Proof.
  intros front last. unfold clear_unused. rewrite rev_unit, rev_involutive. reflexivity.
Qed.

Lemma clear_unused_length : forall e, length (clear_unused e) = length e.
Proof.
  intros e. destruct e as [|a e']; [reflexivity|].
  destruct (snoc_decomp _ (a :: e') (length e') eq_refl) as (front & last & He & Hl).
  rewrite He, clear_unused_snoc, !app_length. reflexivity.
Qed.

Lemma clear_unused_ok : forall e, Forall byte_ok e -> Forall byte_ok (clear_unused e).
Proof.
  intros e Hok. destruct e as [|a e']; [constructor|].
  destruct (snoc_decomp _ (a :: e') (length e') eq_refl) as (front & last & He & Hl).
  rewrite He in *. rewrite clear_unused_snoc.
  apply Forall_app in Hok. destruct Hok as [Hfr Hla].
  apply Forall_app. split; [exact Hfr|].
  inversion Hla as [|? ? Hb ?]; subst. constructor; [|constructor].
  unfold byte_ok in *. pose proof (Z.mod_pos_bound last 4 ltac:(lia)).
  pose proof (Z.mod_le last 4 ltac:(lia) ltac:(lia)). lia.
Qed.

Lemma clear_bits : forall e, length e = 14%nat ->
  flat_map (bits_msb 8) (clear_unused e)
  = firstn 110 (bytes_to_bits e) ++ [false; false].
Proof.
  intros e Hlen.
  destruct (snoc_decomp _ e 13 Hlen) as (front & last & He & Hl). subst e.
  rewrite clear_unused_snoc. unfold bytes_to_bits. rewrite !flat_map_app.
  cbn [flat_map]. rewrite !app_nil_r.
  assert (Hfl : length (flat_map (bits_msb 8) front) = 104%nat).
  { rewrite (flat_map_length_const _ _ 8) by (intros; apply bits_msb_length).
    rewrite Hl. reflexivity. }
  rewrite firstn_app, Hfl.
  rewrite firstn_all2 by (rewrite Hfl; lia).
  change (110 - 104)%nat with 6%nat.
  rewrite <- app_assoc. f_equal. apply last_byte_bits.
Qed.

(* ------------------------------------------------------------------ *)
(* Main theorems                                                        *)
(* ------------------------------------------------------------------ *)

Theorem words_roundtrip : forall ws, length ws = 10%nat -> Forall word_ok ws ->
  entropy_to_words (words_to_entropy ws) = ws.
Proof.
  intros ws Hlen Hok.
  destruct (w2e_struct ws Hlen) as (ls & Hl & Hf & Hc & Hw).
  rewrite Hw. unfold entropy_to_words, bytes_to_bits, num_words, bits_per_word.
  rewrite (flat_bits_z0 8 ls Hf), Hc, flat_map_concat_map.
  rewrite chunks_concat;
    [| lia | apply map_bits_len | rewrite map_length; lia].
  rewrite firstn_exact by (rewrite map_length; exact Hlen).
  apply map_z0_bits_id. exact Hok.
Qed.

Theorem entropy_roundtrip : forall e, length e = 14%nat -> Forall byte_ok e ->
  words_to_entropy (entropy_to_words e) = clear_unused e.
Proof.
  intros e Hlen Hok.
  destruct (e2w_struct e Hlen) as (ls & Hl & Hf & Hc & He).
  rewrite He.
  rewrite (w2e_gen (map z0 ls) (map (bits_msb 8) (clear_unused e))).
  - apply map_z0_bits_id. apply clear_unused_ok. exact Hok.
  - rewrite map_length. exact Hl.
  - rewrite map_length, clear_unused_length. exact Hlen.
  - apply map_bits_len.
  - rewrite <- flat_map_concat_map, (flat_bits_z0 11 ls Hf), Hc.
    apply clear_bits. exact Hlen.
Qed.

Theorem words_in_range : forall e, length e = 14%nat -> Forall byte_ok e ->
  length (entropy_to_words e) = 10%nat /\ Forall word_ok (entropy_to_words e).
Proof.
  intros e Hlen _.
  destruct (e2w_struct e Hlen) as (ls & Hl & Hf & Hc & He).
  rewrite He. split.
  - rewrite map_length. exact Hl.
  - exact (z0_ok 11 ls Hf).
Qed.

Theorem entropy_in_range : forall ws, length ws = 10%nat -> Forall word_ok ws ->
  length (words_to_entropy ws) = 14%nat /\ Forall byte_ok (words_to_entropy ws).
Proof.
  intros ws Hlen _.
  destruct (w2e_struct ws Hlen) as (ls & Hl & Hf & Hc & Hw).
  rewrite Hw. split.
  - rewrite map_length. exact Hl.
  - exact (z0_ok 8 ls Hf).
Qed.

Theorem words_injective : forall e1 e2,
  length e1 = 14%nat -> length e2 = 14%nat ->
  Forall byte_ok e1 -> Forall byte_ok e2 ->
  entropy_to_words e1 = entropy_to_words e2 -> clear_unused e1 = clear_unused e2.
Proof.
  intros e1 e2 H1 H2 Hok1 Hok2 Heq.
  rewrite <- (entropy_roundtrip e1 H1 Hok1), <- (entropy_roundtrip e2 H2 Hok2), Heq.
  reflexivity.
Qed.

Theorem entropy_injective : forall w1 w2,
  length w1 = 10%nat -> length w2 = 10%nat ->
  Forall word_ok w1 -> Forall word_ok w2 ->
  words_to_entropy w1 = words_to_entropy w2 -> w1 = w2.
Proof.
  intros w1 w2 H1 H2 Hok1 Hok2 Heq.
  rewrite <- (words_roundtrip w1 H1 Hok1), <- (words_roundtrip w2 H2 Hok2), Heq.
  reflexivity.
Qed.

(* The two dropped bits are really dropped: entropies differing only in the low
   two bits of the last byte give the same phrase (so T5 cannot be strengthened
   to e1 = e2). *)
Example low_bits_dropped :
  entropy_to_words [0;0;0;0;0;0;0;0;0;0;0;0;0;3]
  = entropy_to_words [0;0;0;0;0;0;0;0;0;0;0;0;0;0].
Proof. vm_compute. reflexivity. Qed.

(* sanity: concrete vector *)
Example roundtrip_example :
  words_to_entropy (entropy_to_words [255;1;2;3;4;5;6;7;8;9;10;11;12;255])
  = [255;1;2;3;4;5;6;7;8;9;10;11;12;252].
Proof. vm_compute. reflexivity. Qed.

Print Assumptions words_roundtrip.
Print Assumptions entropy_roundtrip.
Print Assumptions words_in_range.
Print Assumptions entropy_in_range.
Print Assumptions words_injective.
Print Assumptions entropy_injective.
