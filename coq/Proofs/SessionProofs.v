From Coq Require Import ZArith List Bool Lia.
From LNC Require Import Session.
Import ListNotations.
Open Scope Z_scope.

Definition open_list (st : sst) : list Z := match s_open st with Some i => [i] | None => [] end.

Lemma srun_open_after : forall tr st st' acc,
  srun st tr = Some st' -> acc = open_list st -> (forall i, s_open st = Some i -> i < s_next st) ->
  open_after tr acc = open_list st' /\ (forall i, s_open st' = Some i -> i < s_next st').
Proof.
  induction tr as [|e rest IH]; intros st st' acc H Hacc Hlt.
  - cbn in H. injection H as <-. split; [exact Hacc|exact Hlt].
  - cbn [srun] in H. destruct (sstep st e) as [st1|] eqn:E; [|discriminate].
    destruct e as [|id|id|]; cbn [open_after].
    + cbn in E. injection E as <-. apply (IH _ st' acc H); [exact Hacc|exact Hlt].
    + unfold sstep in E. destruct (s_open st) as [j|] eqn:Ho; [discriminate|].
      destruct ((id =? s_next st) && (0 <? s_calls st)) eqn:Ec; [|discriminate].
      injection E as <-. apply andb_true_iff in Ec. destruct Ec as [Ei _]. apply Z.eqb_eq in Ei.
      apply (IH _ st' (id :: acc) H).
      * subst acc. unfold open_list. rewrite Ho. reflexivity.
      * cbn. intros i Hi. injection Hi as <-. lia.
    + unfold sstep in E. destruct (s_open st) as [j|] eqn:Ho.
      * destruct (id =? j) eqn:Eq; injection E as <-.
        -- apply (IH _ st' _ H).
           ++ subst acc. unfold open_list. rewrite Ho. cbn. rewrite Z.eqb_sym, Eq. reflexivity.
           ++ cbn. discriminate.
        -- apply (IH _ st' _ H).
           ++ subst acc. unfold open_list. rewrite Ho. cbn. rewrite Z.eqb_sym, Eq. reflexivity.
           ++ intros i Hi. rewrite Ho in Hi. exact (Hlt i Hi).
      * injection E as <-. apply (IH _ st' _ H).
        -- subst acc. unfold open_list. rewrite Ho. reflexivity.
        -- intros i Hi. rewrite Ho in Hi. discriminate.
    + unfold sstep in E. destruct (0 <? s_calls st); [|discriminate]. injection E as <-.
      apply (IH _ st' acc H); [exact Hacc|exact Hlt].
Qed.

(* in every accepted history, at every point, at most one handed-out connection is open *)
Theorem at_most_one_open : forall tr st', srun sinit tr = Some st' -> (length (open_after tr []) <= 1)%nat.
Proof.
  intros tr st' H.
  destruct (srun_open_after tr sinit st' [] H eq_refl) as [Ho _]; [cbn; discriminate|].
  rewrite Ho. unfold open_list. destruct (s_open st'); cbn; lia.
Qed.

(* ... and this holds for every prefix of the history (prefix-closedness of srun) *)
Lemma srun_prefix : forall pre post st st', srun st (pre ++ post) = Some st' -> exists st1, srun st pre = Some st1.
Proof.
  induction pre as [|e rest IH]; intros post st st' H.
  - eexists. reflexivity.
  - cbn [app srun] in H |- *. destruct (sstep st e) as [st1|]; [|discriminate]. apply (IH post st1 st' H).
Qed.

Theorem exclusive_at_every_point : forall pre post st', srun sinit (pre ++ post) = Some st' ->
  (length (open_after pre []) <= 1)%nat.
Proof.
  intros pre post st' H. destruct (srun_prefix pre post sinit st' H) as [st1 H1].
  apply (at_most_one_open pre st1 H1).
Qed.

(* a connection is handed out only after the previous one closed *)
Theorem ret_requires_closed : forall st id st', sstep st (SRet id) = Some st' -> s_open st = None /\ s_open st' = Some id.
Proof.
  intros st id st' H. unfold sstep in H. destruct (s_open st); [discriminate|].
  destruct ((id =? s_next st) && (0 <? s_calls st)); [|discriminate]. injection H as <-. split; reflexivity.
Qed.

Print Assumptions exclusive_at_every_point.
Print Assumptions ret_requires_closed.
