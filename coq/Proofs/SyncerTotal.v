(* Totality of the generated syncer.initResendUpTo (gen/SyncerGen.v, from gbn/syncer.go); kept apart from
   Proofs/SyncerProofs.v so that C07 (no crash) depends on nothing about WHICH acknowledgement is expected. *)
From Coq Require Import ZArith Lia ZifyBool.
From LNC Require Import GoLite SyncerGen.
Open Scope Z_scope.

(* totality: with a non-empty sequence space no value of top makes the call panic; with s = 0 (what a window
   proposal of 255 would give, s = n + 1 in uint8) it always does: the reason the handshake must reject it *)
Lemma initResendUpTo_total : forall c top, syncer_s c <> 0 -> syncer_initResendUpTo c top <> Panic.
Proof.
  intros [s st ea en] top Hs; cbn [syncer_s] in Hs.
  unfold syncer_initResendUpTo, umod; cbn [set_syncer_state syncer_s].
  destruct (s =? 0) eqn:E; [lia|]. cbn [bind]. discriminate.
Qed.

Lemma initResendUpTo_empty_space_panics : forall c top, syncer_s c = 0 -> syncer_initResendUpTo c top = Panic.
Proof.
  intros [s st ea en] top Hs; cbn [syncer_s] in Hs; subst s. reflexivity.
Qed.
