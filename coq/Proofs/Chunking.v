(* Send-side chunking (split_msg, the loop of GoBackNConn.Send) against
   Recv-side reassembly (take_msg / reassemble): splitting loses nothing,
   every message ends in exactly one FinalChunk, chunk sizes respect
   maxChunkSize, and reassembling the chunk stream of a list of messages
   gives the messages back. *)
From LNC Require Import GoLite MessagesGen QueueGen Codec Gbn GbnMonitor.
Open Scope Z_scope.

(* ---- the shape of the chunk list ---- *)

(* one statement that carries everything the later lemmas need *)
Lemma split_fuel_shape c : 0 < c -> forall fuel data,
  (length data <= fuel)%nat -> (0 < fuel)%nat ->
  exists front lastc,
    split_fuel fuel c data = front ++ [(lastc, true)] /\
    Forall (fun ch => snd ch = false /\ len (fst ch) = c) front /\
    len lastc <= c /\
    concat (map fst front) ++ lastc = data.
Proof.
  intros Hc. induction fuel as [|f IH]; intros data Hlen Hf; [lia|].
  cbn [split_fuel]. destruct (len data <=? c) eqn:E.
  - apply Z.leb_le in E. exists [], data. cbn [app map concat].
    repeat split; [constructor|exact E].
  - apply Z.leb_gt in E. unfold len in E.
    assert (Hsk : (length (skipn (Z.to_nat c) data) <= f)%nat) by (rewrite skipn_length; lia).
    assert (Hf' : (0 < f)%nat) by lia.
    destruct (IH _ Hsk Hf') as (front & lastc & Heq & Hfr & Hl & Hcat).
    exists ((firstn (Z.to_nat c) data, false) :: front), lastc.
    rewrite Heq. cbn [app map concat fst]. repeat split.
    + constructor; [|exact Hfr]. cbn [fst snd]. split; [reflexivity|].
      unfold len. rewrite firstn_length_le by lia. lia.
    + exact Hl.
    + rewrite <- app_assoc, Hcat. apply firstn_skipn.
Qed.

Lemma split_msg_shape c data : 0 <= c ->
  exists front lastc,
    split_msg c data = front ++ [(lastc, true)] /\
    Forall (fun ch => snd ch = false) front /\
    concat (map fst front) ++ lastc = data /\
    (0 < c -> Forall (fun ch => len (fst ch) = c) front /\ len lastc <= c).
Proof.
  intros Hc. unfold split_msg. destruct (c =? 0) eqn:E.
  - apply Z.eqb_eq in E. exists [], data. cbn [app map concat].
    repeat split; try constructor. lia.
  - apply Z.eqb_neq in E. assert (Hc' : 0 < c) by lia.
    destruct data as [|b data].
    + exists [], []. cbn [app map concat]. repeat split; try constructor.
      rewrite len_nil. lia.
    + destruct (split_fuel_shape c Hc' (length (b :: data)) (b :: data)) as
        (front & lastc & Heq & Hfr & Hl & Hcat); [lia|cbn [length]; lia|].
      exists front, lastc. rewrite Heq. repeat split.
      * eapply Forall_impl; [|exact Hfr]. intros ch [Hs _]. exact Hs.
      * exact Hcat.
      * eapply Forall_impl; [|exact Hfr]. intros ch [_ Hs]. exact Hs.
      * exact Hl.
Qed.

(* ---- the statements about split_msg ---- *)

Lemma split_off data : split_msg 0 data = [(data, true)].
Proof. reflexivity. Qed.

Lemma split_empty c : split_msg c [] = [([], true)].
Proof. unfold split_msg. destruct (c =? 0); reflexivity. Qed.

Lemma split_concat c data : 0 <= c -> concat (map fst (split_msg c data)) = data.
Proof.
  intros Hc. destruct (split_msg_shape c data Hc) as (front & lastc & Heq & _ & Hcat & _).
  rewrite Heq, map_app, concat_app. cbn [map concat fst]. rewrite app_nil_r. exact Hcat.
Qed.

Lemma split_last_final c data : 0 <= c ->
  exists front lastc, split_msg c data = front ++ [(lastc, true)] /\ Forall (fun ch => snd ch = false) front.
Proof.
  intros Hc. destruct (split_msg_shape c data Hc) as (front & lastc & Heq & Hfr & _).
  exists front, lastc. split; assumption.
Qed.

Lemma split_bounds c data : 0 < c ->
  Forall (fun ch => len (fst ch) <= c) (split_msg c data) /\
  (forall front lastc, split_msg c data = front ++ [(lastc, true)] -> Forall (fun ch => len (fst ch) = c) front).
Proof.
  intros Hc. destruct (split_msg_shape c data ltac:(lia)) as (front & lastc & Heq & _ & _ & Hb).
  destruct (Hb Hc) as [Hfr Hl]. split.
  - rewrite Heq. apply Forall_app. split.
    + eapply Forall_impl; [|exact Hfr]. intros ch H. cbv beta in H. lia.
    + constructor; [exact Hl|constructor].
  - intros front' lastc' Heq'. rewrite Heq in Heq'. apply app_inj_tail in Heq'.
    destruct Heq' as [<- _]. exact Hfr.
Qed.

Lemma split_nonempty c data : split_msg c data <> [].
Proof.
  unfold split_msg. destruct (c =? 0); [discriminate|].
  destruct data as [|b data]; [discriminate|].
  cbn [length split_fuel]. destruct (len (b :: data) <=? c); discriminate.
Qed.

(* ---- take_msg ---- *)

Lemma take_msg_chunks pf pl rest : forall acc,
  Forall (fun p => PacketData_FinalChunk p = false) pf -> PacketData_FinalChunk pl = true ->
  take_msg (pf ++ pl :: rest) acc =
    Some (acc ++ concat (map PacketData_Payload pf) ++ PacketData_Payload pl, rest).
Proof.
  induction pf as [|p pf IH]; intros acc Hpf Hpl; cbn [app take_msg map concat].
  - rewrite Hpl. reflexivity.
  - inversion Hpf as [|? ? Hp Hpf']; subst. rewrite Hp. rewrite IH by assumption.
    rewrite <- !app_assoc. reflexivity.
Qed.

(* take_msg reads only (Payload, FinalChunk) *)
Lemma take_msg_split pkts c data rest acc : 0 <= c -> map proj pkts = split_msg c data ->
  take_msg (pkts ++ rest) acc = Some (acc ++ data, rest).
Proof.
  intros Hc Hmap.
  destruct (split_msg_shape c data Hc) as (front & lastc & Heq & Hfr & Hcat & _).
  rewrite Heq in Hmap. apply map_eq_app in Hmap.
  destruct Hmap as (pf & pl1 & -> & Hpf & Hpl).
  apply map_eq_cons in Hpl. destruct Hpl as (pl & tl & -> & Hproj & Htl).
  apply map_eq_nil in Htl. subst tl.
  unfold proj in Hproj. inversion Hproj as [[Hpay Hfin]].
  rewrite <- app_assoc. cbn [app]. rewrite take_msg_chunks.
  - subst front. rewrite map_map in Hcat.
    rewrite (map_ext _ PacketData_Payload) in Hcat by (intros; reflexivity).
    rewrite Hpay, Hcat. reflexivity.
  - subst front. rewrite Forall_map in Hfr. exact Hfr.
  - exact Hfin.
Qed.

(* ---- reassembly ---- *)

Lemma reassemble_fuel_split c : 0 <= c -> forall msgs pkts fuel,
  (length msgs <= fuel)%nat ->
  map proj pkts = concat (map (split_msg c) msgs) -> reassemble_fuel fuel pkts = msgs.
Proof.
  intros Hc. induction msgs as [|m msgs IH]; intros pkts fuel Hfuel Hmap.
  - cbn [map concat] in Hmap. apply map_eq_nil in Hmap. subst pkts.
    destruct fuel; reflexivity.
  - destruct fuel as [|fuel]; [cbn [length] in Hfuel; lia|].
    cbn [map concat] in Hmap. apply map_eq_app in Hmap.
    destruct Hmap as (p1 & p2 & -> & Hp1 & Hp2).
    cbn [reassemble_fuel]. rewrite (take_msg_split p1 c m p2 [] Hc Hp1). cbn [app].
    f_equal. apply IH; [cbn [length] in Hfuel; lia|exact Hp2].
Qed.

Lemma chunks_length c msgs : (length msgs <= length (concat (map (split_msg c) msgs)))%nat.
Proof.
  induction msgs as [|m msgs IH]; cbn [map concat length]; [lia|].
  rewrite app_length. pose proof (split_nonempty c m) as Hne.
  destruct (split_msg c m); [congruence|]. cbn [length]. lia.
Qed.

Theorem split_reassemble c msgs pkts : 0 <= c ->
  map proj pkts = concat (map (split_msg c) msgs) -> reassemble pkts = msgs.
Proof.
  intros Hc Hmap. unfold reassemble. apply (reassemble_fuel_split c Hc); [|exact Hmap].
  rewrite <- (map_length proj pkts), Hmap. apply chunks_length.
Qed.

(* chunk_pkts is a right inverse of proj, so the hypothesis of split_reassemble is satisfiable *)
Lemma proj_chunk_pkts l : map proj (chunk_pkts l) = l.
Proof.
  unfold chunk_pkts. rewrite map_map. rewrite <- (map_id l) at 2.
  apply map_ext. intros [pl fin]. reflexivity.
Qed.

Corollary split_reassemble_chunks c msgs : 0 <= c ->
  reassemble (chunk_pkts (concat (map (split_msg c) msgs))) = msgs.
Proof. intros Hc. apply (split_reassemble c); [exact Hc|apply proj_chunk_pkts]. Qed.

Print Assumptions split_off.
Print Assumptions split_concat.
Print Assumptions split_last_final.
Print Assumptions split_bounds.
Print Assumptions take_msg_split.
Print Assumptions split_reassemble.
