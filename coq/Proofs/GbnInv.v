(* The inductive invariant of the one-direction Go-Back-N system (Model/Gbn.v)
   and the statements proved from it. *)
From LNC Require Import GoLite MessagesGen QueueGen Gbn Window.
Open Scope Z_scope.

(* ---- the invariant ---- *)

Definition nth_sent (st : dsys) (d : Z) : option PacketData :=
  if d <? 0 then None else nth_error (d_sent st) (Z.to_nat d).

Definition fitem_ok (st : dsys) (it : fitem) : Prop :=
  0 <= f_d it /\ f_t it - d_n st <= f_d it /\ f_d it < f_t it /\ f_t it <= d_T st /\
  d_R st <= f_t it /\ nth_sent st (f_d it) = Some (f_pkt it).

Definition ctrl_ok (s : Z) (c : ctrl) (e : Z) : Prop :=
  match c with
  | CAck a => 1 <= e /\ a = (e - 1) mod s
  | CNack v => v = e mod s
  end.

Definition bitem_ok (st : dsys) (it : bitem) : Prop :=
  d_B st <= b_e it <= d_R st /\ ctrl_ok (d_n st + 1) (b_ctrl it) (b_e it).

Fixpoint sorted (l : list Z) : Prop :=
  match l with
  | [] => True
  | x :: rest => (forall y, In y rest -> x <= y) /\ sorted rest
  end.

Record Inv (st : dsys) : Prop := {
  i_sender : sender_ok (d_q st) (d_n st) (d_B st) (d_T st);
  i_R : d_B st <= d_R st <= d_T st;
  i_recv : d_recv st = d_R st mod (d_n st + 1);
  i_rs : d_rs st = d_n st + 1;
  i_clen : len (queue_content (d_q st)) = d_n st + 1;
  i_sentlen : len (d_sent st) = d_T st;
  i_prefix : d_delivered st = firstn (Z.to_nat (d_R st)) (d_sent st);
  i_seq : forall d p, nth_sent st d = Some p -> PacketData_Seq p = d mod (d_n st + 1);
  i_content : forall d, 0 <= d < d_T st -> d_T st - d <= d_n st + 1 ->
              idx (queue_content (d_q st)) (d mod (d_n st + 1)) = Ok (nth_sent st d);
  i_content_inv : forall k p, 0 <= k < d_n st + 1 -> idx (queue_content (d_q st)) k = Ok (Some p) ->
              0 <= slot_index (d_T st) (d_n st + 1) k;
  i_fwd : Forall (fitem_ok st) (d_fwd st);
  i_fwd_sorted : sorted (map f_t (d_fwd st));
  i_bwd : Forall (bitem_ok st) (d_bwd st);
  i_bwd_sorted : sorted (map b_e (d_bwd st));
  i_pend : match d_pend st with Some c => ctrl_ok (d_n st + 1) c (d_R st) | None => True end
}.

Example example_run_ok :
  match drun (dinit 2) example_run with
  | DOk st => d_T st = 5 /\ d_B st = 5 /\ d_R st = 5 /\ map PacketData_Payload (d_delivered st) = [[10]; [11]; [12]; [13]; [14]]
  | _ => False
  end.
Proof. vm_compute. repeat split; reflexivity. Qed.
