From LNC Require Import GoLite MessagesGen MsgDataGen Codec.
Open Scope Z_scope.

(* decide a lenguard `a <? b` whose outcome follows from list lengths *)
Ltac lenguard :=
  match goal with
  | |- context [?a <? ?b] =>
      let E := fresh "E" in
      destruct (a <? b) eqn:E; first [ (exfalso; lia) | idtac ];
      idtac
  end.

Ltac zsub := cbn [Z.sub Z.add Z.pos_sub Pos.pred_double Z.opp Z.succ_double Z.pred_double Pos.add Pos.succ].

Ltac idxs :=
  repeat (first [ rewrite idx_cons0
                | rewrite idx_consS by lia; zsub
                | rewrite slice_from_0
                | rewrite slice_from_consS by lia; zsub ]).

Lemma data_roundtrip v :
  exists b, PacketData_Serialize v = Ok (Some b) /\ Deserialize b = Ok (Some (Message_PacketData v)).
Proof.
  destruct v as [sq f p pl].
  unfold PacketData_Serialize; cbn [PacketData_Seq PacketData_FinalChunk PacketData_IsPing PacketData_Payload app].
  pose proof (len_nonneg pl) as Hl.
  destruct f, p; eexists; (split; [reflexivity|]);
    unfold Deserialize; rewrite !len_cons; repeat lenguard; idxs; cbn [bind Z.eqb Pos.eqb];
    repeat lenguard; idxs; cbn [bind Z.eqb Pos.eqb]; reflexivity.
Qed.

Lemma gbn_roundtrip (m : Message) :
  exists b, Message_Serialize m = Ok (Some b) /\ Deserialize b = Ok (Some m).
Proof.
  destruct m as [v|[x]|[x]|[x]|[]|[]]; cbn [Message_Serialize].
  - apply data_roundtrip.
  - eexists; split; reflexivity.
  - eexists; split; reflexivity.
  - eexists; split; reflexivity.
  - eexists; split; reflexivity.
  - eexists; split; reflexivity.
Qed.

Lemma gbn_serialize_total (m : Message) : exists b, Message_Serialize m = Ok (Some b).
Proof. destruct (gbn_roundtrip m) as [b [H _]]; eauto. Qed.

Lemma gbn_stable (b : list Z) (m : Message) :
  Deserialize b = Ok (Some m) ->
  exists b', Message_Serialize m = Ok (Some b') /\ Deserialize b' = Ok (Some m).
Proof. intros _. apply gbn_roundtrip. Qed.

(* two serialisations that are equal come from equal messages: both ends
   interpret a packet identically *)
Lemma gbn_serialize_injective (m1 m2 : Message) b :
  Message_Serialize m1 = Ok (Some b) -> Message_Serialize m2 = Ok (Some b) -> m1 = m2.
Proof.
  intros H1 H2.
  destruct (gbn_roundtrip m1) as [b1 [S1 D1]], (gbn_roundtrip m2) as [b2 [S2 D2]].
  congruence.
Qed.

(* ---- MsgData ---- *)

Lemma be32_roundtrip v : 0 <= v < 4294967296 -> be32_get (be32_put v) = Ok v.
Proof.
  intros H. unfold be32_get, be32_put. f_equal.
  pose proof (Z.div_mod v 256 ltac:(lia)).
  pose proof (Z.div_mod (v / 256) 256 ltac:(lia)).
  pose proof (Z.div_mod (v / 65536) 256 ltac:(lia)).
  replace (v / 65536) with (v / 256 / 256) in * by (rewrite Z.div_div by lia; reflexivity).
  replace (v / 16777216) with (v / 256 / 256 / 256) by (rewrite !Z.div_div by lia; reflexivity).
  assert (v / 256 / 256 / 256 < 256) by (apply Z.div_lt_upper_bound; [lia|]; apply Z.div_lt_upper_bound; [lia|]; apply Z.div_lt_upper_bound; lia).
  assert (0 <= v / 256 / 256 / 256) by (repeat apply Z.div_pos; lia).
  rewrite (Z.mod_small (v / 256 / 256 / 256)) by lia.
  pose proof (Z.div_mod (v / 256 / 256) 256 ltac:(lia)).
  lia.
Qed.

Lemma be32_put_len v : len (be32_put v) = 4.
Proof. reflexivity. Qed.

Lemma slice_app_exact {A} (pre l post : list A) i j :
  i = len pre -> j = len pre + len l -> slice (pre ++ l ++ post) i j = Ok l.
Proof.
  intros -> ->. unfold slice. rewrite !len_app.
  pose proof (len_nonneg pre). pose proof (len_nonneg l). pose proof (len_nonneg post).
  destruct (len pre <? 0) eqn:E1; [lia|].
  destruct (len pre + len l <? len pre) eqn:E2; [lia|].
  destruct (len pre + (len l + len post) <? len pre + len l) eqn:E3; [lia|].
  cbn [orb]. f_equal.
  replace (Z.to_nat (len pre)) with (length pre) by (unfold len; lia).
  rewrite skipn_app, skipn_all, Nat.sub_diag. cbn [skipn app].
  replace (Z.to_nat (len pre + len l - len pre)) with (length l) by (unfold len; lia).
  rewrite firstn_app, firstn_all, Nat.sub_diag. cbn [firstn]. apply app_nil_r.
Qed.

Lemma slice_app_tail {A} (pre l : list A) i j :
  i = len pre -> j = len pre + len l -> slice (pre ++ l) i j = Ok l.
Proof.
  intros Hi Hj. rewrite <- (app_nil_r l) at 1. apply slice_app_exact; assumption.
Qed.

Lemma msgdata_roundtrip (m : MsgData) :
  len (MsgData_Payload m) < 4294967296 ->
  exists b, MsgData_Serialize m = Ok (Some b) /\ MsgData_decode b = Ok (Some m).
Proof.
  destruct m as [ver pl]. cbn [MsgData_Payload]. intros Hlen.
  pose proof (len_nonneg pl) as Hl.
  unfold MsgData_Serialize. cbn [MsgData_Payload MsgData_version app].
  unfold u32. rewrite Z.mod_small by lia.
  unfold be32_put_into. change (len (zeros 4)) with 4. cbn [Z.ltb Z.compare Pos.compare Pos.compare_cont bind].
  change (copy_into (zeros 4) (be32_put (len pl))) with (be32_put (len pl)).
  assert (Hdec : forall tail, tail = pl \/ (tail = [] /\ pl = []) ->
      MsgData_decode ((ver :: be32_put (len pl)) ++ tail) = Ok (Some (mk_MsgData ver pl))).
  { intros tail Ht.
    assert (len tail = len pl) as Htl by (destruct Ht as [->|[-> ->]]; reflexivity).
    unfold MsgData_decode, MsgData_Deserialize, NewMsgData.
    rewrite len_app, len_cons, be32_put_len.
    destruct (1 + 4 + len tail <? 5) eqn:E1; [lia|].
    cbn [app]. rewrite idx_cons0. cbn [bind set_MsgData_version MsgData_Payload MsgData_version].
    change (ver :: be32_put (len pl) ++ tail) with ([ver] ++ be32_put (len pl) ++ tail).
    rewrite (slice_app_exact [ver] (be32_put (len pl)) tail 1 5) by reflexivity.
    cbn [bind]. rewrite be32_roundtrip by lia. cbn [bind].
    destruct (1 + 4 + len tail <? 5 + len pl) eqn:E2; [lia|].
    destruct (0 <? len pl) eqn:E3.
    - destruct Ht as [->|[_ ->]]; [|discriminate].
      rewrite app_assoc.
      rewrite (slice_app_tail ([ver] ++ be32_put (len pl)) pl 5 (5 + len pl)) by reflexivity.
      reflexivity.
    - assert (pl = []) as -> by (apply len_le0_nil; lia).
      reflexivity. }
  destruct (0 <? len pl) eqn:E.
  - eexists; split; [reflexivity|]. apply Hdec. left; reflexivity.
  - eexists; split; [reflexivity|].
    assert (pl = []) as -> by (apply len_le0_nil; lia).
    rewrite <- (app_nil_r (ver :: be32_put (len []))). apply Hdec. right; split; reflexivity.
Qed.

Lemma msgdata_stable (b : list Z) (m : MsgData) :
  MsgData_decode b = Ok (Some m) ->
  len (MsgData_Payload m) < 4294967296 ->
  exists b', MsgData_Serialize m = Ok (Some b') /\ MsgData_decode b' = Ok (Some m).
Proof. intros _. apply msgdata_roundtrip. Qed.
