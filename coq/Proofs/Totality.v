(* No byte string makes the generated decoders panic (C07). *)
From LNC Require Import GoLite MessagesGen MsgDataGen Codec.
Open Scope Z_scope.

Ltac zsub := cbn [Z.sub Z.add Z.pos_sub Pos.pred_double Z.opp Z.succ_double Z.pred_double Pos.add Pos.succ].

Ltac idxs :=
  repeat (first [ rewrite idx_cons0
                | rewrite idx_consS by lia; zsub
                | rewrite slice_from_0
                | rewrite slice_from_consS by lia; zsub ]).

Ltac split_ifs :=
  repeat match goal with
         | |- context [if ?c then _ else _] => let E := fresh "E" in destruct c eqn:E
         end.

Lemma deserialize_total (b : list Z) : Deserialize b <> Panic.
Proof.
  unfold Deserialize.
  destruct b as [|b0 [|b1 [|b2 [|b3 rest]]]].
  - cbn. discriminate.
  - rewrite !len_cons, len_nil. idxs. cbn [bind]. split_ifs; try discriminate; try lia.
  - rewrite !len_cons, len_nil. idxs. cbn [bind]. split_ifs; idxs; cbn [bind]; try discriminate; try lia.
  - rewrite !len_cons, len_nil. idxs. cbn [bind]. split_ifs; idxs; cbn [bind]; try discriminate; try lia.
  - pose proof (len_nonneg rest). rewrite !len_cons. idxs. cbn [bind].
    split_ifs; idxs; cbn [bind]; try discriminate; try lia.
Qed.

Lemma slice_total {A} (l : list A) i j : 0 <= i <= j -> j <= len l -> exists r, slice l i j = Ok r.
Proof.
  intros H1 H2. unfold slice.
  destruct (i <? 0) eqn:E1; [lia|]. destruct (j <? i) eqn:E2; [lia|].
  destruct (len l <? j) eqn:E3; [lia|]. cbn [orb]. eauto.
Qed.

Lemma slice_len {A} (l : list A) i j r : slice l i j = Ok r -> len r = j - i.
Proof.
  unfold slice. destruct ((i <? 0) || (j <? i) || (len l <? j)) eqn:E; [discriminate|].
  apply orb_false_iff in E. destruct E as [E E3]. apply orb_false_iff in E. destruct E as [E1 E2].
  intros H. injection H as <-. unfold len in *. rewrite firstn_length, skipn_length. lia.
Qed.

Lemma be32_get_total (b : list Z) : 4 <= len b -> exists v, be32_get b = Ok v.
Proof.
  destruct b as [|b0 [|b1 [|b2 [|b3 rest]]]]; rewrite ?len_cons, ?len_nil; intros H; try lia.
  cbn. eauto.
Qed.

Lemma be32_get_nonneg (b : list Z) v : Forall (fun x => 0 <= x) b -> be32_get b = Ok v -> 0 <= v.
Proof.
  intros HF. destruct b as [|b0 [|b1 [|b2 [|b3 rest]]]]; cbn; try discriminate.
  intros H. injection H as <-.
  inversion HF as [|? ? H0 HF1]; subst. inversion HF1 as [|? ? H1 HF2]; subst.
  inversion HF2 as [|? ? H2 HF3]; subst. inversion HF3 as [|? ? H3 HF4]; subst. lia.
Qed.

Lemma In_firstn {A} (l : list A) n x : In x (firstn n l) -> In x l.
Proof.
  revert l. induction n as [|n IH]; intros l H; cbn in H; [contradiction|].
  destruct l; cbn in H; [contradiction|]. destruct H as [->|H]; [left; reflexivity|right; apply IH; exact H].
Qed.

Lemma In_skipn {A} (l : list A) n x : In x (skipn n l) -> In x l.
Proof.
  revert l. induction n as [|n IH]; intros l H; [exact H|].
  destruct l; cbn in H; [contradiction|]. right. apply IH. exact H.
Qed.

Lemma Forall_slice {A} (P : A -> Prop) (l : list A) i j r : Forall P l -> slice l i j = Ok r -> Forall P r.
Proof.
  unfold slice. destruct ((i <? 0) || (j <? i) || (len l <? j)); [discriminate|].
  intros HF H. injection H as <-. apply Forall_forall. intros x Hx.
  rewrite Forall_forall in HF. apply HF. apply In_firstn in Hx. apply In_skipn in Hx. exact Hx.
Qed.

(* MsgData.Deserialize on bytes (every element >= 0, as all Go bytes are) never panics *)
Lemma msgdata_deserialize_total (m : MsgData) (b : list Z) :
  Forall (fun x => 0 <= x) b -> MsgData_Deserialize m b <> Panic.
Proof.
  intros HF. unfold MsgData_Deserialize.
  destruct (len b <? 5) eqn:E1; [discriminate|].
  destruct (idx_in_range b 0 ltac:(lia)) as [v0 ->]. cbn [bind].
  destruct (slice_total b 1 5 ltac:(lia) ltac:(lia)) as [lb Hlb]. rewrite Hlb. cbn [bind].
  pose proof (slice_len _ _ _ _ Hlb) as Hlen.
  destruct (be32_get_total lb ltac:(lia)) as [pl Hpl]. rewrite Hpl. cbn [bind].
  pose proof (be32_get_nonneg lb pl (Forall_slice _ _ _ _ _ HF Hlb) Hpl) as Hnn.
  destruct (len b <? 5 + pl) eqn:E2; [discriminate|].
  destruct (0 <? pl) eqn:E3; [|discriminate].
  destruct (slice_total b 5 (5 + pl) ltac:(lia) ltac:(lia)) as [r ->]. cbn [bind]. discriminate.
Qed.

Lemma msgdata_decode_total (b : list Z) : Forall (fun x => 0 <= x) b -> MsgData_decode b <> Panic.
Proof.
  intros HF. unfold MsgData_decode.
  pose proof (msgdata_deserialize_total (NewMsgData 0 []) b HF) as H.
  destruct (MsgData_Deserialize (NewMsgData 0 []) b) as [[m e]|]; [|contradiction].
  cbn [bind]. discriminate.
Qed.
