(* Safety of the one-direction Go-Back-N system (Model/Gbn.v): the invariant
   Inv of GbnInv.v holds initially, is preserved by every step, no step of
   the generated queue code panics from a state satisfying it, and the
   delivered stream is a prefix of the sent stream. *)
From LNC Require Import GoLite MessagesGen QueueGen Gbn Window GbnInv.
Open Scope Z_scope.

(* ---- generic list facts ---- *)

Lemma sorted_app_tail l y : sorted l -> (forall x, In x l -> x <= y) -> sorted (l ++ [y]).
Proof.
  induction l as [|a l IH]; intros Hs Hle; cbn [app sorted].
  - split; [intros ? []|exact I].
  - destruct Hs as [Ha Hs]. split.
    + intros z Hz. apply in_app_or in Hz. destruct Hz as [Hz|[Hz|[]]].
      * apply Ha; exact Hz.
      * subst z. apply Hle. left; reflexivity.
    + apply IH; [exact Hs|]. intros x Hx. apply Hle. right; exact Hx.
Qed.

Lemma len_snoc {A} (l : list A) (x : A) : len (l ++ [x]) = len l + 1.
Proof. unfold len. rewrite app_length. cbn [length]. lia. Qed.

Lemma firstn_succ_nth {A} (l : list A) k x :
  nth_error l k = Some x -> firstn (S k) l = firstn k l ++ [x].
Proof.
  revert k; induction l as [|a l IH]; intros k H; destruct k; cbn in *; try discriminate.
  - inversion H; reflexivity.
  - f_equal. apply IH; exact H.
Qed.

Lemma upd_nat_spec {A} (l : list A) k v l' : upd_nat l k v = Some l' ->
  length l' = length l /\ nth_error l' k = Some v /\
  (forall j, j <> k -> nth_error l' j = nth_error l j).
Proof.
  revert k l'. induction l as [|h t IH]; intros k l' H; [destruct k; discriminate|].
  destruct k; cbn in H.
  - inversion H; subst. cbn. repeat split. intros j Hj. destruct j; [congruence|reflexivity].
  - destruct (upd_nat t k v) as [t'|] eqn:E; [|discriminate]. inversion H; subst.
    destruct (IH _ _ E) as (Hl & Hn & Ho). cbn. repeat split; [lia|exact Hn|].
    intros j Hj. destruct j; [reflexivity|]. cbn. apply Ho. lia.
Qed.

Lemma upd_spec {A} (l : list A) i v l' : upd l i v = Ok l' ->
  len l' = len l /\ idx l' i = Ok v /\ (forall j, 0 <= j -> j <> i -> idx l' j = idx l j).
Proof.
  unfold upd. destruct (i <? 0) eqn:E; [discriminate|].
  destruct (upd_nat l (Z.to_nat i) v) as [l0|] eqn:E2; [|discriminate].
  intros H; inversion H; subst l0. destruct (upd_nat_spec _ _ _ _ E2) as (Hl & Hn & Ho).
  split; [unfold len; lia|]. split.
  - unfold idx. rewrite E, Hn. reflexivity.
  - intros j Hj Hne. unfold idx. destruct (j <? 0) eqn:E3; [lia|]. rewrite Ho by lia. reflexivity.
Qed.

(* ---- the history `sent` as a partial function of the ghost index ---- *)

Definition nths (l : list PacketData) (d : Z) : option PacketData :=
  if d <? 0 then None else nth_error l (Z.to_nat d).

Lemma nth_sent_nths st d : nth_sent st d = nths (d_sent st) d.
Proof. reflexivity. Qed.

Lemma nths_range l d p : nths l d = Some p -> 0 <= d < len l.
Proof.
  unfold nths. destruct (d <? 0) eqn:E; [discriminate|]. intros H.
  assert (nth_error l (Z.to_nat d) <> None) as Hn by congruence.
  apply nth_error_Some in Hn. unfold len. lia.
Qed.

Lemma nths_app_l l l' d : 0 <= d < len l -> nths (l ++ l') d = nths l d.
Proof.
  intros H. unfold nths. destruct (d <? 0); [reflexivity|].
  apply nth_error_app1. unfold len in H. lia.
Qed.

Lemma nths_app_last l x : nths (l ++ [x]) (len l) = Some x.
Proof.
  unfold nths. pose proof (len_nonneg l). destruct (len l <? 0) eqn:E; [lia|].
  unfold len. rewrite Nat2Z.id. rewrite nth_error_app2 by lia.
  rewrite Nat.sub_diag. reflexivity.
Qed.

(* ---- slot_index ---- *)

Lemma slot_index_range T s k : 0 < s -> T - s <= slot_index T s k < T.
Proof. intros Hs. unfold slot_index. pose proof (mod_bound (T - 1 - k) s Hs). lia. Qed.

Lemma slot_index_mod T s k : 0 < s -> 0 <= k < s -> slot_index T s k mod s = k.
Proof.
  intros Hs Hk. unfold slot_index. rewrite mod_minus_mod by lia.
  replace (T - 1 - (T - 1 - k)) with k by lia. apply mod_lo; lia.
Qed.

Lemma slot_index_unique T s k d :
  0 < s -> 0 <= k < s -> d mod s = k -> T - s <= d < T -> slot_index T s k = d.
Proof.
  intros Hs Hk Hd Hr. pose proof (slot_index_range T s k Hs).
  apply (mod_unique _ _ s); [lia| |lia]. rewrite slot_index_mod by lia. lia.
Qed.

Lemma mod_minus_s T s : 0 < s -> (T - s) mod s = T mod s.
Proof. intros. replace (T - s) with (T + (-1) * s) by lia. apply mod_shift. lia. Qed.

Lemma slot_index_above T s k :
  0 < s -> 0 <= k < s -> k <> T mod s -> T - s < slot_index T s k.
Proof.
  intros Hs Hk Hne. pose proof (slot_index_range T s k Hs) as Hr.
  pose proof (slot_index_mod T s k Hs Hk) as Hm.
  destruct (Z.eq_dec (slot_index T s k) (T - s)) as [Heq|Hn]; [|lia].
  exfalso. apply Hne. rewrite <- Hm, Heq. apply mod_minus_s. lia.
Qed.

Lemma slot_index_succ T s k :
  0 < s -> 0 <= k < s -> k <> T mod s -> slot_index (T + 1) s k = slot_index T s k.
Proof.
  intros Hs Hk Hne. pose proof (slot_index_range T s k Hs).
  pose proof (slot_index_above T s k Hs Hk Hne).
  apply slot_index_unique; try lia. apply slot_index_mod; lia.
Qed.

Lemma slot_index_top T s : 0 < s -> slot_index (T + 1) s (T mod s) = T.
Proof.
  intros Hs. pose proof (mod_bound T s Hs). apply slot_index_unique; lia.
Qed.

Lemma mod_neq_window d T s : 0 < s -> d < T -> T - d < s -> d mod s <> T mod s.
Proof.
  intros Hs H1 H2 Heq. assert (d = T) by (apply (mod_unique _ _ s); lia). lia.
Qed.

Lemma adv_eq B e s : 0 < s -> 0 <= e - B < s -> (e mod s - B mod s) mod s = e - B.
Proof. intros. rewrite <- Zminus_mod. apply mod_lo; lia. Qed.

(* ---- monotonicity of the per-item predicates ---- *)

Lemma fitem_ok_mono st st' it :
  fitem_ok st it -> d_n st' = d_n st -> d_T st <= d_T st' -> d_R st' <= f_t it ->
  (forall d p, nth_sent st d = Some p -> nth_sent st' d = Some p) -> fitem_ok st' it.
Proof.
  intros (H1 & H2 & H3 & H4 & H5 & H6) Hn HT HR Hs. unfold fitem_ok. rewrite Hn.
  repeat split; try lia. apply Hs; exact H6.
Qed.

Lemma bitem_ok_mono st st' it :
  bitem_ok st it -> d_n st' = d_n st -> d_B st' <= b_e it -> b_e it <= d_R st' -> bitem_ok st' it.
Proof.
  intros (H1 & H2) Hn HB HR. unfold bitem_ok. rewrite Hn. split; [lia|exact H2].
Qed.

Lemma fwd_t_le st l x : Forall (fitem_ok st) l -> In x (map f_t l) -> x <= d_T st.
Proof.
  intros HF Hx. apply in_map_iff in Hx. destruct Hx as (it & <- & Hin).
  rewrite Forall_forall in HF. destruct (HF it Hin) as (_ & _ & _ & H & _). exact H.
Qed.

Lemma bwd_e_le st l x : Forall (bitem_ok st) l -> In x (map b_e l) -> x <= d_R st.
Proof.
  intros HF Hx. apply in_map_iff in Hx. destruct Hx as (it & <- & Hin).
  rewrite Forall_forall in HF. destruct (HF it Hin) as ((_ & H) & _). exact H.
Qed.

Ltac simpl_st :=
  cbn [d_n d_q d_recv d_rs d_pend d_fwd d_bwd d_B d_T d_R d_sent d_delivered].
Ltac simpl_q :=
  cbn [queue_cfg queue_content queue_sequenceBase queue_sequenceTop queueCfg_s
       set_queue_sequenceTop set_queue_content set_queue_sequenceBase with_base].

Ltac simpl_st_in H :=
  cbn [d_n d_q d_recv d_rs d_pend d_fwd d_bwd d_B d_T d_R d_sent d_delivered] in H.
Ltac simpl_q_in H :=
  cbn [queue_cfg queue_content queue_sequenceBase queue_sequenceTop queueCfg_s
       set_queue_sequenceTop set_queue_content set_queue_sequenceBase with_base] in H.

Definition good (r : dres) : Prop :=
  match r with DOk st' => Inv st' | DReject => True | DPanic => False end.

(* ---- initial state ---- *)

Lemma dinit_inv n : 1 <= n <= 254 -> Inv (dinit n).
Proof.
  intros Hn. unfold dinit. constructor; simpl_st.
  - constructor; simpl_q; try lia; rewrite Z.mod_0_l by lia; reflexivity.
  - lia.
  - rewrite Z.mod_0_l by lia; reflexivity.
  - reflexivity.
  - simpl_q. unfold len. rewrite repeat_length. lia.
  - reflexivity.
  - rewrite firstn_nil. reflexivity.
  - intros d p H. apply nths_range in H. simpl_st_in H. unfold len in H. cbn [length] in H. lia.
  - intros d H. lia.
  - intros k p Hk H. exfalso. simpl_q_in H. unfold idx in H.
    destruct (k <? 0); [discriminate|].
    destruct (nth_error (repeat None (Z.to_nat (n + 1))) (Z.to_nat k)) as [o|] eqn:E; [|discriminate].
    apply nth_error_In in E. apply repeat_spec in E. subst o. discriminate.
  - constructor.
  - exact I.
  - constructor.
  - exact I.
  - exact I.
Qed.

(* ---- DNew ---- *)

Lemma dstep_good_new st p : Inv st -> good (dstep st (DNew p)).
Proof.
  intros Hinv.
  pose proof Hinv as [Hsnd HR Hrecv Hrs Hclen Hslen Hpre Hseq Hcont Hcinv Hfwd Hfs Hbwd Hbs Hpend].
  pose proof Hsnd as [Hn HBT Hw Hcs Hb Ht].
  assert (Hs0 : 0 < d_n st + 1) by lia.
  unfold dstep. rewrite (size_ghost _ _ _ _ Hsnd). cbn [lift].
  destruct (d_T st - d_B st <? d_n st) eqn:Esz; cbn [negb]; [|exact I].
  apply Z.ltb_lt in Esz.
  destruct (addPacket_ghost _ _ _ _ p Hsnd Hclen) as (c' & Hupd & Hadd).
  rewrite Hadd. cbn [lift good].
  destruct (upd_spec _ _ _ _ Hupd) as (Hlen' & Hnew & Hold).
  pose proof (mod_bound (d_T st) (d_n st + 1) Hs0) as HTm.
  assert (Hsent' : forall d q, nth_sent st d = Some q ->
            nths (d_sent st ++ [set_PacketData_Seq p (d_T st mod (d_n st + 1))]) d = Some q).
  { intros d q H. pose proof (nths_range _ _ _ H) as Hr. rewrite nths_app_l by exact Hr. exact H. }
  constructor; simpl_st.
  - constructor; simpl_q; try assumption; try lia; reflexivity.
  - lia.
  - exact Hrecv.
  - exact Hrs.
  - simpl_q. lia.
  - rewrite len_snoc. lia.
  - rewrite firstn_app.
    replace (Z.to_nat (d_R st) - length (d_sent st))%nat with 0%nat by (unfold len in Hslen; lia).
    cbn [firstn]. rewrite app_nil_r. exact Hpre.
  - intros d q H. rewrite nth_sent_nths in H. simpl_st_in H.
    pose proof (nths_range _ _ _ H) as Hr. rewrite len_snoc in Hr.
    destruct (Z.eq_dec d (d_T st)) as [Heq|Hne].
    + subst d. rewrite <- Hslen in H at 2. rewrite nths_app_last in H.
      inversion H; subst q. reflexivity.
    + rewrite nths_app_l in H by lia. apply Hseq. exact H.
  - intros d Hd Hwin. simpl_q. rewrite nth_sent_nths. simpl_st.
    destruct (Z.eq_dec d (d_T st)) as [Heq|Hne].
    + subst d. rewrite Hnew. rewrite <- Hslen at 3. rewrite nths_app_last. reflexivity.
    + rewrite Hold.
      * rewrite nths_app_l by lia. apply Hcont; lia.
      * apply mod_bound; lia.
      * apply mod_neq_window; lia.
  - intros k q Hk H. simpl_q_in H.
    destruct (Z.eq_dec k (d_T st mod (d_n st + 1))) as [Heq|Hne].
    + subst k. rewrite slot_index_top by lia. lia.
    + rewrite slot_index_succ by lia. apply (Hcinv k q Hk). rewrite <- Hold by lia. exact H.
  - apply Forall_app. split.
    + eapply Forall_impl; [|exact Hfwd]. intros it Hit.
      pose proof Hit as (_ & _ & _ & _ & H5 & _).
      apply (fitem_ok_mono st); simpl_st; try lia; try reflexivity; [exact Hit|].
      intros d q H. rewrite nth_sent_nths. simpl_st. apply Hsent'. exact H.
    + constructor; [|constructor]. unfold fitem_ok. cbn [f_d f_t f_pkt]. simpl_st.
      repeat split; try lia. rewrite nth_sent_nths. simpl_st.
      rewrite <- Hslen. apply nths_app_last.
  - rewrite map_app. cbn [map f_t]. apply sorted_app_tail; [exact Hfs|].
    intros x Hx. pose proof (fwd_t_le st _ x Hfwd Hx). lia.
  - eapply Forall_impl; [|exact Hbwd]. intros it Hit. pose proof Hit as ((H1 & H2) & _).
    apply (bitem_ok_mono st); simpl_st; try lia; try reflexivity. exact Hit.
  - exact Hbs.
  - exact Hpend.
Qed.

(* ---- DRetx ---- *)

Lemma dstep_good_retx st k : Inv st -> good (dstep st (DRetx k)).
Proof.
  intros Hinv.
  pose proof Hinv as [Hsnd HR Hrecv Hrs Hclen Hslen Hpre Hseq Hcont Hcinv Hfwd Hfs Hbwd Hbs Hpend].
  pose proof Hsnd as [Hn HBT Hw Hcs Hb Ht].
  assert (Hs0 : 0 < d_n st + 1) by lia.
  unfold dstep.
  destruct ((k =? queue_sequenceTop (d_q st)) || (k <? 0) || (queueCfg_s (queue_cfg (d_q st)) <=? k)) eqn:Eg;
    [exact I|].
  apply orb_false_iff in Eg. destruct Eg as [Eg E3].
  apply orb_false_iff in Eg. destruct Eg as [E1 E2].
  destruct (idx (queue_content (d_q st)) k) as [[q|]|] eqn:Eidx; try exact I.
  cbn [good].
  assert (Hk : 0 <= k < d_n st + 1) by lia.
  assert (Hne : k <> d_T st mod (d_n st + 1)) by lia.
  pose proof (slot_index_range (d_T st) (d_n st + 1) k Hs0) as Hdr.
  pose proof (slot_index_mod (d_T st) (d_n st + 1) k Hs0 Hk) as Hdm.
  pose proof (slot_index_above (d_T st) (d_n st + 1) k Hs0 Hk Hne) as Hda.
  pose proof (Hcinv k q Hk Eidx) as Hd0.
  assert (Hnth : nth_sent st (slot_index (d_T st) (d_n st + 1) k) = Some q).
  { pose proof (Hcont (slot_index (d_T st) (d_n st + 1) k)) as H.
    rewrite Hdm, Eidx in H. assert (Ok (Some q) = Ok (nth_sent st (slot_index (d_T st) (d_n st + 1) k))) as H'
      by (apply H; lia). inversion H'. reflexivity. }
  constructor; simpl_st; try assumption.
  - apply Forall_app. split; [exact Hfwd|].
    constructor; [|constructor]. unfold fitem_ok. cbn [f_d f_t f_pkt]. simpl_st.
    repeat split; try lia. exact Hnth.
  - rewrite map_app. cbn [map f_t]. apply sorted_app_tail; [exact Hfs|].
    intros x Hx. exact (fwd_t_le st _ x Hfwd Hx).
Qed.

(* ---- DFwd ---- *)

Lemma fwd_deliver st it fwd' :
  Inv st -> fitem_ok st it -> Forall (fitem_ok st) fwd' -> sorted (map f_t fwd') ->
  (forall x, In x fwd' -> f_t it <= f_t x) ->
  good (if PacketData_Seq (f_pkt it) =? d_recv st then
          lift (umod (u8 (d_recv st + 1)) (d_rs st)) (fun r' =>
          DOk (mk_dsys (d_n st) (d_q st) r' (d_rs st) (Some (CAck (PacketData_Seq (f_pkt it)))) fwd' (d_bwd st)
                 (d_B st) (d_T st) (d_R st + 1) (d_sent st) (d_delivered st ++ [f_pkt it])))
        else
          DOk (mk_dsys (d_n st) (d_q st) (d_recv st) (d_rs st) (Some (CNack (d_recv st))) fwd' (d_bwd st)
                 (d_B st) (d_T st) (d_R st) (d_sent st) (d_delivered st))).
Proof.
  intros Hinv Hit Hfwd' Hfs' Hmin.
  pose proof Hinv as [Hsnd HR Hrecv Hrs Hclen Hslen Hpre Hseq Hcont Hcinv Hfwd Hfs Hbwd Hbs Hpend].
  pose proof Hsnd as [Hn HBT Hw Hcs Hb Ht].
  assert (Hs0 : 0 < d_n st + 1) by lia.
  pose proof Hit as (Hi1 & Hi2 & Hi3 & Hi4 & Hi5 & Hi6).
  pose proof (mod_bound (d_R st) (d_n st + 1) Hs0) as HRm.
  destruct (PacketData_Seq (f_pkt it) =? d_recv st) eqn:E.
  - apply Z.eqb_eq in E.
    assert (HdR : f_d it = d_R st).
    { apply (mod_unique _ _ (d_n st + 1)); [lia| |lia].
      rewrite <- (Hseq _ _ Hi6). rewrite E. exact Hrecv. }
    rewrite Hrs. rewrite umod_ok by lia. cbn [lift good].
    constructor; simpl_st; try assumption; try reflexivity.
    + lia.
    + rewrite Hrecv. rewrite u8_small by lia. apply mod_plus_mod. lia.
    + replace (Z.to_nat (d_R st + 1)) with (S (Z.to_nat (d_R st))) by lia.
      rewrite (firstn_succ_nth _ _ (f_pkt it)).
      * rewrite <- Hpre. reflexivity.
      * unfold nth_sent in Hi6. rewrite HdR in Hi6.
        destruct (d_R st <? 0) eqn:E0; [discriminate|]. exact Hi6.
    + rewrite Forall_forall in Hfwd'. apply Forall_forall. intros x Hx.
      pose proof (Hmin x Hx).
      apply (fitem_ok_mono st); simpl_st; try lia; try reflexivity; [exact (Hfwd' x Hx)|].
      intros d q H0. exact H0.
    + eapply Forall_impl; [|exact Hbwd]. intros b Hbok. pose proof Hbok as ((H1 & H2) & _).
      apply (bitem_ok_mono st); simpl_st; try lia; try reflexivity. exact Hbok.
    + cbn [ctrl_ok]. split; [lia|].
      replace (d_R st + 1 - 1) with (d_R st) by lia. rewrite <- Hrecv. exact E.
  - cbn [good]. constructor; simpl_st; assumption.
Qed.

Lemma dstep_good_fwd st o : Inv st -> good (dstep st (DFwd o)).
Proof.
  intros Hinv.
  pose proof Hinv as [Hsnd HR Hrecv Hrs Hclen Hslen Hpre Hseq Hcont Hcinv Hfwd Hfs Hbwd Hbs Hpend].
  unfold dstep. destruct (d_fwd st) as [|it rest] eqn:Efwd; [exact I|].
  inversion Hfwd as [|? ? Hit Hrest]; subst.
  cbn [map sorted] in Hfs. destruct Hfs as [Hle Hsrest].
  assert (Hmin : forall x, In x rest -> f_t it <= f_t x).
  { intros x Hx. apply Hle. apply in_map. exact Hx. }
  destruct o; cbn [after_op]; cbv zeta.
  - apply fwd_deliver; assumption.
  - apply fwd_deliver; try assumption.
    + cbn [map sorted]. split; assumption.
    + intros x [Hx|Hx]; [subst x; lia|apply Hmin; exact Hx].
  - cbn [good]. constructor; simpl_st; try assumption.
Qed.

(* ---- DReply ---- *)

Lemma dstep_good_reply st : Inv st -> good (dstep st DReply).
Proof.
  intros Hinv.
  pose proof Hinv as [Hsnd HR Hrecv Hrs Hclen Hslen Hpre Hseq Hcont Hcinv Hfwd Hfs Hbwd Hbs Hpend].
  unfold dstep. destruct (d_pend st) as [c|] eqn:Ep; [|exact I].
  cbn [good]. constructor; simpl_st; try assumption.
  - apply Forall_app. split; [exact Hbwd|]. constructor; [|constructor].
    unfold bitem_ok. cbn [b_e b_ctrl]. simpl_st. split; [lia|exact Hpend].
  - rewrite map_app. cbn [map b_e]. apply sorted_app_tail; [exact Hbs|].
    intros x Hx. exact (bwd_e_le st _ x Hbwd Hx).
  - exact I.
Qed.

(* ---- DBwd ---- *)

Lemma bwd_generic st q' bwd' B' :
  Inv st -> sender_ok q' (d_n st) B' (d_T st) -> queue_content q' = queue_content (d_q st) ->
  d_B st <= B' <= d_R st -> Forall (bitem_ok st) bwd' -> sorted (map b_e bwd') ->
  (forall x, In x bwd' -> B' <= b_e x) ->
  Inv (mk_dsys (d_n st) q' (d_recv st) (d_rs st) (d_pend st) (d_fwd st) bwd' B' (d_T st) (d_R st)
         (d_sent st) (d_delivered st)).
Proof.
  intros Hinv Hsnd' Hc HB' Hbwd' Hbs' Hmin.
  pose proof Hinv as [Hsnd HR Hrecv Hrs Hclen Hslen Hpre Hseq Hcont Hcinv Hfwd Hfs Hbwd Hbs Hpend].
  constructor; simpl_st; try assumption.
  - lia.
  - rewrite Hc. exact Hclen.
  - rewrite Hc. exact Hcont.
  - rewrite Hc. exact Hcinv.
  - rewrite Forall_forall in Hbwd'. apply Forall_forall. intros x Hx.
    pose proof (Hmin x Hx). pose proof (Hbwd' x Hx) as Hok. pose proof Hok as ((H1 & H2) & _).
    apply (bitem_ok_mono st); simpl_st; try lia; try reflexivity. exact Hok.
Qed.

Lemma bwd_deliver st it bwd' :
  Inv st -> bitem_ok st it -> Forall (bitem_ok st) bwd' -> sorted (map b_e bwd') ->
  (forall x, In x bwd' -> b_e it <= b_e x) ->
  good (let k q' :=
          let adv := (queue_sequenceBase q' - queue_sequenceBase (d_q st)) mod (d_n st + 1) in
          DOk (mk_dsys (d_n st) q' (d_recv st) (d_rs st) (d_pend st) (d_fwd st) bwd'
                 (d_B st + adv) (d_T st) (d_R st) (d_sent st) (d_delivered st)) in
        match b_ctrl it with
        | CAck a => lift (queue_processACK (d_q st) a) (fun '(q', _) => k q')
        | CNack v => lift (queue_processNACK (d_q st) v) (fun '(q', _, _) => k q')
        end).
Proof.
  intros Hinv Hit Hbwd' Hbs' Hmin.
  pose proof Hinv as [Hsnd HR Hrecv Hrs Hclen Hslen Hpre Hseq Hcont Hcinv Hfwd Hfs Hbwd Hbs Hpend].
  pose proof Hsnd as [Hn HBT Hw Hcs Hb Ht].
  assert (Hs0 : 0 < d_n st + 1) by lia.
  destruct it as [c e]. cbn [b_ctrl b_e] in *. destruct Hit as (He & Hc). cbn [b_e b_ctrl] in He, Hc.
  cbv zeta.
  destruct c as [a|v]; cbn [ctrl_ok] in Hc.
  - destruct Hc as [He1 Ha].
    pose proof (mod_bound (e - 1) (d_n st + 1) Hs0) as Hab. rewrite <- Ha in Hab.
    pose proof (processACK_ghost _ _ _ _ a Hsnd ltac:(lia)) as Hack. cbv zeta in Hack.
    rewrite Hack. clear Hack.
    assert (Hoffeq : (a - d_B st) mod (d_n st + 1) = (e - 1 - d_B st) mod (d_n st + 1)).
    { rewrite Ha. apply Zminus_mod_idemp_l. }
    rewrite Hoffeq.
    destruct (Z.eq_dec e (d_B st)) as [HeB|HeB].
    + replace (e - 1 - d_B st) with (-1) by lia.
      rewrite (mod_neg (-1)) by lia.
      destruct (-1 + (d_n st + 1) <? d_T st - d_B st) eqn:E; [lia|].
      rewrite andb_false_r. cbn [lift good].
      rewrite Z.sub_diag, Z.mod_0_l, Z.add_0_r by lia.
      apply bwd_generic; try assumption; try reflexivity; try lia.
      intros x Hx. pose proof (Hmin x Hx). lia.
    + rewrite (mod_lo (e - 1 - d_B st)) by lia.
      destruct (a <? d_n st + 1) eqn:E1; [|lia].
      destruct (e - 1 - d_B st <? d_T st - d_B st) eqn:E2; [|lia].
      cbn [andb lift good]. simpl_q.
      replace (d_B st + (e - 1 - d_B st) + 1) with e by lia.
      rewrite Hb. rewrite adv_eq by lia.
      replace (d_B st + (e - d_B st)) with e by lia.
      apply bwd_generic; try assumption; try reflexivity; try lia.
      * apply (sender_ok_with_base _ _ (d_B st)); [exact Hsnd|lia].
  - pose proof (mod_bound e (d_n st + 1) Hs0) as Hvb. rewrite <- Hc in Hvb.
    pose proof (processNACK_ghost _ _ _ _ v Hsnd ltac:(lia)) as Hnack. cbv zeta in Hnack.
    rewrite Hnack. clear Hnack.
    assert (Hoffeq : (v - d_B st) mod (d_n st + 1) = e - d_B st).
    { rewrite Hc. rewrite Zminus_mod_idemp_l. apply mod_lo. lia. }
    rewrite Hoffeq.
    destruct (v <? d_n st + 1) eqn:E1; [|lia].
    destruct (e - d_B st <=? d_T st - d_B st) eqn:E2; [|lia].
    cbn [andb lift good]. simpl_q.
    replace (d_B st + (e - d_B st)) with e by lia.
    rewrite Hb. rewrite adv_eq by lia.
    replace (d_B st + (e - d_B st)) with e by lia.
    apply bwd_generic; try assumption; try reflexivity; try lia.
    apply (sender_ok_with_base _ _ (d_B st)); [exact Hsnd|lia].
Qed.

Lemma dstep_good_bwd st o : Inv st -> good (dstep st (DBwd o)).
Proof.
  intros Hinv.
  pose proof Hinv as [Hsnd HR Hrecv Hrs Hclen Hslen Hpre Hseq Hcont Hcinv Hfwd Hfs Hbwd Hbs Hpend].
  unfold dstep. destruct (d_bwd st) as [|it rest] eqn:Ebwd; [exact I|].
  inversion Hbwd as [|? ? Hit Hrest]; subst.
  cbn [map sorted] in Hbs. destruct Hbs as [Hle Hsrest].
  assert (Hmin : forall x, In x rest -> b_e it <= b_e x).
  { intros x Hx. apply Hle. apply in_map. exact Hx. }
  destruct o; cbn [after_op].
  - apply bwd_deliver; assumption.
  - apply bwd_deliver; try assumption.
    + cbn [map sorted]. split; assumption.
    + intros x [Hx|Hx]; [subst x; lia|apply Hmin; exact Hx].
  - cbv zeta. cbn [good]. constructor; simpl_st; try assumption.
Qed.

(* ---- one step ---- *)

Lemma dstep_good st ev : Inv st -> good (dstep st ev).
Proof.
  intros Hinv. destruct ev.
  - apply dstep_good_new; exact Hinv.
  - apply dstep_good_retx; exact Hinv.
  - apply dstep_good_fwd; exact Hinv.
  - apply dstep_good_reply; exact Hinv.
  - apply dstep_good_bwd; exact Hinv.
Qed.

Lemma dstep_inv st ev st' : Inv st -> dstep st ev = DOk st' -> Inv st'.
Proof. intros Hinv Heq. pose proof (dstep_good st ev Hinv) as H. rewrite Heq in H. exact H. Qed.

Lemma dstep_no_panic st ev : Inv st -> dstep st ev <> DPanic.
Proof. intros Hinv Heq. pose proof (dstep_good st ev Hinv) as H. rewrite Heq in H. exact H. Qed.

Lemma dstep_n st ev st' : dstep st ev = DOk st' -> d_n st' = d_n st.
Proof.
  unfold dstep, lift. cbv zeta. destruct ev.
  - destruct (queue_size (d_q st)); [|discriminate].
    destruct (negb (a <? d_n st)); [discriminate|].
    destruct (queue_addPacket (d_q st) p) as [[q' p']|]; [|discriminate].
    intros H; inversion H; reflexivity.
  - destruct (_ || _); [discriminate|].
    destruct (idx _ k) as [[q|]|]; try discriminate.
    intros H; inversion H; reflexivity.
  - destruct (d_fwd st) as [|it rest]; [discriminate|].
    destruct o.
    + destruct (_ =? _).
      * destruct (umod _ _); [|discriminate]. intros H; inversion H; reflexivity.
      * intros H; inversion H; reflexivity.
    + destruct (_ =? _).
      * destruct (umod _ _); [|discriminate]. intros H; inversion H; reflexivity.
      * intros H; inversion H; reflexivity.
    + intros H; inversion H; reflexivity.
  - destruct (d_pend st); [|discriminate]. intros H; inversion H; reflexivity.
  - destruct (d_bwd st) as [|it rest]; [discriminate|].
    destruct o.
    + destruct (b_ctrl it).
      * destruct (queue_processACK _ _) as [[q' b]|]; [|discriminate]. intros H; inversion H; reflexivity.
      * destruct (queue_processNACK _ _) as [[[q' b] b2]|]; [|discriminate]. intros H; inversion H; reflexivity.
    + destruct (b_ctrl it).
      * destruct (queue_processACK _ _) as [[q' b]|]; [|discriminate]. intros H; inversion H; reflexivity.
      * destruct (queue_processNACK _ _) as [[[q' b] b2]|]; [|discriminate]. intros H; inversion H; reflexivity.
    + intros H; inversion H; reflexivity.
Qed.

(* ---- runs ---- *)

Lemma drun_inv_gen evs : forall st st', Inv st -> drun st evs = DOk st' -> Inv st'.
Proof.
  induction evs as [|ev evs IH]; intros st st' Hinv Hrun; cbn [drun] in Hrun.
  - inversion Hrun; subst; exact Hinv.
  - destruct (dstep st ev) as [st1| |] eqn:E; try discriminate.
    apply (IH st1); [|exact Hrun]. exact (dstep_inv _ _ _ Hinv E).
Qed.

Lemma drun_no_panic_gen evs : forall st, Inv st -> drun st evs <> DPanic.
Proof.
  induction evs as [|ev evs IH]; intros st Hinv; cbn [drun].
  - discriminate.
  - destruct (dstep st ev) as [st1| |] eqn:E.
    + apply IH. exact (dstep_inv _ _ _ Hinv E).
    + discriminate.
    + exfalso. exact (dstep_no_panic _ _ Hinv E).
Qed.

Lemma drun_n evs : forall st st', drun st evs = DOk st' -> d_n st' = d_n st.
Proof.
  induction evs as [|ev evs IH]; intros st st' Hrun; cbn [drun] in Hrun.
  - inversion Hrun; reflexivity.
  - destruct (dstep st ev) as [st1| |] eqn:E; try discriminate.
    rewrite (IH _ _ Hrun). exact (dstep_n _ _ _ E).
Qed.

Theorem drun_inv n evs st : 1 <= n <= 254 -> drun (dinit n) evs = DOk st -> Inv st.
Proof. intros Hn Hrun. exact (drun_inv_gen evs _ _ (dinit_inv n Hn) Hrun). Qed.

Theorem drun_no_panic n evs : 1 <= n <= 254 -> drun (dinit n) evs <> DPanic.
Proof. intros Hn. exact (drun_no_panic_gen evs _ (dinit_inv n Hn)). Qed.

Theorem delivered_prefix n evs st : 1 <= n <= 254 -> drun (dinit n) evs = DOk st ->
  d_delivered st = firstn (length (d_delivered st)) (d_sent st).
Proof.
  intros Hn Hrun. pose proof (drun_inv n evs st Hn Hrun) as Hinv.
  pose proof (i_prefix st Hinv) as Hpre. pose proof (i_R st Hinv) as HR.
  pose proof (i_sentlen st Hinv) as Hslen.
  pose proof (so_BT _ _ _ _ (i_sender st Hinv)) as HBT.
  assert (Hlen : length (d_delivered st) = Z.to_nat (d_R st)).
  { rewrite Hpre at 1. rewrite firstn_length. unfold len in Hslen. lia. }
  rewrite Hlen. exact Hpre.
Qed.

Theorem window_bound n evs st : 1 <= n <= 254 -> drun (dinit n) evs = DOk st ->
  0 <= d_T st - d_B st <= n /\ queue_size (d_q st) = Ok (d_T st - d_B st) /\
  0 <= queue_sequenceBase (d_q st) < n + 1 /\ 0 <= queue_sequenceTop (d_q st) < n + 1 /\
  queueCfg_s (queue_cfg (d_q st)) = n + 1 /\ d_n st = n.
Proof.
  intros Hn Hrun. pose proof (drun_inv n evs st Hn Hrun) as Hinv.
  pose proof (drun_n evs _ _ Hrun) as Hdn. cbn [dinit d_n] in Hdn.
  pose proof (i_sender st Hinv) as Hsnd. rewrite Hdn in Hsnd.
  pose proof Hsnd as [_ HBT Hw Hcs Hb Ht].
  assert (Hs0 : 0 < n + 1) by lia.
  split; [lia|]. split; [exact (size_ghost _ _ _ _ Hsnd)|].
  split; [rewrite Hb; apply mod_bound; exact Hs0|].
  split; [rewrite Ht; apply mod_bound; exact Hs0|].
  split; [exact Hcs|exact Hdn].
Qed.

Print Assumptions delivered_prefix.
Print Assumptions window_bound.
Print Assumptions drun_no_panic.
