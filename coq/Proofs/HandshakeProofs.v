(* Proofs about the GBN handshake model (Model/GbnHandshake.v):
   safety of both automata inside the closed system with lossy / duplicating
   channels and stale packets, agreement on the window size, convergence once
   the transport behaves, and the one stuck configuration. *)
From LNC Require Import GoLite MessagesGen Codec GbnHandshake.
Open Scope Z_scope.

(* ------------------------------------------------------------------ *)
(* generic: an hstep-invariant is an hrun-invariant                    *)
(* ------------------------------------------------------------------ *)
Lemma hrun_inv : forall (P : hsys -> Prop),
  (forall st ev st', P st -> hstep st ev = Some st' -> P st') ->
  forall evs st st', P st -> hrun st evs = Some st' -> P st'.
Proof.
  intros P Hstep evs; induction evs as [|ev evs IH]; intros st st' HP Hrun.
  - cbn in Hrun. inversion Hrun; subst; exact HP.
  - cbn in Hrun. destruct (hstep st ev) as [st1|] eqn:E; [|discriminate].
    eapply IH; [|exact Hrun]. eapply Hstep; eauto.
Qed.

Lemma in_syns_of : forall l m, In m (syns_of l) <-> In (HSyn m) l.
Proof.
  intros l m; unfold syns_of; rewrite in_flat_map; split.
  - intros [p [Hp Hm]]. destruct p; cbn in Hm; try contradiction.
    destruct Hm as [->|[]]. exact Hp.
  - intros H. exists (HSyn m). split; [exact H|cbn; auto].
Qed.

(* what the two client send functions emit *)
Lemma client_start_out : forall c c' out,
  client_start c = (c', out) ->
  cl_n c' = cl_n c /\ (out = [] \/ out = [HSyn (cl_n c)]) /\
  (cl_phase c' = cl_phase c \/ (cl_phase c = CInit /\ cl_phase c' = CWaitSyn)).
Proof.
  intros [ph n] c' out; unfold client_start; cbn.
  destruct ph; intros H; inversion H; subst; cbn; auto.
Qed.

Lemma client_timeout_out : forall c c' out,
  client_timeout c = (c', out) ->
  c' = c /\ (out = [] \/ out = [HSyn (cl_n c)]).
Proof.
  intros [ph n] c' out; unfold client_timeout; cbn.
  destruct ph; intros H; inversion H; subst; cbn; auto.
Qed.

Lemma client_rx_out : forall c p c' out,
  client_rx c p = (c', out) ->
  cl_n c' = cl_n c /\ (out = [] \/ out = [HSynAck]) /\
  (cl_phase c' = cl_phase c \/ cl_phase c' = CFailed \/ (cl_phase c = CWaitSyn /\ cl_phase c' = CDone)).
Proof.
  intros [ph n] p c' out; unfold client_rx; cbn.
  destruct ph; try (intros H; inversion H; subst; cbn; now auto).
  destruct p; try (intros H; inversion H; subst; cbn; now auto).
  destruct (n0 =? n); intros H; inversion H; subst; cbn; auto 6.
Qed.

(* ------------------------------------------------------------------ *)
(* 1. server safety                                                    *)
(* ------------------------------------------------------------------ *)
Definition committed (s : server) : Prop :=
  sv_phase s = SWaitSynAck \/ sv_phase s = SDone \/ (sv_phase s = SWaitSyn /\ sv_resent s = true).

Definition sv_ok (s : server) (syns : list Z) : Prop :=
  committed s -> valid_n (sv_n s) = true /\ In (sv_n s) syns.

Definition inv_srv (st : hsys) : Prop :=
  sv_ok (h_s st) (h_syns_ab st) /\
  (forall m, In (HSyn m) (h_ab st) -> In m (h_syns_ab st)).

Lemma sv_ok_mono : forall s syns extra, sv_ok s syns -> sv_ok s (syns ++ extra).
Proof.
  unfold sv_ok; intros s syns extra H Hc. destruct (H Hc) as [Hv Hi].
  split; [exact Hv|apply in_or_app; auto].
Qed.

Lemma server_rx_ok : forall s p s' out syns,
  server_rx s p = (s', out) -> sv_ok s syns ->
  (forall m, p = HSyn m -> In m syns) -> sv_ok s' syns.
Proof.
  intros [ph n r] p s' out syns Hrx Hok Hp.
  unfold sv_ok, committed in *; unfold server_rx, server_syn in Hrx; cbn in *.
  destruct ph.
  - (* SWaitSyn *)
    destruct p as [m| | | |].
    + destruct (valid_n m) eqn:Ev; inversion Hrx; subst; cbn.
      * intros _. split; [exact Ev|apply Hp; reflexivity].
      * intros [H|[H|[H _]]]; discriminate.
    + destruct r; inversion Hrx; subst; cbn.
      * intros _; apply Hok; auto.
      * intros [H|[H|[_ H]]]; discriminate.
    + destruct r; inversion Hrx; subst; cbn.
      * intros _; apply Hok; auto.
      * intros [H|[H|[_ H]]]; discriminate.
    + inversion Hrx; subst; cbn. exact Hok.
    + inversion Hrx; subst; cbn. intros [H|[H|[H _]]]; discriminate.
  - (* SWaitSynAck *)
    destruct p as [m| | | |].
    + destruct (valid_n m) eqn:Ev; inversion Hrx; subst; cbn.
      * intros _. split; [exact Ev|apply Hp; reflexivity].
      * intros [H|[H|[H _]]]; discriminate.
    + inversion Hrx; subst; cbn. intros _; apply Hok; auto.
    + inversion Hrx; subst; cbn. intros [H|[H|[H _]]]; discriminate.
    + inversion Hrx; subst; cbn. intros [H|[H|[H _]]]; discriminate.
    + inversion Hrx; subst; cbn. intros [H|[H|[H _]]]; discriminate.
  - inversion Hrx; subst; cbn. exact Hok.
  - inversion Hrx; subst; cbn. exact Hok.
Qed.

Lemma server_timeout_ok : forall s syns, sv_ok s syns -> sv_ok (server_timeout s) syns.
Proof.
  intros [ph n r] syns Hok. unfold sv_ok, committed, server_timeout in *; cbn in *.
  destruct ph; cbn; auto.
Qed.

Lemma inv_srv_step : forall st ev st', inv_srv st -> hstep st ev = Some st' -> inv_srv st'.
Proof.
  intros [c s ab ba syns] ev st' [Hok Hab] Hstep; unfold inv_srv; cbn in *.
  destruct ev as [| | |o|o|]; cbn in Hstep.
  - destruct (client_start c) as [c' out] eqn:E. inversion Hstep; subst; cbn.
    split; [apply sv_ok_mono; exact Hok|].
    intros m Hin. apply in_app_or in Hin. apply in_or_app.
    destruct Hin as [Hin|Hin]; [left; auto|right; apply in_syns_of; exact Hin].
  - destruct (client_timeout c) as [c' out] eqn:E. inversion Hstep; subst; cbn.
    split; [apply sv_ok_mono; exact Hok|].
    intros m Hin. apply in_app_or in Hin. apply in_or_app.
    destruct Hin as [Hin|Hin]; [left; auto|right; apply in_syns_of; exact Hin].
  - inversion Hstep; subst; cbn. split; [apply server_timeout_ok; exact Hok|exact Hab].
  - destruct ab as [|p rest]; [discriminate|].
    destruct o.
    + destruct (server_rx s p) as [s' out] eqn:E. inversion Hstep; subst; cbn.
      split.
      * eapply server_rx_ok; eauto. intros m ->. apply Hab; left; reflexivity.
      * intros m Hin. apply Hab. right; exact Hin.
    + destruct (server_rx s p) as [s' out] eqn:E. inversion Hstep; subst; cbn.
      split.
      * eapply server_rx_ok; eauto. intros m ->. apply Hab; left; reflexivity.
      * exact Hab.
    + inversion Hstep; subst; cbn. split; [exact Hok|].
      intros m Hin. apply Hab. right; exact Hin.
  - destruct ba as [|p rest]; [discriminate|].
    assert (Hgen : forall c' out, Some (mk_hsys c' s (ab ++ out) (after_hop o p rest) (syns ++ syns_of out)) = Some st' ->
              sv_ok (h_s st') (h_syns_ab st') /\ (forall m, In (HSyn m) (h_ab st') -> In m (h_syns_ab st'))).
    { intros c' out H. inversion H; subst; cbn.
      split; [apply sv_ok_mono; exact Hok|].
      intros m Hin. apply in_app_or in Hin. apply in_or_app.
      destruct Hin as [Hin|Hin]; [left; auto|right; apply in_syns_of; exact Hin]. }
    destruct o.
    + destruct (client_rx c p) as [c' out]. eapply Hgen; exact Hstep.
    + destruct (client_rx c p) as [c' out]. eapply Hgen; exact Hstep.
    + inversion Hstep; subst; cbn. split; [exact Hok|exact Hab].
  - destruct (cl_phase c); try discriminate. inversion Hstep; subst; cbn.
    split; [exact Hok|].
    intros m Hin. apply in_app_or in Hin. destruct Hin as [Hin|[Hin|[]]]; [auto|discriminate].
Qed.

Lemma inv_srv_init : forall n sab sba, inv_srv (hinit n sab sba).
Proof.
  intros n sab sba; unfold inv_srv, hinit; cbn. split.
  - unfold sv_ok, committed; cbn. intros [H|[H|[_ H]]]; discriminate.
  - intros m Hin. apply in_syns_of; exact Hin.
Qed.

(* 1. the server only ever completes with a representable window that some
      SYN delivered to it proposed *)
Theorem server_done_valid : forall n sab sba evs st,
  hrun (hinit n sab sba) evs = Some st -> sv_phase (h_s st) = SDone ->
  valid_n (sv_n (h_s st)) = true /\ In (sv_n (h_s st)) (h_syns_ab st).
Proof.
  intros n sab sba evs st Hrun Hdone.
  assert (Hinv : inv_srv st).
  { eapply (hrun_inv inv_srv inv_srv_step); [apply inv_srv_init|exact Hrun]. }
  destruct Hinv as [Hok _]. apply Hok. right; left; exact Hdone.
Qed.

(* ------------------------------------------------------------------ *)
(* 2. origin of the SYNs toward the server                             *)
(* ------------------------------------------------------------------ *)
Definition inv_origin (n : Z) (P : Z -> Prop) (st : hsys) : Prop :=
  cl_n (h_c st) = n /\ forall m, In m (h_syns_ab st) -> P m \/ m = n.

Lemma inv_origin_step : forall n P st ev st',
  inv_origin n P st -> hstep st ev = Some st' -> inv_origin n P st'.
Proof.
  intros n P [c s ab ba syns] ev st' [Hn Hs] Hstep; unfold inv_origin; cbn in *.
  destruct ev as [| | |o|o|]; cbn in Hstep.
  - destruct (client_start c) as [c' out] eqn:E. apply client_start_out in E.
    destruct E as [En [Eout _]]. inversion Hstep; subst; cbn. split; [exact En|].
    intros m Hin. apply in_app_or in Hin. destruct Hin as [Hin|Hin]; [auto|].
    destruct Eout as [->| ->]; cbn in Hin; [contradiction|].
    destruct Hin as [<-|[]]. right; reflexivity.
  - destruct (client_timeout c) as [c' out] eqn:E. apply client_timeout_out in E.
    destruct E as [-> Eout]. inversion Hstep; subst; cbn. split; [reflexivity|].
    intros m Hin. apply in_app_or in Hin. destruct Hin as [Hin|Hin]; [auto|].
    destruct Eout as [->| ->]; cbn in Hin; [contradiction|].
    destruct Hin as [<-|[]]. right; reflexivity.
  - inversion Hstep; subst; cbn. auto.
  - destruct ab as [|p rest]; [discriminate|].
    destruct o; [destruct (server_rx s p) as [s' out]|destruct (server_rx s p) as [s' out]|];
      inversion Hstep; subst; cbn; auto.
  - destruct ba as [|p rest]; [discriminate|].
    assert (Hgen : forall c' out, client_rx c p = (c', out) ->
              Some (mk_hsys c' s (ab ++ out) (after_hop o p rest) (syns ++ syns_of out)) = Some st' ->
              cl_n (h_c st') = n /\ (forall m, In m (h_syns_ab st') -> P m \/ m = n)).
    { intros c' out E H. apply client_rx_out in E. destruct E as [En [Eout _]].
      inversion H; subst; cbn. split; [exact En|].
      intros m Hin. apply in_app_or in Hin. destruct Hin as [Hin|Hin]; [auto|].
      destruct Eout as [->| ->]; cbn in Hin; contradiction. }
    destruct o.
    + destruct (client_rx c p) as [c' out] eqn:E. eapply Hgen; eauto.
    + destruct (client_rx c p) as [c' out] eqn:E. eapply Hgen; eauto.
    + inversion Hstep; subst; cbn. auto.
  - destruct (cl_phase c); try discriminate. inversion Hstep; subst; cbn. auto.
Qed.

(* 2. every SYN in the client->server channel was either stale or sent by
      this client with its own n *)
Theorem syns_ab_origin : forall n sab sba evs st,
  hrun (hinit n sab sba) evs = Some st ->
  forall m, In m (h_syns_ab st) -> In m (syns_of sab) \/ m = n.
Proof.
  intros n sab sba evs st Hrun.
  assert (Hinv : inv_origin n (fun m => In m (syns_of sab)) st).
  { eapply (hrun_inv _ (inv_origin_step n (fun m => In m (syns_of sab)))); [|exact Hrun].
    unfold inv_origin, hinit; cbn. split; [reflexivity|auto]. }
  exact (proj2 Hinv).
Qed.

(* 3. agreement: without a foreign stale SYN, a server that completes uses
      the client's window *)
Theorem agreement : forall n sab sba evs st,
  (forall m, In m (syns_of sab) -> m = n) ->
  hrun (hinit n sab sba) evs = Some st -> sv_phase (h_s st) = SDone -> sv_n (h_s st) = n.
Proof.
  intros n sab sba evs st Hstale Hrun Hdone.
  destruct (server_done_valid _ _ _ _ _ Hrun Hdone) as [_ Hin].
  destruct (syns_ab_origin _ _ _ _ _ Hrun _ Hin) as [H|H]; [apply Hstale; exact H|exact H].
Qed.

(* ------------------------------------------------------------------ *)
(* 4. client safety                                                    *)
(* ------------------------------------------------------------------ *)
Definition inv_cl (n : Z) (st : hsys) : Prop :=
  cl_n (h_c st) = n /\ (cl_phase (h_c st) = CFailed \/ valid_n n = true).

Lemma inv_cl_step : forall n st ev st', inv_cl n st -> hstep st ev = Some st' -> inv_cl n st'.
Proof.
  intros n [c s ab ba syns] ev st' [Hn Hv] Hstep; unfold inv_cl; cbn in *.
  destruct ev as [| | |o|o|]; cbn in Hstep.
  - destruct (client_start c) as [c' out] eqn:E. apply client_start_out in E.
    destruct E as [En [_ Eph]]. inversion Hstep; subst; cbn. split; [exact En|].
    destruct Hv as [Hv|Hv]; [|auto]. destruct Eph as [Eph|[Eph _]]; [left|]; congruence.
  - destruct (client_timeout c) as [c' out] eqn:E. apply client_timeout_out in E.
    destruct E as [-> _]. inversion Hstep; subst; cbn. auto.
  - inversion Hstep; subst; cbn. auto.
  - destruct ab as [|p rest]; [discriminate|].
    destruct o; [destruct (server_rx s p) as [s' out]|destruct (server_rx s p) as [s' out]|];
      inversion Hstep; subst; cbn; auto.
  - destruct ba as [|p rest]; [discriminate|].
    assert (Hgen : forall c' out, client_rx c p = (c', out) ->
              Some (mk_hsys c' s (ab ++ out) (after_hop o p rest) (syns ++ syns_of out)) = Some st' ->
              cl_n (h_c st') = n /\ (cl_phase (h_c st') = CFailed \/ valid_n n = true)).
    { intros c' out E H. apply client_rx_out in E. destruct E as [En [_ Eph]].
      inversion H; subst; cbn. split; [exact En|].
      destruct Hv as [Hv|Hv]; [|auto].
      destruct Eph as [Eph|[Eph|[Eph _]]]; [left| |]; try congruence. left; exact Eph. }
    destruct o.
    + destruct (client_rx c p) as [c' out] eqn:E. eapply Hgen; eauto.
    + destruct (client_rx c p) as [c' out] eqn:E. eapply Hgen; eauto.
    + inversion Hstep; subst; cbn. auto.
  - destruct (cl_phase c) eqn:Eph; try discriminate. inversion Hstep; subst; cbn.
    split; [reflexivity|]. destruct Hv as [Hv|Hv]; [discriminate|right; exact Hv].
Qed.

(* 4. the client only completes with its own n and only if that n is
      representable *)
Theorem client_done_valid : forall n sab sba evs st,
  hrun (hinit n sab sba) evs = Some st -> cl_phase (h_c st) = CDone ->
  cl_n (h_c st) = n /\ valid_n n = true.
Proof.
  intros n sab sba evs st Hrun Hdone.
  assert (Hinv : inv_cl n st).
  { eapply (hrun_inv _ (inv_cl_step n)); [|exact Hrun].
    unfold inv_cl, hinit, client_init; cbn. split; [reflexivity|].
    destruct (valid_n n); auto. }
  destruct Hinv as [Hn [Hf|Hv]]; [congruence|auto].
Qed.

(* ------------------------------------------------------------------ *)
(* 5. convergence once the transport behaves                           *)
(* ------------------------------------------------------------------ *)
(* client resends SYN, it is delivered, the echo is delivered, the SYNACK is
   delivered *)
Definition sched_fresh : list hevent := [HClientTimeout; HAB HDeliver; HBA HDeliver; HAB HDeliver].
Definition sched_data : list hevent := [HClientData; HAB HDeliver].
Definition sched_data_after_timeout : list hevent := [HServerTimeout; HClientData; HAB HDeliver].

Theorem converge_fresh : forall st, valid_n (cl_n (h_c st)) = true ->
  cl_phase (h_c st) = CWaitSyn -> (sv_phase (h_s st) = SWaitSyn \/ sv_phase (h_s st) = SWaitSynAck) ->
  h_ab st = [] -> h_ba st = [] ->
  exists st', hrun st sched_fresh = Some st' /\ cl_phase (h_c st') = CDone /\ sv_phase (h_s st') = SDone /\
              sv_n (h_s st') = cl_n (h_c st) /\ h_ab st' = [] /\ h_ba st' = [].
Proof.
  intros [[cp cn] [sp sn sr] ab ba syns] Hv Hc Hs Hab Hba; cbn in *; subst.
  unfold sched_fresh.
  destruct Hs as [->| ->];
    cbn [hrun hstep client_timeout cl_phase cl_n h_c h_s h_ab h_ba h_syns_ab app
         server_rx sv_phase sv_n sv_resent after_hop];
    unfold server_syn; rewrite Hv;
    cbn [hrun hstep client_rx cl_phase cl_n h_c h_s h_ab h_ba h_syns_ab app
         server_rx sv_phase sv_n sv_resent after_hop];
    rewrite Z.eqb_refl;
    cbn [hrun hstep client_rx cl_phase cl_n h_c h_s h_ab h_ba h_syns_ab app
         server_rx sv_phase sv_n sv_resent after_hop];
    eexists; repeat split.
Qed.

Theorem converge_data_resent : forall st,
  cl_phase (h_c st) = CDone -> sv_phase (h_s st) = SWaitSyn -> sv_resent (h_s st) = true ->
  h_ab st = [] -> exists st', hrun st sched_data = Some st' /\ sv_phase (h_s st') = SDone /\ sv_n (h_s st') = sv_n (h_s st).
Proof.
  intros [[cp cn] [sp sn sr] ab ba syns] Hc Hs Hr Hab; cbn in *; subst.
  unfold sched_data. cbn. eexists; repeat split.
Qed.

Theorem converge_data_waiting_synack : forall st,
  cl_phase (h_c st) = CDone -> sv_phase (h_s st) = SWaitSynAck -> h_ab st = [] ->
  exists st', hrun st sched_data_after_timeout = Some st' /\ sv_phase (h_s st') = SDone /\ sv_n (h_s st') = sv_n (h_s st).
Proof.
  intros [[cp cn] [sp sn sr] ab ba syns] Hc Hs Hab; cbn in *; subst.
  unfold sched_data_after_timeout. cbn. eexists; repeat split.
Qed.

(* ------------------------------------------------------------------ *)
(* 6. the stuck configuration                                          *)
(* ------------------------------------------------------------------ *)
Definition stall_ev (e : hevent) : Prop :=
  e = HClientData \/ e = HAB HDeliver \/ e = HAB HKeep \/ e = HAB HDrop \/ e = HServerTimeout \/ e = HClientTimeout.

Definition inv_stall (st : hsys) : Prop :=
  cl_phase (h_c st) = CDone /\ sv_phase (h_s st) = SWaitSyn /\ sv_resent (h_s st) = false /\
  Forall (fun p => p = HSynAck \/ p = HData) (h_ab st).

Lemma inv_stall_step : forall st ev st',
  stall_ev ev -> inv_stall st -> hstep st ev = Some st' -> inv_stall st'.
Proof.
  intros [[cp cn] [sp sn sr] ab ba syns] ev st' Hev (Hc & Hs & Hr & Hab) Hstep.
  unfold inv_stall in *; cbn in *; subst.
  destruct Hev as [->|[->|[->|[->|[->| ->]]]]]; cbn in Hstep.
  - inversion Hstep; subst; cbn. repeat split; auto.
    apply Forall_app; split; [exact Hab|]. constructor; [right; reflexivity|constructor].
  - destruct ab as [|p rest]; [discriminate|]. inversion Hab as [|? ? Hp Hrest]; subst.
    destruct Hp as [->| ->]; cbn in Hstep; inversion Hstep; subst; cbn; repeat split; auto.
  - destruct ab as [|p rest]; [discriminate|]. inversion Hab as [|? ? Hp Hrest]; subst.
    destruct Hp as [->| ->]; cbn in Hstep; inversion Hstep; subst; cbn; repeat split; auto.
  - destruct ab as [|p rest]; [discriminate|]. inversion Hab as [|? ? Hp Hrest]; subst.
    inversion Hstep; subst; cbn; repeat split; auto.
  - inversion Hstep; subst; cbn. repeat split; auto.
  - inversion Hstep; subst; cbn. rewrite app_nil_r. repeat split; auto.
Qed.

Lemma inv_stall_run : forall evs st st',
  Forall stall_ev evs -> inv_stall st -> hrun st evs = Some st' -> inv_stall st'.
Proof.
  induction evs as [|ev evs IH]; intros st st' Hev Hinv Hrun; cbn in Hrun.
  - inversion Hrun; subst; exact Hinv.
  - inversion Hev as [|? ? He Hrest]; subst.
    destruct (hstep st ev) as [st1|] eqn:E; [|discriminate].
    eapply IH; [exact Hrest| |exact Hrun]. eapply inv_stall_step; eauto.
Qed.

(* the stuck state is reachable: a stale SYN toward the client that happens to
   carry the client's n completes the client alone, while the client's own SYN
   is lost *)
Example stale_syn_stall_reachable :
  hrun (hinit 20 [] [HSyn 20]) [HStart; HAB HDrop; HBA HDeliver]
  = Some (mk_hsys (mk_client CDone 20) server_init [HSynAck] [] [20]).
Proof. vm_compute. reflexivity. Qed.

(* 6. from there the server ignores SYNACK and DATA forever: no schedule of
      client data, deliveries/duplications/drops toward the server and timeouts
      on either side ever moves the server out of (SWaitSyn, resent = false) *)
Theorem stale_syn_stall : forall evs st,
  Forall (fun e => e = HClientData \/ e = HAB HDeliver \/ e = HAB HKeep \/ e = HAB HDrop \/ e = HServerTimeout \/ e = HClientTimeout) evs ->
  hrun (mk_hsys (mk_client CDone 20) server_init [HSynAck] [] [20]) evs = Some st ->
  sv_phase (h_s st) = SWaitSyn /\ sv_resent (h_s st) = false.
Proof.
  intros evs st Hev Hrun.
  assert (Hinv : inv_stall st).
  { eapply inv_stall_run; [exact Hev| |exact Hrun].
    unfold inv_stall; cbn. repeat split; auto. }
  destruct Hinv as (_ & Hs & Hr & _). auto.
Qed.

Print Assumptions server_done_valid.
Print Assumptions syns_ab_origin.
Print Assumptions agreement.
Print Assumptions client_done_valid.
Print Assumptions converge_fresh.
Print Assumptions converge_data_resent.
Print Assumptions converge_data_waiting_synack.
Print Assumptions stale_syn_stall_reachable.
Print Assumptions stale_syn_stall.

(* ------------------------------------------------------------------ *)
(* a lost SYNACK with a client that never transmits again              *)
(* ------------------------------------------------------------------ *)
Definition silent_ev (e : hevent) : Prop := e <> HClientData.

Definition inv_silent (st : hsys) : Prop :=
  cl_phase (h_c st) = CDone /\ h_ab st = [] /\ h_ba st = [] /\
  (sv_phase (h_s st) = SWaitSynAck \/ sv_phase (h_s st) = SWaitSyn).

Lemma inv_silent_step : forall st ev st',
  inv_silent st -> silent_ev ev -> hstep st ev = Some st' -> inv_silent st'.
Proof.
  intros [c s ab ba syns] ev st' (Hc & Hab & Hba & Hs) Hev H.
  cbn [h_c h_s h_ab h_ba] in *. subst ab ba.
  destruct ev; cbn [hstep h_c h_s h_ab h_ba h_syns_ab] in H.
  - unfold client_start in H. rewrite Hc in H. injection H as <-. repeat split; assumption.
  - unfold client_timeout in H. rewrite Hc in H. injection H as <-. repeat split; assumption.
  - injection H as <-. repeat split; try assumption. cbn [h_s]. unfold server_timeout.
    destruct Hs as [Hs | Hs]; rewrite Hs; cbn; auto.
  - discriminate.
  - discriminate.
  - exfalso. apply Hev. reflexivity.
Qed.

Theorem lost_synack_silent_stall : forall evs st st',
  inv_silent st -> Forall silent_ev evs -> hrun st evs = Some st' -> inv_silent st'.
Proof.
  induction evs as [|ev evs IH]; intros st st' HI HF H; cbn [hrun] in H.
  - injection H as <-. assumption.
  - inversion HF as [|? ? Hev HF']; subst.
    destruct (hstep st ev) as [st1|] eqn:E; [|discriminate].
    eapply IH; [eapply inv_silent_step; eassumption | assumption | eassumption].
Qed.

Theorem lost_synack_silent_reachable :
  hrun (hinit 20 [] []) [HStart; HAB HDeliver; HBA HDeliver; HAB HDrop]
    = Some (mk_hsys (mk_client CDone 20) (mk_server SWaitSynAck 20 false) [] [] [20]).
Proof. vm_compute. reflexivity. Qed.
