(* Theorems about the symbolic Noise handshake model (Model/Sym.v): C03 / C04.
   Order: SymLemmas.v, SymProofs.v, SymTamper.v *)
From Coq Require Import ZArith List Bool Lia.
From LNC Require Import Sym SymLemmas.
Import ListNotations.
Open Scope Z_scope.

Definition wf (c : cfg) : Prop :=
  c_si c <> c_sr c /\ c_si c <> c_ei c /\ c_si c <> c_er c /\
  c_sr c <> c_ei c /\ c_sr c <> c_er c /\ c_ei c <> c_er c.

Definition vr (c : cfg) : Prop :=
  0 <= c_mini c <= 2 /\ 0 <= c_maxi c <= 2 /\ 0 <= c_minr c <= 2 /\ 0 <= c_maxr c <= 2.

(* ------------------------------------------------------------------ *)
(* T3 *)
Theorem responder_silent : forall c adv,
  (exists o, r_resp (run c adv) = o /\ (o = Failed 1 \/ o = BadConfig)) ->
  r_resp_out (run c adv) = [] /\ (length (r_wire (run c adv)) <= 1)%nat.
Proof.
  intros c adv (o & Ho & Hd). revert Ho. unfold run, run_pair.
  destruct (mk_init c) as [pi|], (mk_resp c) as [pr|]; cbn; try (intros; split; auto; fail).
  destruct (c_kk c).
  - unfold run_kk.
    destruct (write_act pi [Te; Tes; Tss] 1) as [[i1 m1]|]; cbn; [|auto].
    destruct (read_act pr [Te; Tes; Tss] 1 (adv 1 m1)) as [r1|]; cbn; [|auto].
    destruct (write_act r1 [Te; Tee; Tse] 2) as [[r2 m2]|]; cbn;
      [|intros <-; destruct Hd; discriminate].
    destruct (read_act i1 [Te; Tee; Tse] 2 (adv 2 m2)) as [i2|]; cbn;
      intros <-; destruct Hd; discriminate.
  - unfold run_xx.
    destruct (write_act pi [Tme] 1) as [[i1 m1]|]; cbn; [|auto].
    destruct (read_act pr [Tme] 1 (adv 1 m1)) as [r1|]; cbn; [|auto].
    destruct (write_act r1 [Te; Tee; Ts; Tes] 2) as [[r2 m2]|]; cbn;
      [|intros <-; destruct Hd; discriminate].
    destruct (read_act i1 [Te; Tee; Ts; Tes] 2 (adv 2 m2)) as [i2|]; cbn;
      [|intros <-; destruct Hd; discriminate].
    destruct (write_act i2 [Ts; Tse] 3) as [[i3 m3]|]; cbn;
      [|intros <-; destruct Hd; discriminate].
    destruct (read_act r2 [Ts; Tse] 3 (adv 3 m3)) as [r3|]; cbn;
      intros <-; destruct Hd; discriminate.
Qed.

(* ------------------------------------------------------------------ *)
(* T8 *)
Theorem version_agreement_if_bytes_kept : forall c adv si sr,
  keeps_version adv ->
  r_init (run c adv) = Completed si -> r_resp (run c adv) = Completed sr ->
  s_version si = s_version sr.
Proof.
  intros c adv si sr KV Hi Hr.
  destruct (run_completed c adv si sr Hi Hr) as (pi & pr & Ei & Er & ER).
  rewrite ER in Hi, Hr.
  assert (p_init pi = true) as Ii by (apply new_party_fields in Ei; tauto).
  assert (p_init pr = false) as Ir by (apply new_party_fields in Er; tauto).
  destruct (c_kk c).
  - destruct (run_kk_completed _ _ _ _ _ Hi Hr)
      as (i1 & m1 & r1 & r2 & m2 & i2 & W1 & R1 & W2 & R2 & _ & -> & ->).
    apply write_act_static in W1. destruct W1 as [S1 _].
    apply read_act_static in R1. destruct R1 as (v1 & _ & Vr1 & Ir1 & _).
    apply write_act_static in W2. destruct W2 as [S2 H2].
    apply read_act_static in R2. destruct R2 as (v2 & Hv2 & Vi2 & _).
    rewrite KV, H2 in Hv2. inversion Hv2; subst v2.
    destruct S1 as (_ & Ii1 & _). destruct S2 as (Vr2 & _).
    cbn [finish s_version]. rewrite Ii1, Ii in Vi2. cbn in Vi2. congruence.
  - destruct (run_xx_completed _ _ _ _ _ Hi Hr)
      as (i1 & m1 & r1 & r2 & m2 & i2 & i3 & m3 & r3 & W1 & R1 & W2 & R2 & W3 & R3 & _ & -> & ->).
    apply write_act_static in W1. destruct W1 as [S1 _].
    apply read_act_static in R1. destruct R1 as (v1 & _ & Vr1 & Ir1 & _).
    apply write_act_static in W2. destruct W2 as [S2 H2].
    apply read_act_static in R2. destruct R2 as (v2 & Hv2 & Vi2 & _).
    apply write_act_static in W3. destruct W3 as [S3 H3].
    apply read_act_static in R3. destruct R3 as (v3 & Hv3 & Vr3 & _).
    rewrite KV, H2 in Hv2. inversion Hv2; subst v2.
    destruct S1 as (_ & Ii1 & _). destruct S2 as (Vr2 & Ir2 & _). destruct S3 as (Vi3 & _).
    cbn [finish s_version]. rewrite Ii1, Ii in Vi2. cbn in Vi2.
    rewrite Ir2, Ir1, Ir in Vr3. cbn in Vr3. congruence.
Qed.

(* ------------------------------------------------------------------ *)
(* T9 *)
Lemma write_act_v0_big : forall p ts, p_version p = 0 -> 498 < p_payload_len p -> write_act p ts 2 = None.
Proof.
  intros p ts V L. destruct (write_act p ts 2) as [[p' m]|] eqn:W; [|reflexivity].
  apply write_act_inv in W. destruct W as (p1 & out & _ & H). cbv zeta in H.
  destruct H as [(? & _) | [(_ & _ & ? & _) | (_ & ? & _)]]; lia.
Qed.

Theorem v0_large_payload_rejected : forall c adv,
  c_kk c = false -> c_maxr c = 0 -> 498 < c_plen c ->
  completed (r_resp (run c adv)) = false /\ completed (r_init (run c adv)) = false.
Proof.
  intros c adv K M L. unfold run, run_pair. rewrite K.
  destruct (mk_init c) as [pi|] eqn:Ei, (mk_resp c) as [pr|] eqn:Er; cbn; auto.
  unfold run_xx.
  destruct (write_act pi [Tme] 1) as [[i1 m1]|]; cbn; auto.
  destruct (read_act pr [Tme] 1 (adv 1 m1)) as [r1|] eqn:R1; cbn; auto.
  apply new_party_fields in Er. destruct Er as (Ir & _ & Lr & _ & Vr & _).
  apply read_act_static in R1. destruct R1 as (v1 & _ & V1 & _ & L1 & _).
  rewrite Ir in V1. rewrite andb_false_r in V1.
  rewrite write_act_v0_big; cbn; auto; congruence.
Qed.

(* ------------------------------------------------------------------ *)
(* T1 *)
Theorem xx_wrong_passphrase : forall c, c_kk c = false -> c_pwi c <> c_pwr c ->
  completed (r_resp (run c faithful)) = false /\ completed (r_init (run c faithful)) = false /\
  r_resp_out (run c faithful) = [].
Proof.
  intros c K PW. unfold run, run_pair, mk_init, mk_resp. rewrite K. cbn.
  unfold run_xx.
  match goal with |- context [write_act ?p [Tme] 1] =>
    destruct (write_act p [Tme] 1) as [[i1 m1]|] eqn:W1 end; cbn; [|auto].
  match goal with |- context [read_act ?p [Tme] 1 ?m] => assert (read_act p [Tme] 1 m = None) as R1 end.
  { apply write_act_inv in W1. destruct W1 as (p1 & out & W & H).
    cbn in W. inversion W; subst p1 out; clear W.
    psimpl in H. destruct H as [(_ & _ & -> & _) | [(? & _) | (? & _)]]; try discriminate.
    unfold faithful.
    match goal with |- ?x = None => destruct x as [r1|] eqn:R1 end; [exfalso|reflexivity].
    apply read_act_inv in R1. destruct R1 as (v & fs & p1 & rest & E & _ & RT & H).
    inversion E; subst v fs; clear E. cbn in RT.
    rewrite unmask_mask_neq in RT by exact PW. inversion RT; subst p1 rest; clear RT.
    psimpl in H.
    destruct H as [(_ & _ & E & _) | [(? & _) | (? & _)]]; try discriminate. }
  rewrite R1. cbn. auto.
Qed.

(* ------------------------------------------------------------------ *)
(* T2.  No side condition beyond the statement is needed (not even wf): the pre-message
   hashes Hash (Hash h0 (Pub si)) exp_i and Hash (Hash h0 exp_r) (Pub sr) already differ,
   so the act-1 MAC does not open. *)
Theorem kk_key_mismatch_strong : forall c a b, c_kk c = true ->
  c_exp_i c = Pub (Priv a) -> c_exp_r c = Pub (Priv b) ->
  (a <> c_sr c \/ b <> c_si c) ->
  completed (r_resp (run c faithful)) = false /\ completed (r_init (run c faithful)) = false /\
  r_resp_out (run c faithful) = [].
Proof.
  intros c a b K Xi Xr NE. unfold run, run_pair.
  destruct (mk_init c) as [pi|] eqn:Ei, (mk_resp c) as [pr|] eqn:Er; try rewrite K; cbn; auto.
  unfold mk_init in Ei. unfold mk_resp in Er. rewrite K, ?Xi, ?Xr in *. unfold new_party in Ei, Er.
  cbn [andb] in Ei, Er.
  destruct (c_maxi c <? 2); [discriminate|]. destruct (c_maxr c <? 2); [discriminate|].
  inversion Ei; subst pi; clear Ei. inversion Er; subst pr; clear Er.
  unfold run_kk.
  match goal with |- context [write_act ?p ?ts 1] =>
    destruct (write_act p ts 1) as [[i1 m1]|] eqn:W1 end; cbn; [|auto].
  match goal with |- context [read_act ?p ?ts 1 ?m] => assert (read_act p ts 1 m = None) as R1 end.
  { apply write_act_inv in W1. destruct W1 as (p1 & out & W & H).
    psimpl in W. inversion W; subst p1 out; clear W.
    psimpl in H. destruct H as [(_ & _ & -> & _) | [(? & _) | (? & _)]]; try discriminate.
    unfold faithful.
    match goal with |- ?x = None => destruct x as [r1|] eqn:R1 end; [exfalso|reflexivity].
    apply read_act_inv in R1. destruct R1 as (v & fs & p1 & rest & E & _ & RT & H).
    inversion E; subst v fs; clear E. psimpl in RT.
    inversion RT; subst p1 rest; clear RT.
    psimpl in H.
    destruct H as [(_ & _ & E & _) | [(? & _) | (? & _)]]; try discriminate.
    inversion E. destruct NE; congruence. }
  rewrite R1. cbn. auto.
Qed.

Theorem kk_key_mismatch : forall c a b, c_kk c = true -> wf c ->
  c_exp_i c = Pub (Priv a) -> c_exp_r c = Pub (Priv b) ->
  (a <> c_sr c \/ b <> c_si c) ->
  completed (r_resp (run c faithful)) = false /\ completed (r_init (run c faithful)) = false /\
  r_resp_out (run c faithful) = [].
Proof. intros c a b K _. apply kk_key_mismatch_strong; exact K. Qed.
(* ------------------------------------------------------------------ *)
(* no_forgery, as defined in Sym.v, quantifies over EVERY input message m of the adversary, not
   only over the messages of the run.  An adversary that forwards its input (faithful,
   version_swap) therefore does not satisfy it: fed a message with a foreign seal it delivers that
   seal.  Counterexample: *)
Theorem no_forgery_faithful_false : ~ no_forgery (example_cfg false 0 2 0 2) faithful.
Proof.
  intro NF.
  destruct (NF 1 [Seal Empty 0 Empty Empty] (Seal Empty 0 Empty Empty)) as (m' & Hm & Hf);
    [left; reflexivity | reflexivity |].
  vm_compute in Hm.
  repeat (destruct Hm as [<- | Hm]; [vm_compute in Hf; intuition discriminate|]).
  exact Hm.
Qed.

Theorem no_forgery_version_swap_false : ~ no_forgery (example_cfg false 0 2 0 2) version_swap.
Proof.
  intro NF.
  destruct (NF 1 [Seal Empty 0 Empty Empty] (Seal Empty 0 Empty Empty)) as (m' & Hm & Hf);
    [left; reflexivity | reflexivity |].
  vm_compute in Hm.
  repeat (destruct Hm as [<- | Hm]; [vm_compute in Hf; intuition discriminate|]).
  exact Hm.
Qed.

(* The intended reading: the condition restricted to the messages of the run (act a's message is
   the a-th element of r_wire).  It is implied by no_forgery, so theorems assuming it are
   stronger. *)
Definition no_forgery_run (c : cfg) (adv : adversary) : Prop :=
  forall a m f, nth_error (r_wire (run c adv)) (Z.to_nat (a - 1)) = Some m -> 1 <= a ->
    In f (adv a m) -> is_seal f = true ->
    exists m', In m' (r_wire (run c adv)) /\ In f m'.

Lemma no_forgery_run_weaker : forall c adv, no_forgery c adv -> no_forgery_run c adv.
Proof. intros c adv NF a m f _ _. apply NF. Qed.

Lemma version_swap_in : forall a m f, In f (version_swap a m) -> is_seal f = true -> In f m.
Proof.
  intros a m f H S. unfold version_swap in H.
  destruct m as [|x rest]; auto. destruct x; auto. destruct b as [|v l]; auto. destruct l; auto.
  destruct ((a =? 2) && (v =? 2)).
  - destruct H as [<-|H]; [discriminate | right; exact H].
  - destruct ((a =? 3) && (v =? 1)); auto.
    destruct H as [<-|H]; [discriminate | right; exact H].
Qed.

Lemma faithful_no_forgery_run : forall c, no_forgery_run c faithful.
Proof.
  intros c a m f Hn _ Hin _. exists m. split; [eapply nth_error_In; eauto | exact Hin].
Qed.

Lemma version_swap_no_forgery_run : forall c, no_forgery_run c version_swap.
Proof.
  intros c a m f Hn _ Hin Hs. exists m. split; [eapply nth_error_In; eauto |].
  eapply version_swap_in; eauto.
Qed.

(* T7 with the run-relative condition and the plain version_swap adversary *)
Theorem tamper_version_refuted_run : exists c adv si sr,
  no_forgery_run c adv /\ r_init (run c adv) = Completed si /\ r_resp (run c adv) = Completed sr /\
  s_version si <> s_version sr /\ s_set_remote si <> s_set_remote sr.
Proof.
  exists (example_cfg false 0 2 0 2), version_swap.
  eexists. eexists. split; [apply version_swap_no_forgery_run|].
  split; [vm_compute; reflexivity|]. split; [vm_compute; reflexivity|].
  split; vm_compute; discriminate.
Qed.

(* T7 exactly as stated needs an adversary that never delivers a foreign seal whatever it is fed:
   version_swap composed with a filter that drops every seal not transmitted in the run. *)
Definition mem_term (f : term) (l : list term) : bool := existsb (term_eqb f) l.
Definition restrict (W : list term) (adv : adversary) : adversary :=
  fun a m => adv a (filter (fun f => negb (is_seal f) || mem_term f W) m).

Definition swap_cfg : cfg := example_cfg false 0 2 0 2.
Definition swap_wire : list term := concat (r_wire (run swap_cfg version_swap)).
Definition swap_adv : adversary := restrict swap_wire version_swap.

Lemma swap_adv_same_run : run swap_cfg swap_adv = run swap_cfg version_swap.
Proof. vm_compute. reflexivity. Qed.

Lemma swap_adv_no_forgery : no_forgery swap_cfg swap_adv.
Proof.
  intros a m f Hin Hs. unfold swap_adv, restrict in Hin.
  apply version_swap_in in Hin; [|exact Hs].
  apply filter_In in Hin. destruct Hin as [_ Hok]. rewrite Hs in Hok. cbn [negb orb] in Hok.
  unfold mem_term in Hok. apply existsb_exists in Hok. destruct Hok as (x & Hx & E).
  apply term_eqb_true in E. subst x.
  rewrite swap_adv_same_run. unfold swap_wire in Hx. destruct (proj1 (in_concat (r_wire (run swap_cfg version_swap)) f) Hx) as (m' & H1 & H2).
  exists m'. split; assumption.
Qed.

Theorem tamper_version_refuted : exists c adv si sr,
  no_forgery c adv /\ r_init (run c adv) = Completed si /\ r_resp (run c adv) = Completed sr /\
  s_version si <> s_version sr /\ s_set_remote si <> s_set_remote sr.
Proof.
  exists swap_cfg, swap_adv.
  eexists. eexists. split; [apply swap_adv_no_forgery|]. rewrite swap_adv_same_run.
  split; [vm_compute; reflexivity|]. split; [vm_compute; reflexivity|].
  split; vm_compute; discriminate.
Qed.

Print Assumptions term_eqb_eq.
Print Assumptions decrypt_inv.
Print Assumptions dh_normal_form.
Print Assumptions unmask_mask.
Print Assumptions xx_wrong_passphrase.
Print Assumptions kk_key_mismatch.
Print Assumptions responder_silent.
Print Assumptions no_forgery_faithful_false.
Print Assumptions tamper_version_refuted_run.
Print Assumptions tamper_version_refuted.
Print Assumptions version_agreement_if_bytes_kept.
Print Assumptions v0_large_payload_rejected.
