From Coq Require Import ZArith List Lia.
From LNC Require Import GoLite Noise GbnMonitor NoiseStream Reconnect.
Import ListNotations.
Open Scope Z_scope.

(* every connection of a session delivers a prefix of what was written ON THAT CONNECTION, whatever was left
   unread on the connections before it *)
Theorem session_streams_are_per_connection : forall rd, rd = grpc_read \/ rd = buf_read ->
  forall conns pending,
  Forall (fun c : connection => Forall (fun b => 0 <= b) (snd c)) conns ->
  Forall2 (fun outs (c : connection) => is_prefix (concat outs) (concat (fst c)))
          (session true rd pending conns) conns.
Proof.
  intros rd Hrd conns. induction conns as [|[src sizes] rest IH]; intros pending Hall.
  - constructor.
  - inversion Hall as [|? ? Hs Hrest]; subst. cbn [session fst snd] in *.
    constructor.
    + destruct (reads_seq rd Hrd [] src sizes Hs) as [Hp _]. cbn [app] in Hp. exact Hp.
    + apply IH. exact Hrest.
Qed.

(* without the reset the tail of a record of connection 1 comes out on connection 2 *)
Theorem session_without_reset_refuted :
  exists conns, ~ Forall2 (fun outs (c : connection) => is_prefix (concat outs) (concat (fst c)))
                          (session false grpc_read [] conns) conns.
Proof.
  exists [([[1; 2; 3; 4]], [2]); ([[9]], [8])].
  vm_compute. intros H. inversion H as [|? ? ? ? _ H2]; subst.
  inversion H2 as [|? ? ? ? [t Ht] _]; subst. discriminate Ht.
Qed.

Example session_ex :
  session true grpc_read [] [([[1; 2; 3; 4]], [2]); ([[9]], [8])] = [[[1; 2]]; [[9]]]
  /\ session false grpc_read [] [([[1; 2; 3; 4]], [2]); ([[9]], [8])] = [[[1; 2]]; [[3; 4]]].
Proof. vm_compute. split; reflexivity. Qed.

Print Assumptions session_streams_are_per_connection.
Print Assumptions session_without_reset_refuted.

(* ---- Close affects the connection it was called on, and only that one ---- *)
Lemma set_closed_length : forall k l, length (set_closed k l) = length l.
Proof. induction k as [|k IH]; intros [|b l]; cbn; auto. Qed.

Lemma set_closed_other : forall k j l, j <> k -> nth j (set_closed k l) false = nth j l false.
Proof.
  induction k as [|k IH]; intros j [|b l] H; cbn; auto.
  - destruct j; [contradiction|reflexivity].
  - destruct j; [reflexivity|]. apply IH. intros ->. apply H. reflexivity.
Qed.

Lemma set_closed_same : forall k l, nth k (set_closed k l) false = false.
Proof. induction k as [|k IH]; intros [|b l]; cbn; auto. Qed.

Lemma set_closed_idem : forall k l, set_closed k (set_closed k l) = set_closed k l.
Proof. induction k as [|k IH]; intros [|b l]; cbn; auto. f_equal. apply IH. Qed.

Theorem close_twice_is_close_once : forall st k,
  cstep false (cstep false st (CClose k)) (CClose k) = cstep false st (CClose k).
Proof.
  intros st k. cbn [cstep]. destruct (Nat.ltb k (length st)) eqn:E.
  - rewrite set_closed_length, E. apply set_closed_idem.
  - rewrite E. reflexivity.
Qed.

Theorem close_closes_its_own : forall st k, (k < length st)%nat -> nth k (cstep false st (CClose k)) false = false.
Proof.
  intros st k H. cbn [cstep]. apply Nat.ltb_lt in H. rewrite H. apply set_closed_same.
Qed.

Lemma stays_open_gen : forall j evs st,
  ~ In (CClose j) evs -> (j < length st + handshakes evs)%nat ->
  ((j < length st)%nat -> nth j st false = true) ->
  nth j (crun false st evs) false = true.
Proof.
  intros j evs. induction evs as [|ev evs IH]; intros st Hn Hlt Hopen.
  - cbn in *. apply Hopen. lia.
  - cbn [crun fold_left]. change (fold_left (cstep false) evs (cstep false st ev)) with (crun false (cstep false st ev) evs).
    apply IH.
    + intros H. apply Hn. right. exact H.
    + destruct ev as [|k]; cbn [cstep handshakes] in *.
      * rewrite app_length. cbn. lia.
      * destruct (Nat.ltb k (length st)); [rewrite set_closed_length|]; lia.
    + destruct ev as [|k]; cbn [cstep].
      * rewrite app_length. cbn. intros Hj.
        destruct (Nat.lt_ge_cases j (length st)) as [Hl|Hl].
        -- rewrite app_nth1 by assumption. apply Hopen. assumption.
        -- assert (j = length st) by lia. subst j. rewrite app_nth2 by lia. rewrite Nat.sub_diag. reflexivity.
      * assert (Hk : j <> k) by (intros ->; apply Hn; left; reflexivity).
        destruct (Nat.ltb k (length st)).
        -- rewrite set_closed_length. intros Hj. rewrite set_closed_other by assumption. apply Hopen. assumption.
        -- assumption.
Qed.

(* every connection of a session stays open until ITS OWN handle is closed, whatever is done with the handles of
   the other connections, in any order and any number of times *)
Theorem connection_open_until_its_own_close : forall evs j,
  (j < handshakes evs)%nat -> ~ In (CClose j) evs -> nth j (crun false [] evs) false = true.
Proof.
  intros evs j Hj Hn. apply stays_open_gen; [assumption | cbn; lia | cbn; lia].
Qed.

(* with the one shared object as every handle, a second Close of connection 0 closes connection 1 *)
Theorem shared_close_refuted :
  ~ In (CClose 1) [CHandshake; CClose 0; CHandshake; CClose 0] /\
  nth 1 (crun true [] [CHandshake; CClose 0; CHandshake; CClose 0]) false = false /\
  nth 1 (crun false [] [CHandshake; CClose 0; CHandshake; CClose 0]) false = true.
Proof.
  split; [|split; reflexivity].
  intros [H|[H|[H|[H|[]]]]]; discriminate.
Qed.
