From Coq Require Import ZArith List Lia.
From LNC Require Import GoLite Noise GbnMonitor NoiseStream Reconnect.
Import ListNotations.
Open Scope Z_scope.

(* every connection of a session delivers a prefix of what was written ON THAT CONNECTION, whatever was left
   unread on the connections before it *)
Theorem session_streams_are_per_connection : forall rd, rd = grpc_read \/ rd = buf_read ->
  forall conns pending,
  Forall (fun c : connection => Forall (fun b => 0 <= b) (snd c)) conns ->
  Forall2 (fun outs (c : connection) => is_prefix (concat outs) (concat (fst c)))
          (session true rd pending conns) conns.
Proof.
  intros rd Hrd conns. induction conns as [|[src sizes] rest IH]; intros pending Hall.
  - constructor.
  - inversion Hall as [|? ? Hs Hrest]; subst. cbn [session fst snd] in *.
    constructor.
    + destruct (reads_seq rd Hrd [] src sizes Hs) as [Hp _]. cbn [app] in Hp. exact Hp.
    + apply IH. exact Hrest.
Qed.

(* without the reset the tail of a record of connection 1 comes out on connection 2 *)
Theorem session_without_reset_refuted :
  exists conns, ~ Forall2 (fun outs (c : connection) => is_prefix (concat outs) (concat (fst c)))
                          (session false grpc_read [] conns) conns.
Proof.
  exists [([[1; 2; 3; 4]], [2]); ([[9]], [8])].
  vm_compute. intros H. inversion H as [|? ? ? ? _ H2]; subst.
  inversion H2 as [|? ? ? ? [t Ht] _]; subst. discriminate Ht.
Qed.

Example session_ex :
  session true grpc_read [] [([[1; 2; 3; 4]], [2]); ([[9]], [8])] = [[[1; 2]]; [[9]]]
  /\ session false grpc_read [] [([[1; 2; 3; 4]], [2]); ([[9]], [8])] = [[[1; 2]]; [[3; 4]]].
Proof. vm_compute. split; reflexivity. Qed.

Print Assumptions session_streams_are_per_connection.
Print Assumptions session_without_reset_refuted.
