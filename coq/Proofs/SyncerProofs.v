(* Proofs about the generated syncer.initResendUpTo (gen/SyncerGen.v, from gbn/syncer.go).

   The syncer waits, after a resend round, for the ACK of the last packet of the window: the predecessor of
   `top` in the sequence space 0..s-1. The code computes it as (s + top - 1) % s in uint8 arithmetic. *)
From Coq Require Import ZArith Lia ZifyBool.
From LNC Require Import GoLite SyncerGen.
Open Scope Z_scope.
Ltac Zify.zify_post_hook ::= Z.div_mod_to_equations.

(* what the function computes, for every uint8 sequence space and every top inside it: no panic, the state
   is "resending", the expected NACK is top, and the expected ACK lies inside the sequence space *)
Lemma initResendUpTo_in_range : forall c top,
  1 <= syncer_s c <= 255 -> 0 <= top < syncer_s c ->
  exists c', syncer_initResendUpTo c top = Ok c' /\
    syncer_s c' = syncer_s c /\ syncer_state c' = 1 /\ syncer_expectedNACK c' = top /\
    0 <= syncer_expectedACK c' < syncer_s c /\
    syncer_expectedACK c' = ((syncer_s c + top - 1) mod 256) mod syncer_s c.
Proof.
  intros [s st ea en] top Hs Ht; cbn [syncer_s] in *.
  unfold syncer_initResendUpTo, umod, u8; cbn [set_syncer_state set_syncer_expectedACK set_syncer_expectedNACK
    syncer_s syncer_state syncer_expectedACK syncer_expectedNACK].
  destruct (s =? 0) eqn:E; [lia|]. cbn [bind].
  eexists; split; [reflexivity|]. cbn [syncer_s syncer_state syncer_expectedACK syncer_expectedNACK].
  repeat split; try lia.
  - apply Z.mod_pos_bound; lia.
  - apply Z.mod_pos_bound; lia.
  - rewrite Zminus_mod_idemp_l. reflexivity.
Qed.

(* it is the predecessor of top whenever s + top - 1 fits a uint8 (in particular for every s <= 128) *)
Lemma initResendUpTo_predecessor : forall c top c',
  1 <= syncer_s c <= 255 -> 0 <= top < syncer_s c -> syncer_s c + top <= 256 ->
  syncer_initResendUpTo c top = Ok c' ->
  (syncer_expectedACK c' + 1) mod syncer_s c = top.
Proof.
  intros c top c' Hs Ht Hfit H.
  destruct (initResendUpTo_in_range c top Hs Ht) as (c2 & H2 & _ & _ & _ & _ & Hea).
  rewrite H in H2; injection H2 as <-. rewrite Hea.
  rewrite (Z.mod_small (syncer_s c + top - 1) 256) by lia.
  rewrite Zplus_mod_idemp_l. replace (syncer_s c + top - 1 + 1) with (top + 1 * syncer_s c) by lia.
  rewrite Z_mod_plus_full. apply Z.mod_small; lia.
Qed.

Lemma small_space_fits : forall s top, 1 <= s <= 128 -> 0 <= top < s -> s + top <= 256.
Proof. lia. Qed.

(* ... and NOT in general: s = 200 (a window of 199), top = 100 gives 43, the predecessor is 99.
   (noted defect: the sync wait then only ends by its 3 x RT timer; not a safety property) *)
Lemma initResendUpTo_predecessor_refuted : exists c top c',
  1 <= syncer_s c <= 255 /\ 0 <= top < syncer_s c /\
  syncer_initResendUpTo c top = Ok c' /\ (syncer_expectedACK c' + 1) mod syncer_s c <> top.
Proof.
  exists (mk_syncer 200 0 0 0), 100, (mk_syncer 200 1 43 100).
  repeat split; try (cbn; lia).
Qed.
