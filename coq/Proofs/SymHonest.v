From Coq Require Import ZArith List Bool Lia.
From LNC Require Import Sym SymLemmas SymProofs.
(* Faithful (honest) runs: T4 match_completes, T5 honest_agreement_or_no_completion. *)
Import ListNotations.
Open Scope Z_scope.

(* ------------------------------------------------------------------ *)
(* T4 / T5: faithful runs, by symbolic execution for each version quadruple *)
Ltac pfull :=
  lazy -[dh unmask term_eqb decrypt_and_hash Z.leb Z.ltb Z.eqb Z.add Z.le Z.lt Z.max Z.min not];
  cbn [Z.add Pos.add Pos.succ Z.eqb Z.leb Z.ltb Z.compare Pos.compare Pos.compare_cont Pos.eqb
       CompOpp andb orb negb].

Ltac fwd si sr ei er :=
  repeat (pfull;
          rewrite ?(dh_comm er ei), ?(dh_comm sr ei), ?(dh_comm er si), ?(dh_comm sr si);
          first [ rewrite decrypt_mk | rewrite unmask_mask | rewrite term_eqb_refl
                | match goal with H : (_ <? _) = _ |- _ => rewrite H end
                | match goal with H : (_ <=? _) = _ |- _ => rewrite H end ]);
  pfull.

Definition agree (c : cfg) (si sr : session) : Prop :=
  s_send si = s_recv sr /\ s_recv si = s_send sr /\ s_version si = c_maxr c /\ s_version sr = c_maxr c /\
  s_remote si = Some (Pub (Priv (c_sr c))) /\ s_remote sr = Some (Pub (Priv (c_si c))) /\
  s_auth si = Some (c_payload c).

(* the exact completion condition of a faithful run between matching parties *)
Definition okb (c : cfg) : bool :=
  let mi := if c_kk c && (c_mini c <? 2) then 2 else c_mini c in
  let mr := if c_kk c && (c_minr c <? 2) then 2 else c_minr c in
  (if c_kk c then (2 <=? c_maxi c) && (2 <=? c_maxr c) else true) &&
  (mr <=? mi) && (mi <=? c_maxr c) && (c_maxr c <=? c_maxi c) &&
  (negb (c_maxr c =? 0) || (c_plen c <=? 498)).

Definition matching (c : cfg) : Prop :=
  (c_kk c = false -> c_pwi c = c_pwr c) /\
  (c_kk c = true -> c_exp_i c = Pub (Priv (c_sr c)) /\ c_exp_r c = Pub (Priv (c_si c))).

Lemma honest_outcome : forall c, vr c -> matching c ->
  if okb c
  then exists si sr, r_init (run c faithful) = Completed si /\ r_resp (run c faithful) = Completed sr /\
                     agree c si sr
  else completed (r_init (run c faithful)) = false /\
       (c_kk c = false -> completed (r_resp (run c faithful)) = false).
Proof.
  intros [kk si sr ei er pwi pwr xi xr pl plen mini maxi minr maxr] (V1 & V2 & V3 & V4) [M1 M2].
  cbn in V1, V2, V3, V4, M1, M2.
  assert ((498 <? plen) = negb (plen <=? 498)) as EL.
  { destruct (Z.ltb_spec 498 plen), (Z.leb_spec plen 498); try reflexivity; lia. }
  assert (mini = 0 \/ mini = 1 \/ mini = 2) as D1 by lia.
  assert (maxi = 0 \/ maxi = 1 \/ maxi = 2) as D2 by lia.
  assert (minr = 0 \/ minr = 1 \/ minr = 2) as D3 by lia.
  assert (maxr = 0 \/ maxr = 1 \/ maxr = 2) as D4 by lia.
  clear V1 V2 V3 V4.
  destruct kk.
  - destruct (M2 eq_refl) as [-> ->]. clear M1 M2.
    destruct D1 as [-> | [-> | ->]], D2 as [-> | [-> | ->]], D3 as [-> | [-> | ->]], D4 as [-> | [-> | ->]];
      unfold okb, agree;
      fwd si sr ei er;
      first [ split; [reflexivity | intro; discriminate]
            | eexists; eexists; split; [reflexivity|]; split; [reflexivity|]; repeat split ].
  - rewrite (M1 eq_refl). clear M1 M2.
    destruct D1 as [-> | [-> | ->]], D2 as [-> | [-> | ->]], D3 as [-> | [-> | ->]], D4 as [-> | [-> | ->]];
      unfold okb, agree;
      try (destruct (plen <=? 498) eqn:EP; cbn [negb] in EL);
      fwd si sr ei er;
      first [ split; [reflexivity | intro; reflexivity]
            | eexists; eexists; split; [reflexivity|]; split; [reflexivity|]; repeat split ].
Qed.

(* T4.  The side conditions are as proposed; they are equivalent to okb c = true under vr c.
   (KK: new_party refuses maxv < 2 and raises minv to 2, so the premises force all of the
   effective versions to be 2.)  wf c is not needed for a faithful run. *)
Theorem match_completes : forall c, wf c -> vr c ->
  (c_kk c = false -> c_pwi c = c_pwr c) ->
  (c_kk c = true -> c_exp_i c = Pub (Priv (c_sr c)) /\ c_exp_r c = Pub (Priv (c_si c))) ->
  let mi := (if c_kk c then Z.max 2 (c_mini c) else c_mini c) in
  let mr := (if c_kk c then Z.max 2 (c_minr c) else c_minr c) in
  mi <= c_maxi c -> mr <= c_maxr c ->
  mr <= mi <= c_maxr c ->
  mi <= c_maxr c <= c_maxi c ->
  (c_maxr c = 0 -> c_plen c <= 498) ->
  exists si sr, r_init (run c faithful) = Completed si /\ r_resp (run c faithful) = Completed sr /\
    s_send si = s_recv sr /\ s_recv si = s_send sr /\ s_version si = c_maxr c /\ s_version sr = c_maxr c /\
    s_remote si = Some (Pub (Priv (c_sr c))) /\ s_remote sr = Some (Pub (Priv (c_si c))) /\
    s_auth si = Some (c_payload c).
Proof.
  intros c _ V M1 M2 mi mr P1 P2 P3 P4 P5.
  pose proof (honest_outcome c V (conj M1 M2)) as H.
  assert (okb c = true) as OK.
  { unfold okb. subst mi mr. destruct V as (V1 & V2 & V3 & V4).
    destruct (c_kk c); cbn [andb].
    - destruct (c_mini c <? 2) eqn:A, (c_minr c <? 2) eqn:B;
        try apply Z.ltb_lt in A; try apply Z.ltb_ge in A; try apply Z.ltb_lt in B; try apply Z.ltb_ge in B;
        repeat (apply andb_true_iff; split); try (apply Z.leb_le; lia);
        apply orb_true_iff; left; apply negb_true_iff; apply Z.eqb_neq; lia.
    - repeat (apply andb_true_iff; split); try (apply Z.leb_le; lia).
      destruct (Z.eqb_spec (c_maxr c) 0) as [E|E]; cbn [negb orb]; [apply Z.leb_le; auto | reflexivity]. }
  rewrite OK in H. destruct H as (si & sr & Hi & Hr & A). exists si, sr. split; [exact Hi|]. split; [exact Hr|].
  exact A.
Qed.

(* T5 *)
Theorem honest_agreement_or_no_completion : forall c, wf c -> vr c ->
  (c_kk c = false -> c_pwi c = c_pwr c) ->
  (c_kk c = true -> c_exp_i c = Pub (Priv (c_sr c)) /\ c_exp_r c = Pub (Priv (c_si c))) ->
  (completed (r_init (run c faithful)) = true /\ completed (r_resp (run c faithful)) = true /\
   exists si sr, r_init (run c faithful) = Completed si /\ r_resp (run c faithful) = Completed sr /\
     s_send si = s_recv sr /\ s_recv si = s_send sr /\ s_version si = c_maxr c /\ s_version sr = c_maxr c /\
     s_remote si = Some (Pub (Priv (c_sr c))) /\ s_remote sr = Some (Pub (Priv (c_si c))) /\
     s_auth si = Some (c_payload c)) \/
  (completed (r_init (run c faithful)) = false /\
   (c_kk c = false -> completed (r_resp (run c faithful)) = false)).
Proof.
  intros c _ V M1 M2.
  pose proof (honest_outcome c V (conj M1 M2)) as H.
  destruct (okb c).
  - left. destruct H as (si & sr & Hi & Hr & A). rewrite Hi, Hr. split; [reflexivity|]. split; [reflexivity|].
    exists si, sr. split; [reflexivity|]. split; [reflexivity|]. exact A.
  - right. exact H.
Qed.

Print Assumptions match_completes.
Print Assumptions honest_agreement_or_no_completion.
