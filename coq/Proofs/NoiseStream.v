(* Proofs about the stream adapters of Model/Noise.v:
   C15 (Read never returns more than the buffer, bytes conserved in order,
        progress; Write chunking), C16 (io.ReadFull over a fragmenting
        transport; Flush partial writes). *)
From Coq Require Import ZArith List Bool Lia.
From LNC Require Import Noise NoiseRecord.
Import ListNotations.
Open Scope Z_scope.

(* ------------------------------------------------------------------ *)
(* helpers                                                             *)
(* ------------------------------------------------------------------ *)

Lemma quad_inj : forall A B C D (a a' : A) (b b' : B) (c c' : C) (d d' : D),
  (a, b, c, d) = (a', b', c', d') -> a = a' /\ b = b' /\ c = c' /\ d = d'.
Proof. intros A B C D a a' b b' c c' d d' H. injection H; auto. Qed.

Lemma len_firstn : forall A n (l : list A), len (firstn (Z.to_nat n) l) = Z.max 0 (Z.min n (len l)).
Proof. intros; unfold len; rewrite firstn_length; lia. Qed.

Lemma len_skipn : forall A n (l : list A), len (skipn (Z.to_nat n) l) = len l - Z.max 0 (Z.min n (len l)).
Proof. intros; unfold len; rewrite skipn_length; lia. Qed.

Lemma len_nil_iff : forall A (l : list A), len l = 0 <-> l = [].
Proof.
  intros A l; split; intro H; [|subst; reflexivity].
  destruct l as [|x l]; [reflexivity|]. unfold len in H; cbn [length] in H; lia.
Qed.

Lemma len_pos : forall A (l : list A), l <> [] -> 1 <= len l.
Proof.
  intros A l H. pose proof (len_nonneg _ l). destruct (Z.eq_dec (len l) 0) as [E|E]; [|lia].
  apply len_nil_iff in E. contradiction.
Qed.

Lemma nonempty_of_len : forall A (l : list A), 1 <= len l -> l <> [].
Proof. intros A l H ->. unfold len in H; cbn [length] in H; lia. Qed.

Lemma firstn_nonempty : forall A n (l : list A), 1 <= n -> l <> [] -> firstn (Z.to_nat n) l <> [].
Proof.
  intros A n l Hn Hl. apply nonempty_of_len. rewrite len_firstn. apply len_pos in Hl. lia.
Qed.

(* ------------------------------------------------------------------ *)
(* C15.11 : one Read call                                              *)
(* ------------------------------------------------------------------ *)

(* ORIGINAL STATEMENT (false as written for grpc_read):
     grpc_read pending src b = (out, pending', src') ->
       out ++ pending' ++ concat src' = pending ++ concat src /\ len out <= b /\ len out <= grpc_cap.
   The 32 KiB cap is applied only when a fresh record is taken; the left-over
   branch copies min(bufsize, len pending) bytes, and the left-over of a
   65535-byte record after a small read is larger than 32 KiB.  This is what
   NoiseGrpcConn.Read does (n := copy(b, c.nextMsg)). *)
Example grpc_cap_counterexample :
  (let '(out, _, _) := grpc_read (repeat 0 (Z.to_nat 40000)) [] 40000 in len out <=? grpc_cap) = false.
Proof. vm_compute. reflexivity. Qed.

(* the same counterexample reached from the empty state by two Reads on one
   65535-byte record: Read(1) then Read(65535) returns 65534 bytes *)
Example grpc_cap_counterexample_reachable :
  (let outs := reads grpc_read [] [repeat 7 (Z.to_nat 65535)] [1; 65535] in
   map (fun o => len o) outs) = [1; 65534].
Proof. vm_compute. reflexivity. Qed.

Theorem grpc_read_cap_false :
  ~ (forall pending src b out pending' src', 0 <= b ->
       grpc_read pending src b = (out, pending', src') -> len out <= grpc_cap).
Proof.
  intro H.
  pose proof grpc_cap_counterexample as C.
  destruct (grpc_read (repeat 0 (Z.to_nat 40000)) [] 40000) as [[out p'] s'] eqn:E.
  assert (Hb : 0 <= 40000) by lia.
  specialize (H _ _ _ _ _ _ Hb E).
  apply Z.leb_gt in C. lia.
Qed.

(* closest true variant: the cap holds when a fresh record is taken, and
   whenever the left-over itself is at most 32 KiB *)
Theorem grpc_read_step : forall pending src b out pending' src', 0 <= b ->
  grpc_read pending src b = (out, pending', src') ->
  out ++ pending' ++ concat src' = pending ++ concat src /\ len out <= b
  /\ (pending = [] \/ len pending <= grpc_cap -> len out <= grpc_cap)
  /\ len out <= Z.max grpc_cap (len pending).
Proof.
  intros pending src b out pending' src' Hb H. unfold grpc_read in H.
  destruct pending as [|x pending0].
  - destruct src as [|m rest].
    + apply triple_inj in H. destruct H as (<- & <- & <-).
      repeat split; try reflexivity; unfold len, grpc_cap; cbn [length]; lia.
    + apply triple_inj in H. destruct H as (<- & <- & <-).
      cbn [concat app]. rewrite app_assoc, firstn_skipn.
      rewrite len_firstn. unfold zmin3.
      pose proof (len_nonneg _ m). unfold grpc_cap.
      repeat split; try reflexivity; lia.
  - set (pending := x :: pending0) in *.
    apply triple_inj in H. destruct H as (<- & <- & <-).
    rewrite app_assoc, firstn_skipn, len_firstn.
    pose proof (len_nonneg _ pending). unfold grpc_cap.
    repeat split; try reflexivity; try lia.
    intros [E|E]; [discriminate E | lia].
Qed.

Lemma concat_drop_empty : forall src, concat (drop_empty src) = concat src.
Proof.
  induction src as [|m src IH]; [reflexivity|].
  destruct m as [|x m]; [cbn [drop_empty concat app]; assumption | reflexivity].
Qed.

Theorem buf_read_step : forall pending src b out pending' src', 0 <= b ->
  buf_read pending src b = (out, pending', src') ->
  out ++ pending' ++ concat src' = pending ++ concat src /\ len out <= b.
Proof.
  intros pending src b out pending' src' Hb H. unfold buf_read in H.
  destruct pending as [|x pending0].
  - cbn [app]. rewrite <- (concat_drop_empty src).
    destruct (drop_empty src) as [|m rest].
    + apply triple_inj in H. destruct H as (<- & <- & <-).
      split; [reflexivity | unfold len; cbn [length]; lia].
    + apply triple_inj in H. destruct H as (<- & <- & <-).
      cbn [concat]. rewrite app_assoc, firstn_skipn, len_firstn.
      pose proof (len_nonneg _ m). split; [reflexivity | lia].
  - set (pending := x :: pending0) in *.
    apply triple_inj in H. destruct H as (<- & <- & <-).
    rewrite app_assoc, firstn_skipn, len_firstn.
    pose proof (len_nonneg _ pending). split; [reflexivity | lia].
Qed.

(* ------------------------------------------------------------------ *)
(* C15.12 : a sequence of Read calls                                   *)
(* ------------------------------------------------------------------ *)

Definition read_fn := list Z -> list (list Z) -> Z -> list Z * list Z * list (list Z).

Definition step_ok (rd : read_fn) : Prop :=
  forall pending src b out pending' src', 0 <= b ->
    rd pending src b = (out, pending', src') ->
    out ++ pending' ++ concat src' = pending ++ concat src /\ len out <= b.

Lemma grpc_step_ok : step_ok grpc_read.
Proof. intros p s b o p' s' Hb H. pose proof (grpc_read_step _ _ _ _ _ _ Hb H). tauto. Qed.

Lemma buf_step_ok : step_ok buf_read.
Proof. intros p s b o p' s' Hb H. exact (buf_read_step _ _ _ _ _ _ Hb H). Qed.

Lemma reads_seq_gen : forall rd, step_ok rd -> forall sizes pending src,
  Forall (fun b => 0 <= b) sizes ->
  is_prefix (concat (reads rd pending src sizes)) (pending ++ concat src)
  /\ Forall2 (fun out b => len out <= b) (reads rd pending src sizes) sizes.
Proof.
  intros rd Hrd. induction sizes as [|b sizes IH]; intros pending src Hs.
  - cbn [reads concat]. split; [apply is_prefix_nil | constructor].
  - inversion Hs as [|? ? Hb Hs']; subst.
    cbn [reads]. destruct (rd pending src b) as [[out p'] s'] eqn:E.
    destruct (Hrd _ _ _ _ _ _ Hb E) as [Hc Hl].
    destruct (IH p' s' Hs') as [[t Ht] HF].
    split.
    + exists t. cbn [concat]. rewrite <- Hc, Ht, app_assoc. reflexivity.
    + constructor; assumption.
Qed.

Theorem reads_seq : forall rd, rd = grpc_read \/ rd = buf_read ->
  forall pending src sizes, Forall (fun b => 0 <= b) sizes ->
  is_prefix (concat (reads rd pending src sizes)) (pending ++ concat src)
  /\ Forall2 (fun out b => len out <= b) (reads rd pending src sizes) sizes.
Proof.
  intros rd [-> | ->] pending src sizes Hs.
  - apply reads_seq_gen; [apply grpc_step_ok | assumption].
  - apply reads_seq_gen; [apply buf_step_ok | assumption].
Qed.

(* ------------------------------------------------------------------ *)
(* C15.13 : progress                                                   *)
(* ------------------------------------------------------------------ *)

Lemma drop_empty_nonempty : forall src, (exists m, In m src /\ m <> []) ->
  exists m rest, drop_empty src = m :: rest /\ m <> [].
Proof.
  induction src as [|c src IH]; intros (m & Hin & Hm).
  - destruct Hin.
  - destruct c as [|x c].
    + cbn [drop_empty]. apply IH. destruct Hin as [<-|Hin]; [contradiction|]. eauto.
    + exists (x :: c), src. split; [reflexivity | discriminate].
Qed.

Theorem buf_read_progress : forall pending src b out pending' src', 1 <= b ->
  (pending <> [] \/ exists m, In m src /\ m <> []) ->
  buf_read pending src b = (out, pending', src') -> out <> [].
Proof.
  intros pending src b out pending' src' Hb Hne H. unfold buf_read in H.
  destruct pending as [|x pending0].
  - destruct Hne as [Hne|Hne]; [contradiction|].
    destruct (drop_empty_nonempty src Hne) as (m & rest & E & Hm). rewrite E in H.
    apply triple_inj in H. destruct H as (<- & _ & _).
    apply firstn_nonempty; [|assumption]. apply len_pos in Hm. lia.
  - set (pending := x :: pending0) in *.
    apply triple_inj in H. destruct H as (<- & _ & _).
    assert (Hp : pending <> []) by discriminate.
    apply firstn_nonempty; [|assumption]. apply len_pos in Hp. lia.
Qed.

Theorem grpc_read_progress_pending : forall pending src b out pending' src', 1 <= b ->
  pending <> [] -> grpc_read pending src b = (out, pending', src') -> out <> [].
Proof.
  intros pending src b out pending' src' Hb Hne H. unfold grpc_read in H.
  destruct pending as [|x pending0]; [contradiction|].
  set (pending := x :: pending0) in *.
  apply triple_inj in H. destruct H as (<- & _ & _).
  apply firstn_nonempty; [|assumption]. apply len_pos in Hne. lia.
Qed.

Theorem grpc_read_progress_fresh : forall pending src b out pending' src' m rest, 1 <= b ->
  pending = [] -> src = m :: rest -> m <> [] ->
  grpc_read pending src b = (out, pending', src') -> out <> [].
Proof.
  intros pending src b out pending' src' m rest Hb -> -> Hm H. unfold grpc_read in H.
  apply triple_inj in H. destruct H as (<- & _ & _).
  apply firstn_nonempty; [|assumption]. apply len_pos in Hm. unfold zmin3, grpc_cap. lia.
Qed.

(* ------------------------------------------------------------------ *)
(* C15.14 : Write                                                      *)
(* ------------------------------------------------------------------ *)

Lemma max_record_pos : 0 < max_record.
Proof. reflexivity. Qed.

Lemma chunk_fuel_concat : forall fuel b, (length b < fuel)%nat -> concat (chunk_fuel fuel b) = b.
Proof.
  induction fuel as [|f IH]; intros b Hf; [lia|].
  cbn [chunk_fuel]. destruct (Z.leb_spec (len b) max_record) as [Hle|Hgt].
  - cbn [concat]. apply app_nil_r.
  - cbn [concat]. rewrite IH; [apply firstn_skipn|].
    rewrite skipn_length. pose proof max_record_pos. unfold len in Hgt. lia.
Qed.

Lemma chunk_fuel_bound : forall fuel b, Forall (fun c => len c <= max_record) (chunk_fuel fuel b).
Proof.
  induction fuel as [|f IH]; intros b; [constructor|].
  cbn [chunk_fuel]. destruct (Z.leb_spec (len b) max_record) as [Hle|Hgt].
  - constructor; [assumption | constructor].
  - constructor; [|apply IH]. rewrite len_firstn. pose proof max_record_pos. lia.
Qed.

Lemma chunk_fuel_nonempty : forall fuel b, b <> [] -> Forall (fun c => c <> []) (chunk_fuel fuel b).
Proof.
  induction fuel as [|f IH]; intros b Hb; [constructor|].
  cbn [chunk_fuel]. destruct (Z.leb_spec (len b) max_record) as [Hle|Hgt].
  - constructor; [assumption | constructor].
  - pose proof max_record_pos. constructor.
    + apply nonempty_of_len. rewrite len_firstn. lia.
    + apply IH. apply nonempty_of_len. rewrite len_skipn. lia.
Qed.

Theorem tcp_write_records_spec : forall b,
  concat (tcp_write_records b) = b
  /\ Forall (fun c => len c <= max_record) (tcp_write_records b)
  /\ (b <> [] -> Forall (fun c => c <> []) (tcp_write_records b)).
Proof.
  intros b. unfold tcp_write_records. split; [|split].
  - apply chunk_fuel_concat. lia.
  - apply chunk_fuel_bound.
  - apply chunk_fuel_nonempty.
Qed.

Theorem grpc_write_records_none : forall b, grpc_write_records b = None <-> max_record < len b.
Proof.
  intros b. unfold grpc_write_records.
  destruct (Z.ltb_spec max_record (len b)); split; intro; try reflexivity; try assumption; try discriminate; lia.
Qed.

Theorem grpc_write_records_some : forall b r, grpc_write_records b = Some r -> r = [b].
Proof.
  intros b r H. unfold grpc_write_records in H.
  destruct (max_record <? len b); [discriminate | congruence].
Qed.

(* ------------------------------------------------------------------ *)
(* C16.15 : io.ReadFull over a fragmenting transport                   *)
(* ------------------------------------------------------------------ *)

Lemma len_concat_cons : forall (c : list Z) rest, len (concat (c :: rest)) = len c + len (concat rest).
Proof. intros; cbn [concat]; apply len_app. Qed.

Lemma read_full_fuel_spec : forall fuel chunks k acc,
  (length chunks < fuel)%nat -> 0 <= k <= len (concat chunks) ->
  exists rest,
    read_full_fuel fuel k chunks acc = Some (acc ++ firstn (Z.to_nat k) (concat chunks), rest)
    /\ concat rest = skipn (Z.to_nat k) (concat chunks).
Proof.
  induction fuel as [|f IH]; intros chunks k acc Hf Hk; [lia|].
  cbn [read_full_fuel]. destruct (Z.leb_spec k 0) as [Hk0|Hk0].
  - replace (Z.to_nat k) with 0%nat by lia. cbn [firstn skipn]. rewrite app_nil_r.
    exists chunks. split; reflexivity.
  - destruct chunks as [|c rest].
    + unfold len in Hk; cbn [concat length] in Hk; lia.
    + rewrite len_concat_cons in Hk. cbn [concat]. cbn [length] in Hf.
      destruct (Z.leb_spec (len c) k) as [Hck|Hck].
      * destruct (IH rest (k - len c) (acc ++ c)) as (rest' & E & Hc); [lia | lia |].
        exists rest'. rewrite E. pose proof (len_nonneg _ c) as Hc0.
        assert (En : (Z.to_nat k - length c)%nat = Z.to_nat (k - len c)) by (unfold len; lia).
        assert (El : (length c <= Z.to_nat k)%nat) by (unfold len in Hck; lia).
        split.
        -- rewrite firstn_app, (firstn_all2 c El), En, app_assoc. reflexivity.
        -- rewrite skipn_app, (skipn_all2 c El), En. exact Hc.
      * assert (En : (Z.to_nat k - length c)%nat = 0%nat) by (unfold len in Hck; lia).
        exists (skipn (Z.to_nat k) c :: rest). split.
        -- rewrite firstn_app, En. cbn [firstn]. rewrite app_nil_r. reflexivity.
        -- cbn [concat]. rewrite skipn_app, En. reflexivity.
Qed.

Theorem read_full_frag : forall chunks k, 0 <= k <= len (concat chunks) ->
  exists rest, read_full k chunks = Some (firstn (Z.to_nat k) (concat chunks), rest)
               /\ concat rest = skipn (Z.to_nat k) (concat chunks).
Proof.
  intros chunks k Hk. unfold read_full.
  destruct (read_full_fuel_spec (S (length chunks)) chunks k [] ltac:(lia) Hk) as (rest & E & Hc).
  exists rest. split; assumption.
Qed.

(* the bytes obtained do not depend on the fragmentation *)
Corollary read_full_frag_indep : forall chunks1 chunks2 k out1 rest1 out2 rest2,
  concat chunks1 = concat chunks2 -> 0 <= k <= len (concat chunks1) ->
  read_full k chunks1 = Some (out1, rest1) -> read_full k chunks2 = Some (out2, rest2) ->
  out1 = out2 /\ concat rest1 = concat rest2.
Proof.
  intros c1 c2 k o1 r1 o2 r2 E Hk H1 H2.
  destruct (read_full_frag c1 k Hk) as (r1' & E1 & Hc1).
  rewrite E in Hk. destruct (read_full_frag c2 k Hk) as (r2' & E2 & Hc2).
  rewrite E1 in H1. rewrite E2 in H2.
  assert (o1 = firstn (Z.to_nat k) (concat c1) /\ r1 = r1') as [-> ->] by (split; congruence).
  assert (o2 = firstn (Z.to_nat k) (concat c2) /\ r2 = r2') as [-> ->] by (split; congruence).
  rewrite Hc1, Hc2, E. split; reflexivity.
Qed.

Lemma read_full_fuel_short : forall fuel chunks k acc,
  len (concat chunks) < k -> read_full_fuel fuel k chunks acc = None.
Proof.
  induction fuel as [|f IH]; intros chunks k acc Hk; [reflexivity|].
  cbn [read_full_fuel]. pose proof (len_nonneg _ (concat chunks)) as H0.
  destruct (Z.leb_spec k 0) as [Hk0|Hk0]; [lia|].
  destruct chunks as [|c rest]; [reflexivity|].
  rewrite len_concat_cons in Hk. pose proof (len_nonneg _ (concat rest)).
  destruct (Z.leb_spec (len c) k) as [Hck|Hck]; [|lia].
  apply IH. lia.
Qed.

Theorem read_full_short : forall chunks k, len (concat chunks) < k -> read_full k chunks = None.
Proof. intros; unfold read_full; apply read_full_fuel_short; assumption. Qed.

(* ------------------------------------------------------------------ *)
(* C16.16-18 : Flush with partial writes                               *)
(* ------------------------------------------------------------------ *)

Lemma err_pending : forall l, negb (len l =? 0) = pending_nonempty (mk_pendingw [] l).
Proof. intros [|x l]; reflexivity. Qed.

(* one Flush call, all cases at once: it emits n1 header bytes and n2 body
   bytes, keeps the rest, counts the payload bytes among the n2, and reports
   an error exactly when something is left *)
Lemma flush_cases : forall st a1 a2 out nn err st',
  flush st a1 a2 = (out, nn, err, st') ->
  exists n1 n2,
    0 <= n1 <= len (pw_hdr st) /\ 0 <= n2 <= len (pw_body st)
    /\ out = firstn (Z.to_nat n1) (pw_hdr st) ++ firstn (Z.to_nat n2) (pw_body st)
    /\ pw_hdr st' = skipn (Z.to_nat n1) (pw_hdr st)
    /\ pw_body st' = skipn (Z.to_nat n2) (pw_body st)
    /\ nn = Z.max (len (pw_body st)) mac - Z.max (len (pw_body st')) mac
    /\ (pw_hdr st' <> [] -> n2 = 0)
    /\ (1 <= a1 -> pw_hdr st <> [] -> 1 <= n1)
    /\ (1 <= a2 -> pw_hdr st' = [] -> pw_body st <> [] -> 1 <= n2)
    /\ err = pending_nonempty st'.
Proof.
  intros [h b] a1 a2 out nn err st' H. unfold flush in H. cbn [pw_hdr pw_body] in *.
  set (n1 := match h with [] => 0 | _ :: _ => offer a1 h end) in H.
  assert (Hn1 : 0 <= n1 <= len h /\ (1 <= a1 -> h <> [] -> 1 <= n1)).
  { subst n1. destruct h as [|x h0].
    - split; [unfold len; cbn [length]; lia | intros _ C; contradiction].
    - set (hh := x :: h0). unfold offer. pose proof (len_nonneg _ hh).
      split; [lia|]. intros Ha Hne. apply len_pos in Hne. lia. }
  destruct Hn1 as [Hn1 Hp1].
  revert H. destruct (skipn (Z.to_nat n1) h) as [|y h'] eqn:Eh; intro H.
  - destruct b as [|z b0].
    + apply quad_inj in H. destruct H as (<- & <- & <- & <-).
      exists n1, 0. cbn [pw_hdr pw_body]. change (Z.to_nat 0) with 0%nat. cbn [firstn skipn].
      split; [lia|]. split; [unfold len; cbn [length]; lia|].
      split; [symmetry; apply app_nil_r|].
      split; [symmetry; exact Eh|]. split; [reflexivity|]. split; [lia|].
      split; [reflexivity|]. split; [assumption|].
      split; [intros _ _ C; contradiction | reflexivity].
    + set (bb := z :: b0) in *. set (n2 := offer a2 bb) in *.
      assert (Hbb : 1 <= len bb) by (apply len_pos; discriminate).
      assert (Hn2 : 0 <= n2 <= len bb /\ (1 <= a2 -> 1 <= n2)) by (subst n2; unfold offer; lia).
      destruct Hn2 as [Hn2 Hp2].
      assert (Hl : len (skipn (Z.to_nat n2) bb) = len bb - n2) by (rewrite len_skipn; lia).
      apply quad_inj in H. destruct H as (<- & <- & <- & <-).
      exists n1, n2. cbn [pw_hdr pw_body].
      split; [lia|]. split; [lia|]. split; [reflexivity|].
      split; [symmetry; exact Eh|]. split; [reflexivity|].
      split.
      { rewrite Hl.
        destruct (Z.ltb_spec mac (len bb)); destruct (Z.leb_spec (len bb - n2) mac);
          destruct (Z.ltb_spec mac (len bb - n2)); cbn [andb]; lia. }
      split; [intro C; contradiction C; reflexivity|].
      split; [assumption|].
      split; [intros Ha _ _; auto | apply err_pending].
  - apply quad_inj in H. destruct H as (<- & <- & <- & <-).
    exists n1, 0. cbn [pw_hdr pw_body]. change (Z.to_nat 0) with 0%nat. cbn [firstn skipn].
    pose proof (len_nonneg _ b).
    split; [lia|]. split; [lia|].
    split; [symmetry; apply app_nil_r|].
    split; [symmetry; assumption|]. split; [reflexivity|]. split; [lia|].
    split; [reflexivity|]. split; [assumption|].
    split; [intros _ C; discriminate C | reflexivity].
Qed.

(* 16: one call and any sequence of calls conserve the bytes, in order *)
Lemma flush_step_conservation : forall st a1 a2 out nn err st',
  flush st a1 a2 = (out, nn, err, st') ->
  out ++ pw_hdr st' ++ pw_body st' = pw_hdr st ++ pw_body st.
Proof.
  intros st a1 a2 out nn err st' H.
  destruct (flush_cases _ _ _ _ _ _ _ H) as (n1 & n2 & _ & _ & -> & Eh & Eb & _ & Hz & _).
  rewrite Eb.
  destruct (pw_hdr st') as [|y h'] eqn:E.
  - (* the whole header went out *)
    assert (Hf : firstn (Z.to_nat n1) (pw_hdr st) = pw_hdr st).
    { rewrite <- (firstn_skipn (Z.to_nat n1) (pw_hdr st)) at 2. rewrite <- Eh. symmetry; apply app_nil_r. }
    rewrite Hf. cbn [app]. rewrite <- app_assoc, firstn_skipn. reflexivity.
  - rewrite (Hz ltac:(discriminate)). change (Z.to_nat 0) with 0%nat. cbn [firstn skipn].
    rewrite app_nil_r, Eh, app_assoc, firstn_skipn. reflexivity.
Qed.

Lemma flush_all_cons : forall st a1 a2 rest,
  flush_all st ((a1, a2) :: rest) =
  let '(out, nn, _, st') := flush st a1 a2 in
  let '(out', nn', st'') := flush_all st' rest in
  (out ++ out', nn + nn', st'').
Proof. reflexivity. Qed.

(* the non-negativity hypothesis is not needed (offer clamps at 0); kept as stated *)
Lemma flush_conservation_gen : forall accs st out nn st',
  flush_all st accs = (out, nn, st') ->
  out ++ pw_hdr st' ++ pw_body st' = pw_hdr st ++ pw_body st.
Proof.
  induction accs as [|[a1 a2] accs IH]; intros st out nn st' H.
  - cbn [flush_all] in H. apply triple_inj in H. destruct H as (<- & _ & <-). reflexivity.
  - rewrite flush_all_cons in H.
    destruct (flush st a1 a2) as [[[o1 m1] e1] s1] eqn:E1.
    destruct (flush_all s1 accs) as [[o2 m2] s2] eqn:E2.
    apply triple_inj in H. destruct H as (<- & _ & <-).
    rewrite <- (flush_step_conservation _ _ _ _ _ _ _ E1), <- (IH _ _ _ _ E2), <- app_assoc.
    reflexivity.
Qed.

Theorem flush_conservation : forall accs st out nn st',
  Forall (fun a => 0 <= fst a /\ 0 <= snd a) accs ->
  flush_all st accs = (out, nn, st') ->
  out ++ pw_hdr st' ++ pw_body st' = pw_hdr st ++ pw_body st.
Proof. intros accs st out nn st' _. apply flush_conservation_gen. Qed.

(* 17: the plaintext count.  payload_left = payload bytes of the body not yet
   emitted (the last `mac` bytes of the body are the tag). *)
Definition payload_left (st : pendingw) : Z := Z.max (len (pw_body st)) mac - mac.

Lemma flush_step_count : forall st a1 a2 out nn err st',
  flush st a1 a2 = (out, nn, err, st') ->
  nn = payload_left st - payload_left st' /\ 0 <= nn /\ len (pw_body st') <= len (pw_body st).
Proof.
  intros st a1 a2 out nn err st' H.
  destruct (flush_cases _ _ _ _ _ _ _ H) as (n1 & n2 & _ & Hn2 & _ & _ & Eb & -> & _).
  unfold payload_left. rewrite Eb, len_skipn. lia.
Qed.

Theorem flush_nn_nonneg : forall st a1 a2 out nn err st',
  flush st a1 a2 = (out, nn, err, st') -> 0 <= nn.
Proof. intros st a1 a2 out nn err st' H. apply (flush_step_count _ _ _ _ _ _ _ H). Qed.

Lemma flush_all_count : forall accs st out nn st',
  flush_all st accs = (out, nn, st') ->
  nn = payload_left st - payload_left st' /\ len (pw_body st') <= len (pw_body st).
Proof.
  induction accs as [|[a1 a2] accs IH]; intros st out nn st' H.
  - cbn [flush_all] in H. apply triple_inj in H. destruct H as (_ & <- & <-). lia.
  - rewrite flush_all_cons in H.
    destruct (flush st a1 a2) as [[[o1 m1] e1] s1] eqn:E1.
    destruct (flush_all s1 accs) as [[o2 m2] s2] eqn:E2.
    apply triple_inj in H. destruct H as (_ & <- & <-).
    destruct (flush_step_count _ _ _ _ _ _ _ E1) as (-> & _ & Hl1).
    destruct (IH _ _ _ _ E2) as (-> & Hl2). lia.
Qed.

(* general invariant in the form of the statement: nn is the number of emitted
   body bytes that belong to the payload part *)
Theorem flush_count_gen : forall accs hdr body out nn st',
  mac <= len body ->
  flush_all (mk_pendingw hdr body) accs = (out, nn, st') ->
  nn = Z.max 0 (Z.min (len body - len (pw_body st')) (len body - mac)).
Proof.
  intros accs hdr body out nn st' Hm H.
  destruct (flush_all_count _ _ _ _ _ H) as (-> & Hl).
  unfold payload_left. cbn [pw_body] in *. lia.
Qed.

Theorem flush_count : forall accs hdr body out nn st',
  Forall (fun a => 0 <= fst a /\ 0 <= snd a) accs -> mac <= len body ->
  flush_all (mk_pendingw hdr body) accs = (out, nn, st') ->
  pending_nonempty st' = false -> nn = len body - mac.
Proof.
  intros accs hdr body out nn st' _ Hm H Hp.
  rewrite (flush_count_gen _ _ _ _ _ _ Hm H).
  assert (Eb : pw_body st' = []).
  { unfold pending_nonempty in Hp. destruct (pw_hdr st'); destruct (pw_body st'); try discriminate; reflexivity. }
  rewrite Eb. change (len (@nil wbyte)) with 0. unfold mac in *. lia.
Qed.

(* 18: with a writer that accepts at least one byte per write, every Flush
   call strictly reduces what is pending *)
Theorem flush_progress : forall st a1 a2 out nn err st',
  1 <= a1 -> 1 <= a2 -> pending_nonempty st = true ->
  flush st a1 a2 = (out, nn, err, st') ->
  len (pw_hdr st') + len (pw_body st') < len (pw_hdr st) + len (pw_body st).
Proof.
  intros st a1 a2 out nn err st' Ha1 Ha2 Hp H.
  destruct (flush_cases _ _ _ _ _ _ _ H) as (n1 & n2 & Hn1 & Hn2 & _ & Eh & Eb & _ & _ & Hp1 & Hp2 & _).
  specialize (Hp1 Ha1). specialize (Hp2 Ha2).
  assert (Lh : len (pw_hdr st') = len (pw_hdr st) - n1) by (rewrite Eh, len_skipn; lia).
  assert (Lb : len (pw_body st') = len (pw_body st) - n2) by (rewrite Eb, len_skipn; lia).
  destruct (pw_hdr st) as [|x h0] eqn:Ehd.
  - (* no header pending: the body is non-empty and loses n2 >= 1 bytes *)
    assert (Hb : pw_body st <> []).
    { unfold pending_nonempty in Hp. rewrite Ehd in Hp. destruct (pw_body st); [discriminate Hp | discriminate]. }
    assert (Eh' : pw_hdr st' = []) by (rewrite Eh; apply skipn_nil).
    specialize (Hp2 Eh' Hb). lia.
  - specialize (Hp1 ltac:(discriminate)). lia.
Qed.

(* consequence: a Flush loop against such a writer terminates within
   len hdr + len body calls *)
Corollary flush_all_terminates : forall accs st out nn st',
  Forall (fun a => 1 <= fst a /\ 1 <= snd a) accs ->
  len (pw_hdr st) + len (pw_body st) <= len accs ->
  flush_all st accs = (out, nn, st') -> pending_nonempty st' = false.
Proof.
  induction accs as [|[a1 a2] accs IH]; intros st out nn st' Hacc Hlen H.
  - cbn [flush_all] in H. apply triple_inj in H. destruct H as (_ & _ & <-).
    pose proof (len_nonneg _ (pw_hdr st)). pose proof (len_nonneg _ (pw_body st)).
    unfold len at 3 in Hlen. cbn [length] in Hlen.
    assert (Eh : pw_hdr st = []) by (apply len_nil_iff; lia).
    assert (Eb : pw_body st = []) by (apply len_nil_iff; lia).
    unfold pending_nonempty. rewrite Eh, Eb. reflexivity.
  - inversion Hacc as [|? ? [Ha1 Ha2] Hacc']; subst. cbn [fst snd] in *.
    rewrite flush_all_cons in H.
    destruct (flush st a1 a2) as [[[o1 m1] e1] s1] eqn:E1.
    destruct (flush_all s1 accs) as [[o2 m2] s2] eqn:E2.
    apply triple_inj in H. destruct H as (_ & _ & <-).
    apply (IH _ _ _ _ Hacc') in E2; [assumption|].
    assert (Hl : len ((a1, a2) :: accs) = len accs + 1) by (unfold len; cbn [length]; lia).
    destruct (pending_nonempty st) eqn:Hp.
    + pose proof (flush_progress _ _ _ _ _ _ _ Ha1 Ha2 Hp E1). lia.
    + (* nothing pending: stays empty *)
      destruct (flush_cases _ _ _ _ _ _ _ E1) as (n1 & n2 & Hn1 & Hn2 & _ & Eh & Eb & _).
      assert (Lh : len (pw_hdr s1) <= len (pw_hdr st)) by (rewrite Eh, len_skipn; lia).
      assert (Lb : len (pw_body s1) <= len (pw_body st)) by (rewrite Eb, len_skipn; lia).
      assert (Z0 : len (pw_hdr st) = 0 /\ len (pw_body st) = 0).
      { unfold pending_nonempty in Hp. destruct (pw_hdr st); destruct (pw_body st); try discriminate Hp.
        split; reflexivity. }
      pose proof (len_nonneg _ accs). lia.
Qed.

Print Assumptions grpc_read_step.
Print Assumptions grpc_read_cap_false.
Print Assumptions buf_read_step.
Print Assumptions reads_seq.
Print Assumptions buf_read_progress.
Print Assumptions grpc_read_progress_pending.
Print Assumptions grpc_read_progress_fresh.
Print Assumptions tcp_write_records_spec.
Print Assumptions grpc_write_records_none.
Print Assumptions grpc_write_records_some.
Print Assumptions read_full_frag.
Print Assumptions read_full_short.
Print Assumptions flush_conservation.
Print Assumptions flush_count_gen.
Print Assumptions flush_count.
Print Assumptions flush_nn_nonneg.
Print Assumptions flush_progress.
Print Assumptions flush_all_terminates.
