(* C18: lock ordering implies deadlock freedom in the interleaving model of
   Model/Lockset.v.  If every thread acquires mutexes in strictly increasing rank,
   releases only what it holds and ends holding nothing (Model/LockOrder.v), then no
   reachable state is stuck. *)
From Coq Require Import List Bool Arith Lia.
From LNC Require Import Lockset LockOrder LocksetProofs.
Import ListNotations.

(* ---------- the invariant ---------- *)

(* every thread's remaining code is ordered w.r.t. exactly the set of mutexes it
   currently owns, and only existing threads own mutexes *)
Definition oinv (rank : nat -> nat) (st : state) : Prop :=
  (forall i t, nth_error (threads st) i = Some t ->
     exists held, ordered rank held t /\
                  (forall m, In m held <-> owner st m = Some i)) /\
  (forall m j, owner st m = Some j -> j < length (threads st)).

Lemma oinv_init : forall rank prog,
  Forall (ordered rank []) prog -> oinv rank (init_state prog).
Proof.
  intros rank prog HF. split.
  - intros i t Hn. simpl in Hn.
    exists []. split.
    + rewrite Forall_forall in HF. apply HF. eapply nth_error_In; eauto.
    + intros m. simpl. split; [tauto | discriminate].
  - intros m j Ho. simpl in Ho. discriminate.
Qed.

Lemma oinv_step : forall rank st k st',
  oinv rank st -> step st k = Some st' -> oinv rank st'.
Proof.
  intros rank st k st' [Hinv Hbound] Hstep.
  pose proof (step_length _ _ _ Hstep) as Hlen.
  unfold step in Hstep.
  destruct (nth_error (threads st) k) as [tk|] eqn:Hk; [|discriminate].
  destruct tk as [|a rest]; [discriminate|].
  pose proof (nth_error_some_lt _ _ _ _ Hk) as Hlt.
  destruct (Hinv k _ Hk) as [heldk [Hdk Hok]].
  destruct a as [m|m|f w].
  - (* ALock m *)
    destruct (owner st m) eqn:Hom; [discriminate|].
    inversion Hstep; subst st'; clear Hstep.
    split.
    + intros i t Hn. simpl in Hn. simpl owner.
      destruct (Nat.eq_dec k i) as [E|E].
      * subst i. rewrite nth_error_set_nth_eq in Hn by assumption.
        inversion Hn; subst t; clear Hn.
        simpl in Hdk. destruct Hdk as [Hrk Hd].
        exists (m :: heldk). split; [assumption|].
        intros x. destruct (Nat.eq_dec x m) as [Ex|Ex].
        -- subst x. rewrite set_owner_eq. simpl. tauto.
        -- rewrite set_owner_neq by assumption. simpl. rewrite <- Hok.
           split; [intros [H|H]; [congruence|assumption] | auto].
      * rewrite nth_error_set_nth_neq in Hn by assumption.
        destruct (Hinv i t Hn) as [held [Hd Ho]].
        exists held. split; [assumption|].
        intros x. destruct (Nat.eq_dec x m) as [Ex|Ex].
        -- subst x. rewrite set_owner_eq. split.
           ++ intros H. apply Ho in H. congruence.
           ++ intros H. congruence.
        -- rewrite set_owner_neq by assumption. apply Ho.
    + intros x j Ho. rewrite Hlen. simpl in Ho.
      destruct (Nat.eq_dec x m) as [Ex|Ex].
      * subst x. rewrite set_owner_eq in Ho. inversion Ho; subst j. assumption.
      * rewrite set_owner_neq in Ho by assumption. eapply Hbound; eauto.
  - (* AUnlock m *)
    destruct (owner st m) as [j|] eqn:Hom; [|discriminate].
    destruct (Nat.eqb_spec j k) as [Ej|Ej]; [|discriminate].
    subst j.
    inversion Hstep; subst st'; clear Hstep.
    split.
    + intros i t Hn. simpl in Hn. simpl owner.
      destruct (Nat.eq_dec k i) as [E|E].
      * subst i. rewrite nth_error_set_nth_eq in Hn by assumption.
        inversion Hn; subst t; clear Hn.
        simpl in Hdk. destruct Hdk as [Hin Hd].
        exists (remove Nat.eq_dec m heldk). split; [assumption|].
        intros x. rewrite in_remove_iff.
        destruct (Nat.eq_dec x m) as [Ex|Ex].
        -- subst x. rewrite set_owner_eq. split; [tauto | discriminate].
        -- rewrite set_owner_neq by assumption. rewrite Hok. tauto.
      * rewrite nth_error_set_nth_neq in Hn by assumption.
        destruct (Hinv i t Hn) as [held [Hd Ho]].
        exists held. split; [assumption|].
        intros x. destruct (Nat.eq_dec x m) as [Ex|Ex].
        -- subst x. rewrite set_owner_eq. split.
           ++ intros H. apply Ho in H. congruence.
           ++ discriminate.
        -- rewrite set_owner_neq by assumption. apply Ho.
    + intros x j Ho. rewrite Hlen. simpl in Ho.
      destruct (Nat.eq_dec x m) as [Ex|Ex].
      * subst x. rewrite set_owner_eq in Ho. discriminate.
      * rewrite set_owner_neq in Ho by assumption. eapply Hbound; eauto.
  - (* AAccess f w *)
    inversion Hstep; subst st'; clear Hstep.
    split.
    + intros i t Hn. simpl in Hn. simpl owner.
      destruct (Nat.eq_dec k i) as [E|E].
      * subst i. rewrite nth_error_set_nth_eq in Hn by assumption.
        inversion Hn; subst t; clear Hn.
        simpl in Hdk.
        exists heldk. split; assumption.
      * rewrite nth_error_set_nth_neq in Hn by assumption.
        apply Hinv; assumption.
    + intros x j Ho. rewrite Hlen. simpl in Ho. eapply Hbound; eauto.
Qed.

Lemma oinv_reachable : forall rank init st,
  oinv rank init -> reachable init st -> oinv rank st.
Proof.
  intros rank init st Hi Hr. induction Hr as [|st i st' Hr IH Hs].
  - assumption.
  - eapply oinv_step; eauto.
Qed.

(* ---------- awaited rank and its bound ---------- *)

Definition awaited (rank : nat -> nat) (t : thread) : nat :=
  match t with
  | ALock m :: _ => rank m
  | _ => 0
  end.

Lemma awaited_le_max : forall rank (l : list thread) i t,
  nth_error l i = Some t -> awaited rank t <= list_max (map (awaited rank) l).
Proof.
  intros rank l i t Hn.
  assert (HF : Forall (fun k => k <= list_max (map (awaited rank) l)) (map (awaited rank) l)).
  { apply list_max_le. apply Nat.le_refl. }
  rewrite Forall_forall in HF. apply HF.
  apply in_map. eapply nth_error_In; eauto.
Qed.

(* ---------- what a blocked thread looks like ---------- *)

Lemma step_access_some : forall st i f w rest,
  nth_error (threads st) i = Some (AAccess f w :: rest) -> step st i <> None.
Proof.
  intros st i f w rest Hn. unfold step. rewrite Hn. discriminate.
Qed.

Lemma step_unlock_some : forall st i m rest,
  nth_error (threads st) i = Some (AUnlock m :: rest) ->
  owner st m = Some i -> step st i <> None.
Proof.
  intros st i m rest Hn Ho. unfold step. rewrite Hn, Ho, Nat.eqb_refl. discriminate.
Qed.

Lemma step_lock_none_owner : forall st i m rest,
  nth_error (threads st) i = Some (ALock m :: rest) ->
  step st i = None -> exists j, owner st m = Some j.
Proof.
  intros st i m rest Hn Hs. unfold step in Hs. rewrite Hn in Hs.
  destruct (owner st m) as [j|]; [eauto | discriminate].
Qed.

(* in an invariant state where nobody can move, nobody waits for a mutex:
   the owner of the awaited mutex would itself wait for a mutex of strictly
   larger rank, and awaited ranks are bounded *)
Lemma no_waiter : forall rank st,
  oinv rank st -> (forall i, step st i = None) ->
  forall n i m rest,
    list_max (map (awaited rank) (threads st)) - rank m < n ->
    nth_error (threads st) i = Some (ALock m :: rest) -> False.
Proof.
  intros rank st [Hinv Hbound] Hblocked.
  induction n as [|n IH]; intros i m rest Hmeas Hn; [lia|].
  destruct (step_lock_none_owner _ _ _ _ Hn (Hblocked i)) as [j Hoj].
  pose proof (Hbound _ _ Hoj) as Hjlt.
  destruct (nth_error (threads st) j) as [tj|] eqn:Hj;
    [| apply nth_error_None in Hj; lia].
  destruct (Hinv j tj Hj) as [heldj [Hdj Hokj]].
  assert (Hmin : In m heldj) by (apply Hokj; assumption).
  destruct tj as [|a restj].
  - simpl in Hdj. subst heldj. inversion Hmin.
  - destruct a as [m'|m'|f w].
    + simpl in Hdj. destruct Hdj as [Hrk _].
      pose proof (Hrk m Hmin) as Hlt.
      pose proof (awaited_le_max rank _ _ _ Hj) as Hle. simpl in Hle.
      apply (IH j m' restj); [lia | assumption].
    + simpl in Hdj. destruct Hdj as [Hin' _].
      apply Hokj in Hin'.
      exact (step_unlock_some _ _ _ _ Hj Hin' (Hblocked j)).
    + exact (step_access_some _ _ _ _ _ Hj (Hblocked j)).
Qed.

Lemma oinv_not_stuck : forall rank st, oinv rank st -> ~ stuck st.
Proof.
  intros rank st Hinv [Hnf Hblocked].
  apply Hnf. intros i t Hn.
  destruct t as [|a rest]; [reflexivity|]. exfalso.
  destruct a as [m|m|f w].
  - eapply (no_waiter rank st Hinv Hblocked
              (S (list_max (map (awaited rank) (threads st)) - rank m)) i m rest);
      [lia | assumption].
  - destruct Hinv as [Hinv _].
    destruct (Hinv i _ Hn) as [held [Hd Hok]].
    simpl in Hd. destruct Hd as [Hin _]. apply Hok in Hin.
    exact (step_unlock_some _ _ _ _ Hn Hin (Hblocked i)).
  - exact (step_access_some _ _ _ _ _ Hn (Hblocked i)).
Qed.

(* ---------- main theorem ---------- *)

Theorem ordered_no_deadlock : forall (rank : nat -> nat) (prog : list thread),
  Forall (ordered rank []) prog ->
  forall st, reachable (init_state prog) st -> ~ stuck st.
Proof.
  intros rank prog HF st Hr.
  apply (oinv_not_stuck rank).
  eapply oinv_reachable; [apply oinv_init; eassumption | eassumption].
Qed.

(* ---------- non-vacuity ---------- *)

Definition same_order_prog : list thread :=
  [ [ALock 0; ALock 1; AUnlock 1; AUnlock 0];
    [ALock 0; ALock 1; AUnlock 0; AUnlock 1] ].

Example same_order_ordered : Forall (ordered (fun m => m) []) same_order_prog.
Proof.
  unfold same_order_prog.
  apply Forall_cons; [| apply Forall_cons; [| apply Forall_nil]];
    simpl; intuition lia.
Qed.

Example same_order_no_deadlock :
  forall st, reachable (init_state same_order_prog) st -> ~ stuck st.
Proof. exact (ordered_no_deadlock (fun m => m) same_order_prog same_order_ordered). Qed.

(* the example program really runs and blocks a thread on the way: after thread 0
   takes mutex 0, thread 1 is blocked but thread 0 can go on *)
Example same_order_runs :
  exists st, step (init_state same_order_prog) 0 = Some st /\
             step st 1 = None /\ step st 0 <> None.
Proof. eexists. split; [reflexivity|]. split; [reflexivity | discriminate]. Qed.

(* ---------- the hypothesis matters ---------- *)

Definition opposite_prog : list thread :=
  [ [ALock 0; ALock 1; AUnlock 1; AUnlock 0];
    [ALock 1; ALock 0; AUnlock 0; AUnlock 1] ].

Example opposite_orders_deadlock :
  exists st, reachable (init_state opposite_prog) st /\ stuck st.
Proof.
  eexists. split.
  - eapply r_step with (i := 1).
    + eapply r_step with (i := 0); [apply r_init | reflexivity].
    + reflexivity.
  - split.
    + intros Hfin. specialize (Hfin 0 _ eq_refl). discriminate.
    + intros [|[|i]]; try reflexivity.
      unfold step. simpl. destruct i; reflexivity.
Qed.

(* ... and indeed no rank makes the opposite-order program ordered *)
Example opposite_not_ordered : forall rank,
  ~ Forall (ordered rank []) opposite_prog.
Proof.
  intros rank HF.
  destruct opposite_orders_deadlock as [st [Hr Hs]].
  exact (ordered_no_deadlock rank opposite_prog HF st Hr Hs).
Qed.

Print Assumptions ordered_no_deadlock.
Print Assumptions opposite_orders_deadlock.
