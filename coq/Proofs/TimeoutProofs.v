(* Theorems about Model/Timeout.v (gbn/timeout_manager.go).
   Part A: parametric in the float arithmetic `fboost` (two facts assumed).
   Part B: the two facts for the Flocq binary32 instance `fboost32`, and the
   instantiated corollaries. *)
From Coq Require Import ZArith List Bool Lia.
From Flocq Require Import Core BinarySingleNaN.
From LNC Require Import Model.Timeout.
Import ListNotations.
Open Scope Z_scope.

(* ------------------------------------------------------------------ *)
(* generalities                                                        *)
(* ------------------------------------------------------------------ *)

Lemma second_pos : 0 < second.
Proof. reflexivity. Qed.

Ltac prj :=
  cbn [t_static t_hasdyn t_resend t_mult t_freq t_syn t_rb t_hb t_sent t_counter
       t_now g_samples g_fresh g_boosts b_count b_orig b_limit b_last fst snd negb] in *.

(* Case analysis of one step, following the structure of tm_sent / tm_received /
   tm_tick.  Leaves one goal per control-flow path, projections reduced. *)
Ltac step_split m o :=
  let k := fresh "k" in let s := fresh "s" in let r := fresh "r" in let dt := fresh "dt" in
  destruct o as [k s r | k s | dt]; cbn [tm_step];
  [ unfold tm_sent; destruct (t_static m) eqn:Hst;
    [ | destruct k;
        [ destruct r; cbn [negb]
        |
        | destruct r;
          [ unfold b_boost;
            destruct (b_limit (t_rb m) && (since (t_now m) (b_last (t_rb m)) <? b_orig (t_rb m))) eqn:Hlim
          | ]
        |
        | ] ]
  | unfold tm_received; destruct (t_static m) eqn:Hst;
    [ | destruct k;
        [ destruct (t_syn m) as [t0|] eqn:Hsyn
        | destruct (t_syn m) as [t0|] eqn:Hsyn
        |
        | destruct (lookup s (t_sent m)) as [t0|] eqn:Hlk;
          [ cbv zeta; prj;
            match goal with |- context [if ?c then _ else _] => destruct c eqn:Hrc end
          | ]
        | ] ]
  | unfold tm_tick ];
  unfold update_resend, b_reset; prj.

Lemma app_self_neq : forall (A : Type) (l : list A) (x : A), l = l ++ [x] -> False.
Proof.
  intros A l x H. apply (f_equal (@length A)) in H.
  rewrite app_length in H. cbn [length] in H. lia.
Qed.

Lemma app_self_neq' : forall (A : Type) (l : list A) (x : A), l ++ [x] = l -> False.
Proof. intros A l x H. symmetry in H. exact (app_self_neq _ _ _ H). Qed.

Lemma tm_run_snoc : forall m ops o, tm_run m (ops ++ [o]) = tm_step (tm_run m ops) o.
Proof. intros m ops o. unfold tm_run. rewrite fold_left_app. reflexivity. Qed.

(* induction principle for reachable states *)
Lemma run_ind : forall (P : tm -> Prop) m0,
  P m0 -> (forall m o, P m -> P (tm_step m o)) -> forall ops, P (tm_run m0 ops).
Proof.
  intros P m0 H0 Hs ops. induction ops as [|o ops IH] using rev_ind.
  - exact H0.
  - rewrite tm_run_snoc. apply Hs. exact IH.
Qed.

(* finite maps as association lists *)
Lemma lookup_remove_eq : forall k l, lookup k (remove k l) = None.
Proof.
  intros k l. unfold remove. induction l as [|[k' v] l IH]; cbn [filter lookup fst]; [reflexivity|].
  destruct (k' =? k) eqn:E; cbn [negb]; [exact IH|].
  cbn [lookup]. rewrite Z.eqb_sym, E. exact IH.
Qed.

Lemma lookup_remove_neq : forall k k' l, k' <> k -> lookup k' (remove k l) = lookup k' l.
Proof.
  intros k k' l Hne. unfold remove. induction l as [|[k1 v] l IH]; cbn [filter lookup fst]; [reflexivity|].
  destruct (k1 =? k) eqn:E; cbn [negb].
  - apply Z.eqb_eq in E. subst k1.
    destruct (k' =? k) eqn:E'; [apply Z.eqb_eq in E'; contradiction | exact IH].
  - cbn [lookup]. rewrite IH. reflexivity.
Qed.

Lemma lookup_insert_eq : forall k v l, lookup k (insert k v l) = Some v.
Proof. intros k v l. unfold insert. cbn [lookup]. rewrite Z.eqb_refl. reflexivity. Qed.

Lemma lookup_insert_neq : forall k k' v l, k' <> k -> lookup k' (insert k v l) = lookup k' l.
Proof.
  intros k k' v l Hne. unfold insert. cbn [lookup].
  destruct (k' =? k) eqn:E; [apply Z.eqb_eq in E; contradiction|].
  apply lookup_remove_neq. exact Hne.
Qed.

Definition tick_ok (o : top) : Prop :=
  match o with TTick dt => 0 <= dt | _ => True end.

Definition consistent (m : tm) : Prop :=
  forall seq t, lookup seq (t_sent m) = Some t -> lookup seq (g_fresh m) = Some t.

Fixpoint spaced (gap : Z) (l : list Z) : Prop :=
  match l with
  | a :: ((b :: _) as rest) => gap <= b - a /\ spaced gap rest
  | _ => True
  end.

Lemma spaced_snoc : forall gap l x,
  spaced gap l ->
  (forall l' y, l = l' ++ [y] -> gap <= x - y) ->
  spaced gap (l ++ [x]).
Proof.
  intros gap l x. induction l as [|a l IH]; intros Hs Hl.
  - exact I.
  - destruct l as [|b l].
    + cbn. split; [|exact I]. apply (Hl [] a). reflexivity.
    + change (gap <= b - a /\ spaced gap ((b :: l) ++ [x])).
      destruct Hs as [Hab Hs]. split; [exact Hab|].
      apply IH; [exact Hs|].
      intros l' y E. apply (Hl (a :: l') y). rewrite E. reflexivity.
Qed.

(* ------------------------------------------------------------------ *)
(* PART A                                                              *)
(* ------------------------------------------------------------------ *)
Section Parametric.
  Variable fboost : Z -> Z -> Z.
  Hypothesis fboost_zero : forall orig, fboost orig 0 = 0.
  Hypothesis fboost_nonneg : forall orig count, 0 <= orig -> 0 <= count -> 0 <= fboost orig count.

  (* ---- A1 floor ---- *)
  Definition inv_floor (m : tm) : Prop :=
    t_static m = false /\ second <= b_orig (t_rb m) /\ 0 <= b_count (t_rb m).

  Lemma floor_value : forall mul, second <= (if mul <? second then second else mul).
  Proof. intros mul. destruct (Z.ltb_spec mul second); lia. Qed.

  Lemma inv_floor_step : forall m o, inv_floor m -> inv_floor (tm_step m o).
  Proof.
    intros m o (Hs & Ho & Hc). unfold inv_floor.
    step_split m o; try congruence;
      repeat split; try assumption; try apply floor_value; try lia.
  Qed.

  Lemma inv_floor_init : forall mult freq hs, inv_floor (tm_init false second mult freq hs).
  Proof. intros. unfold inv_floor, tm_init. prj. repeat split; lia. Qed.

  Theorem floor : forall mult freq hs ops, 0 < mult -> 0 < freq ->
    second <= get_resend fboost (tm_run (tm_init false second mult freq hs) ops).
  Proof.
    intros mult freq hs ops _ _.
    assert (H : inv_floor (tm_run (tm_init false second mult freq hs) ops)).
    { apply run_ind; [apply inv_floor_init | apply inv_floor_step]. }
    destruct H as (_ & Ho & Hc).
    unfold get_resend, b_current.
    pose proof second_pos as Hp.
    assert (0 <= fboost (b_orig (t_rb (tm_run (tm_init false second mult freq hs) ops)))
                        (b_count (t_rb (tm_run (tm_init false second mult freq hs) ops)))).
    { apply fboost_nonneg; lia. }
    lia.
  Qed.

  (* ---- A2 static ---- *)
  Definition inv_static (resend hs : Z) (m : tm) : Prop :=
    t_static m = true /\ t_rb m = mk_booster 0 resend true None
    /\ t_hb m = mk_booster 0 hs false None.

  Lemma inv_static_step : forall resend hs m o, inv_static resend hs m -> inv_static resend hs (tm_step m o).
  Proof.
    intros resend hs m o (Hs & Hr & Hh). unfold inv_static.
    step_split m o; try congruence; repeat split; assumption.
  Qed.

  Theorem static : forall resend mult freq hs ops,
    get_resend fboost (tm_run (tm_init true resend mult freq hs) ops) = resend
    /\ get_handshake fboost (tm_run (tm_init true resend mult freq hs) ops) = hs.
  Proof.
    intros resend mult freq hs ops.
    assert (H : inv_static resend hs (tm_run (tm_init true resend mult freq hs) ops)).
    { apply run_ind; [|apply inv_static_step]. unfold inv_static, tm_init. prj. auto. }
    destruct H as (_ & Hr & Hh).
    unfold get_resend, get_handshake, b_current. rewrite Hr, Hh. prj.
    rewrite !fboost_zero. lia.
  Qed.

  (* ---- A3 reset on sample ---- *)
  Theorem reset_on_sample : forall m o ts tr fr, t_static m = false ->
    g_samples (tm_step m o) = g_samples m ++ [(ts, tr, fr)] ->
    get_resend fboost (tm_step m o)
      = (let mul := wrap64 (t_mult m * (tr - ts)) in if mul <? second then second else mul)
    /\ tr = t_now m.
  Proof.
    intros m o ts tr fr _. unfold get_resend, b_current. cbv zeta.
    step_split m o; intros Hsm;
      try (exfalso; exact (app_self_neq _ _ _ Hsm));
      apply app_inv_head in Hsm; injection Hsm as E1 E2 E3; subst ts tr;
      rewrite fboost_zero; (split; [apply Z.add_0_r | reflexivity]).
  Qed.

  (* ---- A4 only samples and retransmissions change the timeout ---- *)
  Theorem resend_stable : forall m o,
    g_samples (tm_step m o) = g_samples m ->
    (forall seq, o <> TSent KData seq true) ->
    get_resend fboost (tm_step m o) = get_resend fboost m.
  Proof.
    intros m o. unfold get_resend.
    step_split m o; intros Hsm Hne;
      try reflexivity;
      try (exfalso; exact (app_self_neq' _ _ _ Hsm));
      exfalso; eapply Hne; reflexivity.
  Qed.

  (* ---- A5 samples come only from packets that were not retransmitted ---- *)
  Definition inv_fresh (m : tm) : Prop :=
    consistent m /\ Forall (fun s => snd s = true) (g_samples m).

  Lemma consistent_remove : forall k sent fr,
    (forall seq t, lookup seq sent = Some t -> lookup seq fr = Some t) ->
    forall seq t, lookup seq (remove k sent) = Some t -> lookup seq (remove k fr) = Some t.
  Proof.
    intros k sent fr H seq t Hl.
    destruct (Z.eq_dec seq k) as [->|Hne].
    - rewrite lookup_remove_eq in Hl. discriminate.
    - rewrite lookup_remove_neq in * by exact Hne. apply H. exact Hl.
  Qed.

  Lemma consistent_insert : forall k v sent fr,
    (forall seq t, lookup seq sent = Some t -> lookup seq fr = Some t) ->
    forall seq t, lookup seq (insert k v sent) = Some t -> lookup seq (insert k v fr) = Some t.
  Proof.
    intros k v sent fr H seq t Hl.
    destruct (Z.eq_dec seq k) as [->|Hne].
    - rewrite lookup_insert_eq in *. exact Hl.
    - rewrite lookup_insert_neq in * by exact Hne. apply H. exact Hl.
  Qed.

  Lemma consistent_step : forall m o, consistent m -> consistent (tm_step m o).
  Proof.
    intros m o Hc. unfold consistent in *.
    step_split m o; try exact Hc;
      first [ apply consistent_remove; exact Hc | apply consistent_insert; exact Hc ].
  Qed.

  Lemma inv_fresh_step : forall m o, inv_fresh m -> inv_fresh (tm_step m o).
  Proof.
    intros m o (Hc & Hf). split; [apply consistent_step; exact Hc|].
    unfold consistent in Hc.
    step_split m o; try exact Hf;
      apply Forall_app; (split; [exact Hf|]); constructor; try constructor; prj; try reflexivity.
    rewrite (Hc _ _ Hlk). apply Z.eqb_refl.
  Qed.

  Lemma consistent_init : forall static resend mult freq hs,
    consistent (tm_init static resend mult freq hs).
  Proof. intros. unfold consistent, tm_init. prj. cbn [lookup]. discriminate. Qed.

  Theorem consistent_reachable : forall static resend mult freq hs ops,
    consistent (tm_run (tm_init static resend mult freq hs) ops).
  Proof. intros. apply run_ind; [apply consistent_init | apply consistent_step]. Qed.

  Theorem samples_fresh : forall static resend mult freq hs ops,
    Forall (fun s => snd s = true) (g_samples (tm_run (tm_init static resend mult freq hs) ops)).
  Proof.
    intros static resend mult freq hs ops.
    assert (H : inv_fresh (tm_run (tm_init static resend mult freq hs) ops)).
    { apply run_ind; [|apply inv_fresh_step]. split; [apply consistent_init|].
      unfold tm_init. prj. constructor. }
    exact (proj2 H).
  Qed.

  (* ---- A6 boost rate ---- *)
  (* The spacing argument needs neither tick_ok nor "boosts <= now": an
     effective boost at `now` requires since now (b_last) >= b_orig, and b_last
     is the last recorded boost whenever one is recorded. *)
  Definition inv_rate (m : tm) : Prop :=
    b_limit (t_rb m) = true
    /\ spaced (b_orig (t_rb m)) (g_boosts m)
    /\ b_count (t_rb m) = Z.of_nat (length (g_boosts m))
    /\ (forall l y, g_boosts m = l ++ [y] -> b_last (t_rb m) = Some y).

  Lemma inv_rate_step : forall m o, inv_rate m -> inv_rate (tm_step m o).
  Proof.
    intros m o (Hl & Hsp & Hc & Hlast). unfold inv_rate.
    step_split m o;
      try (repeat split; assumption).
    - (* effective boost *)
      rewrite Hl in Hlim. cbn [andb] in Hlim. apply Z.ltb_ge in Hlim.
      repeat split.
      + exact Hl.
      + apply spaced_snoc; [exact Hsp|].
        intros l' y E. rewrite (Hlast _ _ E) in Hlim. cbn [since] in Hlim. exact Hlim.
      + rewrite app_length, Nat2Z.inj_add, Hc. reflexivity.
      + intros l y E. apply app_inj_tail in E. destruct E as [_ <-]. reflexivity.
    - repeat split; try assumption; try reflexivity.
      intros l y E. destruct l; discriminate.
    - repeat split; try assumption; try reflexivity.
      intros l y E. destruct l; discriminate.
    - repeat split; try assumption; try reflexivity.
      intros l y E. destruct l; discriminate.
  Qed.

  Lemma inv_rate_init : forall static resend mult freq hs, inv_rate (tm_init static resend mult freq hs).
  Proof.
    intros. unfold inv_rate, tm_init. prj. repeat split.
    intros l y E. destruct l; discriminate.
  Qed.

  (* stronger than asked: any mode, any initial timeout, no constraint on ticks *)
  Theorem boost_rate_gen : forall static resend mult freq hs ops,
    let m := tm_run (tm_init static resend mult freq hs) ops in
    spaced (b_orig (t_rb m)) (g_boosts m) /\ b_count (t_rb m) = Z.of_nat (length (g_boosts m)).
  Proof.
    intros static resend mult freq hs ops m.
    assert (H : inv_rate m).
    { apply run_ind; [apply inv_rate_init | apply inv_rate_step]. }
    destruct H as (_ & Hsp & Hc & _). split; assumption.
  Qed.

  Theorem boost_rate : forall mult freq hs ops, 0 < mult -> 0 < freq -> Forall tick_ok ops ->
    let m := tm_run (tm_init false second mult freq hs) ops in
    spaced (b_orig (t_rb m)) (g_boosts m) /\ b_count (t_rb m) = Z.of_nat (length (g_boosts m)).
  Proof. intros mult freq hs ops _ _ _. apply boost_rate_gen. Qed.

  (* The first boost after a reset is also one base timeout after the reset:
     a limited booster only boosts when b_orig has elapsed since b_last, and
     b_reset sets b_last to the reset instant. *)
  Lemma boost_effective_gap : forall now b x,
    b_limit b = true -> b_last b = Some x -> snd (b_boost now b) = true -> b_orig b <= now - x.
  Proof.
    intros now b x Hl Hx. unfold b_boost. rewrite Hl, Hx. cbn [andb since].
    destruct (Z.ltb_spec (now - x) (b_orig b)); cbn [snd]; [discriminate | intros _; assumption].
  Qed.

  Lemma reset_sets_last : forall now b v,
    b_limit b = true -> b_last (b_reset now b v) = Some now /\ b_orig (b_reset now b v) = v
                        /\ b_count (b_reset now b v) = 0 /\ b_limit (b_reset now b v) = true.
  Proof. intros now b v Hl. unfold b_reset. rewrite Hl. prj. auto. Qed.
End Parametric.

(* ------------------------------------------------------------------ *)
(* PART B: the binary32 instance                                       *)
(* ------------------------------------------------------------------ *)
(* Sign reasoning on the constructors of binary_float / spec_float; no real
   numbers.  Generic in the format. *)
Section FloatSigns.
  Variables prec emax : Z.
  Context (prec_gt_0_ : Prec_gt_0 prec).
  Context (prec_lt_emax_ : Prec_lt_emax prec emax).

  Notation bf := (binary_float prec emax).

  (* every rounding result carries the sign it was given (NaN has sign false) *)
  Lemma sign_binary_round_aux_false : forall mode mx ex lx,
    sign_SF (binary_round_aux prec emax mode false mx ex lx) = false.
  Proof.
    intros mode mx ex lx. unfold binary_round_aux.
    destruct (SpecFloat.shr_fexp prec emax mx ex lx) as [mrs' e'].
    destruct (SpecFloat.shr_fexp prec emax _ e' SpecFloat.loc_Exact) as [mrs'' e''].
    destruct (SpecFloat.shr_m mrs'') as [|p|p]; try reflexivity.
    unfold binary_fit_aux, binary_overflow.
    destruct (e'' <=? emax - prec); [reflexivity|].
    destruct (overflow_to_inf mode false); reflexivity.
  Qed.

  Lemma sign_binary_round_false : forall mode mx ex,
    sign_SF (binary_round prec emax mode false mx ex) = false.
  Proof.
    intros mode mx ex. unfold binary_round.
    destruct (shl_align_fexp prec emax mx ex) as [mz ez].
    apply sign_binary_round_aux_false.
  Qed.

  Lemma Bsign_normalize_nonneg : forall mode m e,
    0 <= m -> Bsign (binary_normalize prec emax prec_gt_0_ prec_lt_emax_ mode m e false) = false.
  Proof.
    intros mode m e Hm. unfold binary_normalize. destruct m as [|p|p].
    - reflexivity.
    - rewrite Bsign_SF2B. apply sign_binary_round_false.
    - lia.
  Qed.

  Lemma Bsign_Bmult_nonneg : forall mode (x y : bf),
    Bsign x = false -> Bsign y = false -> Bsign (Bmult mode x y) = false.
  Proof.
    intros mode [sx|sx| |sx mx ex Hx] [sy|sy| |sy my ey Hy] Hsx Hsy;
      cbn [Bsign] in Hsx, Hsy; subst; try reflexivity.
    unfold Bmult. rewrite Bsign_SF2B. apply sign_binary_round_aux_false.
  Qed.

  Lemma Bsign_Bdiv_nonneg : forall mode (x y : bf),
    Bsign x = false -> Bsign y = false -> Bsign (Bdiv mode x y) = false.
  Proof.
    intros mode [sx|sx| |sx mx ex Hx] [sy|sy| |sy my ey Hy] Hsx Hsy;
      cbn [Bsign] in Hsx, Hsy; subst; try reflexivity.
    unfold Bdiv. rewrite Bsign_SF2B.
    destruct (SpecFloat.SFdiv_core_binary prec emax (Z.pos mx) ex (Z.pos my) ey) as [[mz ez] lz].
    apply sign_binary_round_aux_false.
  Qed.

  Lemma SFnearbyint_ZR_nonneg : forall s m e, 0 <= SFnearbyint_binary_aux prec mode_ZR s m e.
  Proof.
    intros s m e. unfold SFnearbyint_binary_aux.
    destruct (Z.leb_spec 0 e) as [He|He].
    - apply Z.mul_nonneg_nonneg; [lia | apply Z.pow_nonneg; lia].
    - unfold choice_mode. destruct (e <? - prec).
      + cbn. lia.
      + set (mrs := {| SpecFloat.shr_m := Z.pos m; SpecFloat.shr_r := false; SpecFloat.shr_s := false |}).
        destruct (le_shr_le mrs e (- e)) as [[H0 _] _]; [cbn; lia | lia |].
        apply Z.mul_nonneg_cancel_l in H0; [exact H0|].
        apply Z.pow_pos_nonneg; lia.
  Qed.

  Lemma Btrunc_nonneg : forall x : bf, Bsign x = false -> 0 <= Btrunc x.
  Proof.
    intros [s|s| |s m e H] Hs; cbn [Btrunc]; try lia.
    cbn [Bsign] in Hs. subst s. cbn [cond_Zopp]. apply SFnearbyint_ZR_nonneg.
  Qed.

  Lemma Btrunc_Bmult_zero : forall mode (x : bf), Btrunc (Bmult mode x (B754_zero false)) = 0.
  Proof. intros mode [s|s| |s m e H]; reflexivity. Qed.
End FloatSigns.

Lemma f32_of_Z_0 : f32_of_Z 0 = B754_zero false.
Proof. reflexivity. Qed.

Lemma f32_of_Z_nonneg : forall x, 0 <= x -> Bsign (f32_of_Z x) = false.
Proof. intros x Hx. unfold f32_of_Z. apply Bsign_normalize_nonneg. exact Hx. Qed.

(* B1 *)
Theorem fboost32_zero : forall num den orig, fboost32 num den orig 0 = 0.
Proof.
  intros num den orig. unfold fboost32, f32_trunc, f32_mul at 1.
  rewrite f32_of_Z_0. apply Btrunc_Bmult_zero.
Qed.

(* B2, in full generality; `den` need not even be positive for the sign
   argument (0/0 = NaN truncates to 0), so the weaker 0 <= den suffices. *)
Theorem fboost32_nonneg_gen : forall num den orig count,
  0 <= num -> 0 <= den -> 0 <= orig -> 0 <= count -> 0 <= fboost32 num den orig count.
Proof.
  intros num den orig count Hn Hd Ho Hc.
  unfold fboost32, f32_trunc, f32_mul, f32_pct, f32_div.
  apply Btrunc_nonneg.
  apply Bsign_Bmult_nonneg; [|apply f32_of_Z_nonneg; exact Hc].
  apply Bsign_Bmult_nonneg; [apply f32_of_Z_nonneg; exact Ho|].
  apply Bsign_Bdiv_nonneg; apply f32_of_Z_nonneg; assumption.
Qed.

Theorem fboost32_nonneg : forall num den orig count,
  0 <= num -> 0 < den -> 0 <= orig -> 0 <= count -> 0 <= fboost32 num den orig count.
Proof. intros. apply fboost32_nonneg_gen; lia. Qed.

(* ------------------------------------------------------------------ *)
(* instantiated corollaries                                            *)
(* ------------------------------------------------------------------ *)
Theorem floor_f32 : forall num den mult freq hs ops, 0 <= num -> 0 < den -> 0 < mult -> 0 < freq ->
  second <= get_resend (fboost32 num den) (tm_run (tm_init false second mult freq hs) ops).
Proof.
  intros num den mult freq hs ops Hn Hd Hm Hf.
  apply floor; try assumption.
  intros orig count Ho Hc. apply fboost32_nonneg; assumption.
Qed.

Theorem static_f32 : forall num den resend mult freq hs ops,
  get_resend (fboost32 num den) (tm_run (tm_init true resend mult freq hs) ops) = resend
  /\ get_handshake (fboost32 num den) (tm_run (tm_init true resend mult freq hs) ops) = hs.
Proof. intros num den resend mult freq hs ops. apply static. apply fboost32_zero. Qed.

Theorem reset_f32 : forall num den m o ts tr fr, t_static m = false ->
  g_samples (tm_step m o) = g_samples m ++ [(ts, tr, fr)] ->
  get_resend (fboost32 num den) (tm_step m o)
    = (let mul := wrap64 (t_mult m * (tr - ts)) in if mul <? second then second else mul)
  /\ tr = t_now m.
Proof. intros num den. apply reset_on_sample. apply fboost32_zero. Qed.

Theorem resend_stable_f32 : forall num den m o,
  g_samples (tm_step m o) = g_samples m ->
  (forall seq, o <> TSent KData seq true) ->
  get_resend (fboost32 num den) (tm_step m o) = get_resend (fboost32 num den) m.
Proof. intros num den. apply resend_stable. Qed.

(* A5 and A6 do not mention fboost at all *)
Theorem boost_rate_f32 : forall mult freq hs ops, 0 < mult -> 0 < freq -> Forall tick_ok ops ->
  let m := tm_run (tm_init false second mult freq hs) ops in
  spaced (b_orig (t_rb m)) (g_boosts m) /\ b_count (t_rb m) = Z.of_nat (length (g_boosts m)).
Proof. exact boost_rate. Qed.

(* hence the resend timeout in force is exactly orig + fboost32 orig (#boosts) *)
Corollary resend_value_f32 : forall num den mult freq hs ops,
  let m := tm_run (tm_init false second mult freq hs) ops in
  get_resend (fboost32 num den) m
  = b_orig (t_rb m) + fboost32 num den (b_orig (t_rb m)) (Z.of_nat (length (g_boosts m))).
Proof.
  intros num den mult freq hs ops m. unfold get_resend, b_current.
  destruct (boost_rate_gen false second mult freq hs ops) as [_ Hc]. fold m in Hc.
  rewrite Hc. reflexivity.
Qed.

Print Assumptions floor.
Print Assumptions static.
Print Assumptions reset_on_sample.
Print Assumptions resend_stable.
Print Assumptions consistent_reachable.
Print Assumptions samples_fresh.
Print Assumptions boost_rate_gen.
Print Assumptions boost_rate.
Print Assumptions fboost32_zero.
Print Assumptions fboost32_nonneg.
Print Assumptions floor_f32.
Print Assumptions static_f32.
Print Assumptions reset_f32.
Print Assumptions resend_stable_f32.
Print Assumptions boost_rate_f32.
Print Assumptions resend_value_f32.
(* for comparison: the axioms above are already those of the *definition*
   fboost32 (Flocq's Bmult/Bdiv/binary_normalize embed validity proofs that go
   through the real-number specifications); the proofs in this file add none. *)
Print Assumptions fboost32.
