(* Safety of the two-direction monitor (Model/GbnMonitor.v):
   - every accepted history keeps the one-direction invariant Inv (GbnInv.v)
     in both directions (mrun_inv);
   - as long as no Send has failed on side x, the messages returned by Recv on
     the other side are a prefix of the messages accepted by Send on x
     (mrun_messages). *)
From LNC Require Import GoLite MessagesGen QueueGen Codec Gbn GbnMonitor.
From LNC Require Import Window GbnInv GbnSafety Chunking.
Open Scope Z_scope.

(* ---- boolean equalities used by the monitor ---- *)

Lemma zlist_eqb_eq a : forall b, zlist_eqb a b = true -> a = b.
Proof.
  induction a as [|x a IH]; intros [|y b] H; cbn [zlist_eqb] in H; try discriminate.
  - reflexivity.
  - apply andb_true_iff in H. destruct H as [H1 H2]. apply Z.eqb_eq in H1.
    rewrite (IH _ H2), H1. reflexivity.
Qed.

Lemma zlist_eqb_refl a : zlist_eqb a a = true.
Proof. induction a as [|x a IH]; cbn [zlist_eqb]; [reflexivity|]. rewrite Z.eqb_refl, IH. reflexivity. Qed.

Lemma pkt_eqb_eq p q : pkt_eqb p q = true -> p = q.
Proof.
  destruct p as [s1 f1 g1 l1], q as [s2 f2 g2 l2]. unfold pkt_eqb.
  cbn [PacketData_Seq PacketData_FinalChunk PacketData_IsPing PacketData_Payload].
  rewrite !andb_true_iff. intros [[[H1 H2] H3] H4].
  apply Z.eqb_eq in H1. apply eqb_prop in H2. apply eqb_prop in H3. apply zlist_eqb_eq in H4.
  subst. reflexivity.
Qed.

(* ---- how one dstep changes the histories `sent` / `delivered` ---- *)

Lemma addPacket_pkt q p q' p' :
  queue_addPacket q p = Ok (q', p') -> p' = set_PacketData_Seq p (queue_sequenceTop q).
Proof.
  unfold queue_addPacket, bind. cbv zeta.
  destruct (upd _ _ _); [|discriminate]. destruct (umod _ _); [|discriminate].
  intros H; inversion H; reflexivity.
Qed.

Lemma dstep_new_hist st p st' : dstep st (DNew p) = DOk st' ->
  d_sent st' = d_sent st ++ [set_PacketData_Seq p (queue_sequenceTop (d_q st))] /\
  d_delivered st' = d_delivered st /\
  lastn_pkt st' = Some (set_PacketData_Seq p (queue_sequenceTop (d_q st))).
Proof.
  unfold dstep, lift. cbv zeta.
  destruct (queue_size (d_q st)); [|discriminate].
  destruct (negb (a <? d_n st)); [discriminate|].
  destruct (queue_addPacket (d_q st) p) as [[q' p']|] eqn:Eadd; [|discriminate].
  apply addPacket_pkt in Eadd. subst p'.
  intros H; inversion H; subst st'; clear H. simpl_st. repeat split.
  unfold lastn_pkt. simpl_st. rewrite rev_app_distr. reflexivity.
Qed.

Definition quiet (ev : devent) : bool :=
  match ev with
  | DNew _ => false
  | DFwd Drop => true
  | DFwd _ => false
  | _ => true
  end.

Lemma dstep_quiet st ev st' : quiet ev = true -> dstep st ev = DOk st' ->
  d_sent st' = d_sent st /\ d_delivered st' = d_delivered st.
Proof.
  unfold dstep, lift. cbv zeta. destruct ev; cbn [quiet]; intros Hq.
  - discriminate.
  - destruct (_ || _); [discriminate|].
    destruct (idx _ k) as [[q|]|]; try discriminate.
    intros H; inversion H; split; reflexivity.
  - destruct o; try discriminate.
    destruct (d_fwd st) as [|it rest]; [discriminate|].
    intros H; inversion H; split; reflexivity.
  - destruct (d_pend st); [|discriminate]. intros H; inversion H; split; reflexivity.
  - destruct (d_bwd st) as [|it rest]; [discriminate|].
    destruct o.
    + destruct (b_ctrl it).
      * destruct (queue_processACK _ _) as [[q' b]|]; [|discriminate]. intros H; inversion H; split; reflexivity.
      * destruct (queue_processNACK _ _) as [[[q' b] b2]|]; [|discriminate]. intros H; inversion H; split; reflexivity.
    + destruct (b_ctrl it).
      * destruct (queue_processACK _ _) as [[q' b]|]; [|discriminate]. intros H; inversion H; split; reflexivity.
      * destruct (queue_processNACK _ _) as [[[q' b] b2]|]; [|discriminate]. intros H; inversion H; split; reflexivity.
    + intros H; inversion H; split; reflexivity.
Qed.

Lemma dstep_fwd_hist st o st' it rest : d_fwd st = it :: rest -> dstep st (DFwd o) = DOk st' ->
  d_sent st' = d_sent st /\
  ((d_R st' = d_R st /\ d_delivered st' = d_delivered st) \/
   (d_R st' = d_R st + 1 /\ d_delivered st' = d_delivered st ++ [f_pkt it])).
Proof.
  intros Hfwd. unfold dstep, lift. cbv zeta. rewrite Hfwd. destruct o.
  - destruct (_ =? _).
    + destruct (umod _ _); [|discriminate]. intros H; inversion H; simpl_st. split; [reflexivity|right; split; reflexivity].
    + intros H; inversion H; simpl_st. split; [reflexivity|left; split; reflexivity].
  - destruct (_ =? _).
    + destruct (umod _ _); [|discriminate]. intros H; inversion H; simpl_st. split; [reflexivity|right; split; reflexivity].
    + intros H; inversion H; simpl_st. split; [reflexivity|left; split; reflexivity].
  - intros H; inversion H; simpl_st. split; [reflexivity|left; split; reflexivity].
Qed.

Lemma app_packets_snoc l p :
  app_packets (l ++ [p]) = app_packets l ++ (if PacketData_IsPing p then [] else [p]).
Proof.
  unfold app_packets. rewrite filter_app. cbn [filter].
  destruct (PacketData_IsPing p); reflexivity.
Qed.

(* ---- Recv: the consumed part of the delivered stream, cut at FinalChunks ---- *)

Inductive parsed : list PacketData -> list (list Z) -> Prop :=
  | parsed_nil : parsed [] []
  | parsed_cons buf m rest msgs :
      take_msg buf [] = Some (m, []) -> parsed rest msgs -> parsed (buf ++ rest) (m :: msgs).

Lemma parsed_app a ms b ms' : parsed a ms -> parsed b ms' -> parsed (a ++ b) (ms ++ ms').
Proof.
  intros Ha Hb. induction Ha as [|buf m rest msgs Ht Hr IH]; [exact Hb|].
  rewrite <- app_assoc. cbn [app]. apply parsed_cons; assumption.
Qed.

Lemma parsed_one buf m : take_msg buf [] = Some (m, []) -> parsed buf [m].
Proof.
  intros H. rewrite <- (app_nil_r buf). apply parsed_cons; [exact H|apply parsed_nil].
Qed.

Lemma take_msg_app buf : forall acc m r Z,
  take_msg buf acc = Some (m, r) -> take_msg (buf ++ Z) acc = Some (m, r ++ Z).
Proof.
  induction buf as [|p buf IH]; intros acc m r Z H; cbn [take_msg app] in *; [discriminate|].
  destruct (PacketData_FinalChunk p).
  - inversion H; reflexivity.
  - apply IH; exact H.
Qed.

Lemma take_msg_pre buf : forall acc m rest,
  take_msg buf acc = Some (m, rest) -> exists pre, buf = pre ++ rest /\ take_msg pre acc = Some (m, []).
Proof.
  induction buf as [|p buf IH]; intros acc m rest H; cbn [take_msg] in H; [discriminate|].
  destruct (PacketData_FinalChunk p) eqn:Ef.
  - inversion H; subst. exists [p]. split; [reflexivity|]. cbn [take_msg]. rewrite Ef. reflexivity.
  - destruct (IH _ _ _ H) as (pre & -> & Hpre). exists (p :: pre). split; [reflexivity|].
    cbn [take_msg]. rewrite Ef. exact Hpre.
Qed.

Definition chunks (c : Z) (msgs : list (list Z)) : list (list Z * bool) :=
  concat (map (split_msg c) msgs).

Lemma chunks_snoc c msgs m : chunks c (msgs ++ [m]) = chunks c msgs ++ split_msg c m.
Proof. unfold chunks. rewrite map_app, concat_app. cbn [map concat]. rewrite app_nil_r. reflexivity. Qed.

(* a parsed prefix of a well-chunked stream returns a prefix of the messages *)
Lemma parsed_prefix c : 0 <= c -> forall consumed returned, parsed consumed returned ->
  forall Z accepted, map proj (consumed ++ Z) = chunks c accepted -> is_prefix returned accepted.
Proof.
  intros Hc consumed returned Hp.
  induction Hp as [|buf m rest msgs Ht Hr IH]; intros Z accepted Hmap.
  - exists accepted. reflexivity.
  - destruct accepted as [|a acc'].
    + unfold chunks in Hmap. cbn [map concat] in Hmap. apply map_eq_nil in Hmap.
      apply app_eq_nil in Hmap. destruct Hmap as [Hmap _]. apply app_eq_nil in Hmap.
      destruct Hmap as [-> _]. discriminate.
    + unfold chunks in Hmap. cbn [map concat] in Hmap.
      pose proof Hmap as Hmap'. apply map_eq_app in Hmap'.
      destruct Hmap' as (p1 & p2 & Hsplit & Hp1 & Hp2).
      pose proof (take_msg_split p1 c a p2 [] Hc Hp1) as H1. cbn [app] in H1.
      pose proof (take_msg_app buf [] m [] (rest ++ Z) Ht) as H2. cbn [app] in H2.
      rewrite <- Hsplit, <- app_assoc, H2 in H1. inversion H1; subst m p2.
      destruct (IH Z acc' Hp2) as (t & ->). exists t. reflexivity.
Qed.

(* ---- the invariant of the monitor ---- *)

(* direction x -> y: d is the system whose sender is x *)
Definition SndOk (c : Z) (d : dsys) (a : api) : Prop :=
  a_chunk a = c /\
  (a_send_failed a = false ->
   map proj (app_packets (d_sent d)) ++ a_pending a = chunks c (a_accepted a)).

Definition RcvOk (d : dsys) (a : api) : Prop :=
  exists consumed,
    app_packets (d_delivered d) = consumed ++ a_rbuf a /\ parsed consumed (a_returned a).

Definition DirInv (c : Z) (d : dsys) (ax ay : api) : Prop := Inv d /\ SndOk c d ax /\ RcvOk d ay.

Definition cof (cA cB : Z) (x : side) : Z := match x with SA => cA | SB => cB end.

Definition MInv (cA cB : Z) (st : msys) : Prop :=
  DirInv cA (m_dA st) (m_apiA st) (m_apiB st) /\ DirInv cB (m_dB st) (m_apiB st) (m_apiA st).

Lemma MInv_side cA cB x st : MInv cA cB st <->
  DirInv (cof cA cB x) (dsnd st x) (apiof st x) (apiof st (peer x)) /\
  DirInv (cof cA cB (peer x)) (dsnd st (peer x)) (apiof st (peer x)) (apiof st x).
Proof. unfold MInv. destruct x; cbn [cof dsnd apiof peer]; tauto. Qed.

(* frame conditions *)
Lemma SndOk_frame c d d' a a' : SndOk c d a ->
  d_sent d' = d_sent d -> a_chunk a' = a_chunk a -> a_send_failed a' = a_send_failed a ->
  a_pending a' = a_pending a -> a_accepted a' = a_accepted a -> SndOk c d' a'.
Proof. unfold SndOk. intros [Hc H] -> -> -> -> ->. split; assumption. Qed.

Lemma RcvOk_frame d d' a a' : RcvOk d a ->
  d_delivered d' = d_delivered d -> a_rbuf a' = a_rbuf a -> a_returned a' = a_returned a -> RcvOk d' a'.
Proof. unfold RcvOk. intros H -> -> ->. exact H. Qed.

Lemma DirInv_quiet c d d' ax ay : DirInv c d ax ay -> Inv d' ->
  d_sent d' = d_sent d /\ d_delivered d' = d_delivered d -> DirInv c d' ax ay.
Proof.
  intros (HI & HS & HR) HI' [Hs Hd]. split; [exact HI'|]. split.
  - apply (SndOk_frame c d d' ax ax HS); auto.
  - apply (RcvOk_frame d d' ay ay HR); auto.
Qed.

(* Send *)
Lemma SndOk_sendcall c d a s msg : SndOk c d a ->
  SndOk c d (mk_api (a_chunk a) (a_pending a ++ split_msg (a_chunk a) msg) s (a_rbuf a)
               (a_accepted a ++ [msg]) (a_returned a) (a_send_failed a)).
Proof.
  intros [Hc H]. split; cbn [a_chunk a_send_failed a_pending a_accepted]; [exact Hc|].
  intros Hf. rewrite chunks_snoc, app_assoc, (H Hf), Hc. reflexivity.
Qed.

Lemma SndOk_failed c d ch p s r acc ret : ch = c -> SndOk c d (mk_api ch p s r acc ret true).
Proof. intros Hc. split; cbn [a_chunk a_send_failed]; [exact Hc|discriminate]. Qed.

Lemma SndOk_new_ping c d d' a p : SndOk c d a ->
  d_sent d' = d_sent d ++ [p] -> PacketData_IsPing p = true -> SndOk c d' a.
Proof.
  intros [Hc H] Hs Hp. split; [exact Hc|]. intros Hf.
  rewrite Hs, app_packets_snoc, Hp, app_nil_r. exact (H Hf).
Qed.

Lemma SndOk_new_data c d d' a p rest s : SndOk c d a ->
  d_sent d' = d_sent d ++ [p] -> PacketData_IsPing p = false -> a_pending a = proj p :: rest ->
  SndOk c d' (mk_api (a_chunk a) rest s (a_rbuf a) (a_accepted a) (a_returned a) (a_send_failed a)).
Proof.
  intros [Hc H] Hs Hp Hpend. split; cbn [a_chunk a_send_failed a_pending a_accepted]; [exact Hc|].
  intros Hf. rewrite Hs, app_packets_snoc, Hp, map_app, <- app_assoc. cbn [map app].
  rewrite <- Hpend. exact (H Hf).
Qed.

(* Recv *)
Lemma RcvOk_recv d a m rest ch pe se acc f : RcvOk d a ->
  take_msg (a_rbuf a) [] = Some (m, rest) ->
  RcvOk d (mk_api ch pe se rest acc (a_returned a ++ [m]) f).
Proof.
  intros (consumed & Hd & Hp) Ht. destruct (take_msg_pre _ _ _ _ Ht) as (pre & Hbuf & Hpre).
  exists (consumed ++ pre). cbn [a_rbuf a_returned]. split.
  - rewrite Hd, Hbuf, app_assoc. reflexivity.
  - apply parsed_app; [exact Hp|apply parsed_one; exact Hpre].
Qed.

Lemma RcvOk_deliver d d' a p ch pe se acc f : RcvOk d a ->
  d_delivered d' = d_delivered d ++ [p] -> PacketData_IsPing p = false ->
  RcvOk d' (mk_api ch pe se (a_rbuf a ++ [p]) acc (a_returned a) f).
Proof.
  intros (consumed & Hd & Hp) Hdel Hping. exists consumed. cbn [a_rbuf a_returned]. split; [|exact Hp].
  rewrite Hdel, app_packets_snoc, Hping, Hd, app_assoc. reflexivity.
Qed.

Lemma RcvOk_deliver_ping d d' a p : RcvOk d a ->
  d_delivered d' = d_delivered d ++ [p] -> PacketData_IsPing p = true -> RcvOk d' a.
Proof.
  intros (consumed & Hd & Hp) Hdel Hping. exists consumed. split; [|exact Hp].
  rewrite Hdel, app_packets_snoc, Hping, app_nil_r. exact Hd.
Qed.

(* ---- projections of the updated monitor state ---- *)

Lemma peer_peer x : peer (peer x) = x.
Proof. destruct x; reflexivity. Qed.

Lemma dsnd_set_chan st x c z : dsnd (set_chan st x c) z = dsnd st z.
Proof. destruct x, z; reflexivity. Qed.
Lemma dsnd_set_stage st x v z : dsnd (set_stage st x v) z = dsnd st z.
Proof. destruct x, z; reflexivity. Qed.
Lemma dsnd_set_api st x a z : dsnd (set_api st x a) z = dsnd st z.
Proof. destruct x, z; reflexivity. Qed.
Lemma dsnd_set_dsnd st x d : dsnd (set_dsnd st x d) x = d.
Proof. destruct x; reflexivity. Qed.
Lemma dsnd_set_dsnd_p1 st x d : dsnd (set_dsnd st x d) (peer x) = dsnd st (peer x).
Proof. destruct x; reflexivity. Qed.
Lemma dsnd_set_dsnd_p2 st x d : dsnd (set_dsnd st (peer x) d) x = dsnd st x.
Proof. destruct x; reflexivity. Qed.
Lemma apiof_set_chan st x c z : apiof (set_chan st x c) z = apiof st z.
Proof. destruct x, z; reflexivity. Qed.
Lemma apiof_set_stage st x v z : apiof (set_stage st x v) z = apiof st z.
Proof. destruct x, z; reflexivity. Qed.
Lemma apiof_set_dsnd st x d z : apiof (set_dsnd st x d) z = apiof st z.
Proof. destruct x, z; reflexivity. Qed.
Lemma apiof_set_api st x a : apiof (set_api st x a) x = a.
Proof. destruct x; reflexivity. Qed.
Lemma apiof_set_api_p1 st x a : apiof (set_api st x a) (peer x) = apiof st (peer x).
Proof. destruct x; reflexivity. Qed.
Lemma apiof_set_api_p2 st x a : apiof (set_api st (peer x) a) x = apiof st x.
Proof. destruct x; reflexivity. Qed.

#[export] Hint Rewrite peer_peer dsnd_set_chan dsnd_set_stage dsnd_set_api dsnd_set_dsnd dsnd_set_dsnd_p1
  dsnd_set_dsnd_p2 apiof_set_chan apiof_set_stage apiof_set_dsnd apiof_set_api apiof_set_api_p1
  apiof_set_api_p2 : msys.

Lemma dlift_ok r code k st' : dlift r code k = MOk st' -> exists d', r = DOk d' /\ k d' = MOk st'.
Proof. destruct r as [d| |]; cbn [dlift]; intros H; try discriminate. exists d. split; [reflexivity|exact H]. Qed.

(* view the invariant from side x, both as hypothesis and as goal *)
Ltac minv x Hinv :=
  let I1 := fresh "I1" in let S1 := fresh "S1" in let R1 := fresh "R1" in
  let I2 := fresh "I2" in let S2 := fresh "S2" in let R2 := fresh "R2" in
  apply (MInv_side _ _ x) in Hinv; destruct Hinv as [(I1 & S1 & R1) (I2 & S2 & R2)];
  apply (MInv_side _ _ x); autorewrite with msys;
  split; (split; [|split]).

Section Preservation.
Variables cA cB : Z.
Notation MI := (MInv cA cB).

Lemma mstep_sendcall st x msg st' : MI st -> mstep st (MSendCall x msg) = MOk st' -> MI st'.
Proof.
  intros Hinv H. unfold mstep in H. cbv zeta in H.
  destruct (a_sending (apiof st x)); [discriminate|]. injection H as <-.
  minv x Hinv; try assumption.
  apply SndOk_sendcall; exact S1.
Qed.

Lemma mstep_sendret st x ok st' : MI st -> mstep st (MSendRet x ok) = MOk st' -> MI st'.
Proof.
  intros Hinv H. unfold mstep in H. cbv zeta in H.
  destruct (negb (a_sending (apiof st x))); [discriminate|]. destruct ok.
  - destruct (1 <? len (a_pending (apiof st x))); [discriminate|]. injection H as <-.
    minv x Hinv; assumption.
  - injection H as <-. minv x Hinv; try assumption.
    apply SndOk_failed. exact (proj1 S1).
Qed.

Lemma mstep_recvret st x r st' : MI st -> mstep st (MRecvRet x r) = MOk st' -> MI st'.
Proof.
  intros Hinv H. unfold mstep in H. cbv zeta in H.
  destruct r as [msg|]; [|injection H as <-; exact Hinv].
  destruct (take_msg (a_rbuf (apiof st x)) []) as [[m rest]|] eqn:Et; [|discriminate].
  destruct (zlist_eqb m msg) eqn:Em; cbn [negb] in H; [|discriminate].
  apply zlist_eqb_eq in Em. subst msg. injection H as <-.
  minv x Hinv; try assumption.
  apply RcvOk_recv; assumption.
Qed.

Lemma mstep_tx_data st x p st' : MI st ->
  (let d := dsnd st x in
   if PacketData_Seq p =? queue_sequenceTop (d_q d) then
     let a := apiof st x in
     let api_ok :=
       if PacketData_IsPing p then Some a
       else match a_pending a with
            | (pl, fin) :: rest =>
                if zlist_eqb pl (PacketData_Payload p) && Bool.eqb fin (PacketData_FinalChunk p)
                then Some (mk_api (a_chunk a) rest (a_sending a) (a_rbuf a) (a_accepted a) (a_returned a) (a_send_failed a))
                else None
            | [] => None
            end in
     match api_ok with
     | None => MBad 11
     | Some a' =>
         dlift (dstep d (DNew p)) 12 (fun d' =>
         match lastn_pkt d' with
         | Some p' => if pkt_eqb p p' then MOk (set_chan (set_api (set_dsnd st x d') x a') x (chan st x ++ [TgData])) else MBad 13
         | None => MBad 13
         end)
     end
   else
     dlift (dstep d (DRetx (PacketData_Seq p))) 14 (fun d' =>
     match lastn_pkt d' with
     | Some p' => if pkt_eqb p p' then MOk (set_chan (set_dsnd st x d') x (chan st x ++ [TgData])) else MBad 15
     | None => MBad 15
     end)) = MOk st' -> MI st'.
Proof.
  intros Hinv H. cbv zeta in H.
  destruct (PacketData_Seq p =? queue_sequenceTop (d_q (dsnd st x))).
  - destruct (PacketData_IsPing p) eqn:Eping.
    + (* a ping *)
      apply dlift_ok in H. destruct H as (d' & Hstep & H).
      destruct (lastn_pkt d') as [p'|]; [|discriminate].
      destruct (pkt_eqb p p'); [|discriminate]. injection H as <-.
      destruct (dstep_new_hist _ _ _ Hstep) as (Hs & Hd & _).
      minv x Hinv; try assumption.
      * exact (dstep_inv _ _ _ I1 Hstep).
      * eapply SndOk_new_ping; [exact S1|exact Hs|exact Eping].
      * eapply RcvOk_frame; [exact R1|exact Hd|reflexivity..].
    + (* the next chunk of the pending Send *)
      destruct (a_pending (apiof st x)) as [|[pl fin] rest] eqn:Epend; [discriminate|].
      destruct (zlist_eqb pl (PacketData_Payload p) && Bool.eqb fin (PacketData_FinalChunk p)) eqn:Em;
        [|discriminate].
      apply andb_true_iff in Em. destruct Em as [Em1 Em2].
      apply zlist_eqb_eq in Em1. apply eqb_prop in Em2. subst pl fin.
      apply dlift_ok in H. destruct H as (d' & Hstep & H).
      destruct (lastn_pkt d') as [p'|]; [|discriminate].
      destruct (pkt_eqb p p'); [|discriminate]. injection H as <-.
      destruct (dstep_new_hist _ _ _ Hstep) as (Hs & Hd & _).
      minv x Hinv; try assumption.
      * exact (dstep_inv _ _ _ I1 Hstep).
      * eapply SndOk_new_data; [exact S1|exact Hs|exact Eping|exact Epend].
      * eapply RcvOk_frame; [exact R1|exact Hd|reflexivity..].
  - (* a retransmission *)
    apply dlift_ok in H. destruct H as (d' & Hstep & H).
    destruct (lastn_pkt d') as [p'|]; [|discriminate].
    destruct (pkt_eqb p p'); [|discriminate]. injection H as <-.
    pose proof (fun Hq0 => dstep_quiet _ _ _ Hq0 Hstep) as Hq; specialize (Hq eq_refl).
    minv x Hinv; try assumption.
    + exact (dstep_inv _ _ _ I1 Hstep).
    + eapply SndOk_frame; [exact S1|exact (proj1 Hq)|reflexivity..].
    + eapply RcvOk_frame; [exact R1|exact (proj2 Hq)|reflexivity..].
Qed.

(* a reply (ACK / NACK) transmitted by x belongs to the direction peer x -> x *)
Lemma mstep_tx_reply st x code ch st' : MI st ->
  dlift (dstep (dsnd st (peer x)) DReply) code
    (fun d' => MOk (set_chan (set_dsnd st (peer x) d') x ch)) = MOk st' -> MI st'.
Proof.
  intros Hinv H. apply dlift_ok in H. destruct H as (d' & Hstep & H). injection H as <-.
  pose proof (fun Hq0 => dstep_quiet _ _ _ Hq0 Hstep) as Hq; specialize (Hq eq_refl).
  minv x Hinv; try assumption.
  - exact (dstep_inv _ _ _ I2 Hstep).
  - eapply SndOk_frame; [exact S2|exact (proj1 Hq)|reflexivity..].
  - eapply RcvOk_frame; [exact R2|exact (proj2 Hq)|reflexivity..].
Qed.

Lemma MI_set_chan st x c : MI st -> MI (set_chan st x c).
Proof. intros Hinv. minv x Hinv; assumption. Qed.

Lemma MI_set_stage st x v : MI st -> MI (set_stage st x v).
Proof. intros Hinv. minv x Hinv; assumption. Qed.

Lemma mstep_tx st x b st' : MI st -> mstep st (MTx x b) = MOk st' -> MI st'.
Proof.
  intros Hinv H. unfold mstep in H. unfold drcv in H.
  destruct (Deserialize b) as [[m|]|]; [| |discriminate].
  - destruct m as [p|a|s|v|f|sa].
    + exact (mstep_tx_data st x p st' Hinv H).
    + cbv zeta in H. destruct (d_pend (dsnd st (peer x))) as [[a'|v']|]; try discriminate.
      destruct (PacketACK_Seq a =? a'); [|discriminate].
      exact (mstep_tx_reply _ _ _ _ _ Hinv H).
    + injection H as <-. apply MI_set_chan; exact Hinv.
    + cbv zeta in H. destruct (d_pend (dsnd st (peer x))) as [[a'|v']|]; try discriminate.
      destruct (PacketNACK_Seq v =? v'); [|discriminate].
      exact (mstep_tx_reply _ _ _ _ _ Hinv H).
    + injection H as <-. apply MI_set_chan; exact Hinv.
    + injection H as <-. apply MI_set_chan; exact Hinv.
  - injection H as <-. apply MI_set_chan; exact Hinv.
Qed.

(* a quiet step of the direction whose sender is z *)
Lemma MI_set_dsnd_quiet st z ev d' :
  MI st -> quiet ev = true -> dstep (dsnd st z) ev = DOk d' -> MI (set_dsnd st z d').
Proof.
  intros Hinv Hq Hstep. pose proof (dstep_quiet _ _ _ Hq Hstep) as Hh.
  minv z Hinv; try assumption.
  - exact (dstep_inv _ _ _ I1 Hstep).
  - eapply SndOk_frame; [exact S1|exact (proj1 Hh)|reflexivity..].
  - eapply RcvOk_frame; [exact R1|exact (proj2 Hh)|reflexivity..].
Qed.

Lemma mstep_ch st x o st' : MI st -> mstep st (MCh x o) = MOk st' -> MI st'.
Proof.
  intros Hinv H. unfold mstep in H. unfold drcv in H. cbv zeta in H.
  destruct (chan st x) as [|tg rest]; [discriminate|].
  destruct (stage st (peer x)); [discriminate|].
  destruct o.
  - injection H as <-. apply MI_set_stage, MI_set_chan; exact Hinv.
  - injection H as <-. apply MI_set_stage, MI_set_chan; exact Hinv.
  - destruct tg as [| |raw].
    + apply dlift_ok in H. destruct H as (d' & Hstep & H). injection H as <-.
      apply (MI_set_dsnd_quiet _ x (DFwd Drop)); [apply MI_set_chan; exact Hinv|reflexivity|].
      rewrite dsnd_set_chan. exact Hstep.
    + apply dlift_ok in H. destruct H as (d' & Hstep & H). injection H as <-.
      apply (MI_set_dsnd_quiet _ (peer x) (DBwd Drop)); [apply MI_set_chan; exact Hinv|reflexivity|].
      rewrite dsnd_set_chan. exact Hstep.
    + injection H as <-. apply MI_set_chan; exact Hinv.
Qed.

Lemma mstep_rx st y b st' : MI st -> mstep st (MRx y b) = MOk st' -> MI st'.
Proof.
  intros Hinv H. unfold mstep in H. unfold drcv in H. cbv zeta in H.
  destruct (stage st y) as [[tg o]|]; [|discriminate].
  destruct tg as [| |raw].
  - (* DATA of the direction peer y -> y arrives at y *)
    destruct (d_fwd (dsnd st (peer y))) as [|it rest] eqn:Efwd; [discriminate|].
    destruct (PacketData_Serialize (f_pkt it)) as [[bytes|]|]; try discriminate.
    destruct (negb (zlist_eqb bytes b)); [discriminate|].
    apply dlift_ok in H. destruct H as (d' & Hstep & H). injection H as <-.
    destruct (dstep_fwd_hist _ _ _ _ _ Efwd Hstep) as (Hs & [[HR Hd]|[HR Hd]]).
    + (* not accepted *)
      replace (d_R (dsnd st (peer y)) <? d_R d') with false by (symmetry; apply Z.ltb_ge; lia).
      cbn [andb]. minv y Hinv; try assumption.
      * exact (dstep_inv _ _ _ I2 Hstep).
      * eapply SndOk_frame; [exact S2|exact Hs|reflexivity..].
      * eapply RcvOk_frame; [exact R2|exact Hd|reflexivity..].
    + (* accepted in sequence *)
      replace (d_R (dsnd st (peer y)) <? d_R d') with true by (symmetry; apply Z.ltb_lt; lia).
      cbn [andb]. destruct (PacketData_IsPing (f_pkt it)) eqn:Eping; cbn [negb].
      * minv y Hinv; try assumption.
        -- exact (dstep_inv _ _ _ I2 Hstep).
        -- eapply SndOk_frame; [exact S2|exact Hs|reflexivity..].
        -- eapply RcvOk_deliver_ping; [exact R2|exact Hd|exact Eping].
      * minv y Hinv; try assumption.
        -- exact (dstep_inv _ _ _ I2 Hstep).
        -- eapply SndOk_frame; [exact S2|exact Hs|reflexivity..].
        -- eapply RcvOk_deliver; [exact R2|exact Hd|exact Eping].
  - (* ACK / NACK of the direction y -> peer y arrives at y *)
    destruct (d_bwd (dsnd st y)) as [|it rest] eqn:Ebwd; [discriminate|].
    destruct (negb (zlist_eqb (ctrl_bytes (b_ctrl it)) b)); [discriminate|].
    apply dlift_ok in H. destruct H as (d' & Hstep & H). injection H as <-.
    apply (MI_set_dsnd_quiet _ y (DBwd o)); [apply MI_set_stage; exact Hinv|reflexivity|].
    rewrite dsnd_set_stage. exact Hstep.
  - destruct (zlist_eqb raw b); [|discriminate]. injection H as <-.
    apply MI_set_stage; exact Hinv.
Qed.

Lemma mstep_rx_refused st y b st' : MI st -> mstep st (MRxRefused y b) = MOk st' -> MI st'.
Proof.
  intros Hinv H. unfold mstep in H. unfold drcv in H. cbv zeta in H.
  destruct (stage st y) as [[tg o]|]; [|discriminate].
  destruct tg as [| |raw]; try discriminate.
  destruct (d_fwd (dsnd st (peer y))) as [|it rest] eqn:Efwd; [discriminate|].
  destruct (PacketData_Serialize (f_pkt it)) as [[bytes|]|]; try discriminate.
  destruct (negb (zlist_eqb bytes b)); [discriminate|].
  destruct (negb _); [discriminate|].
  destruct o.
  - apply dlift_ok in H. destruct H as (d' & Hstep & H). injection H as <-.
    apply (MI_set_dsnd_quiet _ (peer y) (DFwd Drop)); [apply MI_set_stage; exact Hinv|reflexivity|].
    rewrite dsnd_set_stage. exact Hstep.
  - injection H as <-. apply MI_set_stage; exact Hinv.
  - injection H as <-. apply MI_set_stage; exact Hinv.
Qed.

Lemma mstep_snap st x n s base top recv st' : MI st -> mstep st (MSnap x n s base top recv) = MOk st' -> MI st'.
Proof.
  intros Hinv H. unfold mstep in H. cbv zeta in H.
  destruct (_ && _); [|discriminate].
  destruct (d_pend (drcv st x)) as [[a|v]|].
  - injection H as <-; exact Hinv.
  - destruct (recv =? _); [|discriminate]. injection H as <-; exact Hinv.
  - destruct (recv =? _); [|discriminate]. injection H as <-; exact Hinv.
Qed.

Lemma mstep_pres st ev st' : MI st -> mstep st ev = MOk st' -> MI st'.
Proof.
  intros Hinv H. destruct ev.
  - exact (mstep_sendcall _ _ _ _ Hinv H).
  - exact (mstep_sendret _ _ _ _ Hinv H).
  - injection H as <-; exact Hinv.
  - exact (mstep_recvret _ _ _ _ Hinv H).
  - exact (mstep_tx _ _ _ _ Hinv H).
  - exact (mstep_ch _ _ _ _ Hinv H).
  - exact (mstep_rx _ _ _ _ Hinv H).
  - exact (mstep_rx_refused _ _ _ _ Hinv H).
  - exact (mstep_snap _ _ _ _ _ _ _ _ Hinv H).
Qed.

Lemma mrun_all_pres evs : forall st st', MI st -> mrun_all st evs = Some st' -> MI st'.
Proof.
  induction evs as [|ev evs IH]; intros st st' Hinv H; cbn [mrun_all] in H.
  - injection H as <-; exact Hinv.
  - destruct (mstep st ev) as [st1|code] eqn:E; [|discriminate].
    exact (IH _ _ (mstep_pres _ _ _ Hinv E) H).
Qed.

End Preservation.

Lemma minit_inv n cA cB : 1 <= n <= 254 -> MInv cA cB (minit n cA cB).
Proof.
  intros Hn. pose proof (dinit_inv n Hn) as HI.
  assert (HR : forall c, RcvOk (dinit n) (api_init c)).
  { intros c. exists []. split; [reflexivity|apply parsed_nil]. }
  assert (HS : forall c, SndOk c (dinit n) (api_init c)).
  { intros c. split; [reflexivity|]. intros _. reflexivity. }
  unfold MInv, DirInv, minit. cbn [m_dA m_dB m_apiA m_apiB].
  split; (split; [exact HI|split; [apply HS|apply HR]]).
Qed.

Lemma mrun_minv n cA cB evs st : 1 <= n <= 254 ->
  mrun_all (minit n cA cB) evs = Some st -> MInv cA cB st.
Proof. intros Hn H. exact (mrun_all_pres cA cB evs _ _ (minit_inv n cA cB Hn) H). Qed.

(* ---- the two theorems ---- *)

Theorem mrun_inv n cA cB evs st : 1 <= n <= 254 ->
  mrun_all (minit n cA cB) evs = Some st -> Inv (m_dA st) /\ Inv (m_dB st).
Proof.
  intros Hn H. destruct (mrun_minv n cA cB evs st Hn H) as [(HA & _) (HB & _)].
  split; assumption.
Qed.

Lemma app_packets_firstn k l : exists t, app_packets l = app_packets (firstn k l) ++ t.
Proof.
  exists (app_packets (skipn k l)). unfold app_packets.
  rewrite <- filter_app, firstn_skipn. reflexivity.
Qed.

Lemma DirInv_messages c d ax ay : 0 <= c -> DirInv c d ax ay ->
  a_send_failed ax = false -> is_prefix (a_returned ay) (a_accepted ax).
Proof.
  intros Hc (HI & [Hch HS] & (consumed & Hdel & Hp)) Hf.
  specialize (HS Hf).
  destruct (app_packets_firstn (Z.to_nat (d_R d)) (d_sent d)) as (t & Ht).
  rewrite <- (i_prefix d HI), Hdel in Ht.
  apply (parsed_prefix c Hc consumed (a_returned ay) Hp
           ((a_rbuf ay ++ t) ++ chunk_pkts (a_pending ax)) (a_accepted ax)).
  rewrite <- HS, Ht. rewrite !map_app, proj_chunk_pkts, <- !app_assoc. reflexivity.
Qed.

Theorem mrun_messages n cA cB evs st : 1 <= n <= 254 -> 0 <= cA -> 0 <= cB ->
  mrun_all (minit n cA cB) evs = Some st ->
  (a_send_failed (m_apiA st) = false -> is_prefix (a_returned (m_apiB st)) (a_accepted (m_apiA st))) /\
  (a_send_failed (m_apiB st) = false -> is_prefix (a_returned (m_apiA st)) (a_accepted (m_apiB st))).
Proof.
  intros Hn HcA HcB H. destruct (mrun_minv n cA cB evs st Hn H) as [HA HB]. split.
  - exact (DirInv_messages cA _ _ _ HcA HA).
  - exact (DirInv_messages cB _ _ _ HcB HB).
Qed.

(* the packet the monitor compares against the transmitted one is the queued one:
   an accepted MTx of new DATA extends `sent` by exactly the transmitted packet *)
Lemma tx_new_sent d p d' p' : dstep d (DNew p) = DOk d' -> lastn_pkt d' = Some p' -> pkt_eqb p p' = true ->
  d_sent d' = d_sent d ++ [p].
Proof.
  intros Hstep Hl He. destruct (dstep_new_hist _ _ _ Hstep) as (Hs & _ & Hl').
  rewrite Hl in Hl'. apply pkt_eqb_eq in He. subst p'. inversion Hl' as [Hp]. rewrite Hs. congruence.
Qed.

(* non-vacuity: A sends [1;2;3] with maxChunkSize 2 (two DATA packets, the first one
   duplicated by the channel and NACKed), B's Recv returns it; all events accepted *)
Definition example_events : list mevent :=
  [ MSendCall SA [1; 2; 3];
    MTx SA [2; 0; 0; 0; 1; 2]; MCh SA DeliverKeep; MRx SB [2; 0; 0; 0; 1; 2];
    MTx SB [3; 0]; MCh SA Deliver; MRx SB [2; 0; 0; 0; 1; 2];
    MTx SA [2; 1; 1; 0; 3]; MSendRet SA true;
    MCh SB Deliver; MRx SA [3; 0];
    MCh SA Deliver; MRx SB [2; 1; 1; 0; 3];
    MRecvCall SB; MRecvRet SB (Some [1; 2; 3]) ].

Example example_events_ok :
  match mrun_all (minit 2 2 0) example_events with
  | Some st => a_returned (m_apiB st) = [[1; 2; 3]] /\ a_accepted (m_apiA st) = [[1; 2; 3]] /\
               a_send_failed (m_apiA st) = false /\ d_B (m_dA st) = 1 /\ d_R (m_dA st) = 2
  | None => False
  end.
Proof. vm_compute. repeat split; reflexivity. Qed.

Print Assumptions mrun_inv.
Print Assumptions mrun_messages.
