(* Proofs about the generated GetSID (gen/SidGen.v, from mailbox/server.go):
   the server-to-client stream id is the session id itself, the
   client-to-server id is the session id with the low bit of its last byte
   flipped; the two always differ, and only in the last byte. *)
From Coq Require Import ZArith List Bool Lia.
From LNC Require Import GoLite SidGen.
Import ListNotations.
Open Scope Z_scope.

(* ------------------------------------------------------------------ *)
(* generic slice lemmas                                                *)
(* ------------------------------------------------------------------ *)

Lemma copy_into_repeat : forall (n : nat) (l : list Z),
  length l = n -> copy_into (repeat 0 n) l = l.
Proof.
  induction n as [|n IH]; intros l Hl.
  - destruct l; [reflexivity | discriminate].
  - destruct l as [|x l]; [discriminate|].
    cbn [repeat copy_into]. f_equal. apply IH. cbn [length] in Hl. lia.
Qed.

Lemma copy_into_zeros : forall (n : Z) (l : list Z),
  len l = n -> copy_into (zeros n) l = l.
Proof.
  intros n l Hl. unfold zeros. apply copy_into_repeat. unfold len in Hl. lia.
Qed.

Lemma nth_error_app_last : forall A (front : list A) (x : A),
  nth_error (front ++ [x]) (length front) = Some x.
Proof.
  intros A front x. rewrite nth_error_app2 by lia.
  rewrite Nat.sub_diag. reflexivity.
Qed.

Lemma idx_app_last : forall A (front : list A) (x : A) (i : Z),
  len front = i -> idx (front ++ [x]) i = Ok x.
Proof.
  intros A front x i Hi. unfold idx. unfold len in Hi.
  destruct (i <? 0) eqn:E; [lia|].
  replace (Z.to_nat i) with (length front) by lia.
  rewrite nth_error_app_last. reflexivity.
Qed.

Lemma upd_nat_app_last : forall A (front : list A) (x v : A),
  upd_nat (front ++ [x]) (length front) v = Some (front ++ [v]).
Proof.
  intros A front x v. induction front as [|h t IH].
  - reflexivity.
  - cbn [app length upd_nat]. rewrite IH. reflexivity.
Qed.

Lemma upd_app_last : forall A (front : list A) (x v : A) (i : Z),
  len front = i -> upd (front ++ [x]) i v = Ok (front ++ [v]).
Proof.
  intros A front x v i Hi. unfold upd. unfold len in Hi.
  destruct (i <? 0) eqn:E; [lia|].
  replace (Z.to_nat i) with (length front) by lia.
  rewrite upd_nat_app_last. reflexivity.
Qed.

Lemma split_last : forall A (l : list A) (n : nat),
  length l = S n -> exists front last, l = front ++ [last] /\ length front = n.
Proof.
  intros A l n Hl.
  assert (l <> []) as Hne by (intro; subst; discriminate).
  destruct (exists_last Hne) as (front & last & ->).
  exists front, last. split; [reflexivity|].
  rewrite app_length in Hl. cbn [length] in Hl. lia.
Qed.

Lemma lxor_1_neq : forall x, Z.lxor x 1 <> x.
Proof.
  intros x H.
  assert (Z.lxor x (Z.lxor x 1) = Z.lxor x x) as H2 by (rewrite H; reflexivity).
  rewrite Z.lxor_nilpotent, <- Z.lxor_assoc, Z.lxor_nilpotent, Z.lxor_0_l in H2.
  discriminate.
Qed.

Lemma firstn_app_exact : forall A (front : list A) (t : list A) n,
  length front = n -> firstn n (front ++ t) = front.
Proof.
  intros A front t n Hn. subst n.
  rewrite firstn_app, Nat.sub_diag, firstn_all. cbn [firstn]. apply app_nil_r.
Qed.

(* ------------------------------------------------------------------ *)
(* GetSID                                                              *)
(* ------------------------------------------------------------------ *)

(* the computation on a split session id *)
Lemma getsid_c2s_split : forall front last,
  length front = 63%nat ->
  GetSID (front ++ [last]) false = Ok (front ++ [Z.lxor last 1]).
Proof.
  intros front last Hf. unfold GetSID.
  assert (len (front ++ [last]) = 64) as Hlen.
  { rewrite len_app. unfold len. cbn [length]. lia. }
  rewrite (copy_into_zeros 64 _ Hlen).
  assert (len front = 63) as Hf' by (unfold len; lia).
  rewrite (idx_app_last _ front last 63 Hf'). cbn [bind].
  rewrite (upd_app_last _ front last (Z.lxor last 1) 63 Hf'). cbn [bind].
  reflexivity.
Qed.

Section GetSID.
  Variable sid : list Z.
  Hypothesis Hsid : len sid = 64.

  (* G1 *)
  Theorem getsid_s2c : GetSID sid true = Ok sid.
  Proof. reflexivity. Qed.

  (* G2 *)
  Theorem getsid_c2s : exists front last,
    sid = front ++ [last] /\ length front = 63%nat /\
    GetSID sid false = Ok (front ++ [Z.lxor last 1]).
  Proof.
    assert (length sid = 64%nat) as Hl by (unfold len in Hsid; lia).
    destruct (split_last _ sid 63 Hl) as (front & last & -> & Hf).
    exists front, last. split; [reflexivity|]. split; [assumption|].
    apply getsid_c2s_split. assumption.
  Qed.

  (* G3 *)
  Theorem getsid_differ : forall a b,
    GetSID sid true = Ok a -> GetSID sid false = Ok b ->
    a <> b /\ firstn 63 a = firstn 63 b.
  Proof.
    intros a b Ha Hb. rewrite getsid_s2c in Ha. injection Ha as <-.
    destruct getsid_c2s as (front & last & Hs & Hf & Hc).
    rewrite Hc in Hb. injection Hb as <-. rewrite Hs. split.
    - intro H. apply app_inv_head in H. injection H as H.
      symmetry in H. exact (lxor_1_neq last H).
    - rewrite !firstn_app_exact by assumption. reflexivity.
  Qed.

  (* G4: the client-to-server id is again a 64-byte id, never panics, and
     applying the flip twice gives the session id back *)
  Theorem getsid_involutive : forall a,
    GetSID sid false = Ok a -> len a = 64 /\ GetSID a false = Ok sid.
  Proof.
    intros a Ha.
    destruct getsid_c2s as (front & last & Hs & Hf & Hc).
    rewrite Hc in Ha. injection Ha as <-. split.
    - rewrite len_app. unfold len. cbn [length]. lia.
    - rewrite (getsid_c2s_split front _ Hf), Hs.
      rewrite Z.lxor_assoc, Z.lxor_nilpotent, Z.lxor_0_r. reflexivity.
  Qed.

  (* both directions never panic on a well-sized session id *)
  Theorem getsid_total : forall d, is_ok (GetSID sid d) = true.
  Proof.
    intros [|]; [reflexivity|].
    destruct getsid_c2s as (front & last & _ & _ & ->). reflexivity.
  Qed.
End GetSID.

(* a session id of any size: the fresh buffer always has 64 entries, so GetSID
   never panics (a short id is zero-padded, a long one cut, by copy) *)
Theorem getsid_never_panics : forall sid d, is_ok (GetSID sid d) = true.
Proof.
  intros sid [|]; [reflexivity|]. unfold GetSID.
  assert (length (copy_into (zeros 64) sid) = 64%nat) as Hl.
  { assert (forall (d s : list Z), length (copy_into d s) = length d) as Hc.
    { induction d as [|x d IH]; intros s; [reflexivity|].
      destruct s; [reflexivity|]. cbn [copy_into length]. f_equal. apply IH. }
    rewrite Hc. unfold zeros. rewrite repeat_length. reflexivity. }
  destruct (split_last _ _ 63 Hl) as (front & last & -> & Hf).
  assert (len front = 63) as Hf' by (unfold len; lia).
  rewrite (idx_app_last _ front last 63 Hf'). cbn [bind].
  rewrite (upd_app_last _ front last _ 63 Hf'). reflexivity.
Qed.

Print Assumptions getsid_s2c.
Print Assumptions getsid_c2s.
Print Assumptions getsid_differ.
Print Assumptions getsid_involutive.
Print Assumptions getsid_total.
Print Assumptions getsid_never_panics.
