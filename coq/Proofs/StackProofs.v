(* The layers composed (Model/Stack.v): the GBN messages carrying the Noise
   records concatenate to the writer's stream; whatever prefix of them GBN has
   delivered, the reading side hands the application a prefix of the bytes
   written, never more than the buffer per call; when everything is delivered
   everything is read; the relay in the middle only ever sees ciphertext. *)
From Coq Require Import ZArith List Bool Lia.
From LNC Require Import Noise NoiseRecord NoiseStream Stack.
Import ListNotations.
Open Scope Z_scope.

(* ------------------------------------------------------------------ *)
(* helpers                                                             *)
(* ------------------------------------------------------------------ *)

Lemma is_prefix_trans : forall A (a b c : list A), is_prefix a b -> is_prefix b c -> is_prefix a c.
Proof.
  intros A a b c [t ->] [u ->]. exists (t ++ u). rewrite app_assoc. reflexivity.
Qed.

Lemma is_prefix_concat : forall A (a b : list (list A)),
  is_prefix a b -> is_prefix (concat a) (concat b).
Proof.
  intros A a b [t ->]. exists (concat t). apply concat_app.
Qed.

Lemma oks_map_ok : forall recs, oks (map ROk recs) = recs.
Proof.
  induction recs as [|p recs IH]; [reflexivity|].
  cbn [map]. rewrite oks_cons_ok, IH. reflexivity.
Qed.

Lemma stack_messages_from_length : forall dir recs k,
  length (stack_messages_from dir k recs) = (2 * length recs)%nat.
Proof.
  induction recs as [|p recs IH]; intros k; [reflexivity|].
  cbn [stack_messages_from length]. rewrite IH. lia.
Qed.

(* ------------------------------------------------------------------ *)
(* S1 : the messages are the writer's stream, cut at the seal borders  *)
(* ------------------------------------------------------------------ *)

Lemma stack_messages_from_concat : forall dir recs k,
  concat (stack_messages_from dir k recs) = writer_stream_from dir k recs.
Proof.
  induction recs as [|p recs IH]; intros k; [reflexivity|].
  cbn [stack_messages_from concat writer_stream_from].
  rewrite IH. unfold record_tags. rewrite app_assoc. reflexivity.
Qed.

Theorem stack_messages_concat : forall dir recs,
  concat (stack_messages dir recs) = writer_stream dir recs.
Proof. intros dir recs. apply stack_messages_from_concat. Qed.

(* ------------------------------------------------------------------ *)
(* S2 : whatever GBN has delivered, the application reads a prefix     *)
(* ------------------------------------------------------------------ *)

Theorem stack_stream_prefix : forall dir recs delivered fuel sizes,
  wf recs -> Forall (fun b => 0 <= b) sizes ->
  is_prefix (concat (stack_read dir recs delivered fuel sizes)) (concat recs)
  /\ Forall2 (fun out b => len out <= b) (stack_read dir recs delivered fuel sizes) sizes.
Proof.
  intros dir recs delivered fuel sizes Hwf Hs. unfold stack_read.
  set (input := concat (firstn delivered (stack_messages dir recs))).
  pose proof (prefix_always dir recs input fuel Hwf) as Hp.
  set (got := oks (read_all fuel dir recs (mk_reader 0 false) input)) in *.
  destruct (reads_seq grpc_read (or_introl eq_refl) [] got sizes Hs) as [Hq HF].
  cbn [app] in Hq. split; [|exact HF].
  eapply is_prefix_trans; [exact Hq|]. apply is_prefix_concat. exact Hp.
Qed.

(* the same for any input at all (a relay that alters, drops or injects):
   the prefix property does not depend on what GBN delivered *)
Theorem stack_stream_prefix_any_input : forall dir recs input fuel sizes,
  wf recs -> Forall (fun b => 0 <= b) sizes ->
  is_prefix (concat (reads grpc_read [] (oks (read_all fuel dir recs (mk_reader 0 false) input)) sizes))
            (concat recs).
Proof.
  intros dir recs input fuel sizes Hwf Hs.
  pose proof (prefix_always dir recs input fuel Hwf) as Hp.
  destruct (reads_seq grpc_read (or_introl eq_refl) []
              (oks (read_all fuel dir recs (mk_reader 0 false) input)) sizes Hs) as [Hq _].
  cbn [app] in Hq.
  eapply is_prefix_trans; [exact Hq|]. apply is_prefix_concat. exact Hp.
Qed.

(* ------------------------------------------------------------------ *)
(* S3 : everything delivered => everything read                        *)
(* ------------------------------------------------------------------ *)

Theorem stack_all_delivered : forall dir recs, wf recs ->
  oks (read_all (S (length recs)) dir recs (mk_reader 0 false)
         (concat (firstn (2 * length recs) (stack_messages dir recs)))) = recs.
Proof.
  intros dir recs Hwf.
  rewrite <- (stack_messages_from_length dir recs 0). unfold stack_messages at 1.
  rewrite firstn_all. fold (stack_messages dir recs).
  rewrite stack_messages_concat, (roundtrip dir recs Hwf).
  rewrite oks_app, oks_map_ok. cbn. apply app_nil_r.
Qed.

(* and then the application's reads return a prefix of exactly those bytes,
   with every record available *)
Corollary stack_all_delivered_read : forall dir recs sizes, wf recs ->
  stack_read dir recs (2 * length recs) (S (length recs)) sizes = reads grpc_read [] recs sizes.
Proof.
  intros dir recs sizes Hwf. unfold stack_read.
  rewrite (stack_all_delivered dir recs Hwf). reflexivity.
Qed.

(* ------------------------------------------------------------------ *)
(* S4 : the relay only ever handles ciphertext of this direction       *)
(* ------------------------------------------------------------------ *)

Lemma stack_messages_from_honest : forall dir recs k,
  Forall (Forall (honest_tag dir)) (stack_messages_from dir k recs).
Proof.
  induction recs as [|p recs IH]; intros k; cbn [stack_messages_from].
  - constructor.
  - constructor; [|constructor; [|apply IH]];
      apply Forall_forall; intros b Hb; apply In_seal_tags in Hb;
      destruct Hb as (o & ->); unfold honest_tag; eauto.
Qed.

Theorem relay_sees_only_ciphertext : forall dir recs,
  Forall (Forall (honest_tag dir)) (stack_messages dir recs).
Proof. intros dir recs. apply stack_messages_from_honest. Qed.

Print Assumptions stack_messages_concat.
Print Assumptions stack_stream_prefix.
Print Assumptions stack_stream_prefix_any_input.
Print Assumptions stack_all_delivered.
Print Assumptions stack_all_delivered_read.
Print Assumptions relay_sees_only_ciphertext.
