From Coq Require Import Arith List Bool Lia.
From LNC Require Import Wakeup.
Import ListNotations.

(* with a buffer, a freed window is never left unnoticed *)
Definition WInv (st : ws) : Prop :=
  (w_rsig st = true -> w_free st = true) /\
  (w_free st = true -> w_rsig st = false ->
     (w_spc st = SWait -> w_pend st > 0) /\ (w_spc st = SGap -> w_pend st > 0)).

Lemma winv_init : forall acks, WInv (winit acks).
Proof. intros acks. split; cbn; intros; discriminate. Qed.

Lemma bump_pos : forall cap p, cap >= 1 -> (if p <? cap then S p else p) > 0.
Proof. intros cap p H. destruct (Nat.ltb_spec p cap); lia. Qed.

Lemma winv_step : forall cap st who st', cap >= 1 -> WInv st -> wstep cap st who = Some st' -> WInv st'.
Proof.
  intros cap [free pend pc rsig acks] who st' Hcap [H1 H2] Hs.
  unfold wstep in Hs. cbn [w_free w_pend w_spc w_rsig w_acks] in *.
  destruct who.
  - destruct pc.
    + injection Hs as <-. split; cbn; [assumption|]. intros Hf Hr. specialize (H2 Hf Hr).
      rewrite Hf. split; intros; discriminate.
    + injection Hs as <-. split; cbn; [assumption|]. intros Hf Hr. specialize (H2 Hf Hr).
      destruct H2 as [_ Hg]. split; [intros _; apply Hg; reflexivity | intros; discriminate].
    + destruct pend as [|p]; [discriminate|]. injection Hs as <-. split; cbn; [assumption|].
      intros Hf Hr. split; intros; discriminate.
    + discriminate.
  - destruct rsig.
    + pose proof (H1 eq_refl) as Hf.
      destruct pc; destruct pend as [|p]; injection Hs as <-;
        (split; cbn [w_free w_pend w_spc w_rsig w_acks]; [intros; discriminate|]);
        intros _ _; (split; intros E; try discriminate E); apply bump_pos; assumption.
    + destruct acks as [|a]; [discriminate|]. injection Hs as <-. split; cbn; [reflexivity|].
      intros _ Hr. discriminate.
Qed.

Lemma winv_run : forall cap sched st, cap >= 1 -> WInv st -> WInv (wrun cap st sched).
Proof.
  intros cap sched. induction sched as [|who rest IH]; intros st Hcap HI; cbn [wrun]; [assumption|].
  apply IH; [assumption|]. destruct (wstep cap st who) as [st'|] eqn:E; [|assumption].
  eapply winv_step; eassumption.
Qed.

(* free is set as soon as one acknowledgement has been processed *)
Lemma free_step : forall cap st who st', wstep cap st who = Some st' -> w_free st = true -> w_free st' = true.
Proof.
  intros cap [free pend pc rsig acks] who st' Hs Hf. unfold wstep in Hs. cbn in *. subst free.
  destruct who.
  - destruct pc; try discriminate; try (injection Hs as <-; reflexivity).
    destruct pend; [discriminate | injection Hs as <-; reflexivity].
  - destruct rsig.
    + destruct pc; destruct pend; injection Hs as <-; reflexivity.
    + destruct acks; [discriminate | injection Hs as <-; reflexivity].
Qed.

(* C09/C13: whatever the interleaving of the two loops, once the receive loop has processed an acknowledgement
   and has nothing left to do, the send loop is never left waiting with nothing to wake it *)
Theorem buffered_signal_never_stuck : forall cap acks sched,
  cap >= 1 -> let st := wrun cap (winit acks) sched in w_free st = true -> stuck st = false.
Proof.
  intros cap acks sched Hcap st Hf.
  assert (HI : WInv st) by (apply winv_run; [assumption | apply winv_init]).
  destruct HI as [_ H2]. unfold stuck.
  destruct (w_spc st) eqn:Epc; try reflexivity.
  destruct (w_pend st) eqn:Ep; try reflexivity.
  destruct (w_rsig st) eqn:Er; try reflexivity.
  destruct (H2 Hf eq_refl) as [Hw _]. specialize (Hw eq_refl). lia.
Qed.

(* ... and from there the send loop reaches the point where it takes new data within three of its own steps *)
Theorem buffered_signal_proceeds : forall cap acks sched,
  cap >= 1 -> let st := wrun cap (winit acks) sched in
  w_free st = true -> w_rsig st = false ->
  w_spc (wrun cap st [true; true; true]) = SProceed.
Proof.
  intros cap acks sched Hcap st Hf Hr.
  assert (HI : WInv st) by (apply winv_run; [assumption | apply winv_init]).
  destruct HI as [_ H2]. destruct (H2 Hf Hr) as [Hw Hg].
  destruct st as [free pend pc rsig ak]. cbn [w_free w_rsig w_spc w_pend] in *. subst free rsig.
  destruct pc.
  - reflexivity.
  - specialize (Hg eq_refl). destruct pend as [|p]; [lia|]. reflexivity.
  - specialize (Hw eq_refl). destruct pend as [|p]; [lia|]. reflexivity.
  - reflexivity.
Qed.

(* without a buffer the wake-up is lost: the send loop tests (full), the receive loop frees the window and
   signals (nobody waits: dropped), the send loop starts waiting *)
Theorem unbuffered_signal_refuted :
  let st := wrun 0 (winit 1) [true; false; false; true] in
  w_free st = true /\ stuck st = true.
Proof. vm_compute. split; reflexivity. Qed.

(* C13: the pong timer can be started, without a probe being sent, only while the send loop sits in its "window is
   full" wait. Whenever it sits there with a window that has meanwhile been freed (and the receive loop has finished
   signalling), a wake-up is pending: it leaves the wait before it can handle another timer tick there *)
Theorem full_window_wait_is_about_to_end : forall cap acks sched,
  cap >= 1 -> let st := wrun cap (winit acks) sched in
  w_spc st = SWait -> w_free st = true -> w_rsig st = false -> w_pend st > 0.
Proof.
  intros cap acks sched Hcap st Hw Hf Hr.
  assert (HI : WInv st) by (apply winv_run; [assumption | apply winv_init]).
  destruct HI as [_ H2]. destruct (H2 Hf Hr) as [Hwait _]. exact (Hwait Hw).
Qed.
