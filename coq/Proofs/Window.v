(* Window arithmetic of gbn/queue.go, about the go2coq-generated definitions.
   B, T are unbounded ghost counters (sender base / top); the code keeps
   B mod s and T mod s in uint8 fields. *)
From LNC Require Import GoLite MessagesGen QueueGen.
Open Scope Z_scope.

(* ---- modular arithmetic helpers ---- *)

Lemma mod_lo x s : 0 <= x < s -> x mod s = x.
Proof. intros. apply Z.mod_small. lia. Qed.

Lemma mod_hi x s : s <= x < 2 * s -> x mod s = x - s.
Proof.
  intros H. replace x with ((x - s) + 1 * s) by lia.
  rewrite Z.mod_add by lia. rewrite Z.mod_small; lia.
Qed.

Lemma mod_neg x s : - s <= x < 0 -> x mod s = x + s.
Proof.
  intros H. replace x with ((x + s) + (-1) * s) by lia.
  rewrite Z.mod_add by lia. rewrite Z.mod_small; lia.
Qed.

Lemma mod_shift a k s : 0 < s -> (a + k * s) mod s = a mod s.
Proof. intros. apply Z.mod_add. lia. Qed.

(* x mod s computed from an offset relative to any multiple-aligned base *)
Lemma mod_plus_mod a b s : 0 < s -> (a mod s + b) mod s = (a + b) mod s.
Proof. intros. rewrite Z.add_mod_idemp_l by lia. reflexivity. Qed.

Lemma mod_minus_mod a b s : 0 < s -> (a - b mod s) mod s = (a - b) mod s.
Proof. intros. rewrite Zminus_mod_idemp_r. reflexivity. Qed.

(* a residue identifies an index inside any span of s consecutive indices *)
Lemma mod_unique d1 d2 s : 0 < s -> d1 mod s = d2 mod s -> - s < d1 - d2 < s -> d1 = d2.
Proof.
  intros Hs He Hr.
  assert ((d1 - d2) mod s = 0) as H0.
  { rewrite Zminus_mod, He, Z.sub_diag. apply Z.mod_0_l. lia. }
  apply Z.mod_divide in H0; [|lia]. destruct H0 as [k Hk].
  assert (k = 0) by nia. lia.
Qed.

Lemma mod_bound x s : 0 < s -> 0 <= x mod s < s.
Proof. intros. apply Z.mod_pos_bound. lia. Qed.

Lemma u8_small x : 0 <= x < 256 -> u8 x = x.
Proof. intros. unfold u8. apply Z.mod_small. lia. Qed.

(* ---- containsSequence ---- *)

(* normal form on residues: window starts at residue b and has w elements *)
Lemma containsSequence_norm b w sq s :
  0 < s -> 0 <= b < s -> 0 <= w < s -> 0 <= sq < s ->
  containsSequence b ((b + w) mod s) sq = Ok ((sq - b) mod s <? w).
Proof.
  intros Hs Hb Hw Hq. unfold containsSequence.
  destruct (Z_lt_dec (b + w) s) as [Hlt|Hge].
  - rewrite (mod_lo (b + w)) by lia.
    destruct (b =? b + w) eqn:E1.
    + assert (w = 0) by lia. subst w. f_equal. symmetry. apply Z.ltb_ge.
      pose proof (mod_bound (sq - b) s Hs). lia.
    + destruct (b <? b + w) eqn:E2; [|lia].
      destruct (Z_le_dec b sq) as [Hle|Hgt].
      * rewrite (mod_lo (sq - b)) by lia.
        destruct (b <=? sq) eqn:E3; [|lia]. cbn [andb].
        destruct (sq <? b + w) eqn:E4; destruct (sq - b <? w) eqn:E5; try lia; reflexivity.
      * rewrite (mod_neg (sq - b)) by lia.
        destruct (b <=? sq) eqn:E3; [lia|]. cbn [andb].
        destruct (sq - b + s <? w) eqn:E5; try lia; reflexivity.
  - rewrite (mod_hi (b + w)) by lia.
    destruct (b =? b + w - s) eqn:E1; [lia|].
    destruct (b <? b + w - s) eqn:E2; [lia|].
    destruct (Z_le_dec b sq) as [Hle|Hgt].
    + rewrite (mod_lo (sq - b)) by lia.
      destruct (b <=? sq) eqn:E3; [|lia].
      rewrite orb_true_r.
      destruct (sq - b <? w) eqn:E5; try lia; reflexivity.
    + rewrite (mod_neg (sq - b)) by lia.
      destruct (b <=? sq) eqn:E3; [lia|]. rewrite orb_false_r.
      destruct (sq <? b + w - s) eqn:E4; destruct (sq - b + s <? w) eqn:E5; try lia; reflexivity.
Qed.

Lemma containsSequence_total b t sq : exists r, containsSequence b t sq = Ok r.
Proof.
  unfold containsSequence.
  destruct (b =? t); [eauto|]. destruct (b <? t).
  - destruct ((b <=? sq) && (sq <? t)); eauto.
  - destruct ((sq <? t) || (b <=? sq)); eauto.
Qed.

(* ghost form *)
Lemma containsSequence_ghost B T sq s :
  0 < s -> 0 <= B <= T -> T - B < s -> 0 <= sq < s ->
  containsSequence (B mod s) (T mod s) sq = Ok ((sq - B) mod s <? T - B).
Proof.
  intros Hs HB HT Hq.
  pose proof (mod_bound B s Hs).
  replace (T mod s) with ((B mod s + (T - B)) mod s)
    by (rewrite mod_plus_mod by lia; f_equal; lia).
  rewrite containsSequence_norm by lia.
  rewrite mod_minus_mod by lia. reflexivity.
Qed.

(* ---- the sender's window invariant ---- *)

Record sender_ok (q : queue) (n B T : Z) : Prop := {
  so_n : 1 <= n <= 254;
  so_BT : 0 <= B <= T;
  so_win : T <= B + n;
  so_s : queueCfg_s (queue_cfg q) = n + 1;
  so_base : queue_sequenceBase q = B mod (n + 1);
  so_top : queue_sequenceTop q = T mod (n + 1);
}.

Lemma size_ghost q n B T : sender_ok q n B T -> queue_size q = Ok (T - B).
Proof.
  intros [Hn HBT Hw Hs Hb Ht]. unfold queue_size. rewrite Hs, Hb, Ht.
  set (s := n + 1) in *. assert (0 < s) as Hs0 by lia.
  pose proof (mod_bound B s Hs0) as HbB. pose proof (mod_bound T s Hs0) as HbT.
  assert (T mod s = (B mod s + (T - B)) mod s) as HT'
    by (rewrite mod_plus_mod by lia; f_equal; lia).
  destruct (Z_lt_dec (B mod s + (T - B)) s) as [Hlt|Hge].
  - rewrite (mod_lo (B mod s + (T - B))) in HT' by lia.
    destruct (B mod s <=? T mod s) eqn:E; [|lia].
    f_equal. rewrite u8_small by lia. lia.
  - rewrite (mod_hi (B mod s + (T - B))) in HT' by lia.
    destruct (B mod s <=? T mod s) eqn:E; [lia|].
    f_equal. rewrite (u8_small (s - B mod s)) by lia. rewrite u8_small by lia. lia.
Qed.

Definition with_base (q : queue) (b : Z) : queue := set_queue_sequenceBase q b.

Lemma sender_ok_with_base q n B T B' :
  sender_ok q n B T -> B <= B' <= T -> sender_ok (with_base q (B' mod (n + 1))) n B' T.
Proof.
  intros [Hn HBT Hw Hs Hb Ht] HB'. constructor; cbn; try assumption; try lia.
Qed.

Lemma umod_ok a s : s <> 0 -> umod a s = Ok (a mod s).
Proof. intros. unfold umod. destruct (s =? 0) eqn:E; [lia|reflexivity]. Qed.

(* processACK: an ACK for index a = B + off (off < T - B) moves the base to a + 1;
   everything else is ignored *)
Lemma processACK_ghost q n B T sq :
  sender_ok q n B T -> 0 <= sq < 256 ->
  let s := n + 1 in
  let off := (sq - B) mod s in
  queue_processACK q sq =
    if (sq <? s) && (off <? T - B)
    then Ok (with_base q ((B + off + 1) mod s), true)
    else Ok (q, false).
Proof.
  intros Hok Hsq s off. pose proof Hok as [Hn HBT Hw Hs Hb Ht].
  fold s in Hs, Hb, Ht. assert (0 < s) as Hs0 by (unfold s; lia).
  unfold queue_processACK. rewrite (size_ghost q n B T Hok). cbn [bind].
  pose proof (mod_bound B s Hs0) as HbB.
  pose proof (mod_bound (sq - B) s Hs0) as Hoff. fold off in Hoff.
  destruct (T - B =? 0) eqn:E0.
  { destruct ((sq <? s) && (off <? T - B)) eqn:E; [|reflexivity].
    apply andb_true_iff in E. destruct E as [_ E]. lia. }
  rewrite Hs. destruct (s <=? sq) eqn:E1.
  { destruct (sq <? s) eqn:E; [lia|]. reflexivity. }
  destruct (sq <? s) eqn:E1'; [|lia]. cbn [andb].
  rewrite Hb. destruct (sq =? B mod s) eqn:E2.
  - assert (off = 0) as Hoff0.
    { unfold off. replace (sq - B) with (B mod s - B) by lia.
      rewrite Zminus_mod_idemp_l. rewrite Z.sub_diag. apply Z.mod_0_l. lia. }
    rewrite Hoff0. destruct (0 <? T - B) eqn:E3; [|lia].
    rewrite umod_ok by lia. cbn [bind].
    rewrite u8_small by (unfold s in *; lia).
    f_equal. f_equal. unfold with_base. f_equal.
    rewrite Z.add_0_r. rewrite mod_plus_mod by lia. reflexivity.
  - rewrite Ht. rewrite (containsSequence_ghost B T sq s) by lia. cbn [bind]. fold off.
    destruct (off <? T - B) eqn:E3; [|reflexivity].
    rewrite umod_ok by lia. cbn [bind].
    rewrite u8_small by (unfold s in *; lia).
    f_equal. f_equal. unfold with_base. f_equal.
    unfold off. rewrite Z.add_comm with (n := B). rewrite <- Z.add_assoc.
    rewrite mod_plus_mod by lia. f_equal. lia.
Qed.

(* processNACK: a NACK for index e = B + off (off <= T - B) moves the base to e *)
Lemma processNACK_ghost q n B T sq :
  sender_ok q n B T -> 0 <= sq < 256 ->
  let s := n + 1 in
  let off := (sq - B) mod s in
  queue_processNACK q sq =
    if (sq <? s) && (off <=? T - B)
    then Ok (with_base q ((B + off) mod s), negb (off =? T - B), if off =? T - B then true else negb (off =? 0))
    else Ok (q, false, false).
Proof.
  intros Hok Hsq s off. pose proof Hok as [Hn HBT Hw Hs Hb Ht].
  fold s in Hs, Hb, Ht. assert (0 < s) as Hs0 by (unfold s; lia).
  unfold queue_processNACK.
  pose proof (mod_bound B s Hs0) as HbB. pose proof (mod_bound T s Hs0) as HbT.
  pose proof (mod_bound (sq - B) s Hs0) as Hoff. fold off in Hoff.
  rewrite Hs. destruct (s <=? sq) eqn:E1.
  { destruct (sq <? s) eqn:E; [lia|]. reflexivity. }
  destruct (sq <? s) eqn:E1'; [|lia]. cbn [andb].
  rewrite Ht, Hb.
  assert (Hsqoff : sq = (B + off) mod s).
  { unfold off. rewrite Z.add_comm. rewrite mod_plus_mod by lia.
    replace (sq - B + B) with sq by lia. rewrite mod_lo; lia. }
  destruct (sq =? T mod s) eqn:E2.
  - (* NACK for top: off = T - B *)
    assert (off = T - B) as HoffT.
    { unfold off. replace sq with (T mod s) by lia.
      rewrite Zminus_mod_idemp_l. apply mod_lo. lia. }
    rewrite HoffT. rewrite Z.leb_refl, Z.eqb_refl. cbn [negb].
    f_equal. f_equal. f_equal. unfold with_base. f_equal.
    replace (B + (T - B)) with T by lia. reflexivity.
  - rewrite (containsSequence_ghost B T sq s) by lia. cbn [bind]. fold off.
    assert (off <> T - B) as Hne.
    { intros Heq. rewrite Hsqoff, Heq in E2. replace (B + (T - B)) with T in E2 by lia. lia. }
    destruct (off <? T - B) eqn:E3.
    + destruct (off <=? T - B) eqn:E4; [|lia]. cbn [negb].
      destruct (off =? T - B) eqn:E5; [lia|]. cbn [negb].
      destruct (B mod s =? sq) eqn:E6.
      * assert (off = 0) as Hoff0.
        { unfold off. replace (sq - B) with (B mod s - B) by lia.
          rewrite Zminus_mod_idemp_l. rewrite Z.sub_diag. apply Z.mod_0_l. lia. }
        cbn [negb]. rewrite Hoff0. cbn [Z.eqb negb].
        f_equal. f_equal. f_equal. unfold with_base. f_equal. rewrite Z.add_0_r. lia.
      * assert (off <> 0) as Hoffn.
        { intros H0. rewrite H0, Z.add_0_r in Hsqoff. lia. }
        cbn [negb]. destruct (off =? 0) eqn:E7; [lia|]. cbn [negb].
        f_equal. f_equal. f_equal. unfold with_base. f_equal. exact Hsqoff.
    + destruct (off <=? T - B) eqn:E4; [lia|]. reflexivity.
Qed.

(* addPacket: T advances by one; the slot T mod s receives the packet *)
Lemma addPacket_ghost q n B T p :
  sender_ok q n B T -> len (queue_content q) = n + 1 ->
  exists c',
    upd (queue_content q) (T mod (n + 1)) (Some (set_PacketData_Seq p (T mod (n + 1)))) = Ok c' /\
    queue_addPacket q p =
      Ok (set_queue_sequenceTop (set_queue_content q c') ((T + 1) mod (n + 1)),
          set_PacketData_Seq p (T mod (n + 1))).
Proof.
  intros [Hn HBT Hw Hs Hb Ht] Hlen. set (s := n + 1) in *.
  assert (0 < s) as Hs0 by (unfold s; lia).
  pose proof (mod_bound T s Hs0) as HbT.
  unfold queue_addPacket. rewrite Ht.
  destruct (upd (queue_content q) (T mod s) (Some (set_PacketData_Seq p (T mod s)))) as [c'|] eqn:E.
  - exists c'. split; [reflexivity|]. cbn [bind]. cbn [queue_sequenceTop set_queue_content queue_cfg].
    rewrite Ht, Hs. rewrite umod_ok by lia. cbn [bind].
    rewrite u8_small by (unfold s in *; lia). rewrite mod_plus_mod by lia. reflexivity.
  - exfalso. unfold upd in E. destruct (T mod s <? 0) eqn:E1; [lia|].
    destruct (upd_nat (queue_content q) (Z.to_nat (T mod s)) _) eqn:E2; [discriminate|].
    clear E. revert E2. unfold len in Hlen.
    assert (Z.to_nat (T mod s) < length (queue_content q))%nat as Hlt by lia.
    revert Hlt. generalize (Z.to_nat (T mod s)). generalize (queue_content q).
    induction l as [|h t IH]; intros k Hk; cbn in *; [lia|].
    destruct k; [discriminate|]. destruct (upd_nat t k _) eqn:E3; [discriminate|].
    intros _. apply (IH k); [lia|exact E3].
Qed.

(* ---- range theorems for arbitrary uint8 inputs (C07 / C09) ---- *)

Definition wsize (s base top : Z) : Z := (top - base) mod s.

Lemma sender_ok_of_fields q s base top :
  2 <= s <= 255 -> 0 <= base < s -> 0 <= top < s ->
  queueCfg_s (queue_cfg q) = s -> queue_sequenceBase q = base -> queue_sequenceTop q = top ->
  sender_ok q (s - 1) base (base + wsize s base top).
Proof.
  intros Hs Hb Ht Hcs Hqb Hqt. unfold wsize.
  pose proof (mod_bound (top - base) s ltac:(lia)).
  constructor; replace (s - 1 + 1) with s by lia; try lia; try assumption.
  - rewrite Hqb. rewrite mod_lo; lia.
  - rewrite Hqt. rewrite Z.add_comm. rewrite mod_plus_mod by lia.
    replace (top - base + base) with top by lia. rewrite mod_lo; lia.
Qed.

Lemma processACK_in_range q s base top sq :
  2 <= s <= 255 -> 0 <= base < s -> 0 <= top < s -> 0 <= sq < 256 ->
  queueCfg_s (queue_cfg q) = s -> queue_sequenceBase q = base -> queue_sequenceTop q = top ->
  exists q' r, queue_processACK q sq = Ok (q', r) /\
    0 <= queue_sequenceBase q' < s /\ queue_sequenceTop q' = top /\
    queueCfg_s (queue_cfg q') = s /\ queue_content q' = queue_content q /\
    wsize s (queue_sequenceBase q') top <= wsize s base top /\
    (r = false -> q' = q).
Proof.
  intros Hs Hb Ht Hq Hcs Hqb Hqt.
  pose proof (sender_ok_of_fields q s base top Hs Hb Ht Hcs Hqb Hqt) as Hok.
  pose proof (processACK_ghost q (s - 1) base _ sq Hok Hq) as H. cbv zeta in H.
  replace (s - 1 + 1) with s in H by lia.
  set (w := wsize s base top) in *. set (off := (sq - base) mod s) in *.
  pose proof (mod_bound (sq - base) s ltac:(lia)) as Hoff. fold off in Hoff.
  assert (0 <= w < s) as Hw by (unfold w, wsize; apply mod_bound; lia).
  replace (base + w - base) with w in H by lia.
  destruct ((sq <? s) && (off <? w)) eqn:E.
  - apply andb_true_iff in E. destruct E as [_ E].
    eexists _, _. split; [exact H|]. unfold with_base. cbn.
    pose proof (mod_bound (base + off + 1) s ltac:(lia)).
    assert (top = (base + w) mod s) as Htop.
    { unfold w, wsize. rewrite Z.add_comm. rewrite mod_plus_mod by lia.
      replace (top - base + base) with top by lia. rewrite mod_lo; lia. }
    assert (wsize s ((base + off + 1) mod s) top <= w) as Hsz.
    { unfold wsize. rewrite Htop at 1. rewrite <- Zminus_mod.
      replace (base + w - (base + off + 1)) with (w - off - 1) by lia.
      rewrite mod_lo by lia. lia. }
    repeat split; try lia; try assumption; try discriminate.
  - eexists _, _. split; [exact H|]. rewrite Hqb, Hqt.
    repeat split; try lia; try assumption.
Qed.

Lemma processNACK_in_range q s base top sq :
  2 <= s <= 255 -> 0 <= base < s -> 0 <= top < s -> 0 <= sq < 256 ->
  queueCfg_s (queue_cfg q) = s -> queue_sequenceBase q = base -> queue_sequenceTop q = top ->
  exists q' r1 r2, queue_processNACK q sq = Ok (q', r1, r2) /\
    0 <= queue_sequenceBase q' < s /\ queue_sequenceTop q' = top /\
    queueCfg_s (queue_cfg q') = s /\ queue_content q' = queue_content q /\
    wsize s (queue_sequenceBase q') top <= wsize s base top.
Proof.
  intros Hs Hb Ht Hq Hcs Hqb Hqt.
  pose proof (sender_ok_of_fields q s base top Hs Hb Ht Hcs Hqb Hqt) as Hok.
  pose proof (processNACK_ghost q (s - 1) base _ sq Hok Hq) as H. cbv zeta in H.
  replace (s - 1 + 1) with s in H by lia.
  set (w := wsize s base top) in *. set (off := (sq - base) mod s) in *.
  pose proof (mod_bound (sq - base) s ltac:(lia)) as Hoff. fold off in Hoff.
  assert (0 <= w < s) as Hw by (unfold w, wsize; apply mod_bound; lia).
  replace (base + w - base) with w in H by lia.
  destruct ((sq <? s) && (off <=? w)) eqn:E.
  - apply andb_true_iff in E. destruct E as [_ E].
    eexists _, _, _. split; [exact H|]. unfold with_base. cbn.
    pose proof (mod_bound (base + off) s ltac:(lia)).
    assert (top = (base + w) mod s) as Htop.
    { unfold w, wsize. rewrite Z.add_comm. rewrite mod_plus_mod by lia.
      replace (top - base + base) with top by lia. rewrite mod_lo; lia. }
    assert (wsize s ((base + off) mod s) top <= w) as Hsz.
    { unfold wsize. rewrite Htop at 1. rewrite <- Zminus_mod.
      replace (base + w - (base + off)) with (w - off) by lia.
      rewrite mod_lo by lia. lia. }
    repeat split; try lia; try assumption.
  - eexists _, _, _. split; [exact H|]. rewrite Hqb, Hqt.
    repeat split; try lia; try assumption.
Qed.

Lemma size_in_range q s base top :
  2 <= s <= 255 -> 0 <= base < s -> 0 <= top < s ->
  queueCfg_s (queue_cfg q) = s -> queue_sequenceBase q = base -> queue_sequenceTop q = top ->
  queue_size q = Ok (wsize s base top) /\ 0 <= wsize s base top <= s - 1.
Proof.
  intros Hs Hb Ht Hcs Hqb Hqt.
  pose proof (sender_ok_of_fields q s base top Hs Hb Ht Hcs Hqb Hqt) as Hok.
  rewrite (size_ghost _ _ _ _ Hok). split; [f_equal; lia|].
  pose proof (mod_bound (top - base) s ltac:(lia)). unfold wsize. lia.
Qed.
