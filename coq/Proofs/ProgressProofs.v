(* Progress of the one-direction Go-Back-N system (Model/Gbn.v) in the reliable phase
   (Model/GbnProgress.v): from ANY state satisfying the invariant, one round
   drain / resend / drain delivers every queued packet and acknowledges all of them. *)
From Coq Require Import ZArith List Bool Lia.
From LNC Require Import GoLite MessagesGen QueueGen Gbn GbnProgress Window GbnInv GbnSafety.
Import ListNotations.
Open Scope Z_scope.

(* ---- exact effect of the three kinds of flush step ---- *)

Lemma reply_step st c : d_pend st = Some c ->
  dstep st DReply =
    DOk (mk_dsys (d_n st) (d_q st) (d_recv st) (d_rs st) None (d_fwd st)
           (d_bwd st ++ [mk_bitem c (d_R st)])
           (d_B st) (d_T st) (d_R st) (d_sent st) (d_delivered st)).
Proof. intros E. unfold dstep. rewrite E. reflexivity. Qed.

(* the receiver's test on an item that is not ahead of it *)
Lemma seq_test st it : Inv st -> fitem_ok st it -> f_d it <= d_R st ->
  (PacketData_Seq (f_pkt it) =? d_recv st) = (f_d it =? d_R st).
Proof.
  intros Hinv (Hi1 & Hi2 & Hi3 & Hi4 & Hi5 & Hi6) Hle.
  pose proof (i_sender st Hinv) as [Hn HBT Hw Hcs Hb Ht].
  assert (Hs0 : 0 < d_n st + 1) by lia.
  rewrite (i_seq st Hinv _ _ Hi6), (i_recv st Hinv).
  destruct (f_d it =? d_R st) eqn:E.
  - apply Z.eqb_eq in E. rewrite E. apply Z.eqb_refl.
  - apply Z.eqb_neq in E. apply Z.eqb_neq. apply mod_neq_window; lia.
Qed.

Lemma fwd_step st it rest : Inv st -> d_fwd st = it :: rest ->
  exists st', dstep st (DFwd Deliver) = DOk st' /\
    d_n st' = d_n st /\ d_T st' = d_T st /\ d_sent st' = d_sent st /\
    d_fwd st' = rest /\ d_bwd st' = d_bwd st /\ (exists c, d_pend st' = Some c) /\
    d_B st' = d_B st /\
    d_R st' = (if PacketData_Seq (f_pkt it) =? d_recv st then d_R st + 1 else d_R st).
Proof.
  intros Hinv E. pose proof (i_sender st Hinv) as [Hn _ _ _ _ _].
  unfold dstep. rewrite E. cbn [after_op]. cbv zeta.
  destruct (PacketData_Seq (f_pkt it) =? d_recv st).
  - rewrite (i_rs st Hinv). rewrite umod_ok by lia. cbn [lift].
    eexists. split; [reflexivity|]. simpl_st.
    repeat (split; [reflexivity|]). split; [eexists; reflexivity|]. split; reflexivity.
  - eexists. split; [reflexivity|]. simpl_st.
    repeat (split; [reflexivity|]). split; [eexists; reflexivity|]. split; reflexivity.
Qed.

(* delivering a control item always moves the base to the ghost index it carries *)
Lemma bwd_step st it rest : Inv st -> d_bwd st = it :: rest ->
  exists q', dstep st (DBwd Deliver) =
    DOk (mk_dsys (d_n st) q' (d_recv st) (d_rs st) (d_pend st) (d_fwd st) rest
           (b_e it) (d_T st) (d_R st) (d_sent st) (d_delivered st)).
Proof.
  intros Hinv Ebwd.
  pose proof Hinv as [Hsnd HR Hrecv Hrs Hclen Hslen Hpre Hseq Hcont Hcinv Hfwd Hfs Hbwd Hbs Hpend].
  pose proof Hsnd as [Hn HBT Hw Hcs Hb Ht].
  assert (Hs0 : 0 < d_n st + 1) by lia.
  rewrite Ebwd in Hbwd. pose proof (Forall_inv Hbwd) as Hit.
  unfold dstep. rewrite Ebwd. cbn [after_op]. cbv zeta.
  destruct it as [c e]. cbn [b_ctrl b_e]. destruct Hit as (He & Hc). cbn [b_e b_ctrl] in He, Hc.
  destruct c as [a|v]; cbn [ctrl_ok] in Hc.
  - destruct Hc as [He1 Ha].
    pose proof (mod_bound (e - 1) (d_n st + 1) Hs0) as Hab. rewrite <- Ha in Hab.
    pose proof (processACK_ghost _ _ _ _ a Hsnd ltac:(lia)) as Hack. cbv zeta in Hack.
    rewrite Hack. clear Hack.
    assert (Hoffeq : (a - d_B st) mod (d_n st + 1) = (e - 1 - d_B st) mod (d_n st + 1)).
    { rewrite Ha. apply Zminus_mod_idemp_l. }
    rewrite Hoffeq.
    destruct (Z.eq_dec e (d_B st)) as [HeB|HeB].
    + replace (e - 1 - d_B st) with (-1) by lia.
      rewrite (mod_neg (-1)) by lia.
      destruct (-1 + (d_n st + 1) <? d_T st - d_B st) eqn:E; [lia|].
      rewrite andb_false_r. cbn [lift].
      rewrite Z.sub_diag, Z.mod_0_l, Z.add_0_r by lia.
      exists (d_q st). rewrite HeB. reflexivity.
    + rewrite (mod_lo (e - 1 - d_B st)) by lia.
      destruct (a <? d_n st + 1) eqn:E1; [|lia].
      destruct (e - 1 - d_B st <? d_T st - d_B st) eqn:E2; [|lia].
      cbn [andb lift]. simpl_q.
      replace (d_B st + (e - 1 - d_B st) + 1) with e by lia.
      rewrite Hb. rewrite adv_eq by lia.
      replace (d_B st + (e - d_B st)) with e by lia.
      eexists. reflexivity.
  - pose proof (mod_bound e (d_n st + 1) Hs0) as Hvb. rewrite <- Hc in Hvb.
    pose proof (processNACK_ghost _ _ _ _ v Hsnd ltac:(lia)) as Hnack. cbv zeta in Hnack.
    rewrite Hnack. clear Hnack.
    assert (Hoffeq : (v - d_B st) mod (d_n st + 1) = e - d_B st).
    { rewrite Hc. rewrite Zminus_mod_idemp_l. apply mod_lo. lia. }
    rewrite Hoffeq.
    destruct (v <? d_n st + 1) eqn:E1; [|lia].
    destruct (e - d_B st <=? d_T st - d_B st) eqn:E2; [|lia].
    cbn [andb lift]. simpl_q.
    replace (d_B st + (e - d_B st)) with e by lia.
    rewrite Hb. rewrite adv_eq by lia.
    replace (d_B st + (e - d_B st)) with e by lia.
    eexists. reflexivity.
Qed.

(* ---- one flush step: it is enabled, and what it does ---- *)

Inductive flush_case (st st' : dsys) : Prop :=
  | fc_reply (c : ctrl) :
      d_pend st = Some c -> d_pend st' = None -> d_fwd st' = d_fwd st ->
      d_bwd st' = d_bwd st ++ [mk_bitem c (d_R st)] ->
      d_B st' = d_B st -> d_R st' = d_R st -> flush_case st st'
  | fc_fwd (it : fitem) (rest : list fitem) (c' : ctrl) :
      d_pend st = None -> d_fwd st = it :: rest -> d_fwd st' = rest -> d_bwd st' = d_bwd st ->
      d_pend st' = Some c' -> d_B st' = d_B st ->
      d_R st' = (if PacketData_Seq (f_pkt it) =? d_recv st then d_R st + 1 else d_R st) ->
      flush_case st st'
  | fc_bwd (it : bitem) (rest : list bitem) :
      d_pend st = None -> d_fwd st = [] -> d_bwd st = it :: rest ->
      d_pend st' = None -> d_fwd st' = [] -> d_bwd st' = rest ->
      d_B st' = b_e it -> d_R st' = d_R st -> flush_case st st'.

Lemma flush_exec st ev : Inv st -> flush_step st = Some ev ->
  exists st', dstep st ev = DOk st' /\
    d_n st' = d_n st /\ d_T st' = d_T st /\ d_sent st' = d_sent st /\ flush_case st st'.
Proof.
  intros Hinv Hf. unfold flush_step in Hf.
  destruct (d_pend st) as [c|] eqn:Ep.
  - inversion Hf; subst ev. rewrite (reply_step st c Ep).
    eexists. split; [reflexivity|]. simpl_st. repeat (split; [reflexivity|]).
    apply (fc_reply _ _ c); simpl_st; try reflexivity. exact Ep.
  - destruct (d_fwd st) as [|it rest] eqn:Ef.
    + destruct (d_bwd st) as [|bi brest] eqn:Eb; [discriminate|].
      inversion Hf; subst ev.
      destruct (bwd_step st bi brest Hinv Eb) as (q' & Hst). rewrite Hst.
      eexists. split; [reflexivity|]. simpl_st. repeat (split; [reflexivity|]).
      apply (fc_bwd _ _ bi brest); simpl_st; try reflexivity; assumption.
    + inversion Hf; subst ev.
      destruct (fwd_step st it rest Hinv Ef) as (st' & Hst & Hn' & HT' & Hs' & Hf' & Hb' & (c' & Hp') & HB' & HR').
      exists st'. split; [exact Hst|]. repeat (split; [assumption|]).
      apply (fc_fwd _ _ it rest c'); assumption.
Qed.

Definition meas (st : dsys) : nat :=
  (3 * length (d_fwd st) + length (d_bwd st) +
   match d_pend st with Some _ => 2 | None => 0 end)%nat.

Lemma flush_case_meas st st' : flush_case st st' -> (meas st' < meas st)%nat.
Proof.
  intros [c Hp Hp' Hf' Hb' _ _ | it rest c' Hp Hf Hf' Hb' Hp' _ _ | it rest Hp Hf Hb Hp' Hf' Hb' _ _];
    unfold meas.
  - rewrite Hp, Hp', Hf', Hb'. rewrite app_length. cbn [length]. lia.
  - rewrite Hp, Hp', Hf, Hf', Hb'. cbn [length]. lia.
  - rewrite Hp, Hp', Hf, Hf', Hb, Hb'. cbn [length]. lia.
Qed.

Lemma flush_none st : flush_step st = None ->
  d_fwd st = [] /\ d_bwd st = [] /\ d_pend st = None.
Proof.
  unfold flush_step. destruct (d_pend st); [discriminate|].
  destruct (d_fwd st); [|discriminate]. destruct (d_bwd st); [|discriminate]. auto.
Qed.

Lemma meas_fuel st : (meas st <= drain_fuel st)%nat.
Proof. unfold meas, drain_fuel. destruct (d_pend st); lia. Qed.

(* ---- drain: generic induction principle ---- *)

Lemma drain_gen (P : dsys -> Prop) :
  (forall st st', Inv st -> P st -> d_T st' = d_T st -> flush_case st st' -> Inv st' -> P st') ->
  forall fuel st, Inv st -> P st -> (meas st <= fuel)%nat ->
  exists st1, drain fuel st = DOk st1 /\ Inv st1 /\ P st1 /\
    d_n st1 = d_n st /\ d_T st1 = d_T st /\ d_sent st1 = d_sent st /\
    d_fwd st1 = [] /\ d_bwd st1 = [] /\ d_pend st1 = None.
Proof.
  intros Hstep. induction fuel as [|fuel IH]; intros st Hinv HP Hm.
  - cbn [drain]. exists st. unfold meas in Hm.
    destruct (d_fwd st) as [|fi fr] eqn:Ef; [|cbn [length] in Hm; lia].
    destruct (d_bwd st) as [|bi br] eqn:Eb; [|cbn [length] in Hm; lia].
    destruct (d_pend st) as [c|] eqn:Ep; [lia|].
    split; [reflexivity|]. split; [exact Hinv|]. split; [exact HP|].
    repeat (split; [reflexivity|]). reflexivity.
  - cbn [drain]. destruct (flush_step st) as [ev|] eqn:Ef.
    + destruct (flush_exec st ev Hinv Ef) as (st' & Hst & Hn' & HT' & Hs' & Hfc).
      rewrite Hst.
      pose proof (dstep_inv _ _ _ Hinv Hst) as Hinv'.
      pose proof (flush_case_meas _ _ Hfc) as Hlt.
      destruct (IH st' Hinv' (Hstep st st' Hinv HP HT' Hfc Hinv') ltac:(lia))
        as (st1 & Hd & Hinv1 & HP1 & Hn1 & HT1 & Hs1 & Hf1 & Hb1 & Hp1).
      exists st1. rewrite Hn1, HT1, Hs1.
      split; [exact Hd|]. split; [exact Hinv1|]. split; [exact HP1|].
      repeat (split; [assumption|]). assumption.
    + destruct (flush_none st Ef) as (Hf0 & Hb0 & Hp0).
      exists st. split; [reflexivity|]. split; [exact Hinv|]. split; [exact HP|].
      repeat (split; [first [assumption|reflexivity]|]). assumption.
Qed.

(* ---- the resend round ---- *)

(* the items of l carry the consecutive ghost indices a, a+1, .., b-1 *)
Fixpoint chain (a b : Z) (l : list fitem) : Prop :=
  match l with
  | [] => a = b
  | it :: rest => f_d it = a /\ chain (a + 1) b rest
  end.

Lemma chain_snoc l : forall a b it, chain a b l -> f_d it = b -> chain a (b + 1) (l ++ [it]).
Proof.
  induction l as [|x l IH]; intros a b it H Hd; cbn [chain app] in *.
  - subst a. split; [exact Hd|reflexivity].
  - destruct H as [H1 H2]. split; [exact H1|]. apply IH; assumption.
Qed.

Lemma nth_sent_some st d : Inv st -> 0 <= d < d_T st -> exists p, nth_sent st d = Some p.
Proof.
  intros Hinv Hd. pose proof (i_sentlen st Hinv) as Hl. unfold nth_sent.
  destruct (d <? 0) eqn:E; [lia|].
  destruct (nth_error (d_sent st) (Z.to_nat d)) as [p|] eqn:En; [eauto|].
  apply nth_error_None in En. unfold len in Hl. lia.
Qed.

Lemma retx_step st d : Inv st -> d_B st <= d < d_T st ->
  exists p, dstep st (DRetx (d mod (d_n st + 1))) =
    DOk (mk_dsys (d_n st) (d_q st) (d_recv st) (d_rs st) (d_pend st)
           (d_fwd st ++ [mk_fitem p d (d_T st)]) (d_bwd st)
           (d_B st) (d_T st) (d_R st) (d_sent st) (d_delivered st)).
Proof.
  intros Hinv Hd.
  pose proof (i_sender st Hinv) as [Hn HBT Hw Hcs Hb Ht].
  assert (Hs0 : 0 < d_n st + 1) by lia.
  pose proof (mod_bound d (d_n st + 1) Hs0) as Hk.
  assert (Hne : d mod (d_n st + 1) <> d_T st mod (d_n st + 1)) by (apply mod_neq_window; lia).
  destruct (nth_sent_some st d Hinv ltac:(lia)) as (p & Hp).
  exists p. unfold dstep. cbv zeta. rewrite Ht, Hcs.
  destruct (d mod (d_n st + 1) =? d_T st mod (d_n st + 1)) eqn:E1; [lia|].
  destruct (d mod (d_n st + 1) <? 0) eqn:E2; [lia|].
  destruct (d_n st + 1 <=? d mod (d_n st + 1)) eqn:E3; [lia|].
  cbn [orb].
  rewrite (i_content st Hinv d) by lia. rewrite Hp.
  rewrite (slot_index_unique (d_T st) (d_n st + 1) (d mod (d_n st + 1)) d) by lia.
  reflexivity.
Qed.

Lemma resend_run fuel : forall d st d0,
  Inv st -> d_B st <= d <= d_T st -> (Z.to_nat (d_T st - d) <= fuel)%nat ->
  chain d0 d (d_fwd st) ->
  exists st', drun st (retx_list fuel (d mod (d_n st + 1)) (d_T st mod (d_n st + 1)) (d_n st + 1)) = DOk st' /\
    chain d0 (d_T st) (d_fwd st') /\ d_bwd st' = d_bwd st /\ d_pend st' = d_pend st /\
    d_B st' = d_B st /\ d_T st' = d_T st /\ d_R st' = d_R st /\ d_sent st' = d_sent st /\
    d_n st' = d_n st.
Proof.
  induction fuel as [|fuel IH]; intros d st d0 Hinv Hd Hfuel Hch.
  - assert (d = d_T st) by lia. subst d. cbn [retx_list drun]. exists st.
    repeat split; try reflexivity. exact Hch.
  - pose proof (i_sender st Hinv) as [Hn HBT Hw Hcs Hb Ht].
    assert (Hs0 : 0 < d_n st + 1) by lia.
    cbn [retx_list].
    destruct (d mod (d_n st + 1) =? d_T st mod (d_n st + 1)) eqn:E.
    + assert (d = d_T st).
      { apply (mod_unique _ _ (d_n st + 1)); lia. }
      subst d. cbn [drun]. exists st. repeat split; try reflexivity. exact Hch.
    + assert (Hlt : d < d_T st).
      { destruct (Z.eq_dec d (d_T st)) as [Heq|Hneq]; [|lia]. subst d. rewrite Z.eqb_refl in E. discriminate. }
      destruct (retx_step st d Hinv ltac:(lia)) as (p & Hstep).
      cbn [drun]. rewrite Hstep.
      pose proof (dstep_inv _ _ _ Hinv Hstep) as Hinv'.
      rewrite mod_plus_mod by lia.
      specialize (IH (d + 1) _ d0 Hinv'). simpl_st_in IH.
      destruct IH as (st2 & Hrun & Hch2 & Hb2 & Hp2 & HB2 & HT2 & HR2 & Hs2 & Hn2).
      * lia.
      * lia.
      * apply chain_snoc; [exact Hch|reflexivity].
      * exists st2. split; [exact Hrun|]. repeat split; assumption.
Qed.

(* ---- the second drain ---- *)

Fixpoint last_e (l : list bitem) (dflt : Z) : Z :=
  match l with
  | [] => dflt
  | it :: rest => last_e rest (b_e it)
  end.

Lemma last_e_snoc l : forall dflt x, last_e (l ++ [x]) dflt = b_e x.
Proof. induction l as [|a l IH]; intros dflt x; cbn [app last_e]; [reflexivity|apply IH]. Qed.

(* the DATA channel holds d0 .. T-1 with d0 <= R, and the last control item that
   will be processed carries the index T *)
Definition P2 (T : Z) (st : dsys) : Prop :=
  d_T st = T /\
  (exists d0, d0 <= d_R st /\ chain d0 T (d_fwd st)) /\
  (d_fwd st = [] -> d_pend st = None -> last_e (d_bwd st) (d_B st) = T).

Lemma P2_step T st st' :
  Inv st -> P2 T st -> d_T st' = d_T st -> flush_case st st' -> Inv st' -> P2 T st'.
Proof.
  intros Hinv (HT & (d0 & Hd0 & Hch) & Hlast) HT' Hfc Hinv'.
  pose proof (i_R st Hinv) as HR.
  destruct Hfc as [c Hp Hp' Hf' Hb' HB' HR' | it rest c' Hp Hf Hf' Hb' Hp' HB' HR'
                  | it rest Hp Hf Hb Hp' Hf' Hb' HB' HR'].
  - split; [lia|]. split.
    + exists d0. rewrite HR', Hf'. split; assumption.
    + intros Hf0 _. rewrite Hb', last_e_snoc. cbn [b_e].
      rewrite Hf' in Hf0. rewrite Hf0 in Hch. cbn [chain] in Hch. lia.
  - split; [lia|]. split.
    + rewrite Hf in Hch. cbn [chain] in Hch. destruct Hch as [Hd Hch].
      pose proof (i_fwd st Hinv) as Hfwd. rewrite Hf in Hfwd.
      pose proof (Forall_inv Hfwd) as Hit.
      rewrite (seq_test st it Hinv Hit ltac:(lia)) in HR'.
      exists (d0 + 1). rewrite Hf'. split; [|exact Hch].
      rewrite HR'. destruct (f_d it =? d_R st) eqn:E; lia.
    + intros _ Hp0. rewrite Hp' in Hp0. discriminate.
  - split; [lia|]. split.
    + exists d0. rewrite HR', Hf'. rewrite Hf in Hch. split; assumption.
    + intros _ _. specialize (Hlast Hf Hp). rewrite Hb in Hlast. cbn [last_e] in Hlast.
      rewrite Hb', HB'. exact Hlast.
Qed.

(* ---- the theorem ---- *)

Theorem reliable_round_delivers : forall st, 1 <= d_n st <= 254 -> Inv st ->
  exists st', reliable_round st = DOk st' /\ Inv st' /\
    d_T st' = d_T st /\ d_R st' = d_T st /\ d_B st' = d_T st /\
    d_fwd st' = [] /\ d_bwd st' = [] /\ d_pend st' = None /\
    d_sent st' = d_sent st /\ d_delivered st' = d_sent st.
Proof.
  intros st Hn Hinv. unfold reliable_round, drain_all.
  (* first drain *)
  destruct (drain_gen (fun _ => True) (fun _ _ _ _ _ _ _ => I) (drain_fuel st) st Hinv I (meas_fuel st))
    as (st1 & Hd1 & Hinv1 & _ & Hn1 & HT1 & Hs1 & Hf1 & Hb1 & Hp1).
  rewrite Hd1. cbn [dbind].
  (* resend *)
  pose proof (i_sender st1 Hinv1) as [Hn1' HBT1 Hw1 Hcs1 Hbase1 Htop1].
  pose proof (i_R st1 Hinv1) as HR1.
  unfold resend_events. rewrite Hcs1, Hbase1, Htop1.
  destruct (resend_run (Z.to_nat (d_n st1 + 1)) (d_B st1) st1 (d_B st1) Hinv1)
    as (st2 & Hr2 & Hch2 & Hb2 & Hp2 & HB2 & HT2 & HR2 & Hs2 & Hn2).
  { lia. }
  { lia. }
  { rewrite Hf1. reflexivity. }
  rewrite Hr2. cbn [dbind].
  pose proof (drun_inv_gen _ _ _ Hinv1 Hr2) as Hinv2.
  (* second drain *)
  assert (HP2 : P2 (d_T st) st2).
  { split; [lia|]. split.
    - exists (d_B st1). split; [lia|]. rewrite <- HT1. exact Hch2.
    - intros Hf0 _. rewrite Hf0 in Hch2. cbn [chain] in Hch2.
      rewrite Hb2, Hb1. cbn [last_e]. lia. }
  destruct (drain_gen (P2 (d_T st)) (P2_step (d_T st)) (drain_fuel st2) st2 Hinv2 HP2 (meas_fuel st2))
    as (st3 & Hd3 & Hinv3 & (HT3' & (d0 & Hd0 & Hch3) & Hlast3) & Hn3 & HT3 & Hs3 & Hf3 & Hb3 & Hp3).
  exists st3. split; [exact Hd3|]. split; [exact Hinv3|].
  pose proof (i_R st3 Hinv3) as HR3.
  rewrite Hf3 in Hch3. cbn [chain] in Hch3.
  specialize (Hlast3 Hf3 Hp3). rewrite Hb3 in Hlast3. cbn [last_e] in Hlast3.
  assert (HRT : d_R st3 = d_T st) by lia.
  do 7 (split; [first [assumption | lia | congruence]|]).
  pose proof (i_prefix st3 Hinv3) as Hpre. pose proof (i_sentlen st3 Hinv3) as Hlen.
  rewrite Hpre. rewrite HRT, <- HT3', <- Hlen. unfold len. rewrite Nat2Z.id.
  rewrite firstn_all. congruence.
Qed.

Corollary reliable_round_from_any_run : forall n evs st, 1 <= n <= 254 -> drun (dinit n) evs = DOk st ->
  exists st', reliable_round st = DOk st' /\ quiescent st' = true /\ d_delivered st' = d_sent st.
Proof.
  intros n evs st Hn Hrun.
  pose proof (drun_inv n evs st Hn Hrun) as Hinv.
  pose proof (drun_n evs _ _ Hrun) as Hdn. cbn [dinit d_n] in Hdn.
  destruct (reliable_round_delivers st ltac:(lia) Hinv)
    as (st' & Hrr & _ & HT & HR & HB & Hf & Hb & Hp & _ & Hdel).
  exists st'. split; [exact Hrr|]. split; [|exact Hdel].
  unfold quiescent. rewrite HT, HR, HB, Hf, Hb, Hp. rewrite Z.eqb_refl. reflexivity.
Qed.

Print Assumptions reliable_round_delivers.
Print Assumptions reliable_round_from_any_run.
