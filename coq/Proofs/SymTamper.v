(* T6 tamper_agreement: agreement of the two sessions under an active man in the middle that
   cannot forge ciphertexts.  Order: SymLemmas.v, SymProofs.v, (SymHonest.v,) SymTamper.v *)
From Coq Require Import ZArith List Bool Lia.
From LNC Require Import Sym SymLemmas SymProofs.
Import ListNotations.
Open Scope Z_scope.

(* ---- token-by-token inversion of read_tokens ---- *)
Lemma rt_cons : forall p t ts fs r,
  read_tokens p (t :: ts) fs = Some r ->
  exists p' fs', read_tokens p [t] fs = Some (p', fs') /\ read_tokens p' ts fs' = Some r.
Proof.
  intros p t ts fs r H. destruct t; cbn [read_tokens] in *.
  - destruct fs as [|f fs]; [discriminate|]. destruct (is_point f); [|discriminate]. eauto.
  - destruct fs as [|f fs]; [discriminate|]. destruct (is_point f); [|discriminate]. eauto.
  - destruct fs as [|f fs]; [discriminate|].
    destruct (decrypt_and_hash (p_sym p) f) as [[s' rs]|]; [|discriminate].
    destruct (is_point rs); [|discriminate]. eauto.
  - destruct (dh_token p Tee); [|discriminate]. eauto.
  - destruct (dh_token p Tes); [|discriminate]. eauto.
  - destruct (dh_token p Tse); [|discriminate]. eauto.
  - destruct (dh_token p Tss); [|discriminate]. eauto.
Qed.

Lemma rt_nil : forall p fs p' fs', read_tokens p [] fs = Some (p', fs') -> p' = p /\ fs' = fs.
Proof. intros. cbn in H. inversion H; auto. Qed.

Lemma rt1_Te : forall p fs p' fs',
  read_tokens p [Te] fs = Some (p', fs') ->
  exists f, fs = f :: fs' /\ is_point f = true /\ p' = upd_sym (upd_re p (Some f)) (mix_hash (p_sym p) f).
Proof.
  intros p fs p' fs' H. cbn [read_tokens] in H.
  destruct fs as [|f fs]; [discriminate|]. destruct (is_point f) eqn:IP; [|discriminate].
  inversion H; subst. eauto.
Qed.

Lemma rt1_Tme : forall p fs p' fs',
  read_tokens p [Tme] fs = Some (p', fs') ->
  exists f, fs = f :: fs' /\ is_point f = true /\
    p' = upd_sym (upd_re p (Some (unmask f (p_pw p)))) (mix_hash (p_sym p) (unmask f (p_pw p))).
Proof.
  intros p fs p' fs' H. cbn [read_tokens] in H.
  destruct fs as [|f fs]; [discriminate|]. destruct (is_point f) eqn:IP; [|discriminate].
  inversion H; subst. eauto.
Qed.

Lemma rt1_Ts : forall p fs p' fs',
  read_tokens p [Ts] fs = Some (p', fs') ->
  exists rs, fs = seal_of (p_sym p) rs :: fs' /\ is_point rs = true /\
    p' = upd_sym (upd_rs p (Some rs)) (after_seal (p_sym p) rs).
Proof.
  intros p fs p' fs' H. cbn [read_tokens] in H.
  destruct fs as [|f fs]; [discriminate|].
  destruct (decrypt_and_hash (p_sym p) f) as [[s' rs]|] eqn:D; [|discriminate].
  destruct (is_point rs) eqn:IP; [|discriminate].
  apply decrypt_inv' in D. destruct D as [-> ->].
  inversion H; subst. eauto.
Qed.

Definition is_dh_token (t : token) : Prop :=
  match t with Tee | Tes | Tse | Tss => True | _ => False end.

Lemma rt1_dh : forall t p fs p' fs', is_dh_token t ->
  read_tokens p [t] fs = Some (p', fs') ->
  exists k, dh_token p t = Some k /\ p' = upd_sym p (mix_key (p_sym p) k) /\ fs' = fs.
Proof.
  intros t p fs p' fs' T H. destruct t; try contradiction; cbn [read_tokens] in H;
    match type of H with match ?d with _ => _ end = _ => destruct d as [k|] eqn:D end;
    try discriminate; inversion H; subst; eauto.
Qed.

(* ---- using the no-forgery hypothesis on a run with known wire ---- *)
Lemma nf_use3 : forall (adv : adversary) m1 m2 m3,
  (forall a m f, nth_error [m1; m2; m3] (Z.to_nat (a - 1)) = Some m -> 1 <= a ->
     In f (adv a m) -> is_seal f = true -> exists m', In m' [m1; m2; m3] /\ In f m') ->
  forall a m L f, nth_error [m1; m2; m3] (Z.to_nat (a - 1)) = Some m -> 1 <= a -> adv a m = L ->
    In f L -> is_seal f = true -> In f (m1 ++ m2 ++ m3).
Proof.
  intros adv m1 m2 m3 NF a m L f Hn Ha <- Hin Hs.
  destruct (NF a m f Hn Ha Hin Hs) as (m' & Hm & Hf).
  rewrite !in_app_iff.
  destruct Hm as [<-|[<-|[<-|[]]]]; auto.
Qed.

Lemma nf_use2 : forall (adv : adversary) m1 m2,
  (forall a m f, nth_error [m1; m2] (Z.to_nat (a - 1)) = Some m -> 1 <= a ->
     In f (adv a m) -> is_seal f = true -> exists m', In m' [m1; m2] /\ In f m') ->
  forall a m L f, nth_error [m1; m2] (Z.to_nat (a - 1)) = Some m -> 1 <= a -> adv a m = L ->
    In f L -> is_seal f = true -> In f (m1 ++ m2).
Proof.
  intros adv m1 m2 NF a m L f Hn Ha <- Hin Hs.
  destruct (NF a m f Hn Ha Hin Hs) as (m' & Hm & Hf).
  rewrite !in_app_iff.
  destruct Hm as [<-|[<-|[]]]; auto.
Qed.

(* ---- symbolic execution helpers ---- *)
Ltac pn H :=
  lazy -[dh unmask term_eqb decrypt_and_hash Z.leb Z.ltb Z.eqb Z.add Z.le Z.lt Z.max Z.min not
         c_kk c_si c_sr c_ei c_er c_pwi c_pwr c_exp_i c_exp_r c_payload c_plen c_mini c_maxi c_minr c_maxr
         write_act read_act read_tokens is_point In] in H;
  cbn [Z.add Pos.add Pos.succ Z.eqb Z.leb Z.ltb Z.compare Pos.compare Pos.compare_cont Pos.eqb
       CompOpp andb orb negb] in H.

Ltac rt_Te RT f IP :=
  let S := fresh "S" in let p' := fresh "p" in let fs' := fresh "fs" in
  apply rt_cons in RT; destruct RT as (p' & fs' & S & RT);
  apply rt1_Te in S; destruct S as (f & -> & IP & ->); pn RT.
Ltac rt_Tme RT f IP :=
  let S := fresh "S" in let p' := fresh "p" in let fs' := fresh "fs" in
  apply rt_cons in RT; destruct RT as (p' & fs' & S & RT);
  apply rt1_Tme in S; destruct S as (f & -> & IP & ->); pn RT.
Ltac rt_Ts RT rs IP :=
  let S := fresh "S" in let p' := fresh "p" in let fs' := fresh "fs" in
  apply rt_cons in RT; destruct RT as (p' & fs' & S & RT);
  apply rt1_Ts in S; destruct S as (rs & -> & IP & ->); pn RT.
Ltac rt_dh RT :=
  let S := fresh "S" in let p' := fresh "p" in let fs' := fresh "fs" in
  let k := fresh "k" in let D := fresh "D" in
  apply rt_cons in RT; destruct RT as (p' & fs' & S & RT);
  apply rt1_dh in S; [|exact I]; destruct S as (k & D & -> & ->);
  pn D; inversion D; subst k; clear D; pn RT.
Ltac rt_end RT :=
  apply rt_nil in RT; let A := fresh in let B := fresh in destruct RT as [A B];
  try subst.

Lemma xx_tamper : forall c adv si sr, c_kk c = false -> no_forgery_run c adv ->
  r_init (run c adv) = Completed si -> r_resp (run c adv) = Completed sr ->
  s_send si = s_recv sr /\ s_recv si = s_send sr /\
  s_remote si = Some (Pub (Priv (c_sr c))) /\ s_remote sr = Some (Pub (Priv (c_si c))) /\
  s_auth si = Some (c_payload c).
Proof.
  intros c adv si sr K NF Hi Hr.
  destruct (run_completed c adv si sr Hi Hr) as (pi & pr & Ei & Er & ER).
  unfold no_forgery_run in NF. rewrite ER in Hi, Hr, NF. rewrite K in *.
  unfold mk_init in Ei. unfold mk_resp in Er. rewrite K in *.
  pn Ei. pn Er. inversion Ei; subst pi; clear Ei. inversion Er; subst pr; clear Er.
  destruct (run_xx_completed _ _ _ _ _ Hi Hr)
    as (i1 & m1 & r1 & r2 & m2 & i2 & i3 & m3 & r3 & W1 & R1 & W2 & R2 & W3 & R3 & WIRE & -> & ->).
  rewrite WIRE in NF. clear Hi Hr ER WIRE.
  (* act 1, written *)
  apply write_act_inv in W1. destruct W1 as (q & out & W & H). pn W. inversion W; subst q out; clear W.
  pn H. destruct H as [(_ & Vi & -> & ->) | [(? & _) | (? & _)]]; try discriminate.
  (* act 1, read *)
  apply read_act_inv in R1. destruct R1 as (v1 & fs1 & q & rest & E1 & _ & RT & H).
  pn RT. rt_Tme RT f1 IP1. rt_end RT.
  remember (unmask f1 (c_pwr c)) as e1 eqn:He1. clear He1 IP1.
  pn H. destruct H as [(_ & Vv1 & -> & ->) | [(? & _) | (? & _)]]; try discriminate.
  (* act 2, written *)
  apply write_act_inv in W2. destruct W2 as (q & out & W & H). pn W. inversion W; subst q out; clear W.
  pn H.
  destruct H as [(? & _) | [(_ & Vr0 & PL & -> & ->) | (_ & Vr12 & -> & ->)]]; [congruence | | ].
  (* act 2, read *)
  all: apply read_act_inv in R2; destruct R2 as (v2 & fs2 & q & rest & E2 & _ & RT & H).
  all: pn RT; rt_Te RT f2 IP2; rt_dh RT; rt_Ts RT rs2 IP2'; rt_dh RT; rt_end RT.
  all: pn H.
  all: destruct H as [(? & _) | [(_ & Vv20 & x & -> & ->) | (_ & Vv212 & x & -> & ->)]]; [congruence | | ].
  (* act 3, written *)
  all: apply write_act_inv in W3; destruct W3 as (q & out & W & H); pn W; inversion W; subst q out; clear W.
  all: pn H; destruct H as [(_ & Vi3 & -> & ->) | [(? & _) | (? & _)]]; try discriminate.
  (* act 3, read *)
  all: apply read_act_inv in R3; destruct R3 as (v3 & fs3 & q & rest & E3 & _ & RT & H).
  all: pn RT; rt_Ts RT rs3 IP3; rt_dh RT; rt_end RT.
  all: pn H; destruct H as [(_ & Vv3 & -> & ->) | [(? & _) | (? & _)]]; try discriminate.
  all: pn E1; pn E2; pn E3.
  all: pose proof (nf_use3 _ _ _ _ NF) as NF'; clear NF.
  (* (1) the responder's act-1 MAC *)
  all: pose proof (NF' 1 _ _ _ eq_refl ltac:(lia) E1 (or_intror (or_intror (or_introl eq_refl))) eq_refl) as A1.
  all: cbn [app In] in A1.
  all: repeat (destruct A1 as [A1|A1]); try discriminate A1; try contradiction.
  all: injection A1 as A1; subst e1.
  (* (2) the initiator reads the responder's static key *)
  all: pose proof (NF' 2 _ _ _ eq_refl ltac:(lia) E2 (or_intror (or_intror (or_introl eq_refl))) eq_refl) as A2.
  all: cbn [app In] in A2.
  all: repeat (destruct A2 as [A2|A2]); try discriminate A2; try contradiction.
  all: injection A2; clear A2; intros; subst f2 rs2.
  (* (3) the initiator reads the first payload seal *)
  all: pose proof (NF' 2 _ _ _ eq_refl ltac:(lia) E2 (or_intror (or_intror (or_intror (or_introl eq_refl)))) eq_refl) as A3.
  all: cbn [app In] in A3.
  all: repeat (destruct A3 as [A3|A3]); try discriminate A3; try contradiction.
  all: injection A3; clear A3; intros; subst x.
  (* (4) the responder reads the initiator's static key *)
  all: pose proof (NF' 3 _ _ _ eq_refl ltac:(lia) E3 (or_intror (or_introl eq_refl)) eq_refl) as A4.
  all: cbn [app In] in A4.
  all: repeat (destruct A4 as [A4|A4]); try discriminate A4; try contradiction.
  all: injection A4; clear A4; intros; subst rs3.
  all: psimpl.
  all: pose proof (dh_comm (c_er c) (c_si c)); repeat split; congruence.
Qed.

Lemma kk_tamper : forall c adv si sr, c_kk c = true -> no_forgery_run c adv ->
  r_init (run c adv) = Completed si -> r_resp (run c adv) = Completed sr ->
  s_send si = s_recv sr /\ s_recv si = s_send sr /\
  s_remote si = Some (Pub (Priv (c_sr c))) /\ s_remote sr = Some (Pub (Priv (c_si c))) /\
  s_auth si = Some (c_payload c).
Proof.
  intros c adv si sr K NF Hi Hr.
  destruct (run_completed c adv si sr Hi Hr) as (pi & pr & Ei & Er & ER).
  unfold no_forgery_run in NF. rewrite ER in Hi, Hr, NF. rewrite K in *.
  unfold mk_init in Ei. unfold mk_resp in Er. rewrite K in *.
  remember (c_exp_i c) as xi eqn:Hxi. remember (c_exp_r c) as xr eqn:Hxr. clear Hxi Hxr.
  unfold new_party in Ei, Er. cbn [andb] in Ei, Er.
  destruct (c_maxi c <? 2); [discriminate|]. destruct (c_maxr c <? 2); [discriminate|].
  pn Ei. pn Er. inversion Ei; subst pi; clear Ei. inversion Er; subst pr; clear Er.
  destruct (run_kk_completed _ _ _ _ _ Hi Hr)
    as (i1 & m1 & r1 & r2 & m2 & i2 & W1 & R1 & W2 & R2 & WIRE & -> & ->).
  rewrite WIRE in NF. clear Hi Hr ER WIRE.
  (* act 1, written *)
  apply write_act_inv in W1. destruct W1 as (q & out & W & H). pn W. inversion W; subst q out; clear W.
  pn H. destruct H as [(_ & Vi & -> & ->) | [(? & _) | (? & _)]]; try discriminate.
  (* act 1, read *)
  apply read_act_inv in R1. destruct R1 as (v1 & fs1 & q & rest & E1 & _ & RT & H).
  pn RT. rt_Te RT f1 IP1. rt_dh RT. rt_dh RT. rt_end RT.
  pn H. destruct H as [(_ & Vv1 & -> & ->) | [(? & _) | (? & _)]]; try discriminate.
  (* act 2, written *)
  apply write_act_inv in W2. destruct W2 as (q & out & W & H). pn W. inversion W; subst q out; clear W.
  pn H.
  destruct H as [(? & _) | [(_ & Vr0 & PL & -> & ->) | (_ & Vr12 & -> & ->)]]; [congruence | | ].
  (* act 2, read *)
  all: apply read_act_inv in R2; destruct R2 as (v2 & fs2 & q & rest & E2 & _ & RT & H).
  all: pn RT; rt_Te RT f2 IP2; rt_dh RT; rt_dh RT; rt_end RT.
  all: pn H.
  all: destruct H as [(? & _) | [(_ & Vv20 & x & -> & ->) | (_ & Vv212 & x & -> & ->)]]; [congruence | | ].
  all: pn E1; pn E2.
  all: pose proof (nf_use2 _ _ _ NF) as NF'; clear NF.
  (* (1) the responder's act-1 payload seal *)
  all: pose proof (NF' 1 _ _ _ eq_refl ltac:(lia) E1 (or_intror (or_intror (or_introl eq_refl))) eq_refl) as A1.
  all: cbn [app In] in A1.
  all: repeat (destruct A1 as [A1|A1]); try discriminate A1; try contradiction.
  all: injection A1; clear A1; intros; subst xi xr f1.
  (* (2) the initiator reads the first payload seal of act 2 *)
  all: pose proof (NF' 2 _ _ _ eq_refl ltac:(lia) E2 (or_intror (or_intror (or_introl eq_refl))) eq_refl) as A2.
  all: cbn [app In] in A2.
  all: repeat (destruct A2 as [A2|A2]); try discriminate A2; try contradiction.
  all: injection A2; clear A2; intros; subst f2 x.
  all: psimpl.
  all: repeat split; congruence.
Qed.

(* ------------------------------------------------------------------ *)
(* T6.  Proved under the run-relative no-forgery condition no_forgery_run (implied by
   no_forgery; see SymProofs.v for why no_forgery itself is unsatisfiable by any forwarding
   adversary).  No side condition is needed: wf c is not used, the pass phrases, the payload
   and, for KK, the stored keys c_exp_i / c_exp_r are arbitrary terms (a KK run with wrong stored
   keys simply does not complete, so the conclusion about s_remote holds for completed runs). *)
Theorem tamper_agreement_run : forall c adv si sr, no_forgery_run c adv ->
  r_init (run c adv) = Completed si -> r_resp (run c adv) = Completed sr ->
  s_send si = s_recv sr /\ s_recv si = s_send sr /\
  s_remote si = Some (Pub (Priv (c_sr c))) /\ s_remote sr = Some (Pub (Priv (c_si c))) /\
  s_auth si = Some (c_payload c).
Proof.
  intros c adv si sr NF Hi Hr.
  destruct (c_kk c) eqn:K; [eapply kk_tamper | eapply xx_tamper]; eauto.
Qed.

Theorem tamper_agreement : forall c adv si sr, wf c -> no_forgery c adv ->
  r_init (run c adv) = Completed si -> r_resp (run c adv) = Completed sr ->
  s_send si = s_recv sr /\ s_recv si = s_send sr /\
  s_remote si = Some (Pub (Priv (c_sr c))) /\ s_remote sr = Some (Pub (Priv (c_si c))) /\
  s_auth si = Some (c_payload c).
Proof.
  intros c adv si sr _ NF. apply tamper_agreement_run. apply no_forgery_run_weaker. exact NF.
Qed.

(* consequences for the honest channel: the faithful and the version-swapping adversaries *)
Corollary faithful_agreement : forall c si sr,
  r_init (run c faithful) = Completed si -> r_resp (run c faithful) = Completed sr ->
  s_send si = s_recv sr /\ s_recv si = s_send sr /\
  s_remote si = Some (Pub (Priv (c_sr c))) /\ s_remote sr = Some (Pub (Priv (c_si c))) /\
  s_auth si = Some (c_payload c).
Proof. intros c si sr. apply tamper_agreement_run. apply faithful_no_forgery_run. Qed.

Corollary version_swap_keys_agree : forall c si sr,
  r_init (run c version_swap) = Completed si -> r_resp (run c version_swap) = Completed sr ->
  s_send si = s_recv sr /\ s_recv si = s_send sr /\
  s_remote si = Some (Pub (Priv (c_sr c))) /\ s_remote sr = Some (Pub (Priv (c_si c))) /\
  s_auth si = Some (c_payload c).
Proof. intros c si sr. apply tamper_agreement_run. apply version_swap_no_forgery_run. Qed.

Print Assumptions tamper_agreement_run.
Print Assumptions tamper_agreement.
