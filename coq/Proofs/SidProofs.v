(* Session identifiers (conndata.go SID), the choice of the handshake pattern
   from the stored remote key, and the rejection of an unpaired client by a
   paired server, over the symbolic model Model/Sym.v. *)
From Coq Require Import ZArith List Bool Lia.
From LNC Require Import Sym.
Import ListNotations.
Open Scope Z_scope.

(* ------------------------------------------------------------------ *)
(* session ids                                                         *)
(* ------------------------------------------------------------------ *)

(* D1: before pairing the id depends on the pass-phrase entropy only *)
Theorem sid_same_passphrase : forall a b e, sid_of (Priv a) None e = sid_of (Priv b) None e.
Proof. reflexivity. Qed.

Lemma dh_sym : forall a b, dh (Priv a) (Pub (Priv b)) = dh (Priv b) (Pub (Priv a)).
Proof.
  intros a b. unfold dh.
  destruct (a <=? b) eqn:E1; destruct (b <=? a) eqn:E2; try reflexivity.
  - assert (a = b) by lia. subst. reflexivity.
  - lia.
Qed.

(* D2: after pairing both ends compute the same id, whatever their entropy *)
Theorem sid_symmetric : forall a b e1 e2,
  sid_of (Priv a) (Some (Pub (Priv b))) e1 = sid_of (Priv b) (Some (Pub (Priv a))) e2.
Proof. intros. unfold sid_of. f_equal. apply dh_sym. Qed.

(* D3: pairing changes the id *)
Theorem sid_pairing_changes : forall a b e e',
  sid_of (Priv a) (Some (Pub (Priv b))) e <> sid_of (Priv a) None e'.
Proof. intros. unfold sid_of. discriminate. Qed.

(* D4: unpaired ids are equal only for equal entropy *)
Theorem sid_distinct_entropy : forall l1 l2 e1 e2,
  sid_of l1 None e1 = sid_of l2 None e2 -> e1 = e2.
Proof. intros l1 l2 e1 e2 H. unfold sid_of in H. injection H as H. exact H. Qed.

(* D5: paired ids are equal only for the same pair of keys *)
Theorem sid_distinct_keys : forall a b a' b' e e',
  sid_of (Priv a) (Some (Pub (Priv b))) e = sid_of (Priv a') (Some (Pub (Priv b'))) e' ->
  (a = a' /\ b = b') \/ (a = b' /\ b = a').
Proof.
  intros a b a' b' e e' H. unfold sid_of, dh in H.
  destruct (a <=? b); destruct (a' <=? b'); injection H as H1 H2; subst; auto.
Qed.

(* D6: KK exactly when a remote key is stored *)
Theorem pattern_after_pairing : forall r, pattern_kk (Some r) = true /\ pattern_kk None = false.
Proof. intros r. split; reflexivity. Qed.

(* ------------------------------------------------------------------ *)
(* D7: an unpaired client against a paired server                      *)
(* ------------------------------------------------------------------ *)

(* what the two constructors guarantee about the symmetric state *)
Definition fresh_xx_sym (p : party) : Prop :=
  p_sym p = mix_hash (mk_sym (ProtoName false) (ProtoName false) ZeroKey 0) Prologue.

Lemma new_party_xx_sym : forall init s e rs pw pl n mn mx p,
  new_party init false s e rs pw pl n mn mx = Some p ->
  fresh_xx_sym p /\ p_kk p = false /\ p_init p = init.
Proof.
  intros init s e rs pw pl n mn mx p H. unfold new_party in H. cbn [andb] in H.
  injection H as <-. unfold fresh_xx_sym. cbn. auto.
Qed.

Lemma new_party_kk_resp : forall s e r pw pl n mn mx p,
  new_party false true s e (Some r) pw pl n mn mx = Some p ->
  key (p_sym p) = ZeroKey /\ p_kk p = true /\ p_init p = false /\
  p_rs p = Some r /\ p_static p = s.
Proof.
  intros s e r pw pl n mn mx p H. unfold new_party in H. cbn [andb] in H.
  destruct (mx <? 2); [discriminate|].
  injection H as <-. cbn. auto.
Qed.

(* the act-1 message of an XX initiator: its ciphertext is sealed under the
   all-zero key, because no DH has been mixed in yet *)
Lemma xx_act1_shape : forall p p1 m1,
  key (p_sym p) = ZeroKey ->
  write_act p [Tme] 1 = Some (p1, m1) ->
  exists n h, m1 = [Lit [p_version p]; Mask (Pub (p_eph p)) (p_pw p); Seal ZeroKey n h Empty].
Proof.
  intros p p1 m1 Hk H. unfold write_act in H. cbn [write_tokens app] in H.
  destruct (p_version p =? 0).
  - change (1 =? 2) with false in H. unfold encrypt_and_hash in H.
    injection H as _ <-. cbn. rewrite Hk. eauto.
  - destruct ((p_version p =? 1) || (p_version p =? 2)); [|discriminate].
    change (1 =? 2) with false in H. unfold encrypt_and_hash in H.
    injection H as _ <-. cbn. rewrite Hk. eauto.
Qed.

Lemma decrypt_zero_key_fails : forall s n h p,
  key s <> ZeroKey -> decrypt_and_hash s (Seal ZeroKey n h p) = None.
Proof.
  intros s n h p Hk. unfold decrypt_and_hash.
  destruct (key s); try reflexivity. congruence.
Qed.

(* a KK responder reading such a message fails: whatever point it is given, it
   has mixed two DH results into its key before decrypting *)
Lemma kk_resp_rejects_zero_key : forall server v f n h r,
  p_init server = false -> p_rs server = Some r ->
  read_act server [Te; Tes; Tss] 1 [Lit [v]; f; Seal ZeroKey n h Empty] = None.
Proof.
  intros server v f n h r Hi Hrs. unfold read_act.
  change (1 =? 1) with true. change (1 =? 2) with false. cbn [orb andb].
  destruct (negb ((p_min server <=? v) && (v <=? p_max server))); [reflexivity|].
  rewrite Hi. cbn [read_tokens].
  destruct (is_point f); [|reflexivity].
  unfold dh_token.
  cbn [p_init p_static p_re p_rs upd_sym upd_re dh_opt].
  rewrite Hi. cbn [dh_opt p_init p_static p_re p_rs upd_sym upd_re].
  rewrite Hrs. cbn [dh_opt p_sym upd_sym].
  rewrite decrypt_zero_key_fails by (cbn; discriminate).
  destruct (v =? 0); [reflexivity|].
  destruct ((v =? 1) || (v =? 2)); reflexivity.
Qed.

(* the form with the structural premises only *)
Theorem stranger_rejected_gen : forall stranger server r,
  key (p_sym stranger) = ZeroKey ->
  p_init server = false -> p_rs server = Some r ->
  stranger_result stranger server = None.
Proof.
  intros stranger server r Hk Hi Hrs. unfold stranger_result.
  destruct (write_act stranger [Tme] 1) as [[p1 m1]|] eqn:E; [|reflexivity].
  destruct (xx_act1_shape _ _ _ Hk E) as (n & h & ->).
  eapply kk_resp_rejects_zero_key; eassumption.
Qed.

(* D7, as stated: both parties come out of the constructor *)
Theorem stranger_rejected : forall stranger server,
  p_kk stranger = false -> p_init stranger = true ->
  p_kk server = true -> p_init server = false ->
  (exists s0 e0 rs0 pw0 pl0 n0 mn mx,
     new_party true false s0 e0 rs0 pw0 pl0 n0 mn mx = Some stranger) ->
  (exists s1 e1 r1 pw1 pl1 n1 mn1 mx1,
     new_party false true s1 e1 (Some r1) pw1 pl1 n1 mn1 mx1 = Some server) ->
  stranger_result stranger server = None.
Proof.
  intros stranger server _ _ _ Hi
         (s0 & e0 & rs0 & pw0 & pl0 & n0 & mn & mx & Hs)
         (s1 & e1 & r1 & pw1 & pl1 & n1 & mn1 & mx1 & Hv).
  apply new_party_xx_sym in Hs. destruct Hs as (Hsym & _ & _).
  apply new_party_kk_resp in Hv. destruct Hv as (_ & _ & _ & Hrs & _).
  apply (stranger_rejected_gen stranger server r1); try assumption.
  rewrite Hsym. reflexivity.
Qed.

(* the rejection does not depend on which key the server stored, on the
   stranger's pass phrase, or on the versions either side supports; in
   particular knowing the pass phrase does not help once the server is paired *)
Corollary stranger_rejected_any_passphrase : forall s0 e0 pw0 mn mx stranger server r,
  new_party true false s0 e0 None pw0 Empty 0 mn mx = Some stranger ->
  p_init server = false -> p_rs server = Some r ->
  stranger_result stranger server = None.
Proof.
  intros s0 e0 pw0 mn mx stranger server r Hs Hi Hrs.
  apply new_party_xx_sym in Hs. destruct Hs as (Hsym & _ & _).
  apply (stranger_rejected_gen stranger server r); try assumption.
  rewrite Hsym. reflexivity.
Qed.

Print Assumptions sid_same_passphrase.
Print Assumptions sid_symmetric.
Print Assumptions sid_pairing_changes.
Print Assumptions sid_distinct_entropy.
Print Assumptions sid_distinct_keys.
Print Assumptions pattern_after_pairing.
Print Assumptions stranger_rejected_gen.
Print Assumptions stranger_rejected.
Print Assumptions stranger_rejected_any_passphrase.

(* ------------------------------------------------------------------ *)
(* a first pairing that loses its last message                         *)
(* ------------------------------------------------------------------ *)
Definition drop_act3 : adversary := fun a m => if a =? 3 then [] else m.

(* XX at version 2, act 3 never arrives: the initiator has completed and called SetRemote with the responder's key,
   the responder has failed and stored nothing; the rendezvous and the pattern each side derives from what it now
   holds differ, for any pass phrase *)
Theorem interrupted_first_pairing_splits : forall e e',
  let r := run (example_cfg false 0 2 0 2) drop_act3 in
  (exists s, r_init r = Completed s /\ s_set_remote s = true /\ s_remote s = Some (Pub (Priv 2))) /\
  r_resp r = Failed 3 /\
  sid_of (Priv 1) (Some (Pub (Priv 2))) e <> sid_of (Priv 2) None e' /\
  pattern_kk (Some (Pub (Priv 2))) = true /\ pattern_kk None = false.
Proof.
  intros e e'. cbv zeta.
  split.
  - eexists. split; [vm_compute; reflexivity|]. split; reflexivity.
  - split; [vm_compute; reflexivity|]. split; [unfold sid_of; discriminate|]. split; reflexivity.
Qed.
