From Coq Require Import ZArith List Bool Lia.
From LNC Require Import GbnTimed.
Import ListNotations.
Open Scope Z_scope.

(* a closure by keepalive only ever happens after a silence of at least ping + pong *)
Lemma kstep_close_needs_silence ping pong slack st t st' :
  0 <= slack -> k_closed st = false -> kstep ping pong slack st (t, KClose) = Some st' ->
  ping + pong <= t - k_last st /\ k_closed st' = true.
Proof.
  intros Hs Hc H. unfold kstep in H. rewrite Hc in H.
  destruct (ping + pong + slack <? t - k_last st) eqn:E1.
  - injection H as <-. split; [lia|reflexivity].
  - destruct (t - k_last st <? ping + pong) eqn:E2; [discriminate|].
    injection H as <-. split; [lia|reflexivity].
Qed.

(* live peer: every keepalive closure in an accepted history is preceded by a silence of at
   least ping + pong (so a peer heard from more often than that is never closed, however long
   the connection stays idle) *)
Theorem closure_only_after_silence ping pong slack : 0 <= slack ->
  forall tr st st', k_closed st = false -> krun ping pong slack st tr = Some st' -> k_closed st' = true ->
  exists pre t post st1, tr = pre ++ (t, KClose) :: post /\ krun ping pong slack st pre = Some st1 /\
                         k_closed st1 = false /\ ping + pong <= t - k_last st1.
Proof.
  intros Hs. induction tr as [|[t ev] rest IH]; intros st st' Hc H Hcl.
  - cbn in H. injection H as <-. congruence.
  - cbn [krun] in H. destruct (kstep ping pong slack st (t, ev)) as [st1|] eqn:E; [|discriminate].
    destruct (k_closed st1) eqn:Hc1.
    + (* this very event closed it: it must be KClose *)
      destruct ev.
      * unfold kstep in E. rewrite Hc in E. destruct (ping + pong + slack <? t - k_last st); [discriminate|].
        injection E as <-. discriminate.
      * unfold kstep in E. rewrite Hc in E. destruct (ping + pong + slack <? t - k_last st); [discriminate|].
        destruct (t - k_last st <? ping); [discriminate|]. injection E as <-. congruence.
      * exists [], t, rest, st. repeat split; try reflexivity; try assumption.
        destruct (kstep_close_needs_silence _ _ _ _ _ _ Hs Hc E) as [Hsil _]. exact Hsil.
      * unfold kstep in E. rewrite Hc in E. destruct (ping + pong + slack <? t - k_last st); [discriminate|].
        injection E as <-. congruence.
    + destruct (IH st1 st' Hc1 H Hcl) as (pre & t0 & post & st2 & Heq & Hrun & Hc2 & Hsil).
      exists ((t, ev) :: pre), t0, post, st2. repeat split; try assumption.
      * rewrite Heq. reflexivity.
      * cbn [krun]. rewrite E. exact Hrun.
Qed.

(* dead peer: in an accepted history, an endpoint that is still open has heard from its peer
   within the last ping + pong + slack *)
Theorem dead_peer_detected ping pong slack :
  forall tr st st' t ev, krun ping pong slack st (tr ++ [(t, ev)]) = Some st' ->
  k_closed st' = false -> exists st1, krun ping pong slack st tr = Some st1 /\ t - k_last st1 <= ping + pong + slack.
Proof.
  induction tr as [|e rest IH]; intros st st' t ev H Hc.
  - cbn [app krun] in H. destruct (kstep ping pong slack st (t, ev)) as [st1|] eqn:E; [|discriminate].
    injection H as <-. exists st. split; [reflexivity|].
    unfold kstep in E. destruct (k_closed st) eqn:Hcs.
    + injection E as <-. congruence.
    + destruct (ping + pong + slack <? t - k_last st) eqn:E1; [|lia].
      destruct ev; try discriminate. injection E as <-. discriminate.
  - cbn [app krun] in H |- *. destruct (kstep ping pong slack st e) as [st1|]; [|discriminate].
    apply (IH st1 st' t ev H Hc).
Qed.

(* progress: in an accepted history no pending message of an open connection is overdue *)
Theorem no_overdue_message bound :
  forall tr st st' t ev, prun bound st (tr ++ [(t, ev)]) = Some st' -> p_closed st' = false -> ev <> PClosed -> ev <> PReliable ->
  exists st1, prun bound st tr = Some st1 /\ overdue bound t st1 = false.
Proof.
  induction tr as [|e rest IH]; intros st st' t ev H Hc Hne Hnr.
  - cbn [app prun] in H. destruct (pstep bound st (t, ev)) as [st1|] eqn:E; [|discriminate].
    injection H as <-. exists st. split; [reflexivity|].
    unfold pstep in E. destruct (p_closed st) eqn:Hcs.
    + injection E as <-. congruence.
    + destruct ev; try congruence; destruct (overdue bound t st); try discriminate; reflexivity.
  - cbn [app prun] in H |- *. destruct (pstep bound st e) as [st1|]; [|discriminate].
    apply (IH st1 st' t ev H Hc Hne Hnr).
Qed.

Print Assumptions closure_only_after_silence.
Print Assumptions dead_peer_detected.
Print Assumptions no_overdue_message.
