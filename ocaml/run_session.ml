(* Accept / Dial histories through the session monitor (Model/Session.v) *)
open Lnc_model
open Zconv
let run_file (file : string) : int * int =
  let ic = open_in file in
  let scen = ref 0 and bad = ref 0 in
  let id = ref "" in
  let st = [| Some sinit; Some sinit |] in
  (try
     while true do
       let line = input_line ic in
       (match split_ws line with
        | "BEGIN" :: i :: _ -> id := i; incr scen; st.(0) <- Some sinit; st.(1) <- Some sinit
        | "END" :: _ -> ()
        | "CLOSES" :: toks ->
          (* handles of one session: H = handshake, C<k> = Close of the handle of connection k, T<j>=ok|fail =
             a transfer on connection j worked; replayed through Reconnect.crun (per-connection handles) *)
          let evs = ref [] in
          List.iter (fun t ->
              if t = "H" then evs := !evs @ [CHandshake]
              else if String.length t > 1 && t.[0] = 'C' then
                evs := !evs @ [CClose (nat_of_int (int_of_string (String.sub t 1 (String.length t - 1))))]
              else if String.length t > 1 && t.[0] = 'T' then begin
                match String.split_on_char '=' (String.sub t 1 (String.length t - 1)) with
                | [j; r] ->
                  let st = crun false [] !evs in
                  let model_open = (try List.nth st (int_of_string j) with _ -> false) in
                  incr scen;
                  if model_open <> (r = "ok") then begin
                    incr bad;
                    if !bad <= 20 then Printf.printf "MISMATCH scenario=%s `%s` | model=connection %s is %s | impl=transfer %s\n" !id line j (if model_open then "open" else "closed") r
                  end
                | _ -> ()
              end) toks
        | side :: _ :: rest when side = "S" || side = "C" ->
          let x = if side = "S" then 0 else 1 in
          let ev = match rest with
            | ["call"] -> Some SCall
            | ["ret"; k] -> Some (SRet (z_of_int (int_of_string k)))
            | ["closed"; k] -> Some (SClosed (z_of_int (int_of_string k)))
            | ["fail"] -> Some SFail
            | _ -> None in
          (match ev, st.(x) with
           | Some e, Some s ->
             (match sstep s e with
              | Some s' -> st.(x) <- Some s'
              | None ->
                st.(x) <- None; incr bad;
                if !bad <= 20 then Printf.printf "MISMATCH scenario=%s `%s` | model=rejects (a connection handed out while the previous one is open, or out of order) | impl=did it\n" !id line)
           | _ -> ())
        | _ -> ())
     done
   with End_of_file -> ());
  close_in ic;
  (!scen, !bad)
