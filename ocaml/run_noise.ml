(* Noise record layer: replay adversarially edited ciphertext streams through the
   ideal-AEAD reader of Model/Noise.v; check the key/nonce schedule. *)
open Lnc_model
open Zconv

let split_on (c : char) (s : string) = List.filter (fun x -> x <> "") (String.split_on_char c s)

let rres_string = function
  | ROk p -> "ok:" ^ hex_of_bytes p
  | RErrMac -> "err"
  | RErrShort -> "short"

let zeros n = List.init n (fun _ -> Z0)
let ints_of s = if s = "-" then [] else List.map int_of_string (String.split_on_char ',' s)
let big = z_of_int 100000000

(* Flush: replay the per-call writer limits through the model *)
let eval_flush (plen : int) (calls : string list) : string =
  let st = ref { pw_hdr = seal_tags true Z0 (z_of_int 2); pw_body = seal_tags true (z_of_int 1) (z_of_int plen) } in
  let outs = List.map (fun c ->
      match String.split_on_char ':' c with
      | [lims; _; _; _] ->
        (match ints_of lims with
         | [ncalls; a1; a2] ->
           let lim x = if x < 0 then big else z_of_int x in
           let hdr_pending = !st.pw_hdr <> [] in
           let (acc1, acc2) = if hdr_pending then (lim a1, lim a2) else (Z0, lim a1) in
           let (((out, nn), err), st') = flush !st acc1 acc2 in
           st := st';
           Printf.sprintf "%s:%d:%d:%d" lims (List.length out) (int_of_z nn) (b2i err)
         | _ -> failwith "bad flush limits")
      | _ -> failwith "bad flush call") calls in
  String.concat " " outs

let eval_line (line : string) : (string * string * string) =
  match split_ws line with
  | "RD" :: kind :: writes :: "|" :: bufs :: "|" :: ns :: [] ->
    let ws = ints_of writes in
    let recs = if kind = "grpc" || kind = "kit" then List.map zeros ws
      else List.concat_map (fun w -> tcp_write_records (zeros w)) ws in
    let sizes = List.map z_of_int (ints_of bufs) in
    let rd = if kind = "grpc" then grpc_read else buf_read in
    let outs = reads rd [] recs sizes in
    let model = String.concat "," (List.map (fun o -> string_of_int (List.length o)) outs) in
    ("RD " ^ kind ^ " " ^ writes ^ " | " ^ bufs, (if model = "" then "-" else model), ns)
  | "FL" :: plen :: "|" :: calls ->
    ("FL " ^ plen, eval_flush (int_of_string plen) calls, String.concat " " calls)
  | "HSFRAG" :: rest ->
    (* the model reads every field with read_full, whose result does not depend on the fragmentation *)
    (line, "ok", List.nth rest (List.length rest - 1))
  | _ ->
  match String.split_on_char '|' line with
  | [a; b; c] ->
    (match split_ws a with
     | ["C"; dir; recs] ->
       let d = (dir = "1") in
       let recl = if recs = "none" then [] else List.map bytes_of_hex (String.split_on_char ',' recs) in
       let toks = split_ws b in
       let input = if toks = ["-"] then [] else List.map (fun t ->
           if t = "j" then Junk else
             match String.split_on_char ':' t with
             | [h; op; off] -> Honest ((h = "h1"), z_of_int (int_of_string op), z_of_int (int_of_string off))
             | _ -> failwith "bad token") toks in
       let fuel = nat_of_int (List.length recl + 3) in
       let res = read_all fuel d recl { r_op = Z0; r_failed = false } input in
       let model = String.concat " " (List.map rres_string res) in
       ("C " ^ dir ^ " " ^ (if String.length recs > 60 then String.sub recs 0 60 else recs) ^ " | " ^
        (if String.length b > 120 then String.sub b 0 120 ^ "..." else b), model, String.trim c)
     | ["CT"; dir; recs] ->
       (* the transport fails once between the segments (separated by "/"), the reader retries *)
       let d = (dir = "1") in
       let recl = if recs = "none" then [] else List.map bytes_of_hex (String.split_on_char ',' recs) in
       let tok t = if t = "j" then Junk else
           match String.split_on_char ':' t with
           | [h; op; off] -> Honest ((h = "h1"), z_of_int (int_of_string op), z_of_int (int_of_string off))
           | _ -> failwith "bad token" in
       let segs = List.map (fun sg -> List.map tok (split_ws sg)) (String.split_on_char '/' b) in
       let (cur, more) = match segs with [] -> ([], []) | x :: m -> (x, m) in
       let fuel = nat_of_int (List.length recl + 3) in
       let res = read_segs fuel d recl { r_op = Z0; r_failed = false } cur more in
       let model = String.concat " " (List.map (fun r -> match r with ROk _ -> rres_string r | _ -> "err") res) in
       ("CT " ^ dir ^ " " ^ recs ^ " | " ^ (if String.length b > 160 then String.sub b 0 160 ^ "..." else b),
        model, String.trim c)
     | _ -> failwith "bad C line")
  | _ ->
    (match split_ws line with
     | ["OP"; d; m; ki; nn; mt] ->
       let (i, c) = kn_iter (nat_of_int (int_of_string m)) (Z0, Z0) in
       let (i2, c2) = kn_of (z_of_int (int_of_string m)) in
       let model = Printf.sprintf "%d %d %d %d 1" (int_of_z i) (int_of_z c) (int_of_z i2) (int_of_z c2) in
       ("OP " ^ d ^ " " ^ m, model, Printf.sprintf "%s %s %s %s %s" ki nn ki nn mt)
     | _ -> failwith ("bad line " ^ line))
