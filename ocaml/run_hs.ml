(* Handshake histories: each endpoint's observable events (packets read,
   packets transmitted, constructor outcome) must be a run of the handshake
   automaton of Model/GbnHandshake.v, with timer expiries and read-ahead hidden. *)
open Lnc_model
open Zconv

let show_pkt = function
  | HSyn n -> Printf.sprintf "SYN(%d)" (int_of_z n) | HSynAck -> "SYNACK" | HData -> "DATA" | HOther -> "other" | HBad -> "undecodable"

let run_file (file : string) : int * int =
  let ic = open_in file in
  let scen = ref 0 and bad = ref 0 and events = ref 0 in
  let id = ref "" in
  let sc = ref None and cc = ref None in   (* candidate sets; None = side finished or failed *)
  let sfail = ref false and cfail = ref false in
  let ctx = Queue.create () in
  let report side line =
    incr bad;
    if !bad <= 20 then
      Printf.printf "MISMATCH scenario=%s %s `%s` | model=no run of the handshake automaton matches | impl=did it | context: %s\n"
        !id side line (String.concat " ; " (List.of_seq (Queue.to_seq ctx))) in
  (try
     while true do
       let line = input_line ic in
       let toks = split_ws line in
       (match toks with
        | "BEGIN" :: i :: rest ->
          id := i; incr scen; Queue.clear ctx; sfail := false; cfail := false;
          let n = ref 1 in
          List.iter (fun t -> match String.index_opt t '=' with
              | Some k when String.sub t 0 k = "n" -> n := int_of_string (String.sub t (k + 1) (String.length t - k - 1))
              | _ -> ()) rest;
          sc := Some s_obs_init; cc := Some (c_obs_init (z_of_int !n))
        | "END" :: _ -> sc := None; cc := None
        | "TEARDOWN" :: _ -> sc := None; cc := None
        | [("RX" | "TX" | "HS") as k; x; arg] ->
          Queue.add (if String.length line > 30 then String.sub line 0 30 else line) ctx;
          if Queue.length ctx > 40 then ignore (Queue.pop ctx);
          let ev = match k with
            | "RX" -> Some (ORx (classify (bytes_of_hex arg)))
            | "TX" -> Some (OTx (classify (bytes_of_hex arg)))
            | _ -> if arg = "ok" then Some (ODone true) else if arg = "err:ctx" then None else Some (ODone false) in
          (match ev with
           | None -> if x = "0" then cc := None else sc := None
           | Some e ->
             incr events;
             if x = "1" then begin
               match !sc with
               | Some cands ->
                 let c' = s_observe cands e in
                 if c' = [] then begin if not !sfail then report "server" line; sfail := true; sc := None end
                 else if k = "HS" then sc := None else sc := Some c'
               | None -> ()
             end else begin
               match !cc with
               | Some cands ->
                 let c' = c_observe cands e in
                 if c' = [] then begin if not !cfail then report "client" line; cfail := true; cc := None end
                 else if k = "HS" then cc := None else cc := Some c'
               | None -> ()
             end)
        | _ -> ())
     done
   with End_of_file -> ());
  close_in ic;
  Printf.printf "EVENTS %d\n" !events;
  (!scen, !bad)
