(* modelrun MODE FILE : evaluate the extracted Coq model on every case of FILE
   (written by the Go harness together with the implementation's observable)
   and report the cases where they differ. *)
let () =
  let mode = Sys.argv.(1) and file = Sys.argv.(2) in
  if mode = "session" then begin
    let (n, bad) = Run_session.run_file file in
    Printf.printf "SUMMARY cases=%d mismatches=%d\n" n bad;
    exit (if bad = 0 then 0 else 3)
  end;
  if mode = "timed" then begin
    let (n, bad) = Run_timed.run_file file in
    Printf.printf "SUMMARY cases=%d mismatches=%d\n" n bad;
    exit (if bad = 0 then 0 else 3)
  end;
  if mode = "sym" then begin
    let (n, bad) = Run_sym.run_file file in
    Printf.printf "SUMMARY cases=%d mismatches=%d\n" n bad;
    exit (if bad = 0 then 0 else 3)
  end;
  if mode = "tm" then begin
    let (n, bad) = Run_tm.run_file file in
    Printf.printf "SUMMARY cases=%d mismatches=%d\n" n bad;
    exit (if bad = 0 then 0 else 3)
  end;
  if mode = "hs" then begin
    let (n, bad) = Run_hs.run_file file in
    Printf.printf "SUMMARY cases=%d mismatches=%d\n" n bad;
    exit (if bad = 0 then 0 else 3)
  end;
  if mode = "gbn" then begin
    let (n, bad) = Run_gbn.run_file file in
    Printf.printf "SUMMARY cases=%d mismatches=%d\n" n bad;
    exit (if bad = 0 then 0 else 3)
  end;
  let eval = match mode with
    | "c19" -> Run_c19.eval_line
    | "queue" -> Run_queue.eval_line
    | "noise" -> Run_noise.eval_line
    | "pairing" -> Run_pairing.eval_line
    | _ -> failwith ("unknown mode " ^ mode) in
  let ic = open_in file in
  let n = ref 0 and bad = ref 0 in
  (try
     while true do
       let line = input_line ic in
       if line <> "" then begin
         incr n;
         let (key, model, impl) =
           try eval line with e -> (line, "EXN " ^ Printexc.to_string e, "?") in
         if model <> impl then begin
           incr bad;
           if !bad <= 50 then Printf.printf "MISMATCH %s | model=%s | impl=%s\n" key model impl
         end
       end
     done
   with End_of_file -> ());
  close_in ic;
  Printf.printf "SUMMARY cases=%d mismatches=%d\n" !n !bad;
  exit (if !bad = 0 then 0 else 3)
