(* conversions between OCaml ints / hex strings and the extracted Coq types *)
open Lnc_model

let rec pos_of_int (n : int) : positive =
  if n = 1 then XH
  else if n land 1 = 0 then XO (pos_of_int (n lsr 1))
  else XI (pos_of_int (n lsr 1))

let z_of_int (n : int) : z =
  if n = 0 then Z0 else if n > 0 then Zpos (pos_of_int n) else Zneg (pos_of_int (-n))

let rec int_of_pos (p : positive) : int =
  match p with XH -> 1 | XO q -> 2 * int_of_pos q | XI q -> 2 * int_of_pos q + 1

let int_of_z (x : z) : int =
  match x with Z0 -> 0 | Zpos p -> int_of_pos p | Zneg p -> - (int_of_pos p)

let rec nat_of_int (n : int) : nat = if n <= 0 then O else S (nat_of_int (n - 1))
let rec int_of_nat (n : nat) : int = match n with O -> 0 | S m -> 1 + int_of_nat m

let bytes_of_hex (s : string) : z list =
  if s = "-" then []
  else begin
    let n = String.length s / 2 in
    let rec go i acc =
      if i < 0 then acc
      else go (i - 1) (z_of_int (int_of_string ("0x" ^ String.sub s (2 * i) 2)) :: acc)
    in
    go (n - 1) []
  end

let hex_of_bytes (l : z list) : string =
  if l = [] then "-"
  else begin
    let b = Buffer.create 64 in
    List.iter (fun x -> Buffer.add_string b (Printf.sprintf "%02x" ((int_of_z x) land 0xff))) l;
    Buffer.contents b
  end

(* like hex_of_bytes but exact: values outside 0..255 are printed as such *)
let hex_of_bytes_strict (l : z list) : string =
  if List.exists (fun x -> let v = int_of_z x in v < 0 || v > 255) l then
    "!" ^ String.concat "," (List.map (fun x -> string_of_int (int_of_z x)) l)
  else hex_of_bytes l

let b2i b = if b then 1 else 0
let split_ws (s : string) : string list =
  List.filter (fun x -> x <> "") (String.split_on_char ' ' s)

(* 64-bit values (nanosecond durations, wrapped products) via Int64 *)
let rec pos_of_int64 (n : int64) : positive =
  if n = 1L then XH
  else if Int64.logand n 1L = 0L then XO (pos_of_int64 (Int64.shift_right_logical n 1))
  else XI (pos_of_int64 (Int64.shift_right_logical n 1))
let z_of_int64 (n : int64) : z =
  if n = 0L then Z0 else if n > 0L then Zpos (pos_of_int64 n)
  else if n = Int64.min_int then Zneg (XO (pos_of_int64 (Int64.shift_right_logical n 1)))
  else Zneg (pos_of_int64 (Int64.neg n))
let rec int64_of_pos (p : positive) : int64 =
  match p with XH -> 1L | XO q -> Int64.mul 2L (int64_of_pos q) | XI q -> Int64.add (Int64.mul 2L (int64_of_pos q)) 1L
let int64_of_z (x : z) : int64 =
  match x with Z0 -> 0L | Zpos p -> int64_of_pos p | Zneg p -> Int64.neg (int64_of_pos p)
let z_of_string (s : string) : z = z_of_int64 (Int64.of_string s)
let string_of_z (x : z) : string = Int64.to_string (int64_of_z x)
