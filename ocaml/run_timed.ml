(* Timed obligations (Model/GbnTimed.v) replayed over the virtual-time event logs:
   keepalive (both endpoints of every scenario) and progress (both directions). *)
open Lnc_model
open Zconv

let second = 1_000_000_000
let slack = 40 * second
let bound = 90 * second

let run_file (file : string) : int * int =
  let ic = open_in file in
  let scen = ref 0 and bad = ref 0 in
  let id = ref "" and now = ref 0 in
  let ping = ref 0 and pong = ref 0 in
  let k = [| None; None |] in                      (* keepalive monitor state per endpoint *)
  let pings_seen = [| Hashtbl.create 7; Hashtbl.create 7 |] in
  let closing = [| false; false |] in              (* Close was called by the application *)
  let p = [| None; None |] in                      (* progress monitor per direction x -> peer *)
  let acc = [| 0; 0 |] and del = [| 0; 0 |] in
  let failed = ref false in
  let report what line =
    if not !failed then begin
      failed := true; incr bad;
      if !bad <= 20 then Printf.printf "MISMATCH scenario=%s at t=%d ns `%s` | model=%s | impl=did it\n" !id !now line what
    end in
  let kfeed x ev line =
    match k.(x) with
    | None -> ()
    | Some st ->
      if !ping > 0 then
        (match kstep (z_of_int !ping) (z_of_int !pong) (z_of_int slack) st (z_of_int !now, ev) with
         | Some st' -> k.(x) <- Some st'
         | None ->
           report (match ev with
               | KPing -> "keepalive monitor: ping although the peer was heard less than the ping interval ago"
               | KClose -> "keepalive monitor: closed by keepalive although the peer was heard less than ping + pong ago"
               | _ -> "keepalive monitor: silent for more than ping + pong + slack and still open (dead peer not detected)") line) in
  let pfeed x ev line =
    match p.(x) with
    | None -> ()
    | Some st ->
      (match pstep (z_of_int bound) st (z_of_int !now, ev) with
       | Some st' -> p.(x) <- Some st'
       | None -> report "progress monitor: an accepted message is overdue (not delivered within the bound after the transport became reliable)" line) in
  (try
     while true do
       let line = input_line ic in
       let toks = split_ws line in
       (match toks with
        | "BEGIN" :: i :: rest ->
          id := i; incr scen; now := 0; failed := false; ping := 0; pong := 0;
          List.iter (fun t -> match String.index_opt t '=' with
              | Some j ->
                let kk = String.sub t 0 j and v = String.sub t (j + 1) (String.length t - j - 1) in
                if kk = "ping" then ping := int_of_string v else if kk = "pong" then pong := int_of_string v
              | None -> ()) rest;
          for x = 0 to 1 do
            k.(x) <- None; Hashtbl.reset pings_seen.(x); closing.(x) <- false;
            p.(x) <- Some { p_pending = []; p_reliable_from = Z0; p_closed = false };
            acc.(x) <- 0; del.(x) <- 0
          done
        | ["T"; t] -> now := int_of_string t
        | ["HS"; x; "ok"] -> let x = int_of_string x in k.(x) <- Some { k_last = z_of_int !now; k_closed = false }
        | ["RX"; x; _] -> let x = int_of_string x in Hashtbl.reset pings_seen.(x); kfeed x KRx line
        | ["TX"; x; h] ->
          let x = int_of_string x in
          if String.length h >= 8 && String.sub h 0 2 = "02" && String.sub h 6 2 = "01" then begin
            (* retransmitted pings cannot be told from new ones on the wire: the ping rule is not replayed *)
            ()
          end else if h = "05" then begin
            if not closing.(x) then kfeed x KClose line;
            pfeed x PClosed line; pfeed (1 - x) PClosed line
          end
        | ["CL"; x] -> let x = int_of_string x in closing.(x) <- true; k.(x) <- None; pfeed x PClosed line; pfeed (1 - x) PClosed line
        | ["SC"; x; _] -> let x = int_of_string x in pfeed x (PAccept (z_of_int acc.(x))) line; acc.(x) <- acc.(x) + 1
        | ["RR"; y; "ok"; _] -> let y = int_of_string y in let x = 1 - y in pfeed x (PDeliver (z_of_int del.(x))) line; del.(x) <- del.(x) + 1
        | ["RELIABLE"] -> pfeed 0 PReliable line; pfeed 1 PReliable line
        | ("TEARDOWN" | "CLOSED" | "DELIVERED" | "QUIESCENT") :: _ ->
          kfeed 0 KNow line; kfeed 1 KNow line; pfeed 0 PNow line; pfeed 1 PNow line;
          if List.hd toks = "TEARDOWN" then begin k.(0) <- None; k.(1) <- None; p.(0) <- None; p.(1) <- None end
        | "END" :: _ -> ()
        | _ -> ())
     done
   with End_of_file -> ());
  close_in ic;
  (!scen, !bad)
