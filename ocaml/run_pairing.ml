open Lnc_model
open Zconv
let ints_of s = if s = "-" then [] else List.map int_of_string (String.split_on_char ',' s)
let eval_line (line : string) : (string * string * string) =
  match split_ws line with
  | ["E2W"; e; ws] ->
    let m = entropy_to_words (bytes_of_hex e) in
    ("E2W " ^ e, String.concat "," (List.map (fun z -> string_of_int (int_of_z z)) m), ws)
  | ["W2E"; ws; e] ->
    let m = words_to_entropy (List.map z_of_int (ints_of ws)) in
    ("W2E " ^ ws, hex_of_bytes_strict m, e)
  | ["SID"; sid; dir; out] ->
    let v = match getSID (bytes_of_hex sid) (dir = "1") with
      | Ok b -> hex_of_bytes_strict b | Panic -> "panic" in
    ("SID " ^ dir, v, out)
  | _ -> failwith ("bad line " ^ line)
