(* Timeout manager: replay op histories through Model/Timeout.v and compare the
   reported resend / handshake timeouts after every operation. *)
open Lnc_model
open Zconv

let kind_of = function
  | "syn" -> KSyn | "synack" -> KSynAck | "data" -> KData | "ack" -> KAck | _ -> KOther

(* large ints (ns, 2^40 multipliers) fit OCaml's 63-bit int *)
let run_file (file : string) : int * int =
  let ic = open_in file in
  let scen = ref 0 and bad = ref 0 and ops = ref 0 in
  let st = ref None and id = ref "" and fb = ref (fun _ _ -> Z0) and failed = ref false in
  (try
     while true do
       let line = input_line ic in
       let toks = split_ws line in
       let check m rt ht =
         let mr = string_of_z (get_resend !fb m) and mh = string_of_z (get_handshake !fb m) in
         if (mr <> rt || mh <> ht) && not !failed then begin
           failed := true; incr bad;
           if !bad <= 20 then
             Printf.printf "MISMATCH history=%s op#%d `%s` | model=%s %s | impl=%s %s\n" !id !ops line mr mh rt ht
         end in
       (match toks with
        | "BEGIN" :: i :: rest ->
          id := i; incr scen; failed := false; ops := 0;
          let g k = let v = ref 0 in
            List.iter (fun t -> match String.index_opt t '=' with
                | Some j when String.sub t 0 j = k -> v := int_of_string (String.sub t (j + 1) (String.length t - j - 1))
                | _ -> ()) rest; !v in
          fb := fboost32 (z_of_int (g "pnum")) (z_of_int (g "pden"));
          let static = g "static" = 1 in
          (* WithStaticResendTimeout is the only option that changes the initial resend timeout *)
          let resend = if static then g "resend" else 1000000000 in
          st := Some (tm_init static (z_of_int resend) (z_of_int (g "mult")) (z_of_int (g "freq")) (z_of_int (g "hs")))
        | "END" :: _ -> st := None
        | ["I"; rt; ht] -> (match !st with Some m -> check m rt ht | None -> ())
        | _ ->
          (match !st with
           | None -> ()
           | Some m ->
             incr ops;
             let op, rt, ht = match toks with
               | ["S"; k; seq; res; "->"; rt; ht] -> (TSent (kind_of k, z_of_int (int_of_string seq), res = "1"), rt, ht)
               | ["R"; k; seq; "->"; rt; ht] -> (TReceived (kind_of k, z_of_int (int_of_string seq)), rt, ht)
               | ["K"; dt; "->"; rt; ht] -> (TTick (z_of_string dt), rt, ht)
               | _ -> failwith ("bad line " ^ line) in
             let m' = tm_step m op in
             st := Some m';
             check m' rt ht))
     done
   with End_of_file -> ());
  close_in ic;
  (!scen, !bad)
