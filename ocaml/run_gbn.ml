(* Replays harness histories of GBN pairs through the extracted monitor
   (Model/GbnMonitor.v). Input: the event log written by harness/sim_test.go.
   Output protocol differs from the line-by-line modes: one verdict per scenario. *)
open Lnc_model
open Zconv

let side_of s = if s = "0" then SA else SB
let is_handshaking (_ : string list) = true

let parse_kv (tok : string) : string * string =
  match String.index_opt tok '=' with
  | Some i -> (String.sub tok 0 i, String.sub tok (i + 1) (String.length tok - i - 1))
  | None -> (tok, "")

let reason (c : int) : string =
  let base = if c >= 1000 then c - 1000 else c in
  let s = match base with
    | 1 -> "Send called while a Send is in progress"
    | 2 -> "Send returned without a call"
    | 3 -> "Send returned ok with more than one chunk not yet queued"
    | 4 -> "Recv returned a message but no complete message was delivered to this side"
    | 5 -> "Recv returned bytes that differ from the reassembly of the delivered chunks"
    | 10 -> "Deserialize panics in the model on transmitted bytes"
    | 11 -> "new DATA packet is neither a ping nor the next chunk of the pending Send"
    | 12 -> "new DATA packet queued although the window is full (size >= n)"
    | 13 -> "new DATA packet differs from what addPacket stores"
    | 14 -> "retransmission of a slot that holds no packet / is the top slot"
    | 15 -> "retransmitted packet differs from the packet stored in that slot"
    | 16 | 17 -> "ACK transmitted that is not the reply owed for the last in-sequence DATA"
    | 18 | 19 -> "NACK transmitted that is not permitted (not the expected sequence number, or no out-of-sequence DATA preceded it)"
    | 20 -> "channel decision on an empty channel" | 21 -> "channel decision while the previous delivery is still staged"
    | 22 | 23 -> "drop on empty directional channel"
    | 30 -> "Rx without a staged delivery" | 31 | 33 | 37 -> "Rx bytes differ from the packet at the head of the channel"
    | 32 | 36 -> "directional channel empty at Rx" | 34 | 38 -> "model rejects the delivery"
    | 35 -> "cannot serialise head packet"
    | 40 -> "snapshot (n, s, base, top) differs from the model's sender state"
    | 41 -> "snapshot recvSeq differs from the model's receiver state"
    | 42 -> "in-sequence DATA packet neither acknowledged nor delivered although fewer than n packets were waiting for Recv"
    | _ -> "?" in
  if c >= 1000 then "PANIC in generated code: " ^ s else s

(* run all scenarios of a history file; print one line per rejected scenario *)
let run_file (file : string) : int * int =
  let ic = open_in file in
  let scen = ref 0 and bad = ref 0 in
  let st = ref None and id = ref "" and idx = ref 0 and failed = ref false and events = ref 0 in
  let lines_kept = Queue.create () in
  (* A data-phase packet that reaches an endpoint whose handshake has not returned yet is read by the handshake
     code and discarded there (serverHandshake: DATA / SYNACK after a restart complete the handshake and are not
     processed). For the data-phase monitor that delivery is a loss: `CH x deliver` becomes a drop and the RX that
     follows is skipped; with `keep` the retained copy stays in the channel and nothing else happens. *)
  let hs_done = [| false; false |] and swallow = [| false; false |] and saw_hs = ref false in
  let total_events = ref 0 in
  (* the whole file, for the one place that has to look ahead (was an in-sequence DATA packet acknowledged?) *)
  let all =
    let acc = ref [] in
    (try while true do acc := input_line ic :: !acc done with End_of_file -> ());
    Array.of_list (List.rev !acc) in
  let pos = ref 0 in
  (* what the receive loop of side x does next after line i: `Ack seq, `Other (it read another packet or sent a
     NACK without having acknowledged), `Nothing (the scenario ends first) *)
  let next_of_recv_loop (i : int) (x : string) =
    let r = ref `Nothing and j = ref (i + 1) in
    while !r = `Nothing && !j < Array.length all do
      (match split_ws all.(!j) with
       | ("END" | "BEGIN") :: _ -> j := Array.length all
       | ["TX"; y; h] when y = x && String.length h >= 4 && String.sub h 0 2 = "03" ->
         r := `Ack (int_of_string ("0x" ^ String.sub h 2 2))
       | ["TX"; y; h] when y = x && String.length h >= 2 && String.sub h 0 2 = "04" -> r := `Other
       | ["RX"; y; _] when y = x -> r := `Other
       | _ -> ());
      incr j
    done;
    !r in
  (try
     while true do
       if !pos >= Array.length all then raise End_of_file;
       let line = all.(!pos) in
       let here = !pos in
       incr pos;
       let toks = split_ws line in
       (match toks with
        | "BEGIN" :: i :: rest ->
          id := i; idx := 0; failed := false; Queue.clear lines_kept;
          hs_done.(0) <- false; hs_done.(1) <- false; swallow.(0) <- false; swallow.(1) <- false; saw_hs := false;
          let n = ref 1 and chunk = ref 0 and srvchunk = ref (-1) in
          List.iter (fun t -> let (k, v) = parse_kv t in
                      if k = "n" then n := int_of_string v else if k = "chunk" then chunk := int_of_string v
                      else if k = "srvchunk" then srvchunk := int_of_string v) rest;
          if !srvchunk < 0 then srvchunk := !chunk;
          st := Some (minit (z_of_int !n) (z_of_int !chunk) (z_of_int !srvchunk));
          incr scen
        | "END" :: _ -> st := None
        | _ ->
          (match !st with
           | None -> ()
           | Some s when not !failed ->
             let peer_ix x = if x = "0" then 1 else 0 in
             let head_is_data_phase x =
               match (if x = "0" then s.m_chA else s.m_chB) with
               | (TgData | TgCtrl) :: _ -> true
               | _ -> false in
             let ev = match toks with
               | ["HS"; x; "ok"] -> hs_done.(int_of_string x) <- true; saw_hs := true; None
               | ["CH"; x; "deliver"] when not hs_done.(peer_ix x) && head_is_data_phase x && is_handshaking toks ->
                 swallow.(peer_ix x) <- true; Some (MCh (side_of x, Drop))
               | ["CH"; x; "keep"] when not hs_done.(peer_ix x) && head_is_data_phase x && is_handshaking toks ->
                 swallow.(peer_ix x) <- true; None
               | ["RX"; x; _] when swallow.(int_of_string x) -> swallow.(int_of_string x) <- false; None
               | ["SC"; x; h] -> Some (MSendCall (side_of x, bytes_of_hex h))
               | ["SR"; x; r] -> Some (MSendRet (side_of x, r = "ok"))
               | ["RC"; x] -> Some (MRecvCall (side_of x))
               | ["RR"; x; "ok"; h] -> Some (MRecvRet (side_of x, Some (bytes_of_hex h)))
               | ["RR"; x; _] -> Some (MRecvRet (side_of x, None))
               | ["TX"; x; h] -> Some (MTx (side_of x, bytes_of_hex h))
               | ["CH"; x; "deliver"] -> Some (MCh (side_of x, Deliver))
               | ["CH"; x; "keep"] -> Some (MCh (side_of x, DeliverKeep))
               | ["CH"; x; "drop"] -> Some (MCh (side_of x, Drop))
               | ["RX"; x; h] ->
                 (* an in-sequence, non-ping DATA packet that the receive loop does not acknowledge before it goes
                    on to the next packet has been refused for lack of room (the model checks that there was none) *)
                 let b = bytes_of_hex h in
                 let d = if x = "0" then s.m_dB else s.m_dA in
                 let staged_data = (match (if x = "0" then s.m_stA else s.m_stB) with Some (TgData, _) -> true | _ -> false) in
                 let in_seq_data = staged_data && (match b with
                     | t :: sq :: _ :: ping :: _ -> int_of_z t = 2 && int_of_z sq = int_of_z d.d_recv && int_of_z ping = 0
                     | _ -> false) in
                 if in_seq_data && next_of_recv_loop here x = `Other
                 then Some (MRxRefused (side_of x, b))
                 else Some (MRx (side_of x, b))
               | ["SNAP"; x; n; s; b; t; r] ->
                 Some (MSnap (side_of x, z_of_int (int_of_string n), z_of_int (int_of_string s),
                              z_of_int (int_of_string b), z_of_int (int_of_string t), z_of_int (int_of_string r)))
               | _ -> None in
             Queue.add line lines_kept;
             if Queue.length lines_kept > 30 then ignore (Queue.pop lines_kept);
             (match ev with
              | None -> ()
              | Some e ->
                incr idx; incr total_events;
                (match mstep s e with
                 | MOk s' -> st := Some s'
                 | MBad c ->
                   failed := true; incr bad;
                   if !bad <= 20 then begin
                     Printf.printf "MISMATCH scenario=%s event#%d `%s` | model=rejects(%d: %s) | impl=did it | context: %s\n"
                       !id !idx (if String.length line > 80 then String.sub line 0 80 else line)
                       (int_of_z c) (reason (int_of_z c))
                       (String.concat " ; " (List.map (fun l -> if String.length l > 40 then String.sub l 0 40 else l)
                                               (List.of_seq (Queue.to_seq lines_kept))))
                   end))
           | Some _ -> ()))
     done
   with End_of_file -> ());
  close_in ic;
  Printf.printf "EVENTS %d\n" !total_events;
  (!scen, !bad)
