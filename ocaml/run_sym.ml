(* Symbolic handshake: run Model/Sym.v on the harness scenarios, compare the
   outcomes, and write the transmitted messages / session values as a term DAG
   for the byte-level interpreter (harness TestInterpSym). *)
open Lnc_model
open Zconv

let kv_of (toks : string list) : (string * string) list =
  List.filter_map (fun t -> match String.index_opt t '=' with
      | Some i -> Some (String.sub t 0 i, String.sub t (i + 1) (String.length t - i - 1))
      | None -> None) toks
let get kv k = try List.assoc k kv with Not_found -> failwith ("missing " ^ k)
let geti kv k = int_of_string (get kv k)
let pair s = match String.split_on_char ',' s with [a; b] -> (a, b) | _ -> failwith ("bad pair " ^ s)

(* byte size of a field as it appears on the wire *)
let rec psize (t : term) : int =
  match t with
  | Lit b -> List.length b
  | Pub _ | Mask _ | Unmask _ -> 33
  | Empty -> 0
  | V0Pad _ -> 500
  | Be32Len _ -> 4
  | Seal (_, _, _, p) -> psize p + 16
  | _ -> 32

let adversary_of (specs : string list) : z -> term list -> term list =
  fun actz msg ->
  let act = int_of_z actz in
  List.fold_left (fun m s ->
      if String.length s > 1 && s.[0] = 'v' then begin
        match String.split_on_char '=' (String.sub s 1 (String.length s - 1)) with
        | [a; v] when int_of_string a = act ->
          (match m with _ :: rest -> Lit [z_of_int (int_of_string v)] :: rest | [] -> [])
        | _ -> m
      end else if String.length s > 1 && s.[0] = 'f' then begin
        match String.split_on_char ':' (String.sub s 1 (String.length s - 1)) with
        | [a; off; bit] when int_of_string a = act ->
          let off = int_of_string off and bit = int_of_string bit in
          let rec go pos = function
            | [] -> []
            | f :: rest ->
              let sz = psize f in
              if off >= pos && off < pos + sz then begin
                match f with
                | Lit [v] when pos = 0 -> Lit [z_of_int ((int_of_z v) lxor (1 lsl bit))] :: rest
                | _ -> Lit [] :: rest
              end else f :: go (pos + sz) rest in
          go 0 m
        | _ -> m
      end else m) msg specs

(* ---- term DAG ---- *)
let nodes : (string, int) Hashtbl.t = Hashtbl.create 997
let memo : (term * int) list ref = ref []
let buf = Buffer.create 65536
let next = ref 0

let rec intern (t : term) : int =
  match List.assq_opt t !memo with
  | Some i -> i
  | None ->
    let key = match t with
      | Lit b -> "Lit " ^ hex_of_bytes_strict b
      | Priv i -> "Priv " ^ string_of_int (int_of_z i)
      | Pub a -> Printf.sprintf "Pub %d" (intern a)
      | Mask (a, b) -> let x = intern a in let y = intern b in Printf.sprintf "Mask %d %d" x y
      | Unmask (a, b) -> let x = intern a in let y = intern b in Printf.sprintf "Unmask %d %d" x y
      | DH (a, b) -> let x = intern a in let y = intern b in Printf.sprintf "DH %d %d" x y
      | DHx (a, b) -> let x = intern a in let y = intern b in Printf.sprintf "DHx %d %d" x y
      | Hash (a, b) -> let x = intern a in let y = intern b in Printf.sprintf "Hash %d %d" x y
      | Hkdf1 (a, b) -> let x = intern a in let y = intern b in Printf.sprintf "Hkdf1 %d %d" x y
      | Hkdf2 (a, b) -> let x = intern a in let y = intern b in Printf.sprintf "Hkdf2 %d %d" x y
      | Seal (k, n, ad, p) ->
        let x = intern k in let y = intern ad in let w = intern p in
        Printf.sprintf "Seal %d %d %d %d" x (int_of_z n) y w
      | Stretch a -> Printf.sprintf "Stretch %d" (intern a)
      | V0Pad a -> Printf.sprintf "V0Pad %d" (intern a)
      | Be32Len a -> Printf.sprintf "Be32Len %d" (intern a)
      | Empty -> "Empty" | ZeroKey -> "ZeroKey"
      | ProtoName b -> "ProtoName " ^ (if b then "1" else "0")
      | Prologue -> "Prologue" in
    let id = match Hashtbl.find_opt nodes key with
      | Some i -> i
      | None ->
        let i = !next in incr next; Hashtbl.add nodes key i;
        Buffer.add_string buf (Printf.sprintf "N %d %s\n" i key); i in
    memo := (t, id) :: !memo; id

let run_file (file : string) : int * int =
  let ic = open_in file in
  let oc = open_out (file ^ ".model") in
  let scen = ref 0 and bad = ref 0 in
  (try
     while true do
       let line = input_line ic in
       match String.split_on_char '|' line with
       | [a; b] ->
         let at = split_ws a and bt = split_ws b in
         let id = List.nth at 1 in
         let kv = kv_of at and ob = kv_of bt in
         incr scen;
         let kk = geti kv "kk" = 1 in
         let lit s = Lit (bytes_of_hex s) in
         let payload = bytes_of_hex (get kv "payload") in
         let c = { c_kk = kk; c_si = z_of_int 1; c_sr = z_of_int 2; c_ei = z_of_int 3; c_er = z_of_int 4;
                   c_pwi = Stretch (lit (get kv "pwi")); c_pwr = Stretch (lit (get kv "pwr"));
                   c_exp_i = Pub (Priv (z_of_int (if geti kv "expi" = 1 then 2 else 5)));
                   c_exp_r = Pub (Priv (z_of_int (if geti kv "expr" = 1 then 1 else 5)));
                   c_payload = Lit payload; c_plen = z_of_int (List.length payload);
                   c_mini = z_of_int (geti kv "mini"); c_maxi = z_of_int (geti kv "maxi");
                   c_minr = z_of_int (geti kv "minr"); c_maxr = z_of_int (geti kv "maxr") } in
         let tam = get kv "tamper" in
         let adv = if tam = "-" then faithful else adversary_of (String.split_on_char ',' tam) in
         let r = run c adv in
         let ctor o = match o with BadConfig -> 0 | _ -> 1 in
         let ok o = match o with Completed _ -> 1 | _ -> 0 in
         let ver o = match o with Completed s -> int_of_z s.s_version | _ -> 0 in
         let l = List.length r.r_wire in
         let (ni, nr) = if kk then ((if l >= 1 then 1 else 0), (if l >= 2 then 1 else 0))
           else ((l + 1) / 2, l / 2) in
         let setrem o = match o with Completed s -> if s.s_set_remote then "1" else "0" | _ -> "-" in
         let model = Printf.sprintf "ctor=%d,%d ok=%d,%d ver=%d,%d nsent=%d,%d setrem=%s,%s"
             (ctor r.r_init) (ctor r.r_resp) (ok r.r_init) (ok r.r_resp) (ver r.r_init) (ver r.r_resp) ni nr
             (if kk then "-" else setrem r.r_init) (if kk then "-" else setrem r.r_resp) in
         let count s = if s = "-" then 0 else List.length (String.split_on_char ',' s) in
         let (oki, okr) = pair (get ob "ok") in
         let isrem k okside = if kk || okside <> "1" then "-" else (if get ob k = "-" then "0" else "1") in
         let impl = Printf.sprintf "ctor=%s ok=%s ver=%s nsent=%d,%d setrem=%s,%s"
             (get ob "ctor") (get ob "ok") (get ob "ver") (count (get ob "sentI")) (count (get ob "sentR"))
             (isrem "remI" oki) (isrem "remR" okr) in
         if model <> impl then begin
           incr bad;
           if !bad <= 20 then
             Printf.printf "MISMATCH %s kk=%d versions=%s,%s,%s,%s tamper=%s payload=%d | model=%s | impl=%s\n" id (if kk then 1 else 0)
               (get kv "mini") (get kv "maxi") (get kv "minr") (get kv "maxr") tam (List.length payload) model impl
         end;
         (* the DAG *)
         Hashtbl.reset nodes; memo := []; Buffer.clear buf; next := 0;
         let msgs = List.map (fun m -> List.map intern m) r.r_wire in
         let sess name o = match o with
           | Completed s ->
             let a = intern s.s_send in let b = intern s.s_recv in
             let rm = match s.s_remote with Some t -> string_of_int (intern t) | None -> "-" in
             let au = match s.s_auth with Some t -> string_of_int (intern t) | None -> "-" in
             Some (Printf.sprintf "SESS %s send=%d recv=%d remote=%s auth=%s" name a b rm au)
           | _ -> None in
         let si = sess "I" r.r_init and sr = sess "R" r.r_resp in
         Printf.fprintf oc "SYMB %s\n%s" id (Buffer.contents buf);
         List.iteri (fun i m -> Printf.fprintf oc "MSG %d %s\n" i (String.concat " " (List.map string_of_int m))) msgs;
         (match si with Some s -> Printf.fprintf oc "%s\n" s | None -> ());
         (match sr with Some s -> Printf.fprintf oc "%s\n" s | None -> ());
         Printf.fprintf oc "SYME %s\n" id
       | _ -> ()
     done
   with End_of_file -> ());
  close_in ic; close_out oc;
  (!scen, !bad)
