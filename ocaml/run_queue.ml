open Lnc_model
open Zconv

let mkq s base top : queue =
  { queue_cfg = { queueCfg_s = z_of_int s };
    queue_content = List.init s (fun _ -> None);
    queue_sequenceBase = z_of_int base; queue_sequenceTop = z_of_int top }

let qres (q : queue) r1 r2 size =
  Printf.sprintf "%d %d %d %d %d" (int_of_z q.queue_sequenceBase) (int_of_z q.queue_sequenceTop) (b2i r1) (b2i r2) size

let eval_line (line : string) : (string * string * string) =
  match split_ws line with
  | "CS" :: base :: top :: impl ->
    let b = z_of_int (int_of_string base) and t = z_of_int (int_of_string top) in
    let bm = Bytes.make 32 '\000' in
    let panicked = ref false in
    for seq = 0 to 255 do
      match containsSequence b t (z_of_int seq) with
      | Ok true -> Bytes.set bm (seq / 8) (Char.chr ((Char.code (Bytes.get bm (seq / 8))) lor (1 lsl (seq mod 8))))
      | Ok false -> ()
      | Panic -> panicked := true
    done;
    let v = if !panicked then "panic" else begin
        let buf = Buffer.create 64 in
        Bytes.iter (fun c -> Buffer.add_string buf (Printf.sprintf "%02x" (Char.code c))) bm;
        Buffer.contents buf end in
    ("CS " ^ base ^ " " ^ top, v, String.concat " " impl)
  | "Q" :: op :: s :: base :: top :: seq :: impl ->
    let si = int_of_string s in
    let q = mkq si (int_of_string base) (int_of_string top) in
    let sq = z_of_int (int_of_string seq) in
    let v = match op with
      | "size" -> (match queue_size q with Ok z -> qres q false false (int_of_z z) | Panic -> "panic")
      | "add" -> (match queue_addPacket q { packetData_Seq = Z0; packetData_FinalChunk = false; packetData_IsPing = false; packetData_Payload = [] } with
          | Ok (q', _) -> qres q' false false 0 | Panic -> "panic")
      | "ack" -> (match queue_processACK q sq with Ok (q', r) -> qres q' r false 0 | Panic -> "panic")
      | "nack" -> (match queue_processNACK q sq with Ok ((q', r1), r2) -> qres q' r1 r2 0 | Panic -> "panic")
      | _ -> failwith "bad op" in
    (String.concat " " ["Q"; op; s; base; top; seq], v, String.concat " " impl)
  | "SY" :: s :: top :: impl ->
    let c = { syncer_s = z_of_int (int_of_string s); syncer_state = Z0; syncer_expectedACK = Z0; syncer_expectedNACK = Z0 } in
    let v = match syncer_initResendUpTo c (z_of_int (int_of_string top)) with
      | Panic -> "panic"
      | Ok c' -> Printf.sprintf "%d %d" (int_of_z c'.syncer_expectedACK) (int_of_z c'.syncer_expectedNACK) in
    ("SY " ^ s ^ " " ^ top, v, String.concat " " impl)
  | _ -> failwith ("bad line: " ^ line)
