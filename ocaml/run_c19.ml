open Lnc_model
open Zconv

let msg_string (m : message) : string =
  match m with
  | Message_PacketData p ->
    Printf.sprintf "data %d %d %d %s" (int_of_z p.packetData_Seq) (b2i p.packetData_FinalChunk)
      (b2i p.packetData_IsPing) (hex_of_bytes_strict p.packetData_Payload)
  | Message_PacketACK p -> Printf.sprintf "ack %d" (int_of_z p.packetACK_Seq)
  | Message_PacketNACK p -> Printf.sprintf "nack %d" (int_of_z p.packetNACK_Seq)
  | Message_PacketSYN p -> Printf.sprintf "syn %d" (int_of_z p.packetSYN_N)
  | Message_PacketFIN -> "fin"
  | Message_PacketSYNACK -> "synack"

let parse_msg (toks : string list) : message * string list =
  match toks with
  | "data" :: s :: f :: p :: pl :: rest ->
    (Message_PacketData { packetData_Seq = z_of_int (int_of_string s); packetData_FinalChunk = (f = "1");
                          packetData_IsPing = (p = "1"); packetData_Payload = bytes_of_hex pl }, rest)
  | "ack" :: n :: rest -> (Message_PacketACK { packetACK_Seq = z_of_int (int_of_string n) }, rest)
  | "nack" :: n :: rest -> (Message_PacketNACK { packetNACK_Seq = z_of_int (int_of_string n) }, rest)
  | "syn" :: n :: rest -> (Message_PacketSYN { packetSYN_N = z_of_int (int_of_string n) }, rest)
  | "fin" :: rest -> (Message_PacketFIN, rest)
  | "synack" :: rest -> (Message_PacketSYNACK, rest)
  | _ -> failwith "bad message spec"

let deser_string (b : z list) : string =
  match deserialize b with
  | Panic -> "panic"
  | Ok None -> "none"
  | Ok (Some m) -> msg_string m

let msgdata_string (r : msgData option res) : string =
  match r with
  | Panic -> "panic"
  | Ok None -> "none"
  | Ok (Some m) -> Printf.sprintf "msg %d %s" (int_of_z m.msgData_version) (hex_of_bytes_strict m.msgData_Payload)

(* returns (key, model value, impl value) *)
let eval_line (line : string) : (string * string * string) =
  match split_ws line with
  | "D" :: h :: impl -> ("D " ^ h, deser_string (bytes_of_hex h), String.concat " " impl)
  | ("MD" | "MDV" as k) :: h :: impl -> (k ^ " " ^ h, msgdata_string (msgData_decode (bytes_of_hex h)), String.concat " " impl)
  | "S" :: rest ->
    let (m, impl) = parse_msg rest in
    let v = match message_Serialize m with
      | Panic -> "panic" | Ok None -> "err" | Ok (Some b) -> hex_of_bytes_strict b in
    ("S " ^ msg_string m, v, String.concat " " impl)
  | "MS" :: ver :: pl :: impl ->
    let m = { msgData_version = z_of_int (int_of_string ver); msgData_Payload = bytes_of_hex pl } in
    let v = match msgData_Serialize m with
      | Panic -> "panic" | Ok None -> "err" | Ok (Some b) -> hex_of_bytes_strict b in
    ("MS " ^ ver ^ " " ^ (if String.length pl > 40 then String.sub pl 0 40 ^ "..." else pl), v, String.concat " " impl)
  | _ -> failwith ("bad line: " ^ line)
