// go2coq: translate a small, pure subset of Go (the window arithmetic of
// gbn/queue.go, the packet codecs, MsgData, GetSID, syncer.initResendUpTo)
// into Gallina definitions over coq/GoLite.v. Anything outside the accepted
// subset is a translation error (exit 2), never a silent approximation.
package main

import (
	"encoding/json"
	"flag"
	"fmt"
	"go/ast"
	"go/constant"
	"go/importer"
	"go/parser"
	"go/token"
	"go/types"
	"os"
	"path/filepath"
	"sort"
	"strings"
)

type unit struct {
	Out      string   // output file (module name = base name)
	Dir      string   // package dir relative to repo
	Requires []string // other generated modules
	Structs  []string // struct types emitted as records, in order
	Iface    string   // optional interface emitted as sum of *Structs implementing it
	IfaceOf  []string // structs that are variants
	Funcs    []string // "Recv.Method" or "Func"
}

var units = []unit{
	{
		Out: "MessagesGen.v", Dir: "gbn",
		Structs: []string{"PacketData", "PacketACK", "PacketSYN", "PacketNACK", "PacketFIN", "PacketSYNACK"},
		Iface:   "Message",
		IfaceOf: []string{"PacketData", "PacketACK", "PacketSYN", "PacketNACK", "PacketFIN", "PacketSYNACK"},
		Funcs: []string{"PacketData.Serialize", "PacketACK.Serialize", "PacketSYN.Serialize",
			"PacketNACK.Serialize", "PacketFIN.Serialize", "PacketSYNACK.Serialize", "Deserialize"},
	},
	{
		Out: "QueueGen.v", Dir: "gbn", Requires: []string{"MessagesGen"},
		Structs: []string{"queueCfg", "queue"},
		Funcs: []string{"containsSequence", "queue.size", "queue.addPacket",
			"queue.processACK", "queue.processNACK"},
	},
	{
		Out: "SyncerGen.v", Dir: "gbn",
		Structs: []string{"syncer"},
		Funcs:   []string{"syncer.initResendUpTo"},
	},
	{
		Out: "MsgDataGen.v", Dir: "mailbox",
		Structs: []string{"MsgData"},
		Funcs:   []string{"MsgData.Serialize", "MsgData.Deserialize"},
	},
	{
		Out: "SidGen.v", Dir: "mailbox",
		Funcs: []string{"GetSID"},
	},
}

type fakeImporter struct {
	src  types.Importer
	fake map[string]*types.Package
}

func (f *fakeImporter) Import(path string) (*types.Package, error) {
	first := strings.Split(path, "/")[0]
	if !strings.Contains(first, ".") {
		if p, err := f.src.Import(path); err == nil {
			return p, nil
		}
	}
	if p, ok := f.fake[path]; ok {
		return p, nil
	}
	name := filepath.Base(path)
	if strings.HasPrefix(name, "v") && len(name) <= 3 {
		name = filepath.Base(filepath.Dir(path))
	}
	p := types.NewPackage(path, name)
	p.MarkComplete()
	f.fake[path] = p
	return p, nil
}

type pkgInfo struct {
	fset  *token.FileSet
	files []*ast.File
	info  *types.Info
	pkg   *types.Package
}

func loadPkg(dir string) (*pkgInfo, error) {
	fset := token.NewFileSet()
	ents, err := os.ReadDir(dir)
	if err != nil {
		return nil, err
	}
	var files []*ast.File
	for _, e := range ents {
		n := e.Name()
		if !strings.HasSuffix(n, ".go") || strings.HasSuffix(n, "_test.go") {
			continue
		}
		src, err := os.ReadFile(filepath.Join(dir, n))
		if err != nil {
			return nil, err
		}
		// skip files with build constraints (verif hooks, rpctest, js)
		head := string(src)
		if i := strings.Index(head, "package "); i >= 0 {
			head = head[:i]
		}
		if strings.Contains(head, "//go:build") || strings.Contains(head, "// +build") {
			continue
		}
		f, err := parser.ParseFile(fset, filepath.Join(dir, n), src, parser.ParseComments)
		if err != nil {
			return nil, err
		}
		files = append(files, f)
	}
	info := &types.Info{
		Types:      map[ast.Expr]types.TypeAndValue{},
		Defs:       map[*ast.Ident]types.Object{},
		Uses:       map[*ast.Ident]types.Object{},
		Selections: map[*ast.SelectorExpr]*types.Selection{},
	}
	conf := types.Config{
		Importer: &fakeImporter{src: importer.ForCompiler(fset, "source", nil), fake: map[string]*types.Package{}},
		Error:    func(error) {},
	}
	pkg, _ := conf.Check(dir, fset, files, info)
	return &pkgInfo{fset: fset, files: files, info: info, pkg: pkg}, nil
}

type terr struct{ msg string }

func fail(p *pkgInfo, n ast.Node, format string, a ...interface{}) {
	pos := ""
	if n != nil && p != nil {
		pos = p.fset.Position(n.Pos()).String() + ": "
	}
	panic(terr{pos + fmt.Sprintf(format, a...)})
}

// ---------------------------------------------------------------------------

type gen struct {
	p       *pkgInfo
	u       *unit
	structs map[string]*types.Struct // record name -> struct (fields filtered)
	fields  map[string][]*types.Var
	known   map[string]bool // struct names available (this unit + required)
	funcs   map[string]*ast.FuncDecl
	ntmp    int
	erased  []string
	out     strings.Builder

	// per function
	recvName    string
	recvStruct  string
	recvMut     bool
	ptrParams   []string // names of pointer params that are mutated
	ptrStruct   map[string]string
	resultKind  string // "optval", "err", "vals", "none"
	resultTypes []types.Type
	ifaceRes    bool
	bufVars     map[string]bool
}

func (g *gen) tmp() string { g.ntmp++; return fmt.Sprintf("t%d", g.ntmp) }

func structName(t types.Type) (string, bool) {
	if pt, ok := t.(*types.Pointer); ok {
		t = pt.Elem()
	}
	if nt, ok := t.(*types.Named); ok {
		if _, ok := nt.Underlying().(*types.Struct); ok {
			return nt.Obj().Name(), true
		}
	}
	return "", false
}

func isByteSliceOrArray(t types.Type) bool {
	switch u := t.Underlying().(type) {
	case *types.Slice:
		b, ok := u.Elem().Underlying().(*types.Basic)
		return ok && b.Kind() == types.Uint8
	case *types.Array:
		b, ok := u.Elem().Underlying().(*types.Basic)
		return ok && b.Kind() == types.Uint8
	}
	return false
}

func intBits(t types.Type) (bits int, signed bool, ok bool) {
	b, isb := t.Underlying().(*types.Basic)
	if !isb {
		return 0, false, false
	}
	switch b.Kind() {
	case types.Uint8:
		return 8, false, true
	case types.Uint16:
		return 16, false, true
	case types.Uint32:
		return 32, false, true
	case types.Uint64, types.Uint:
		return 64, false, true
	case types.Int, types.Int64:
		return 64, true, true
	case types.Int32:
		return 32, true, true
	case types.UntypedInt:
		return 0, true, true
	}
	return 0, false, false
}

func (g *gen) coqType(t types.Type) (string, bool) {
	if _, _, ok := intBits(t); ok {
		return "Z", true
	}
	if b, ok := t.Underlying().(*types.Basic); ok && (b.Kind() == types.Bool || b.Kind() == types.UntypedBool) {
		return "bool", true
	}
	if isByteSliceOrArray(t) {
		return "(list Z)", true
	}
	if s, ok := structName(t); ok && g.known[s] {
		return s, true
	}
	if sl, ok := t.Underlying().(*types.Slice); ok {
		if pt, ok := sl.Elem().(*types.Pointer); ok {
			if s, ok := structName(pt); ok && g.known[s] {
				return "(list (option " + s + "))", true
			}
		}
	}
	if nt, ok := t.(*types.Named); ok && g.u.Iface != "" && nt.Obj().Name() == g.u.Iface {
		return g.u.Iface, true
	}
	return "", false
}

func (g *gen) zeroValue(t types.Type) string {
	if _, _, ok := intBits(t); ok {
		return "0"
	}
	if b, ok := t.Underlying().(*types.Basic); ok && b.Kind() == types.Bool {
		return "false"
	}
	if a, ok := t.Underlying().(*types.Array); ok && isByteSliceOrArray(t) {
		return fmt.Sprintf("(zeros %d)", a.Len())
	}
	if isByteSliceOrArray(t) {
		return "[]"
	}
	if _, ok := t.Underlying().(*types.Slice); ok {
		return "[]"
	}
	panic(terr{"no zero value for " + t.String()})
}

func (g *gen) emitStruct(name string) {
	obj := g.p.pkg.Scope().Lookup(name)
	if obj == nil {
		panic(terr{"struct not found: " + name})
	}
	st, ok := obj.Type().Underlying().(*types.Struct)
	if !ok {
		panic(terr{name + " is not a struct"})
	}
	var fs []*types.Var
	for i := 0; i < st.NumFields(); i++ {
		f := st.Field(i)
		if _, ok := g.coqType(f.Type()); ok {
			fs = append(fs, f)
		}
	}
	g.fields[name] = fs
	g.known[name] = true
	fmt.Fprintf(&g.out, "Record %s : Type := mk_%s {", name, name)
	for i, f := range fs {
		ct, _ := g.coqType(f.Type())
		if i > 0 {
			g.out.WriteString(";")
		}
		fmt.Fprintf(&g.out, "\n  %s_%s : %s", name, f.Name(), ct)
	}
	g.out.WriteString("\n}.\n")
	for _, f := range fs {
		ct, _ := g.coqType(f.Type())
		fmt.Fprintf(&g.out, "Definition set_%s_%s (r : %s) (v : %s) : %s :=\n  mk_%s", name, f.Name(), name, ct, name, name)
		for _, f2 := range fs {
			if f2 == f {
				g.out.WriteString(" v")
			} else {
				fmt.Fprintf(&g.out, " (%s_%s r)", name, f2.Name())
			}
		}
		g.out.WriteString(".\n")
	}
	g.out.WriteString("\n")
}

// ---------------------------------------------------------------------------
// expressions

type ex struct {
	pre  []string // "x <- e ;;" lines
	term string
	typ  types.Type
}

func (g *gen) typeOf(e ast.Expr) types.Type {
	tv, ok := g.p.info.Types[e]
	if !ok || tv.Type == nil {
		fail(g.p, e, "no type information for expression")
	}
	return tv.Type
}

func (g *gen) constOf(e ast.Expr) (string, bool) {
	tv, ok := g.p.info.Types[e]
	if !ok || tv.Value == nil {
		return "", false
	}
	switch tv.Value.Kind() {
	case constant.Int:
		s := tv.Value.ExactString()
		if strings.HasPrefix(s, "-") {
			return "(" + s + ")", true
		}
		return s, true
	case constant.Bool:
		if constant.BoolVal(tv.Value) {
			return "true", true
		}
		return "false", true
	}
	return "", false
}

func wrapInt(t types.Type, s string) string {
	bits, signed, ok := intBits(t)
	if !ok || signed || bits == 0 {
		return s
	}
	switch bits {
	case 8:
		return "(u8 " + s + ")"
	case 16:
		return "(u16 " + s + ")"
	case 32:
		return "(u32 " + s + ")"
	case 64:
		return "(u64 " + s + ")"
	}
	return s
}

func (g *gen) selPath(e ast.Expr) string {
	switch x := e.(type) {
	case *ast.Ident:
		return x.Name
	case *ast.SelectorExpr:
		return g.selPath(x.X) + "." + x.Sel.Name
	case *ast.CallExpr:
		return g.selPath(x.Fun) + "()"
	}
	return "?"
}

func (g *gen) expr(e ast.Expr) ex {
	if c, ok := g.constOf(e); ok {
		return ex{term: c, typ: g.typeOf(e)}
	}
	switch x := e.(type) {
	case *ast.ParenExpr:
		r := g.expr(x.X)
		return r
	case *ast.Ident:
		if x.Name == "nil" {
			fail(g.p, e, "bare nil in expression")
		}
		return ex{term: x.Name, typ: g.typeOf(e)}
	case *ast.SelectorExpr:
		bt := g.typeOf(x.X)
		sn, ok := structName(bt)
		if !ok || !g.known[sn] {
			fail(g.p, e, "selector on unsupported type %s", bt)
		}
		found := false
		for _, f := range g.fields[sn] {
			if f.Name() == x.Sel.Name {
				found = true
			}
		}
		if !found {
			fail(g.p, e, "field %s.%s is not modelled", sn, x.Sel.Name)
		}
		b := g.expr(x.X)
		return ex{pre: b.pre, term: fmt.Sprintf("(%s_%s %s)", sn, x.Sel.Name, b.term), typ: g.typeOf(e)}
	case *ast.UnaryExpr:
		switch x.Op {
		case token.NOT:
			a := g.expr(x.X)
			return ex{pre: a.pre, term: "(negb " + a.term + ")", typ: a.typ}
		case token.AND:
			if cl, ok := x.X.(*ast.CompositeLit); ok {
				return g.complit(cl)
			}
		}
		fail(g.p, e, "unsupported unary operator %s", x.Op)
	case *ast.CompositeLit:
		return g.complit(x)
	case *ast.BinaryExpr:
		return g.binary(x)
	case *ast.IndexExpr:
		a := g.expr(x.X)
		i := g.expr(x.Index)
		t := g.tmp()
		pre := append(append([]string{}, a.pre...), i.pre...)
		pre = append(pre, fmt.Sprintf("%s <- idx %s %s ;;", t, a.term, i.term))
		return ex{pre: pre, term: t, typ: g.typeOf(e)}
	case *ast.SliceExpr:
		if x.Slice3 {
			fail(g.p, e, "3-index slice")
		}
		a := g.expr(x.X)
		if x.Low == nil && x.High == nil {
			return ex{pre: a.pre, term: a.term, typ: g.typeOf(e)}
		}
		pre := append([]string{}, a.pre...)
		t := g.tmp()
		if x.High == nil {
			lo := g.expr(x.Low)
			pre = append(pre, lo.pre...)
			pre = append(pre, fmt.Sprintf("%s <- slice_from %s %s ;;", t, a.term, lo.term))
			return ex{pre: pre, term: t, typ: g.typeOf(e)}
		}
		lot := "0"
		if x.Low != nil {
			lo := g.expr(x.Low)
			pre = append(pre, lo.pre...)
			lot = lo.term
		}
		hi := g.expr(x.High)
		pre = append(pre, hi.pre...)
		pre = append(pre, fmt.Sprintf("%s <- slice %s %s %s ;;", t, a.term, lot, hi.term))
		return ex{pre: pre, term: t, typ: g.typeOf(e)}
	case *ast.CallExpr:
		return g.call(x)
	}
	fail(g.p, e, "unsupported expression %T", e)
	return ex{}
}

func (g *gen) complit(cl *ast.CompositeLit) ex {
	t := g.typeOf(cl)
	sn, ok := structName(t)
	if !ok || !g.known[sn] {
		fail(g.p, cl, "composite literal of unsupported type %s", t)
	}
	vals := map[string]ex{}
	for _, el := range cl.Elts {
		kv, ok := el.(*ast.KeyValueExpr)
		if !ok {
			fail(g.p, cl, "positional composite literal")
		}
		vals[kv.Key.(*ast.Ident).Name] = g.expr(kv.Value)
	}
	var pre []string
	s := "(mk_" + sn
	for _, f := range g.fields[sn] {
		if v, ok := vals[f.Name()]; ok {
			pre = append(pre, v.pre...)
			s += " " + v.term
			delete(vals, f.Name())
		} else {
			s += " " + g.zeroValue(f.Type())
		}
	}
	s += ")"
	if len(vals) != 0 {
		fail(g.p, cl, "composite literal sets unmodelled field")
	}
	return ex{pre: pre, term: s, typ: t}
}

func (g *gen) binary(x *ast.BinaryExpr) ex {
	a := g.expr(x.X)
	b := g.expr(x.Y)
	rt := g.typeOf(x)
	pre := append(append([]string{}, a.pre...), b.pre...)
	isBool := func(t types.Type) bool {
		bb, ok := t.Underlying().(*types.Basic)
		return ok && (bb.Kind() == types.Bool || bb.Kind() == types.UntypedBool)
	}
	switch x.Op {
	case token.LAND, token.LOR:
		if len(b.pre) > 0 {
			fail(g.p, x, "right operand of && / || can panic: short-circuit not supported")
		}
		op := "&&"
		if x.Op == token.LOR {
			op = "||"
		}
		return ex{pre: pre, term: fmt.Sprintf("(%s %s %s)", a.term, op, b.term), typ: rt}
	case token.EQL, token.NEQ:
		var s string
		if isBool(a.typ) {
			s = fmt.Sprintf("(Bool.eqb %s %s)", a.term, b.term)
		} else if _, _, ok := intBits(a.typ); ok {
			s = fmt.Sprintf("(%s =? %s)", a.term, b.term)
		} else {
			fail(g.p, x, "equality on unsupported type %s", a.typ)
		}
		if x.Op == token.NEQ {
			s = "(negb " + s + ")"
		}
		return ex{pre: pre, term: s, typ: rt}
	case token.LSS:
		return ex{pre: pre, term: fmt.Sprintf("(%s <? %s)", a.term, b.term), typ: rt}
	case token.LEQ:
		return ex{pre: pre, term: fmt.Sprintf("(%s <=? %s)", a.term, b.term), typ: rt}
	case token.GTR:
		return ex{pre: pre, term: fmt.Sprintf("(%s <? %s)", b.term, a.term), typ: rt}
	case token.GEQ:
		return ex{pre: pre, term: fmt.Sprintf("(%s <=? %s)", b.term, a.term), typ: rt}
	case token.ADD:
		return ex{pre: pre, term: wrapInt(rt, fmt.Sprintf("(%s + %s)", a.term, b.term)), typ: rt}
	case token.SUB:
		return ex{pre: pre, term: wrapInt(rt, fmt.Sprintf("(%s - %s)", a.term, b.term)), typ: rt}
	case token.MUL:
		return ex{pre: pre, term: wrapInt(rt, fmt.Sprintf("(%s * %s)", a.term, b.term)), typ: rt}
	case token.XOR:
		return ex{pre: pre, term: fmt.Sprintf("(Z.lxor %s %s)", a.term, b.term), typ: rt}
	case token.REM:
		if _, signed, _ := intBits(rt); signed {
			fail(g.p, x, "signed %% not supported")
		}
		t := g.tmp()
		pre = append(pre, fmt.Sprintf("%s <- umod %s %s ;;", t, a.term, b.term))
		return ex{pre: pre, term: t, typ: rt}
	}
	fail(g.p, x, "unsupported binary operator %s", x.Op)
	return ex{}
}

func (g *gen) call(c *ast.CallExpr) ex {
	// conversions
	if tv, ok := g.p.info.Types[c.Fun]; ok && tv.IsType() {
		if len(c.Args) != 1 {
			fail(g.p, c, "conversion arity")
		}
		a := g.expr(c.Args[0])
		tt := tv.Type
		if _, _, ok := intBits(tt); !ok {
			fail(g.p, c, "conversion to unsupported type %s", tt)
		}
		if _, signed, _ := intBits(a.typ); signed {
			if _, tsigned, _ := intBits(tt); !tsigned {
				// signed -> unsigned: wrap
				return ex{pre: a.pre, term: wrapInt(tt, a.term), typ: tt}
			}
			return ex{pre: a.pre, term: a.term, typ: tt}
		}
		sb, _, _ := intBits(a.typ)
		tb, tsigned, _ := intBits(tt)
		if tsigned && tb >= 64 && sb < 64 || (!tsigned && tb >= sb) {
			return ex{pre: a.pre, term: a.term, typ: tt}
		}
		if tsigned {
			fail(g.p, c, "narrowing signed conversion not supported")
		}
		return ex{pre: a.pre, term: wrapInt(tt, a.term), typ: tt}
	}
	path := g.selPath(c.Fun)
	switch path {
	case "len":
		a := g.expr(c.Args[0])
		return ex{pre: a.pre, term: "(len " + a.term + ")", typ: g.typeOf(c)}
	case "byteOrder.Uint32", "binary.BigEndian.Uint32":
		a := g.expr(c.Args[0])
		t := g.tmp()
		pre := append(append([]string{}, a.pre...), fmt.Sprintf("%s <- be32_get %s ;;", t, a.term))
		return ex{pre: pre, term: t, typ: g.typeOf(c)}
	}
	// buffer reads
	if se, ok := c.Fun.(*ast.SelectorExpr); ok {
		if id, ok := se.X.(*ast.Ident); ok && g.bufVars[id.Name] && se.Sel.Name == "Bytes" {
			return ex{term: id.Name, typ: g.typeOf(c)}
		}
	}
	// calls to functions / methods of this unit
	if id, ok := c.Fun.(*ast.Ident); ok {
		if _, ok := g.funcs[id.Name]; ok {
			var pre []string
			s := id.Name
			for _, a := range c.Args {
				ae := g.expr(a)
				pre = append(pre, ae.pre...)
				s += " " + ae.term
			}
			t := g.tmp()
			pre = append(pre, fmt.Sprintf("%s <- %s ;;", t, s))
			return ex{pre: pre, term: t, typ: g.typeOf(c)}
		}
	}
	if se, ok := c.Fun.(*ast.SelectorExpr); ok {
		if sn, ok := structName(g.typeOf(se.X)); ok {
			key := sn + "." + se.Sel.Name
			if fd, ok := g.funcs[key]; ok {
				if mutatesRecv(fd) {
					fail(g.p, c, "call to receiver-mutating method %s inside an expression", key)
				}
				r := g.expr(se.X)
				pre := append([]string{}, r.pre...)
				s := sn + "_" + se.Sel.Name + " " + r.term
				for _, a := range c.Args {
					ae := g.expr(a)
					pre = append(pre, ae.pre...)
					s += " " + ae.term
				}
				t := g.tmp()
				pre = append(pre, fmt.Sprintf("%s <- %s ;;", t, s))
				return ex{pre: pre, term: t, typ: g.typeOf(c)}
			}
		}
	}
	fail(g.p, c, "unsupported call %s", path)
	return ex{}
}

func mutatesRecv(fd *ast.FuncDecl) bool {
	if fd.Recv == nil || len(fd.Recv.List) == 0 || len(fd.Recv.List[0].Names) == 0 {
		return false
	}
	rn := fd.Recv.List[0].Names[0].Name
	mut := false
	ast.Inspect(fd.Body, func(n ast.Node) bool {
		if as, ok := n.(*ast.AssignStmt); ok {
			for _, l := range as.Lhs {
				if rootIdent(l) == rn {
					if _, isId := l.(*ast.Ident); !isId {
						mut = true
					}
				}
			}
		}
		return true
	})
	return mut
}

func rootIdent(e ast.Expr) string {
	switch x := e.(type) {
	case *ast.Ident:
		return x.Name
	case *ast.SelectorExpr:
		return rootIdent(x.X)
	case *ast.IndexExpr:
		return rootIdent(x.X)
	case *ast.SliceExpr:
		return rootIdent(x.X)
	case *ast.ParenExpr:
		return rootIdent(x.X)
	case *ast.StarExpr:
		return rootIdent(x.X)
	}
	return ""
}

// ---------------------------------------------------------------------------
// statements (continuation-passing; every `if` inlines its continuation)

type kont func() string

func joinPre(pre []string, body string) string {
	if len(pre) == 0 {
		return body
	}
	return strings.Join(pre, "\n") + "\n" + body
}

func (g *gen) erase(n ast.Node, why string) {
	pos := g.p.fset.Position(n.Pos())
	g.erased = append(g.erased, fmt.Sprintf("%s:%d %s", filepath.Base(pos.Filename), pos.Line, why))
}

func (g *gen) isErasableCall(c *ast.CallExpr) (bool, string) {
	path := g.selPath(c.Fun)
	parts := strings.Split(path, ".")
	last := parts[len(parts)-1]
	switch last {
	case "Tracef", "Debugf", "Infof", "Warnf", "Errorf", "Criticalf":
		if len(parts) >= 2 && parts[len(parts)-2] == "log" {
			return true, "logger call " + path
		}
	case "Lock", "Unlock", "RLock", "RUnlock":
		return true, "mutex " + path
	}
	if path == "q.syncer.processACK" || path == "q.syncer.processNACK" {
		return true, "syncer notification " + path + " (modelled in the timed monitor)"
	}
	return false, ""
}

func (g *gen) stmts(list []ast.Stmt, k kont) string {
	if len(list) == 0 {
		return k()
	}
	s := list[0]
	rest := func() string { return g.stmts(list[1:], k) }
	switch x := s.(type) {
	case *ast.EmptyStmt:
		return rest()
	case *ast.ExprStmt:
		c, ok := x.X.(*ast.CallExpr)
		if !ok {
			fail(g.p, s, "unsupported expression statement")
		}
		if ok, why := g.isErasableCall(c); ok {
			g.erase(s, why)
			return rest()
		}
		path := g.selPath(c.Fun)
		switch path {
		case "copy":
			dst := rootIdent(c.Args[0])
			if _, isId := stripSliceAll(c.Args[0]).(*ast.Ident); !isId || dst == "" {
				fail(g.p, s, "copy destination must be a local variable")
			}
			src := g.expr(c.Args[1])
			return joinPre(src.pre, fmt.Sprintf("let %s := copy_into %s %s in\n%s", dst, dst, src.term, rest()))
		case "byteOrder.PutUint32", "binary.BigEndian.PutUint32":
			dst := rootIdent(c.Args[0])
			if _, isId := stripSliceAll(c.Args[0]).(*ast.Ident); !isId || dst == "" {
				fail(g.p, s, "PutUint32 destination must be a local variable")
			}
			v := g.expr(c.Args[1])
			return joinPre(v.pre, fmt.Sprintf("%s <- be32_put_into %s %s ;;\n%s", dst, dst, v.term, rest()))
		}
		if eff, ok := g.bufEffect(c); ok {
			return eff + "\n" + rest()
		}
		fail(g.p, s, "unsupported call statement %s", path)
	case *ast.DeferStmt:
		if ok, why := g.isErasableCall(x.Call); ok {
			g.erase(s, "defer "+why)
			return rest()
		}
		fail(g.p, s, "unsupported defer")
	case *ast.DeclStmt:
		gd := x.Decl.(*ast.GenDecl)
		out := ""
		for _, sp := range gd.Specs {
			vs, ok := sp.(*ast.ValueSpec)
			if !ok {
				fail(g.p, s, "unsupported declaration")
			}
			for i, n := range vs.Names {
				if gd.Tok == token.CONST {
					continue // uses are constant-folded by go/types
				}
				if len(vs.Values) > i {
					v := g.expr(vs.Values[i])
					out += joinPre(v.pre, fmt.Sprintf("let %s := %s in\n", n.Name, v.term))
					continue
				}
				t := g.p.info.Defs[n].Type()
				if t.String() == "bytes.Buffer" {
					g.bufVars[n.Name] = true
					out += fmt.Sprintf("let %s := @nil Z in\n", n.Name)
					continue
				}
				out += fmt.Sprintf("let %s := %s in\n", n.Name, g.zeroValue(t))
			}
		}
		return out + rest()
	case *ast.AssignStmt:
		return g.assign(x, rest)
	case *ast.IfStmt:
		// bytes.Buffer idiom: if [_,] err := buf.WriteX(..); err != nil { return nil, err }
		if x.Init != nil {
			if as, ok := x.Init.(*ast.AssignStmt); ok && len(as.Rhs) == 1 {
				if c, ok := as.Rhs[0].(*ast.CallExpr); ok {
					if eff, ok := g.bufEffect(c); ok && isErrNotNil(x.Cond) && x.Else == nil {
						g.erase(x, "error branch of bytes.Buffer write (never fails)")
						return eff + "\n" + rest()
					}
				}
			}
			fail(g.p, s, "unsupported if-init")
		}
		c := g.expr(x.Cond)
		thenS := g.stmts(x.Body.List, rest)
		var elseS string
		switch e := x.Else.(type) {
		case nil:
			elseS = rest()
		case *ast.BlockStmt:
			elseS = g.stmts(e.List, rest)
		case *ast.IfStmt:
			elseS = g.stmts([]ast.Stmt{e}, rest)
		}
		return joinPre(c.pre, fmt.Sprintf("if %s then (\n%s\n) else (\n%s\n)", c.term, thenS, elseS))
	case *ast.SwitchStmt:
		if x.Init != nil {
			fail(g.p, s, "switch init")
		}
		var pre []string
		tagT := ""
		var tagTyp types.Type
		if x.Tag != nil {
			t := g.expr(x.Tag)
			pre = t.pre
			tagT = t.term
			tagTyp = t.typ
		}
		var def *ast.CaseClause
		var clauses []*ast.CaseClause
		for _, cc := range x.Body.List {
			c := cc.(*ast.CaseClause)
			if c.List == nil {
				def = c
			} else {
				clauses = append(clauses, c)
			}
		}
		body := func(c *ast.CaseClause) string {
			// `break` at the end of a clause just ends it
			l := c.Body
			for _, st := range l {
				if _, ok := st.(*ast.BranchStmt); ok {
					fail(g.p, st, "break/fallthrough in switch not supported")
				}
			}
			return g.stmts(l, rest)
		}
		out := ""
		if def != nil {
			out = body(def)
		} else {
			out = rest()
		}
		for i := len(clauses) - 1; i >= 0; i-- {
			c := clauses[i]
			var conds []string
			var cpre []string
			for _, e := range c.List {
				ce := g.expr(e)
				if len(ce.pre) > 0 {
					fail(g.p, e, "case expression can panic")
				}
				cpre = append(cpre, ce.pre...)
				if x.Tag != nil {
					if b, ok := tagTyp.Underlying().(*types.Basic); ok && b.Kind() == types.Bool {
						conds = append(conds, fmt.Sprintf("(Bool.eqb %s %s)", tagT, ce.term))
					} else {
						conds = append(conds, fmt.Sprintf("(%s =? %s)", tagT, ce.term))
					}
				} else {
					conds = append(conds, ce.term)
				}
			}
			out = fmt.Sprintf("if %s then (\n%s\n) else (\n%s\n)", strings.Join(conds, " || "), body(c), out)
		}
		return joinPre(pre, out)
	case *ast.SelectStmt:
		// only the non-blocking drain `select { case <-c.cancel: default: }`
		ok := true
		for _, cc := range x.Body.List {
			c := cc.(*ast.CommClause)
			if len(c.Body) != 0 {
				ok = false
			}
			if c.Comm != nil {
				es, isE := c.Comm.(*ast.ExprStmt)
				if !isE {
					ok = false
				} else if u, isU := es.X.(*ast.UnaryExpr); !isU || u.Op != token.ARROW || g.selPath(u.X) != "c.cancel" {
					ok = false
				}
			}
		}
		if !ok {
			fail(g.p, s, "unsupported select")
		}
		g.erase(s, "non-blocking drain of c.cancel")
		return rest()
	case *ast.ReturnStmt:
		return g.ret(x)
	case *ast.BlockStmt:
		return g.stmts(append(append([]ast.Stmt{}, x.List...), list[1:]...), k)
	}
	fail(g.p, s, "unsupported statement %T", s)
	return ""
}

func stripSliceAll(e ast.Expr) ast.Expr {
	if se, ok := e.(*ast.SliceExpr); ok && se.Low == nil && se.High == nil {
		return se.X
	}
	return e
}

func isErrNotNil(e ast.Expr) bool {
	b, ok := e.(*ast.BinaryExpr)
	if !ok || b.Op != token.NEQ {
		return false
	}
	x, ok1 := b.X.(*ast.Ident)
	y, ok2 := b.Y.(*ast.Ident)
	return ok1 && ok2 && x.Name == "err" && y.Name == "nil"
}

// bufEffect recognises buf.WriteByte(x) / buf.Write(x) on a declared bytes.Buffer.
func (g *gen) bufEffect(c *ast.CallExpr) (string, bool) {
	se, ok := c.Fun.(*ast.SelectorExpr)
	if !ok {
		return "", false
	}
	id, ok := se.X.(*ast.Ident)
	if !ok || !g.bufVars[id.Name] {
		return "", false
	}
	switch se.Sel.Name {
	case "WriteByte":
		a := g.expr(c.Args[0])
		return joinPre(a.pre, fmt.Sprintf("let %s := %s ++ [%s] in", id.Name, id.Name, a.term)), true
	case "Write":
		a := g.expr(c.Args[0])
		return joinPre(a.pre, fmt.Sprintf("let %s := %s ++ %s in", id.Name, id.Name, a.term)), true
	}
	return "", false
}

func (g *gen) assign(x *ast.AssignStmt, rest kont) string {
	if len(x.Lhs) != 1 || len(x.Rhs) != 1 {
		fail(g.p, x, "multi-assignment not supported")
	}
	lhs := x.Lhs[0]
	rhsE := x.Rhs[0]
	opAssign := x.Tok != token.ASSIGN && x.Tok != token.DEFINE
	mk := func(cur string, r ex) ex {
		if !opAssign {
			return r
		}
		t := g.typeOf(lhs)
		switch x.Tok {
		case token.XOR_ASSIGN:
			return ex{pre: r.pre, term: fmt.Sprintf("(Z.lxor %s %s)", cur, r.term), typ: t}
		case token.ADD_ASSIGN:
			return ex{pre: r.pre, term: wrapInt(t, fmt.Sprintf("(%s + %s)", cur, r.term)), typ: t}
		}
		fail(g.p, x, "unsupported assignment operator %s", x.Tok)
		return ex{}
	}
	switch l := lhs.(type) {
	case *ast.Ident:
		r := mk(l.Name, g.expr(rhsE))
		// wrap pointer-to-struct stored into a nilable slot is handled at index assignment
		return joinPre(r.pre, fmt.Sprintf("let %s := %s in\n%s", l.Name, r.term, rest()))
	case *ast.SelectorExpr:
		base, ok := l.X.(*ast.Ident)
		if !ok {
			fail(g.p, x, "nested field assignment not supported")
		}
		sn, ok := structName(g.typeOf(l.X))
		if !ok || !g.known[sn] {
			fail(g.p, x, "assignment to field of unsupported type")
		}
		modelled := false
		for _, f := range g.fields[sn] {
			if f.Name() == l.Sel.Name {
				modelled = true
			}
		}
		if !modelled {
			fail(g.p, x, "assignment to unmodelled field %s.%s", sn, l.Sel.Name)
		}
		cur := fmt.Sprintf("(%s_%s %s)", sn, l.Sel.Name, base.Name)
		r := mk(cur, g.expr(rhsE))
		return joinPre(r.pre, fmt.Sprintf("let %s := set_%s_%s %s %s in\n%s", base.Name, sn, l.Sel.Name, base.Name, r.term, rest()))
	case *ast.IndexExpr:
		i := g.expr(l.Index)
		r := g.expr(rhsE)
		// element type: pointer to struct => option
		val := r.term
		if opAssign {
			cur := g.tmp()
			arr := g.expr(l.X)
			pre := append(append(append([]string{}, arr.pre...), i.pre...), fmt.Sprintf("%s <- idx %s %s ;;", cur, arr.term, i.term))
			rr := mk(cur, r)
			r = ex{pre: append(pre, rr.pre...), term: rr.term}
			val = r.term
		} else if _, isPtr := g.typeOf(lhs).(*types.Pointer); isPtr {
			val = "(Some " + r.term + ")"
		}
		switch b := l.X.(type) {
		case *ast.Ident:
			pre := append(append([]string{}, i.pre...), r.pre...)
			return joinPre(pre, fmt.Sprintf("%s <- upd %s %s %s ;;\n%s", b.Name, b.Name, i.term, val, rest()))
		case *ast.SelectorExpr:
			base, ok := b.X.(*ast.Ident)
			if !ok {
				fail(g.p, x, "nested indexed field assignment")
			}
			sn, _ := structName(g.typeOf(b.X))
			t := g.tmp()
			pre := append(append([]string{}, i.pre...), r.pre...)
			return joinPre(pre, fmt.Sprintf("%s <- upd (%s_%s %s) %s %s ;;\nlet %s := set_%s_%s %s %s in\n%s",
				t, sn, b.Sel.Name, base.Name, i.term, val, base.Name, sn, b.Sel.Name, base.Name, t, rest()))
		}
	}
	fail(g.p, x, "unsupported assignment target")
	return ""
}

func (g *gen) outs(results []string) string {
	var o []string
	if g.recvMut {
		o = append(o, g.recvName)
	}
	o = append(o, g.ptrParams...)
	o = append(o, results...)
	switch len(o) {
	case 0:
		return "Ok tt"
	case 1:
		return "Ok " + o[0]
	}
	return "Ok (" + strings.Join(o, ", ") + ")"
}

func isNilIdent(e ast.Expr) bool {
	id, ok := e.(*ast.Ident)
	return ok && id.Name == "nil"
}

func (g *gen) upcast(e ast.Expr, r ex) string {
	if g.ifaceRes {
		sn, ok := structName(r.typ)
		if !ok {
			fail(g.p, e, "cannot convert %s to interface %s", r.typ, g.u.Iface)
		}
		return fmt.Sprintf("(%s_%s %s)", g.u.Iface, sn, r.term)
	}
	return r.term
}

func (g *gen) ret(x *ast.ReturnStmt) string {
	switch g.resultKind {
	case "none":
		if len(x.Results) != 0 {
			fail(g.p, x, "unexpected results")
		}
		return g.outs(nil)
	case "err":
		if isNilIdent(x.Results[0]) {
			return g.outs([]string{"false"})
		}
		return g.outs([]string{"true"})
	case "optval":
		if !isNilIdent(x.Results[1]) {
			return g.outs([]string{"None"})
		}
		r := g.expr(x.Results[0])
		return joinPre(r.pre, g.outs([]string{"(Some " + g.upcast(x.Results[0], r) + ")"}))
	case "vals":
		var pre []string
		var rs []string
		for _, e := range x.Results {
			r := g.expr(e)
			pre = append(pre, r.pre...)
			rs = append(rs, r.term)
		}
		return joinPre(pre, g.outs(rs))
	}
	fail(g.p, x, "bad result kind")
	return ""
}

func isErrorType(t types.Type) bool {
	return t.String() == "error"
}

func (g *gen) emitFunc(key string) {
	fd := g.funcs[key]
	if fd == nil {
		panic(terr{"function not found: " + key})
	}
	g.ntmp = 0
	g.bufVars = map[string]bool{}
	g.recvName, g.recvStruct, g.recvMut = "", "", false
	g.ptrParams = nil
	g.ptrStruct = map[string]string{}
	g.ifaceRes = false
	name := fd.Name.Name
	var params []string
	if fd.Recv != nil {
		rf := fd.Recv.List[0]
		sn, ok := structName(g.p.info.Defs[rf.Names[0]].Type())
		if !ok {
			fail(g.p, fd, "receiver is not a struct")
		}
		g.recvName, g.recvStruct = rf.Names[0].Name, sn
		g.recvMut = mutatesRecv(fd)
		params = append(params, fmt.Sprintf("(%s : %s)", g.recvName, sn))
		name = sn + "_" + name
	}
	for _, f := range fd.Type.Params.List {
		for _, n := range f.Names {
			t := g.p.info.Defs[n].Type()
			ct, ok := g.coqType(t)
			if !ok {
				fail(g.p, f, "unsupported parameter type %s", t)
			}
			params = append(params, fmt.Sprintf("(%s : %s)", n.Name, ct))
			if _, isPtr := t.(*types.Pointer); isPtr {
				mut := false
				ast.Inspect(fd.Body, func(nd ast.Node) bool {
					if as, ok := nd.(*ast.AssignStmt); ok {
						for _, l := range as.Lhs {
							if _, isId := l.(*ast.Ident); !isId && rootIdent(l) == n.Name {
								mut = true
							}
						}
					}
					return true
				})
				if mut {
					g.ptrParams = append(g.ptrParams, n.Name)
				}
			}
		}
	}
	// results
	var rts []types.Type
	if fd.Type.Results != nil {
		for _, f := range fd.Type.Results.List {
			t := g.p.info.Types[f.Type].Type
			cnt := len(f.Names)
			if cnt == 0 {
				cnt = 1
			}
			for i := 0; i < cnt; i++ {
				rts = append(rts, t)
			}
		}
	}
	var resTs []string
	switch {
	case len(rts) == 0:
		g.resultKind = "none"
	case len(rts) == 1 && isErrorType(rts[0]):
		g.resultKind = "err"
		resTs = []string{"bool"}
	case len(rts) == 2 && isErrorType(rts[1]):
		g.resultKind = "optval"
		ct, ok := g.coqType(rts[0])
		if !ok {
			fail(g.p, fd, "unsupported result type %s", rts[0])
		}
		if nt, ok := rts[0].(*types.Named); ok && g.u.Iface != "" && nt.Obj().Name() == g.u.Iface {
			g.ifaceRes = true
		}
		resTs = []string{"(option " + ct + ")"}
	default:
		g.resultKind = "vals"
		for _, t := range rts {
			ct, ok := g.coqType(t)
			if !ok {
				fail(g.p, fd, "unsupported result type %s", t)
			}
			resTs = append(resTs, ct)
		}
	}
	var outTs []string
	if g.recvMut {
		outTs = append(outTs, g.recvStruct)
	}
	for _, pp := range g.ptrParams {
		for _, f := range fd.Type.Params.List {
			for _, n := range f.Names {
				if n.Name == pp {
					ct, _ := g.coqType(g.p.info.Defs[n].Type())
					outTs = append(outTs, ct)
				}
			}
		}
	}
	outTs = append(outTs, resTs...)
	rt := "unit"
	if len(outTs) > 0 {
		rt = strings.Join(outTs, " * ")
	}
	body := g.stmts(fd.Body.List, func() string {
		if g.resultKind != "none" {
			fail(g.p, fd, "control reaches end of non-void function")
		}
		return g.outs(nil)
	})
	pos := g.p.fset.Position(fd.Pos())
	fmt.Fprintf(&g.out, "(* %s:%d  func %s *)\n", filepath.Base(pos.Filename), pos.Line, key)
	fmt.Fprintf(&g.out, "Definition %s %s : res (%s) :=\n%s.\n\n", name, strings.Join(params, " "), rt, indent(body))
}

func indent(s string) string {
	lines := strings.Split(s, "\n")
	depth := 1
	var out []string
	for _, l := range lines {
		l = strings.TrimSpace(l)
		if l == "" {
			continue
		}
		d := depth
		if strings.HasPrefix(l, ")") {
			d--
		}
		if d < 0 {
			d = 0
		}
		out = append(out, strings.Repeat("  ", d)+l)
		depth += strings.Count(l, "(") - strings.Count(l, ")")
		if depth < 1 {
			depth = 1
		}
	}
	return strings.Join(out, "\n")
}

func translateUnit(repo string, u *unit, knownFrom map[string]map[string][]*types.Var, cache map[string]*pkgInfo) (src string, erased []string, err error) {
	defer func() {
		if r := recover(); r != nil {
			if te, ok := r.(terr); ok {
				err = fmt.Errorf("%s", te.msg)
				return
			}
			panic(r)
		}
	}()
	p := cache[u.Dir]
	if p == nil {
		p, err = loadPkg(filepath.Join(repo, u.Dir))
		if err != nil {
			return "", nil, err
		}
		cache[u.Dir] = p
	}
	g := &gen{p: p, u: u, structs: map[string]*types.Struct{}, fields: map[string][]*types.Var{}, known: map[string]bool{}, funcs: map[string]*ast.FuncDecl{}}
	for _, r := range u.Requires {
		for sn, fs := range knownFrom[r] {
			g.known[sn] = true
			g.fields[sn] = fs
		}
	}
	for _, f := range p.files {
		for _, d := range f.Decls {
			fd, ok := d.(*ast.FuncDecl)
			if !ok || fd.Body == nil {
				continue
			}
			key := fd.Name.Name
			if fd.Recv != nil && len(fd.Recv.List) == 1 {
				t := fd.Recv.List[0].Type
				if st, ok := t.(*ast.StarExpr); ok {
					t = st.X
				}
				if id, ok := t.(*ast.Ident); ok {
					key = id.Name + "." + key
				}
			}
			for _, want := range u.Funcs {
				if want == key {
					g.funcs[key] = fd
				}
			}
		}
	}
	fmt.Fprintf(&g.out, "(* GENERATED by tools/go2coq from %s — do not edit. *)\n", u.Dir)
	g.out.WriteString("From LNC Require Import GoLite.\n")
	for _, r := range u.Requires {
		fmt.Fprintf(&g.out, "From LNC Require Import %s.\n", r)
	}
	g.out.WriteString("Open Scope Z_scope.\n\n")
	for _, s := range u.Structs {
		g.emitStruct(s)
	}
	if u.Iface != "" {
		fmt.Fprintf(&g.out, "Inductive %s : Type :=", u.Iface)
		for _, s := range u.IfaceOf {
			fmt.Fprintf(&g.out, "\n  | %s_%s (v : %s)", u.Iface, s, s)
		}
		g.out.WriteString(".\n\n")
	}
	for _, f := range u.Funcs {
		g.emitFunc(f)
	}
	own := map[string][]*types.Var{}
	for _, s := range u.Structs {
		own[s] = g.fields[s]
	}
	knownFrom[strings.TrimSuffix(u.Out, ".v")] = own
	return g.out.String(), g.erased, nil
}

func dedup(in []string) []string {
	var out []string
	for i, s := range in {
		if i == 0 || in[i-1] != s {
			out = append(out, s)
		}
	}
	return out
}

func main() {
	repo := flag.String("repo", "/repo", "repository root")
	out := flag.String("out", "", "output directory for generated .v files")
	flag.Parse()
	if *out == "" {
		fmt.Fprintln(os.Stderr, "need -out")
		os.Exit(2)
	}
	cache := map[string]*pkgInfo{}
	known := map[string]map[string][]*types.Var{}
	report := map[string]interface{}{}
	failed := false
	for i := range units {
		u := &units[i]
		src, erased, err := translateUnit(*repo, u, known, cache)
		if err != nil {
			fmt.Fprintf(os.Stderr, "go2coq: %s: %v\n", u.Out, err)
			report[u.Out] = map[string]interface{}{"error": err.Error()}
			failed = true
			continue
		}
		path := filepath.Join(*out, u.Out)
		old, _ := os.ReadFile(path)
		if string(old) != src {
			if err := os.WriteFile(path, []byte(src), 0o644); err != nil {
				fmt.Fprintln(os.Stderr, err)
				os.Exit(2)
			}
		}
		sort.Strings(erased)
		erased = dedup(erased)
		report[u.Out] = map[string]interface{}{"functions": u.Funcs, "erased": erased, "changed": string(old) != src}
	}
	if err := genTables(*repo, *out); err != nil {
		fmt.Fprintf(os.Stderr, "go2coq: TablesGen.v: %v\n", err)
		report["TablesGen.v"] = map[string]interface{}{"error": err.Error()}
		report["MailboxTablesGen.v"] = map[string]interface{}{"error": err.Error()}
		failed = true
	} else {
		report["TablesGen.v"] = map[string]interface{}{"functions": []string{"select / channel-operation / access / lock / call tables of gbn/*.go"}}
		report["MailboxTablesGen.v"] = map[string]interface{}{"functions": []string{"select / channel-operation / access / lock / call tables of mailbox/*.go"}}
	}
	b, _ := json.MarshalIndent(report, "", " ")
	_ = os.WriteFile(filepath.Join(*out, "go2coq_report.json"), b, 0o644)
	if failed {
		os.Exit(2)
	}
}
