package main

import (
	"fmt"
	"go/ast"
	"go/token"
	"go/types"
	"os"
	"path/filepath"
	"sort"
	"strings"
)

// Structural tables extracted from gbn/*.go for C12 (every blocking select has a
// case that Close enables) and C18 (lock discipline): emitted as Coq data so that
// the checks are theorems about the current source text.

type selRow struct {
	fn         string
	line       int
	hasDefault bool
	cases      []string
}

// a channel send / receive / range outside any select: it blocks with no alternative
type bareRow struct {
	fn   string
	line int
	op   string // "chan<-" (send), "<-chan" (receive), "range chan"
}

type accRow struct {
	strct, field string
	write        bool
	fn           string
	line         int
	locks        []string
	atomic       bool
}

type callEdge struct {
	from, to string
	locks    []string
}

// lock acquisitions and calls with struct-qualified lock names ("TimeoutManager.mu"), for the
// interprocedural lock-order check
type acqRow struct {
	fn, lock string
	held     []string
}

// a return statement (or the end of a function) reached while a mutex that was locked in this
// function is still held and no deferred Unlock covers it
type leakRow struct {
	fn   string
	line int
	lock string
}
type qcallRow struct {
	from, to string // to = "Type.Method" or "function"
	held     []string
}

func exprStr(p *pkgInfo, e ast.Expr) string {
	switch x := e.(type) {
	case *ast.Ident:
		return x.Name
	case *ast.SelectorExpr:
		return exprStr(p, x.X) + "." + x.Sel.Name
	case *ast.CallExpr:
		var as []string
		for _, a := range x.Args {
			as = append(as, exprStr(p, a))
		}
		return exprStr(p, x.Fun) + "(" + strings.Join(as, ",") + ")"
	case *ast.UnaryExpr:
		return x.Op.String() + exprStr(p, x.X)
	case *ast.BinaryExpr:
		return exprStr(p, x.X) + x.Op.String() + exprStr(p, x.Y)
	case *ast.StarExpr:
		return "*" + exprStr(p, x.X)
	case *ast.ParenExpr:
		return exprStr(p, x.X)
	case *ast.BasicLit:
		return x.Value
	case *ast.IndexExpr:
		return exprStr(p, x.X) + "[" + exprStr(p, x.Index) + "]"
	}
	return "?"
}

func funcKey(fd *ast.FuncDecl) (string, string, string) {
	name := fd.Name.Name
	recvName, recvType := "", ""
	if fd.Recv != nil && len(fd.Recv.List) == 1 {
		t := fd.Recv.List[0].Type
		if st, ok := t.(*ast.StarExpr); ok {
			t = st.X
		}
		if id, ok := t.(*ast.Ident); ok {
			recvType = id.Name
			name = id.Name + "." + name
		}
		if len(fd.Recv.List[0].Names) > 0 {
			recvName = fd.Recv.List[0].Names[0].Name
		}
	}
	return name, recvName, recvType
}

func commChan(p *pkgInfo, s ast.Stmt) string {
	switch c := s.(type) {
	case *ast.SendStmt:
		return exprStr(p, c.Chan) + "<-"
	case *ast.ExprStmt:
		if u, ok := c.X.(*ast.UnaryExpr); ok && u.Op == token.ARROW {
			return exprStr(p, u.X)
		}
	case *ast.AssignStmt:
		if len(c.Rhs) == 1 {
			if u, ok := c.Rhs[0].(*ast.UnaryExpr); ok && u.Op == token.ARROW {
				return exprStr(p, u.X)
			}
		}
	}
	return "?"
}

// walk one function body in source order keeping the set of held locks.
type walker struct {
	p          *pkgInfo
	fn         string
	recvName   string
	recvType   string
	sels       *[]selRow
	accs       *[]accRow
	calls      *[]callEdge
	gos        *[]callEdge
	fields     map[string]map[string]bool // struct -> field set
	ngo        *int
	bares      *[]bareRow
	inComm     bool
	acqs       *[]acqRow
	qcalls     *[]qcallRow
	qual       map[string]string // lock expression text -> qualified name
	deferred   map[string]bool   // lock expression text -> an Unlock of it has been deferred
	leaks      *[]leakRow
	inLitDepth int // inside a function literal: its returns do not leave the enclosing function
}

func typeName(t types.Type) string {
	for {
		switch x := t.(type) {
		case *types.Pointer:
			t = x.Elem()
			continue
		case *types.Named:
			return x.Obj().Name()
		}
		return ""
	}
}

// qualLock turns a lock expression (m.mu, g.sendQueue.mu) into "<struct type>.<field>".
func (w *walker) qualLock(e ast.Expr) string {
	if se, ok := e.(*ast.SelectorExpr); ok {
		if tv, ok := w.p.info.Types[se.X]; ok && tv.Type != nil {
			if n := typeName(tv.Type); n != "" {
				return n + "." + se.Sel.Name
			}
		}
	}
	return "expr." + exprStr(w.p, e)
}

func (w *walker) qualHeld(locks []string) []string {
	var out []string
	for _, l := range locks {
		if q, ok := w.qual[l]; ok {
			out = append(out, q)
		} else {
			out = append(out, "expr."+l)
		}
	}
	return out
}

// bareOps records the channel operations of one statement's own expressions (not of nested
// blocks or function literals, which are walked on their own) unless the statement is the
// communication clause of a select.
func (w *walker) bareOps(s ast.Stmt) {
	if w.inComm || w.bares == nil {
		return
	}
	line := w.p.fset.Position(s.Pos()).Line
	var exprs []ast.Expr
	switch x := s.(type) {
	case *ast.SendStmt:
		*w.bares = append(*w.bares, bareRow{w.fn, line, exprStr(w.p, x.Chan) + "<-"})
		exprs = []ast.Expr{x.Value}
	case *ast.ExprStmt:
		exprs = []ast.Expr{x.X}
	case *ast.AssignStmt:
		exprs = append(append([]ast.Expr{}, x.Rhs...), x.Lhs...)
	case *ast.ReturnStmt:
		exprs = x.Results
	case *ast.IfStmt:
		exprs = []ast.Expr{x.Cond}
	case *ast.ForStmt:
		if x.Cond != nil {
			exprs = []ast.Expr{x.Cond}
		}
	case *ast.SwitchStmt:
		if x.Tag != nil {
			exprs = []ast.Expr{x.Tag}
		}
	case *ast.RangeStmt:
		if tv, ok := w.p.info.Types[x.X]; ok && tv.Type != nil {
			if _, isChan := tv.Type.Underlying().(*types.Chan); isChan {
				*w.bares = append(*w.bares, bareRow{w.fn, line, "range " + exprStr(w.p, x.X)})
			}
		}
		exprs = []ast.Expr{x.X}
	case *ast.DeclStmt:
		if gd, ok := x.Decl.(*ast.GenDecl); ok {
			for _, sp := range gd.Specs {
				if vs, ok := sp.(*ast.ValueSpec); ok {
					exprs = append(exprs, vs.Values...)
				}
			}
		}
	case *ast.DeferStmt:
		exprs = []ast.Expr{x.Call}
	case *ast.GoStmt:
		exprs = append([]ast.Expr{}, x.Call.Args...)
	}
	for _, e := range exprs {
		if e == nil {
			continue
		}
		ast.Inspect(e, func(n ast.Node) bool {
			switch u := n.(type) {
			case *ast.FuncLit:
				return false
			case *ast.UnaryExpr:
				if u.Op == token.ARROW {
					*w.bares = append(*w.bares, bareRow{w.fn, line, "<-" + exprStr(w.p, u.X)})
				}
			}
			return true
		})
	}
}

func cloneLocks(l []string) []string { return append([]string{}, l...) }

// lockWithContextTarget: for `if err := lockWithContext(ctx, &X); err != nil {...}` the expression X, else nil.
func lockWithContextTarget(x *ast.IfStmt) ast.Expr {
	as, ok := x.Init.(*ast.AssignStmt)
	if !ok || len(as.Rhs) != 1 {
		return nil
	}
	c, ok := as.Rhs[0].(*ast.CallExpr)
	if !ok || len(c.Args) != 2 {
		return nil
	}
	if id, ok := c.Fun.(*ast.Ident); !ok || id.Name != "lockWithContext" {
		return nil
	}
	u, ok := c.Args[1].(*ast.UnaryExpr)
	if !ok || u.Op != token.AND {
		return nil
	}
	return u.X
}

func (w *walker) lockOp(c *ast.CallExpr) (lock string, acquire, release bool) {
	se, ok := c.Fun.(*ast.SelectorExpr)
	if !ok {
		return "", false, false
	}
	switch se.Sel.Name {
	case "Lock", "RLock":
		if w.qual != nil {
			w.qual[exprStr(w.p, se.X)] = w.qualLock(se.X)
		}
		return exprStr(w.p, se.X), true, false
	case "Unlock", "RUnlock":
		return exprStr(w.p, se.X), false, true
	}
	return "", false, false
}

func (w *walker) access(e ast.Expr, write bool, locks []string, atomicCtx bool) {
	se, ok := e.(*ast.SelectorExpr)
	if !ok {
		return
	}
	id, ok := se.X.(*ast.Ident)
	if !ok || id.Name != w.recvName || w.recvName == "" {
		return
	}
	if !w.fields[w.recvType][se.Sel.Name] {
		return
	}
	*w.accs = append(*w.accs, accRow{strct: w.recvType, field: se.Sel.Name, write: write, fn: w.fn,
		line: w.p.fset.Position(e.Pos()).Line, locks: cloneLocks(locks), atomic: atomicCtx})
}

func (w *walker) exprAccesses(e ast.Expr, locks []string) {
	if e == nil {
		return
	}
	ast.Inspect(e, func(n ast.Node) bool {
		switch x := n.(type) {
		case *ast.FuncLit:
			w.inLitDepth++
			w.block(x.Body.List, cloneLocks(locks), true)
			w.inLitDepth--
			return false
		case *ast.CallExpr:
			// atomic.LoadUint32(&t.isActive) etc.
			if fs := exprStr(w.p, x.Fun); strings.HasPrefix(fs, "atomic.") {
				for _, a := range x.Args {
					if u, ok := a.(*ast.UnaryExpr); ok && u.Op == token.AND {
						w.access(u.X, strings.Contains(fs, "Store") || strings.Contains(fs, "Add") || strings.Contains(fs, "Swap"), locks, true)
					}
				}
				return false
			}
			w.call(x, locks)
		case *ast.SelectorExpr:
			w.access(x, false, locks, false)
		}
		return true
	})
}

func (w *walker) call(c *ast.CallExpr, locks []string) {
	name := ""
	switch f := c.Fun.(type) {
	case *ast.Ident:
		name = f.Name
	case *ast.SelectorExpr:
		name = f.Sel.Name
	}
	if name != "" {
		*w.calls = append(*w.calls, callEdge{from: w.fn, to: name, locks: cloneLocks(locks)})
	}
	if w.qcalls == nil || name == "" {
		return
	}
	to := ""
	switch f := c.Fun.(type) {
	case *ast.Ident:
		if obj, ok := w.p.info.Uses[f]; ok {
			if fn, ok := obj.(*types.Func); ok && fn.Pkg() == w.p.pkg {
				to = fn.Name()
			}
		}
	case *ast.SelectorExpr:
		if sel, ok := w.p.info.Selections[f]; ok {
			if fn, ok := sel.Obj().(*types.Func); ok && fn.Pkg() == w.p.pkg {
				if n := typeName(sel.Recv()); n != "" {
					to = n + "." + fn.Name()
				}
			}
		}
	}
	if to != "" {
		*w.qcalls = append(*w.qcalls, qcallRow{from: w.fn, to: to, held: w.qualHeld(locks)})
	}
}

func (w *walker) leakCheck(locks []string, line int) {
	if w.leaks == nil || w.inLitDepth > 0 {
		return
	}
	for _, l := range locks {
		if !w.deferred[l] {
			q := l
			if v, ok := w.qual[l]; ok {
				q = v
			}
			*w.leaks = append(*w.leaks, leakRow{w.fn, line, q})
		}
	}
}

func (w *walker) block(list []ast.Stmt, locks []string, inLit bool) []string {
	for _, s := range list {
		locks = w.stmt(s, locks, inLit)
	}
	return locks
}

func (w *walker) stmt(s ast.Stmt, locks []string, inLit bool) []string {
	w.bareOps(s)
	switch x := s.(type) {
	case *ast.ExprStmt:
		if c, ok := x.X.(*ast.CallExpr); ok {
			if l, acq, rel := w.lockOp(c); acq {
				if w.acqs != nil {
					*w.acqs = append(*w.acqs, acqRow{fn: w.fn, lock: w.qual[l], held: w.qualHeld(locks)})
				}
				return append(locks, l)
			} else if rel {
				var out []string
				for _, k := range locks {
					if k != l {
						out = append(out, k)
					}
				}
				return out
			}
		}
		w.exprAccesses(x.X, locks)
	case *ast.DeferStmt:
		if l, _, rel := w.lockOp(x.Call); rel {
			if w.deferred != nil {
				w.deferred[l] = true
			}
			return locks // released at function end
		}
		if fl, ok := x.Call.Fun.(*ast.FuncLit); ok {
			w.inLitDepth++
			w.block(fl.Body.List, cloneLocks(locks), true)
			w.inLitDepth--
		} else {
			w.exprAccesses(x.Call, locks)
		}
	case *ast.GoStmt:
		if fl, ok := x.Call.Fun.(*ast.FuncLit); ok {
			sub := *w
			*w.ngo++
			sub.fn = fmt.Sprintf("%s$go%d", w.fn, *w.ngo)
			*w.gos = append(*w.gos, callEdge{from: w.fn, to: sub.fn})
			// a goroutine body is a function of its own: no locks held at its start, its own deferred set
			sub.inLitDepth = 0
			sub.deferred = map[string]bool{}
			end := sub.block(fl.Body.List, nil, true)
			sub.leakCheck(end, w.p.fset.Position(fl.Body.Rbrace).Line)
		} else {
			name := ""
			switch f := x.Call.Fun.(type) {
			case *ast.Ident:
				name = f.Name
			case *ast.SelectorExpr:
				name = f.Sel.Name
			}
			*w.gos = append(*w.gos, callEdge{from: w.fn, to: name})
		}
	case *ast.AssignStmt:
		for _, r := range x.Rhs {
			w.exprAccesses(r, locks)
		}
		for _, l := range x.Lhs {
			switch t := l.(type) {
			case *ast.SelectorExpr:
				w.access(t, true, locks, false)
			case *ast.IndexExpr:
				w.access(t.X, true, locks, false)
				w.exprAccesses(t.Index, locks)
			default:
				w.exprAccesses(l, locks)
			}
		}
	case *ast.IncDecStmt:
		w.access(x.X, true, locks, false)
	case *ast.ReturnStmt:
		for _, r := range x.Results {
			w.exprAccesses(r, locks)
		}
		w.leakCheck(locks, w.p.fset.Position(x.Pos()).Line)
	case *ast.IfStmt:
		// `if err := lockWithContext(ctx, &mu); err != nil { return ... }`: the mutex is held after the statement,
		// not inside its body (the helper of mailbox/client_conn.go: Lock that gives up when the context ends)
		if target := lockWithContextTarget(x); target != nil && x.Else == nil {
			w.exprAccesses(x.Cond, locks)
			w.block(x.Body.List, cloneLocks(locks), inLit)
			l := exprStr(w.p, target)
			if w.qual != nil {
				w.qual[l] = w.qualLock(target)
			}
			if w.acqs != nil {
				*w.acqs = append(*w.acqs, acqRow{fn: w.fn, lock: w.qual[l], held: w.qualHeld(locks)})
			}
			return append(locks, l)
		}
		// `if mu.TryLock() { ... mu.Unlock() }`: the mutex is held inside the body (which releases it itself)
		if c, ok := x.Cond.(*ast.CallExpr); ok && x.Init == nil {
			if se, ok := c.Fun.(*ast.SelectorExpr); ok && se.Sel.Name == "TryLock" && len(c.Args) == 0 {
				l := exprStr(w.p, se.X)
				if w.qual != nil {
					w.qual[l] = w.qualLock(se.X)
				}
				if w.acqs != nil {
					*w.acqs = append(*w.acqs, acqRow{fn: w.fn, lock: w.qual[l], held: w.qualHeld(locks)})
				}
				end := w.block(x.Body.List, append(cloneLocks(locks), l), inLit)
				for _, k := range end {
					if k == l {
						*w.leaks = append(*w.leaks, leakRow{w.fn, w.p.fset.Position(x.Body.Rbrace).Line, w.qual[l]})
					}
				}
				if x.Else != nil {
					w.stmt(x.Else, cloneLocks(locks), inLit)
				}
				return locks
			}
		}
		if x.Init != nil {
			locks = w.stmt(x.Init, locks, inLit)
		}
		w.exprAccesses(x.Cond, locks)
		w.block(x.Body.List, cloneLocks(locks), inLit)
		if x.Else != nil {
			w.stmt(x.Else, cloneLocks(locks), inLit)
		}
	case *ast.BlockStmt:
		return w.block(x.List, locks, inLit)
	case *ast.ForStmt:
		if x.Init != nil {
			locks = w.stmt(x.Init, locks, inLit)
		}
		w.exprAccesses(x.Cond, locks)
		w.block(x.Body.List, cloneLocks(locks), inLit)
		if x.Post != nil {
			w.stmt(x.Post, cloneLocks(locks), inLit)
		}
	case *ast.RangeStmt:
		w.exprAccesses(x.X, locks)
		w.block(x.Body.List, cloneLocks(locks), inLit)
	case *ast.SwitchStmt:
		if x.Init != nil {
			locks = w.stmt(x.Init, locks, inLit)
		}
		w.exprAccesses(x.Tag, locks)
		for _, cc := range x.Body.List {
			c := cc.(*ast.CaseClause)
			for _, e := range c.List {
				w.exprAccesses(e, locks)
			}
			w.block(c.Body, cloneLocks(locks), inLit)
		}
	case *ast.TypeSwitchStmt:
		if x.Init != nil {
			locks = w.stmt(x.Init, locks, inLit)
		}
		w.stmt(x.Assign, cloneLocks(locks), inLit)
		for _, cc := range x.Body.List {
			c := cc.(*ast.CaseClause)
			w.block(c.Body, cloneLocks(locks), inLit)
		}
	case *ast.SelectStmt:
		row := selRow{fn: w.fn, line: w.p.fset.Position(x.Pos()).Line}
		for _, cc := range x.Body.List {
			c := cc.(*ast.CommClause)
			if c.Comm == nil {
				row.hasDefault = true
			} else {
				row.cases = append(row.cases, commChan(w.p, c.Comm))
				w.inComm = true
				w.stmt(c.Comm, cloneLocks(locks), inLit)
				w.inComm = false
			}
			w.block(c.Body, cloneLocks(locks), inLit)
		}
		*w.sels = append(*w.sels, row)
	case *ast.LabeledStmt:
		return w.stmt(x.Stmt, locks, inLit)
	case *ast.DeclStmt:
		if gd, ok := x.Decl.(*ast.GenDecl); ok {
			for _, sp := range gd.Specs {
				if vs, ok := sp.(*ast.ValueSpec); ok {
					for _, v := range vs.Values {
						w.exprAccesses(v, locks)
					}
				}
			}
		}
	case *ast.SendStmt:
		w.exprAccesses(x.Chan, locks)
		w.exprAccesses(x.Value, locks)
	}
	return locks
}

func coqStr(s string) string { return "\"" + strings.ReplaceAll(s, "\"", "'") + "\"" }
func coqStrList(l []string) string {
	var q []string
	for _, s := range l {
		q = append(q, coqStr(s))
	}
	return "[" + strings.Join(q, "; ") + "]"
}

func genTables(repo, out string) error {
	// gbn: the connection's goroutines and their shared structs
	if err := genTablesFor(repo, out, "gbn", "TablesGen.v",
		[]string{"queue", "TimeoutManager", "TimeoutBooster", "syncer", "IntervalAwareForceTicker", "GoBackNConn"}); err != nil {
		return err
	}
	// mailbox: the connection wrappers with their retry loops and the noise connection objects
	return genTablesFor(repo, out, "mailbox", "MailboxTablesGen.v",
		[]string{"ClientConn", "ServerConn", "Client", "Server", "NoiseGrpcConn", "ConnData", "connKit", "grpcTransport", "websocketTransport"})
}

func genTablesFor(repo, out, pkgDir, fileName string, shared []string) error {
	p, err := loadPkg(filepath.Join(repo, pkgDir))
	if err != nil {
		return err
	}
	// struct fields of the types whose state is shared between goroutines
	fields := map[string]map[string]bool{}
	for _, f := range p.files {
		for _, d := range f.Decls {
			gd, ok := d.(*ast.GenDecl)
			if !ok {
				continue
			}
			for _, sp := range gd.Specs {
				ts, ok := sp.(*ast.TypeSpec)
				if !ok {
					continue
				}
				st, ok := ts.Type.(*ast.StructType)
				if !ok {
					continue
				}
				for _, s := range shared {
					if ts.Name.Name == s {
						fields[s] = map[string]bool{}
						for _, fl := range st.Fields.List {
							for _, n := range fl.Names {
								fields[s][n.Name] = true
							}
						}
					}
				}
			}
		}
	}
	var sels []selRow
	var accs []accRow
	var calls, gos []callEdge
	var bares []bareRow
	var acqs []acqRow
	var qcalls []qcallRow
	var leaks []leakRow
	var funcs []string
	for _, f := range p.files {
		for _, d := range f.Decls {
			fd, ok := d.(*ast.FuncDecl)
			if !ok || fd.Body == nil {
				continue
			}
			name, recvName, recvType := funcKey(fd)
			funcs = append(funcs, name)
			ngo := 0
			w := &walker{p: p, fn: name, recvName: recvName, recvType: recvType, sels: &sels, accs: &accs, calls: &calls, gos: &gos, fields: fields, ngo: &ngo, bares: &bares, acqs: &acqs, qcalls: &qcalls, qual: map[string]string{}, deferred: map[string]bool{}, leaks: &leaks}
			end := w.block(fd.Body.List, nil, false)
			w.leakCheck(end, p.fset.Position(fd.Body.Rbrace).Line)
		}
	}
	strip := func(l string) string {
		if i := strings.IndexByte(l, '.'); i >= 0 {
			return l[i+1:]
		}
		return l
	}
	for i := range accs {
		for k := range accs[i].locks {
			accs[i].locks[k] = strip(accs[i].locks[k])
		}
	}
	for i := range calls {
		for k := range calls[i].locks {
			calls[i].locks[k] = strip(calls[i].locks[k])
		}
	}
	// a function named ...Unsafe is documented to be called with the lock held: it inherits
	// the locks held at ALL of its call sites
	for _, fn := range funcs {
		if !strings.HasSuffix(fn, "Unsafe") {
			continue
		}
		short := fn[strings.LastIndexByte(fn, '.')+1:]
		var inh []string
		first := true
		for _, c := range calls {
			if c.to != short {
				continue
			}
			if first {
				inh = cloneLocks(c.locks)
				first = false
				continue
			}
			var keep []string
			for _, l := range inh {
				for _, m := range c.locks {
					if l == m {
						keep = append(keep, l)
					}
				}
			}
			inh = keep
		}
		for i := range accs {
			if accs[i].fn == fn {
				accs[i].locks = append(accs[i].locks, inh...)
			}
		}
	}
	var b strings.Builder
	fmt.Fprintf(&b, "(* GENERATED by tools/go2coq (tables.go) from %s/*.go — do not edit. *)\n", pkgDir)
	b.WriteString("From Coq Require Import String List Bool.\nImport ListNotations.\nOpen Scope string_scope.\n\n")
	b.WriteString("(* every select statement: function, has a default case, channel of each case *)\n")
	b.WriteString("Definition select_table : list (string * bool * list string) := [\n")
	sort.SliceStable(sels, func(i, j int) bool {
		if sels[i].fn != sels[j].fn {
			return sels[i].fn < sels[j].fn
		}
		return sels[i].line < sels[j].line
	})
	for i, s := range sels {
		sep := ";"
		if i == len(sels)-1 {
			sep = ""
		}
		fmt.Fprintf(&b, "  (%s, %v, %s)%s\n", coqStr(s.fn), s.hasDefault, coqStrList(s.cases), sep)
	}
	b.WriteString("].\n\n")
	b.WriteString("(* every channel send (chan<-), receive (<-chan) or range outside a select: function, operation *)\n")
	b.WriteString("Definition bare_chanop_table : list (string * string) := [\n")
	sort.SliceStable(bares, func(i, j int) bool {
		if bares[i].fn != bares[j].fn {
			return bares[i].fn < bares[j].fn
		}
		return bares[i].line < bares[j].line
	})
	for i, s := range bares {
		sep := ";"
		if i == len(bares)-1 {
			sep = ""
		}
		fmt.Fprintf(&b, "  (%s, %s)%s\n", coqStr(s.fn), coqStr(s.op), sep)
	}
	b.WriteString("].\n\n")
	b.WriteString("(* every access to a field of a shared struct through the method receiver:\n   struct, field, is-write, function, locks held, through sync/atomic *)\n")
	b.WriteString("Definition access_table : list (string * string * bool * string * list string * bool) := [\n")
	sort.SliceStable(accs, func(i, j int) bool {
		a, c := accs[i], accs[j]
		if a.strct != c.strct {
			return a.strct < c.strct
		}
		if a.field != c.field {
			return a.field < c.field
		}
		if a.fn != c.fn {
			return a.fn < c.fn
		}
		return a.line < c.line
	})
	// collapse identical rows
	var rows []string
	seen := map[string]bool{}
	for _, a := range accs {
		sort.Strings(a.locks)
		r := fmt.Sprintf("(%s, %s, %v, %s, %s, %v)", coqStr(a.strct), coqStr(a.field), a.write, coqStr(a.fn), coqStrList(a.locks), a.atomic)
		if !seen[r] {
			seen[r] = true
			rows = append(rows, r)
		}
	}
	b.WriteString("  " + strings.Join(rows, ";\n  ") + "\n].\n\n")
	b.WriteString("(* static call edges (caller, callee method/function name) and goroutine starts *)\n")
	edge := func(name string, es []callEdge) {
		seenE := map[string]bool{}
		var rs []string
		for _, e := range es {
			r := fmt.Sprintf("(%s, %s)", coqStr(e.from), coqStr(e.to))
			if !seenE[r] {
				seenE[r] = true
				rs = append(rs, r)
			}
		}
		sort.Strings(rs)
		fmt.Fprintf(&b, "Definition %s : list (string * string) := [\n  %s\n].\n\n", name, strings.Join(rs, ";\n  "))
	}
	edge("call_table", calls)
	edge("go_table", gos)
	b.WriteString("(* every return (or function end) reached with a mutex locked in that function still held and no deferred Unlock for it *)\n")
	{
		seenL := map[string]bool{}
		var rs []string
		for _, l := range leaks {
			r := fmt.Sprintf("(%s, %s)", coqStr(l.fn), coqStr(l.lock))
			if !seenL[r] {
				seenL[r] = true
				rs = append(rs, r)
			}
		}
		sort.Strings(rs)
		fmt.Fprintf(&b, "Definition lock_leak_table : list (string * string) := [%s].\n\n", strings.Join(rs, "; "))
	}
	b.WriteString("(* every mutex acquisition: function, lock (struct.field), locks already held *)\n")
	{
		seenA := map[string]bool{}
		var rs []string
		for _, a := range acqs {
			r := fmt.Sprintf("(%s, %s, %s)", coqStr(a.fn), coqStr(a.lock), coqStrList(a.held))
			if !seenA[r] {
				seenA[r] = true
				rs = append(rs, r)
			}
		}
		sort.Strings(rs)
		fmt.Fprintf(&b, "Definition acquire_table : list (string * string * list string) := [\n  %s\n].\n\n", strings.Join(rs, ";\n  "))
	}
	b.WriteString("(* every call of a function or method of this package: caller, callee (Type.Method), locks held at the call *)\n")
	{
		seenC := map[string]bool{}
		var rs []string
		for _, c := range qcalls {
			r := fmt.Sprintf("(%s, %s, %s)", coqStr(c.from), coqStr(c.to), coqStrList(c.held))
			if !seenC[r] {
				seenC[r] = true
				rs = append(rs, r)
			}
		}
		sort.Strings(rs)
		fmt.Fprintf(&b, "Definition call_lock_table : list (string * string * list string) := [\n  %s\n].\n\n", strings.Join(rs, ";\n  "))
	}
	// channels signalled by a non-blocking send (a select whose only case is `x.f <- v`, with a default), with the
	// capacity expression of every make() that initialises a field / variable of that name
	{
		makes := map[string][]string{}
		noteMake := func(name string, v ast.Expr) {
			c, ok := v.(*ast.CallExpr)
			if !ok {
				return
			}
			id, ok := c.Fun.(*ast.Ident)
			if !ok || id.Name != "make" || len(c.Args) == 0 {
				return
			}
			if _, ok := c.Args[0].(*ast.ChanType); !ok {
				return
			}
			capStr := "0"
			if len(c.Args) > 1 {
				capStr = exprStr(p, c.Args[1])
			}
			makes[name] = append(makes[name], capStr)
		}
		type sigRow struct{ fn, ch string }
		var sigs []sigRow
		for _, f := range p.files {
			for _, d := range f.Decls {
				fd, ok := d.(*ast.FuncDecl)
				if !ok || fd.Body == nil {
					continue
				}
				name, _, _ := funcKey(fd)
				ast.Inspect(fd.Body, func(n ast.Node) bool {
					switch x := n.(type) {
					case *ast.KeyValueExpr:
						if k, ok := x.Key.(*ast.Ident); ok {
							noteMake(k.Name, x.Value)
						}
					case *ast.AssignStmt:
						if len(x.Lhs) == 1 && len(x.Rhs) == 1 {
							switch l := x.Lhs[0].(type) {
							case *ast.Ident:
								noteMake(l.Name, x.Rhs[0])
							case *ast.SelectorExpr:
								noteMake(l.Sel.Name, x.Rhs[0])
							}
						}
					case *ast.SelectStmt:
						hasDefault := false
						var sends []string
						other := 0
						for _, cc := range x.Body.List {
							c := cc.(*ast.CommClause)
							if c.Comm == nil {
								hasDefault = true
								continue
							}
							if ss, ok := c.Comm.(*ast.SendStmt); ok {
								switch ch := ss.Chan.(type) {
								case *ast.SelectorExpr:
									sends = append(sends, ch.Sel.Name)
								case *ast.Ident:
									sends = append(sends, ch.Name)
								default:
									sends = append(sends, "?")
								}
							} else {
								other++
							}
						}
						if hasDefault && other == 0 && len(sends) == 1 {
							sigs = append(sigs, sigRow{name, sends[0]})
						}
					}
					return true
				})
			}
		}
		var rs []string
		seen := map[string]bool{}
		for _, sg := range sigs {
			caps := makes[sg.ch]
			if len(caps) == 0 {
				caps = []string{"?"}
			}
			for _, c := range caps {
				r := fmt.Sprintf("(%s, %s, %s)", coqStr(sg.fn), coqStr(sg.ch), coqStr(c))
				if !seen[r] {
					seen[r] = true
					rs = append(rs, r)
				}
			}
		}
		sort.Strings(rs)
		b.WriteString("(* every channel that is signalled with a non-blocking send (select { case ch <- v: default: }):\n   function, channel, capacity expression of each make() of a channel of that name *)\n")
		fmt.Fprintf(&b, "Definition signal_table : list (string * string * string) := [\n  %s\n].\n\n", strings.Join(rs, ";\n  "))
	}
	sort.Strings(funcs)
	fmt.Fprintf(&b, "Definition function_table : list string := %s.\n", coqStrList(funcs))
	path := filepath.Join(out, fileName)
	old, _ := os.ReadFile(path)
	if string(old) != b.String() {
		return os.WriteFile(path, []byte(b.String()), 0o644)
	}
	return nil
}
