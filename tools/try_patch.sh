#!/bin/sh
# tools/try_patch.sh <patch.diff> <property id>... : apply a change to /repo, run the given checks, undo the change.
# Prints one line per check: "<id> rc=<exit> <last line of the check>" plus any VIOLATION lines.
set -u
P=$(readlink -f "$1"); shift
cd /verif
if ! git -C /repo diff --quiet; then echo "refusing: /repo has local changes"; exit 2; fi
trap 'git -C /repo checkout -- . ; git -C /repo clean -fdq -- gbn mailbox >/dev/null 2>&1' EXIT INT TERM
git -C /repo apply "$P" || { echo "patch does not apply"; exit 2; }
for id in "$@"; do
  out=$(./check "$id" 2>&1); rc=$?
  echo "$id rc=$rc $(echo "$out" | tail -1 | cut -c1-200)"
  echo "$out" | grep -E "^VIOLATION|^broken" | cut -c1-400
done
