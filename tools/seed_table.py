#!/usr/bin/env python3
"""Print the markdown table of DESIGN.md section 9.6 from seeded/*/meta.json."""
import glob, json, os
rows = []
for d in sorted(glob.glob(os.path.join(os.path.dirname(os.path.dirname(os.path.abspath(__file__))), "seeded", "C*"))):
    mp = os.path.join(d, "meta.json")
    if not os.path.exists(mp):
        continue
    m = json.load(open(mp))
    summ = " ".join((m.get("summary") or "").split())
    if len(summ) > 230:
        summ = summ[:227] + "..."
    res = []
    for chk, r in sorted(m.get("checks_run_against_it", {}).items()):
        o = r["outcome"]
        if o == "violation with failing input":
            res.append("%s: failing input (`%s`)" % (chk, (r["oracle_keys"] or ["?"])[0][:70]))
        elif o.startswith("violation"):
            b = (r.get("broken") or [""])[0]
            res.append("%s: broken obligation, no failing input (%s)" % (chk, b[:80].replace("|", "/")))
        else:
            res.append("%s: MISSED" % chk)
    rows.append("| %s | %s | %s |" % (m["seed"], summ.replace("|", "/"), "; ".join(res)))
print("| seed | change | checks run against it |")
print("|---|---|---|")
print("\n".join(rows))
