#!/bin/sh
# tools/stage_seeds.sh <suffix> <id>... : copy a mutation agent's deliverables from /tmp/mutwt/<id>/OUT into
# seeded/<id>-<suffix>[b] and confirm each in a scratch worktree (tools/confirm_seed.sh).
suf="$1"; shift
cd /verif
for id in "$@"; do
  for k in "" 2; do
    [ -f /tmp/mutwt/$id/OUT/patch$k.diff ] || continue
    s=seeded/$id-$suf${k:+b}
    demo=$(ls /tmp/mutwt/$id/OUT/zz_demo${k}_*_test.go 2>/dev/null | head -1)
    [ -n "$demo" ] || { echo "$s: no demonstration"; continue; }
    mkdir -p $s
    cp /tmp/mutwt/$id/OUT/patch$k.diff $s/patch.diff; cp "$demo" $s/; cp /tmp/mutwt/$id/OUT/meta$k.json $s/agent_meta.json 2>/dev/null
    pkg=$(grep -m1 '^package' "$demo" | awk '{print $2}' | sed 's/_test//')
    ./tools/confirm_seed.sh $s/patch.diff $s/$(basename "$demo") $pkg /tmp/seedwt_$(basename $s) > $s/confirm.log 2>&1
    echo "$s: $(tail -1 $s/confirm.log)"
    git -C /repo worktree remove --force /tmp/seedwt_$(basename $s) 2>/dev/null
  done
done
