#!/usr/bin/env python3
"""tools/seed_matrix.py [seed ...]: run the checks against every seeded change under /verif/seeded.

For each seeded/<id>/patch.diff: apply it to /repo (which must be clean), run the checks listed for it in
SEEDS below, revert /repo (always), and record in seeded/<id>/meta.json which checks reported a violation
and how (a replay with a failing input, or a broken obligation with no failing input). Never commits to /repo.
Prints one line per (seed, check)."""
import json, os, re, subprocess, sys

ROOT = os.path.dirname(os.path.dirname(os.path.abspath(__file__)))
REPO = "/repo"

SEEDS = {
    "C01": ["C01", "C06", "C13"], "C01-2": ["C01", "C14"], "C02": ["C02", "C08"], "C02-2": ["C02"],
    "C03": ["C03"], "C03-2": ["C03", "C04"], "C04": ["C04"], "C04-2": ["C04", "C03"],
    "C05": ["C05", "C15"], "C05-2": ["C05", "C01"], "C06": ["C06"], "C06-2": ["C06"],
    "C07": ["C07", "C10"], "C07-2": ["C07", "C01"], "C08": ["C08"], "C08-2": ["C08"],
    "C09": ["C09", "C07"], "C09-2": ["C09", "C01"], "C10-2": ["C10"], "C11": ["C11"], "C11-2": ["C11"],
    "C12": ["C12"], "C12-2": ["C12"], "C13": ["C13"], "C13-2": ["C13"], "C14": ["C14"], "C14-2": ["C14"],
    "C15": ["C15"], "C15-2": ["C15"], "C16": ["C16"], "C16-2": ["C16"], "C17": ["C17", "C11"],
    "C17-2": ["C17", "C11"], "C18": ["C18"], "C18-2": ["C18"], "C19": ["C19"], "C19-2": ["C19"],
    "C20": ["C20"], "C20-2": ["C20"],
    # second round
    "C01-r2": ["C01", "C10", "C09"], "C02-r2": ["C02", "C08"], "C03-r2": ["C03", "C04"],
    "C04-r2": ["C04", "C11"], "C04-r2b": ["C04"], "C05-r2": ["C05", "C10", "C11"],
    "C07-r2": ["C07", "C19"], "C07-r2b": ["C07", "C20"], "C08-r2": ["C08", "C16", "C15"],
    "C09-r2": ["C09", "C07", "C01"], "C09-r2b": ["C09", "C10"], "C10-r2": ["C10"], "C10-r2b": ["C10"],
    "C11-r2": ["C11", "C03"], "C11-r2b": ["C11", "C12"], "C12-r2": ["C12"], "C12-r2b": ["C12"],
    "C13-r2": ["C13"], "C13-r2b": ["C13"], "C15-r2": ["C15", "C16"], "C16-r2": ["C16", "C15"],
    "C17-r2": ["C17", "C11"], "C17-r2b": ["C17", "C04"], "C18-r2": ["C18", "C12", "C13"],
    "C18-r2b": ["C18", "C20", "C10"], "C19-r2": ["C19"], "C20-r2": ["C20"], "C20-r2b": ["C20"],
    "C14-r2": ["C14", "C01"], "C06-r2": ["C06", "C01"],
}


def checks_for(seed):
    """the checks to run against a seed: SEEDS, else seeded/<seed>/checks.txt (space separated), else its own property"""
    if seed in SEEDS:
        return SEEDS[seed]
    p = os.path.join(ROOT, "seeded", seed, "checks.txt")
    if os.path.exists(p):
        return open(p).read().split()
    return [seed[:3]]


def sh(cmd, **kw):
    p = subprocess.run(cmd, stdout=subprocess.PIPE, stderr=subprocess.STDOUT, text=True, **kw)
    return p.returncode, p.stdout


def clean():
    sh(["git", "-C", REPO, "checkout", "--", "."])
    sh(["git", "-C", REPO, "clean", "-fdq", "--", "gbn", "mailbox"])


def main():
    seeds = sys.argv[1:] or sorted(d for d in os.listdir(os.path.join(ROOT, "seeded")) if os.path.isdir(os.path.join(ROOT, "seeded", d)))
    rc, out = sh(["git", "-C", REPO, "diff", "--quiet"])
    if rc != 0:
        print("refusing: /repo has local changes")
        return 2
    for seed in seeds:
        d = os.path.join(ROOT, "seeded", seed)
        patch = os.path.join(d, "patch.diff")
        results = {}
        try:
            rc, out = sh(["git", "-C", REPO, "apply", patch])
            if rc != 0:
                print("%s: patch does not apply: %s" % (seed, out.strip()))
                continue
            for chk in checks_for(seed):
                rc, out = sh([os.path.join(ROOT, "check"), chk], cwd=ROOT)
                viol = [l for l in out.splitlines() if l.startswith("VIOLATION")]
                broken = [l[:300] for l in out.splitlines() if l.startswith("broken ")]
                with_input = [v for v in viol if not v.endswith("no-failing-input-found")]
                keys = []
                for v in with_input:
                    m = re.search(r"replay=(\S+)", v)
                    try:
                        keys.append(json.load(open(m.group(1)))["oracle_key"])
                    except Exception:
                        pass
                how = "missed"
                if rc != 0 and with_input:
                    how = "violation with failing input"
                elif rc != 0:
                    how = "violation, no-failing-input-found"
                results[chk] = {"exit": rc, "outcome": how, "oracle_keys": keys[:5], "broken": broken[:3]}
                print("%-6s %-4s exit=%d %s %s" % (seed, chk, rc, how, ", ".join(keys[:2]) or (broken[0][:140] if broken else "")))
                sys.stdout.flush()
        finally:
            clean()
        meta = {}
        am = os.path.join(d, "agent_meta.json")
        if os.path.exists(am):
            try:
                meta = json.load(open(am))
            except Exception:
                meta = {"raw": open(am).read()[:4000]}
        demo = [f for f in os.listdir(d) if f.startswith("zz_demo")]
        conf = ""
        cl = os.path.join(d, "confirm.log")
        if os.path.exists(cl):
            conf = open(cl).read().strip()
        json.dump({
            "seed": seed,
            "property": seed[:3],
            "round": 5 if "-r5" in seed else 4 if "-r4" in seed else (3 if "-r3" in seed else (2 if "-r2" in seed else 1)),
            "summary": meta.get("summary", ""),
            "needs_to_manifest": meta.get("needs", ""),
            "files": meta.get("files", []),
            "demonstration": {"file": demo[0] if demo else None, "goes_in": meta.get("demo_dir", ""),
                              "author_ran": meta.get("ran", "")},
            "confirmed_by_me": {
                "how": "tools/confirm_seed.sh in a scratch worktree of /repo: build, existing gbn+mailbox tests with the "
                       "change, demonstration with the change (must fail) and without (must pass)",
                "log": conf},
            "checks_run_against_it": results,
            "how_to_rerun": "tools/seed_matrix.py %s  (applies the patch to /repo, runs the checks, reverts)" % seed,
        }, open(os.path.join(d, "meta.json"), "w"), indent=1)
    return 0


if __name__ == "__main__":
    sys.exit(main())
