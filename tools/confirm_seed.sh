#!/bin/sh
# tools/confirm_seed.sh <patch.diff> <demo_test.go> <pkg dir: gbn|mailbox> [scratch worktree]
# Confirms a seeded change in a scratch worktree of /repo (never in /repo itself):
#  (a) the tree builds with the change, (b) the existing gbn and mailbox tests pass with it,
#  (c) the demonstration fails with the change and (d) passes without it.
set -u
P=$(readlink -f "$1"); D=$(readlink -f "$2"); PKG="$3"; WT="${4:-/tmp/seedconfirm.$$}"
export GOFLAGS=-mod=mod GOPROXY=off
RACEFLAG=${RACE:+-race}   # RACE=1: run the demonstration under the race detector
OWN=0
if [ ! -d "$WT" ]; then git -C /repo worktree add --detach -q "$WT" HEAD || exit 2; OWN=1; fi
cleanup() { git -C "$WT" checkout -q -- . ; rm -f "$WT/$PKG/$(basename "$D")"; [ $OWN = 1 ] && git -C /repo worktree remove --force "$WT"; }
trap cleanup EXIT INT TERM
git -C "$WT" checkout -q -- . ; git -C "$WT" clean -fdq -- gbn mailbox
T=$(grep -oE '^func (Test[A-Za-z0-9_]+)' "$D" | awk '{print $2}' | paste -sd'|')
git -C "$WT" apply "$P" || { echo "RESULT patch-does-not-apply"; exit 2; }
( cd "$WT/gbn" && go build ./... ) && ( cd "$WT/mailbox" && go build ./... ) || { echo "RESULT build-fails"; exit 1; }
echo "build=ok"

( cd "$WT/gbn" && go test -vet=off -count=1 -timeout 25m ./... >/dev/null 2>&1 ); g=$?
( cd "$WT/mailbox" && go test -vet=off -count=1 -timeout 25m ./... >/dev/null 2>&1 ); m=$?
echo "existing-tests-with-change: gbn=$g mailbox=$m"
cp "$D" "$WT/$PKG/"
( cd "$WT/$PKG" && go test $RACEFLAG -vet=off -count=1 -timeout 10m -run "^($T)\$" . >/tmp/seedconfirm_with.$$ 2>&1 ); w=$?
tail -4 /tmp/seedconfirm_with.$$ | cut -c1-300
git -C "$WT" apply -R "$P"
( cd "$WT/$PKG" && go test $RACEFLAG -vet=off -count=1 -timeout 10m -run "^($T)\$" . >/tmp/seedconfirm_without.$$ 2>&1 ); wo=$?
tail -2 /tmp/seedconfirm_without.$$ | cut -c1-300
rm -f /tmp/seedconfirm_with.$$ /tmp/seedconfirm_without.$$
echo "demo-with-change=$w (want !=0) demo-without=$wo (want 0)"
if [ $g = 0 ] && [ $m = 0 ] && [ $w != 0 ] && [ $wo = 0 ]; then echo "RESULT confirmed"; exit 0; fi
echo "RESULT not-confirmed"; exit 1
