"""Generic run of one property check (see ../check)."""
import json
import os
import re
import shutil
import time


class Runner:
    def __init__(self, ck, prop, tier, seed, cfg, replay=None):
        self.ck, self.prop, self.tier, self.seed, self.cfg = ck, prop, tier, seed, cfg
        self.replay = replay
        self.log = []
        self.broken = []          # (kind, what) — proof obligations / ties that no longer check
        self.oracle_fails = []    # (key, detail)
        self.stats = {}
        self.samples = []
        self.outdir = os.path.join(ck.BUILD, "out", "%s_%s" % (prop, tier))
        self.replaydir = os.path.join(ck.ROOT, "replays")

    # ------------------------------------------------------------------
    def run(self):
        ck, cfg = self.ck, self.cfg
        t0 = time.time()
        shutil.rmtree(self.outdir, ignore_errors=True)
        os.makedirs(self.outdir, exist_ok=True)
        os.makedirs(self.replaydir, exist_ok=True)
        os.makedirs(os.path.join(ck.ROOT, "evidence"), exist_ok=True)

        assumptions, stmts, cone = {}, [], []
        proofs_ok = False
        with ck.Lock(".build.lock"):
            if not ck.build_tools(self.log):
                self.broken.append(("tooling", "go2coq does not build: " + self.log[-1][2][-400:]))
            ok, out, rep = ck.run_go2coq(self.log)
            self.go2coq_report = rep
            if not ok:
                bad_units = [u for u, v in rep.items() if isinstance(v, dict) and "error" in v]
                needed = set(cfg.get("translated", []))
                hit = [u for u in bad_units if u in needed] if bad_units else list(needed)
                if hit or not bad_units:
                    self.broken.append(("translation", "go2coq cannot translate %s: %s" % (
                        ",".join(hit), out.strip()[-600:])))
            target = cfg["prop_file"][:-2] + ".vo"
            ok, out = ck.coq_build(target, self.log)
            cone = ck.coq_cone(cfg["prop_file"])
            stmts, forbidden = ck.scan_cone(cone)
            if forbidden:
                self.broken.append(("forbidden-vernacular", "; ".join(forbidden)))
            if ok:
                proofs_ok = True
                assumptions = ck.parse_assumptions(out, cfg["prop_file"])
            else:
                self.broken.append(("proof", self.describe_coq_failure(out)))
            self.coqchk = None
            if ok and self.tier == "thorough":
                mod = "LNC." + cfg["prop_file"][:-2].replace("/", ".")
                rc3, out3 = ck.sh(["timeout", "2400", "coqchk", "-silent", "-o", "-Q", ".", "LNC", mod], cwd=ck.COQ, timeout=2500)
                self.log.append(("coqchk " + mod, rc3, out3[-3000:]))
                self.coqchk = {"rc": rc3, "output_tail": out3.strip()[-1500:]}
                if rc3 != 0:
                    self.broken.append(("coqchk", "coqchk rejects %s: %s" % (mod, out3.strip()[-500:])))
            mok, mout = ck.extract_and_build_model(self.log)
            if not mok:
                self.broken.append(("model-extraction", mout.strip()[-600:]))
            hok, hout = ck.build_harness(self.log, race=False)
            if not hok:
                self.broken.append(("harness-build", "harness does not build against /repo: " + hout.strip()[-800:]))
            if cfg.get("race") and hok:
                rok, rout = ck.build_harness(self.log, race=True)
                if not rok:
                    self.broken.append(("harness-build", "race harness does not build: " + rout.strip()[-800:]))
        self.proofs_ok = proofs_ok

        total_cases = 0
        mismatches = []
        if hok:
            for g in cfg.get("gens", []):
                rc, out = ck.run_harness(g["test"], self.outdir, self.seed, self.tier, self.log,
                                         timeout=g.get("timeout", 1500), race=g.get("race", False),
                                         extra_env=g.get("env"))
                if rc != 0:
                    self.broken.append(("harness-run", "harness %s failed: %s" % (g["test"], out.strip()[-1200:])))
                    self.note_crash(g["test"], out)
                for mode, fname in g.get("files", []):
                    path = os.path.join(self.outdir, fname)
                    if not os.path.exists(path):
                        self.broken.append(("harness-run", "missing case file " + fname))
                        continue
                    if mok:
                        cases, bad, mism, mo = ck.run_model(mode, path, self.log)
                        total_cases += cases
                        if bad != 0:
                            mismatches += mism
                            self.broken.append(("correspondence",
                                                "model and implementation differ on %d of %d cases of %s; first: %s" % (
                                                    bad, cases, fname, (mism[0] if mism else mo.strip()[-300:]))))
                for ptest, pfile in g.get("post", []):
                    rc2, out2 = ck.run_harness(ptest, self.outdir, self.seed, self.tier, self.log, timeout=g.get("timeout", 1500))
                    path = os.path.join(self.outdir, pfile)
                    txt = open(path, errors="replace").read() if os.path.exists(path) else ""
                    m = re.search(r"SUMMARY cases=(\d+) mismatches=(\d+)", txt)
                    if rc2 != 0 or not m:
                        self.broken.append(("harness-run", "post step %s failed: %s" % (ptest, out2.strip()[-800:])))
                        continue
                    total_cases += int(m.group(1))
                    if int(m.group(2)) != 0:
                        mm = [l for l in txt.splitlines() if l.startswith("MISMATCH")]
                        mismatches += mm
                        self.broken.append(("correspondence", "byte-level interpretation of the model differs from the "
                                            "implementation on %s of %s cases; first: %s" % (m.group(2), m.group(1), mm[0] if mm else "?")))
            self.collect_oracles()
        self.total_cases = total_cases
        self.mismatches = mismatches
        rc = self.verdict(stmts, assumptions, cone, time.time() - t0)
        return rc

    # ------------------------------------------------------------------
    def note_crash(self, test, out):
        """A panic inside a goroutine of the library kills the harness process. The scenario that was running is on
        disk (<file>.current, written at every BEGIN line); it and the panic are reported as the failing input."""
        m = re.search(r"^(panic: .*|fatal error: .*)$", out, re.M)
        if not m:
            return
        tail = out[m.start():]
        frames = re.findall(r"^(github\.com/lightninglabs/lightning-node-connect/\S+)\(", tail, re.M)
        where = frames[0].split("lightning-node-connect/")[-1] if frames else "?"
        cur = []
        for fn in sorted(os.listdir(self.outdir)):
            if fn.endswith(".current"):
                cur.append("%s: %s" % (fn[:-8], open(os.path.join(self.outdir, fn), errors="replace").read().strip()))
        self.oracle_fails.append(("%s:process-crash:%s" % (self.prop.lower(), where),
                                  "generator %s (seed %d): the process died with `%s` in %s; scenario running: %s; trace: %s" % (
                                      test, self.seed, m.group(1)[:200], where, " | ".join(cur) or "?",
                                      " / ".join(l.strip() for l in tail.splitlines()[1:14])[:900])))

    # ------------------------------------------------------------------
    def describe_coq_failure(self, out):
        m = re.search(r'File "\./([^"]+)", line (\d+), characters [^\n]*\n(Error:.*?)(?:\nmake|\Z)', out, re.S)
        if m:
            f, line, err = m.group(1), int(m.group(2)), m.group(3)
            thm = self.enclosing_statement(f, line)
            return "%s:%d (%s) no longer checks: %s" % (f, line, thm, " ".join(err.split())[:500])
        return "Coq build failed: " + out.strip()[-600:]

    def enclosing_statement(self, f, line):
        try:
            src = open(os.path.join(self.ck.COQ, f)).read().splitlines()
        except OSError:
            return "?"
        for i in range(min(line, len(src)) - 1, -1, -1):
            m = self.ck.STMT_RE.match(src[i]) or re.match(r"\s*(Definition|Fixpoint)\s+([A-Za-z0-9_']+)", src[i])
            if m:
                return m.group(1) + " " + m.group(2)
        return "?"

    def collect_oracles(self):
        for fn in sorted(os.listdir(self.outdir)):
            if not fn.endswith("_oracle.txt"):
                continue
            for line in open(os.path.join(self.outdir, fn), errors="replace"):
                parts = line.rstrip("\n").split("\t")
                if parts[0] == "FAIL" and len(parts) >= 3:
                    pref = self.cfg.get("oracle_prefixes", [self.prop.lower() + ":"])
                    if parts[1].startswith("stuck:"):
                        # the harness watchdog: a scenario of this check's generators never finished
                        self.oracle_fails.append((self.prop.lower() + ":" + parts[1], parts[2]))
                    elif any(parts[1].startswith(p) for p in pref):
                        self.oracle_fails.append((parts[1], parts[2]))
                    else:
                        self.stats["other_property_oracle_fails"] = self.stats.get("other_property_oracle_fails", 0) + 1
                elif parts[0] == "STAT" and len(parts) >= 3:
                    try:
                        self.stats[parts[1]] = self.stats.get(parts[1], 0) + int(parts[2])
                    except ValueError:
                        self.stats[parts[1]] = parts[2]
                elif parts[0] == "SAMPLE" and len(parts) >= 2 and len(self.samples) < 12:
                    self.samples.append(parts[1][:600])

    # ------------------------------------------------------------------
    def verdict(self, stmts, assumptions, cone, wall):
        ck, cfg, prop = self.ck, self.cfg, self.prop
        known = [k for k in ck.load_known() if k.get("property") == prop and k.get("state") == "known"]
        printed_known, violations = set(), []
        seen_keys = set()
        for key, detail in self.oracle_fails:
            hit = None
            for k in known:
                if re.search(k["match"], key):
                    hit = k
                    break
            if hit:
                if hit["id"] not in printed_known:
                    printed_known.add(hit["id"])
                    print("KNOWN-FINDING: property=%s %s" % (prop, hit["what"]))
                continue
            if key in seen_keys:
                continue
            seen_keys.add(key)
            violations.append((key, detail))
        # a known finding that no longer reproduces is worth a note (not an alarm)
        for k in known:
            if k["id"] not in printed_known and k.get("expect_reproduces", True) and not self.broken:
                print("note: known finding %s did not reproduce in this run" % k["id"])

        rc = 0
        nrep = 0
        for key, detail in violations[:5]:
            nrep += 1
            path = os.path.join(self.replaydir, "%s_%s_%d.json" % (prop, self.tier, nrep))
            json.dump({"property": prop, "oracle_key": key, "failing_input": detail, "seed": self.seed,
                       "tier": self.tier, "how_to_replay": "./check %s --tier %s (VERIF_SEED=%d); the failing "
                       "case is generated deterministically from the seed" % (prop, self.tier, self.seed),
                       "broken_obligations": [b[1] for b in self.broken]},
                      open(path, "w"), indent=1)
            print("VIOLATION property=%s replay=%s" % (prop, path))
            rc = 1
        if self.broken and not violations:
            path = os.path.join(self.replaydir, "%s_%s_unchecked.json" % (prop, self.tier))
            json.dump({"property": prop, "seed": self.seed, "tier": self.tier,
                       "no_longer_checks": [{"kind": k, "what": w} for k, w in self.broken],
                       "mismatching_cases": self.mismatches[:20],
                       "searched": "corpus + %d generated cases with the property's direct oracle: no failing input" % self.total_cases},
                      open(path, "w"), indent=1)
            for k, w in self.broken[:6]:
                print("broken %s: %s" % (k, w[:1500]))
            print("VIOLATION property=%s replay=%s no-failing-input-found" % (prop, path))
            rc = 1
        elif self.broken:
            for k, w in self.broken[:6]:
                print("broken %s: %s" % (k, w[:1500]))

        thms = re.findall(r"^\s*Theorem\s+([A-Za-z0-9_']+)", open(os.path.join(ck.COQ, cfg["prop_file"])).read(), re.M)
        axioms = sorted(set(a for a in assumptions.values() if a and not a.startswith("Closed")))
        n_ob = len(stmts)
        if self.proofs_ok:
            n_dis = n_ob
        else:
            # count the statements of the files that still compile (their .vo is newer than the source)
            # (`make -q X.vo` answers whether X.vo is up to date with everything it depends on)
            n_dis = 0
            uptodate = {}
            for st in stmts:
                f = st.split(":")[0]
                if f not in uptodate:
                    rcq, _ = ck.sh(["make", "-q", f[:-2] + ".vo"], cwd=ck.COQ)
                    uptodate[f] = rcq == 0
                if uptodate[f]:
                    n_dis += 1
        ev = {
            "property_id": prop, "tier": self.tier, "seed": self.seed, "level": "proof",
            "coverage": {
                "obligations": n_ob,
                "discharged": n_dis,
                "checker_cmd": "cd coq && coq_makefile -f _CoqProject -o Makefile && make -j16 %s  (Coq 8.16.1, full .vo build)" % (cfg["prop_file"][:-2] + ".vo"),
                "trusted_base": cfg.get("trusted_base", []) + [
                    "Coq 8.16.1 kernel, vm_compute (no native_compute)",
                    "axioms reported by Print Assumptions: " + ("none (all property theorems closed under the global context)" if not axioms else "; ".join(axioms)),
                    "tools/go2coq translator (subset semantics; validated differentially this run)" if cfg.get("translated") else "hand-written model tied by differential run",
                    "OCaml extraction (ExtrOcamlBasic only, no Extract Constant) + ocaml/ driver",
                ],
                "property_theorems": thms,
                "assumptions_per_theorem": assumptions,
                "cone_files": cone,
                "statements_in_cone": stmts[:400],
                "evaluations": self.total_cases + int(self.stats.get("direct_oracle_checks", 0)),
                "distinct_nontrivial": int(self.stats.get("distinct_nontrivial", 0)),
                "rule": cfg.get("rule", ""),
                "samples": self.samples or ["(no sample recorded)"],
                "traces_validated_against_impl": self.total_cases,
                "model_impl_mismatches": len(self.mismatches),
                "distribution": {k: v for k, v in self.stats.items()},
                "go2coq": self.go2coq_report if cfg.get("translated") else None,
                "coqchk": getattr(self, "coqchk", None),
                "explanation": cfg.get("explanation", ""),
            },
            "assumptions": cfg.get("assumptions", []),
            "wall_s": round(wall, 2),
            "violations": len(violations) + (1 if (self.broken and not violations) else 0),
            "known_findings_reproduced": sorted(printed_known),
            "broken": [w for _, w in self.broken],
        }
        json.dump(ev, open(os.path.join(ck.ROOT, "evidence", prop + ".json"), "w"), indent=1)
        if os.environ.get("VERIF_VERBOSE") or rc != 0:
            for name, c, out in self.log:
                if c != 0:
                    print("---- %s (rc=%s)\n%s" % (name, c, out[-3000:]))
        print("%s %s: theorems=%d statements=%d proofs_ok=%s cases=%d mismatches=%d oracle_fails=%d known=%d wall=%.1fs -> %s" % (
            prop, self.tier, len(thms), n_ob, self.proofs_ok, self.total_cases, len(self.mismatches),
            len(self.oracle_fails), len(printed_known), wall, "PASS" if rc == 0 else "FAIL"))
        return rc
