#!/usr/bin/env python3
"""Regenerate the checks section of MANIFEST.json from lib/props.py (keeps the file valid)."""
import json, os, sys
ROOT = os.path.dirname(os.path.dirname(os.path.abspath(__file__)))
sys.path.insert(0, os.path.join(ROOT, "lib"))
import props
m = json.load(open(os.path.join(ROOT, "MANIFEST.json")))
checks = []
allids = ["C%02d" % i for i in range(1, 21)]
for pid in allids:
    cfg = props.PROPS.get(pid)
    if not cfg or cfg.get("unclaimed"):
        continue
    checks.append({
        "property_id": pid,
        "quick_cmd": "./check %s --tier quick" % pid,
        "thorough_cmd": "./check %s --tier thorough" % pid,
        "evidence_file": "evidence/%s.json" % pid,
        "replay_cmd_template": "./check %s --replay {path}" % pid,
        "engine": "coq",
        "level_claimed": {"category": "proof", "text": cfg.get("level_text", ""), "design_ref": cfg.get("design_ref", "DESIGN.md §4 " + pid)},
        "level_note": cfg.get("level_note", ""),
        "technique": cfg.get("technique", "Coq proof over executable model + model/implementation correspondence"),
    })
m["checks"] = checks
na = []
for pid in allids:
    if pid not in [c["property_id"] for c in checks]:
        na.append({"property_id": pid, "reason": props.NOT_YET.get(pid, "check not built yet in this round (planned, see DESIGN.md §8); not claimed until its check exists")})
m["not_applicable"] = na
claimed = [c["property_id"] for c in checks]
for e in m.get("engines", []):
    e["serves_properties"] = claimed
json.dump(m, open(os.path.join(ROOT, "MANIFEST.json"), "w"), indent=1)
print("manifest: %d checks, %d not claimed" % (len(checks), len(na)))
