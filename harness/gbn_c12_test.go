package harness

import (
	"fmt"
	"runtime"
	"testing"
	"testing/synctest"
	"time"
)

// C12: Close at every point of a connection's life. Scenario classes:
//   fin-after-retried-handshake: the handshake needed a retransmission, then the
//     peer closes at once: its FIN must make the local calls fail.
//   close-points: Close during the handshake, idle, with Send / Recv blocked, with a
//     full window, during a retransmission; by one side, both, twice, concurrently.
func TestGenC12(t *testing.T) {
	r := newRng(seed())
	o := newOut(t, "c12_hist.txt")
	defer o.close()
	q := newOracle(t, "c12")
	defer q.close()
	l := &evlog{o: o}
	id := 0

	// ---- (1) FIN right after a handshake that needed a retry ----
	for _, pat := range [][2][]string{
		{{}, {"drop"}},                 // server's first SYN echo lost: client times out and resends
		{{"drop"}, {}},                 // client's first SYN lost
		{{}, {"keep"}},                 // duplicated echo
		{{}, {}},                       // clean
	} {
		for _, closer := range []int{0, 1} {
			id++
			cfg := simCfg{id: fmt.Sprintf("f%d", id), n: 3, hsTO: time.Second}
			l.keep = l.keep[:0]
			l.o.line("BEGIN %s n=3 chunk=0", cfg.id)
			pan := bubble(t, func(t *testing.T) {
				l.start = time.Now()
				l.last = 0
				base := runtime.NumGoroutine()
				s := newSim(t, l, cfg)
				s.startEndpoints()
				synctest.Wait()
				idx := [2]int{}
				sentPing := false
				for it := 0; it < 400 && !(s.hsReturned(0) && s.hsReturned(1)); it++ {
					moved := false
					for x := 0; x < 2; x++ {
						if s.canOp(x) {
							what := "deliver"
							if idx[x] < len(pat[x]) {
								what = pat[x][idx[x]]
							}
							idx[x]++
							s.op(x, what)
							moved = true
						}
					}
					if s.hsReturned(0) && !s.hsReturned(1) && !sentPing && s.hsErr[0] == nil {
						// the server restarted its handshake: the client's data completes it
						sentPing = true
						s.send(0, []byte("poke"))
					}
					if !moved {
						s.advance(250 * time.Millisecond)
					}
				}
				if !(s.hsReturned(0) && s.hsReturned(1)) || s.hsErr[0] != nil || s.hsErr[1] != nil {
					q.fail("c12:setup-handshake-failed", fmt.Sprintf("pattern %v", pat))
					s.finish(base)
					return
				}
				victim := 1 - closer
				// the victim's application is blocked in Recv; the closer closes at once
				s.recv(victim)
				s.closeSide(closer)
				for k := 0; k < 10; k++ {
					for x := 0; x < 2; x++ {
						for s.canOp(x) {
							s.op(x, "deliver")
						}
					}
				}
				s.advance(30 * time.Second)
				for k := 0; k < 10; k++ {
					for x := 0; x < 2; x++ {
						for s.canOp(x) {
							s.op(x, "deliver")
						}
					}
				}
				_, rb := s.busy(victim)
				q.check(!rb, fmt.Sprintf("c12:peer-fin-lost:pattern=%v,%v", pat[0], pat[1]), func() string {
					return fmt.Sprintf("scenario %s: handshake pattern %v, side %d closed right after the handshake over a working transport (keepalive off); 30 s later side %d's Recv is still blocked; events: %v",
						cfg.id, pat, closer, victim, firstN(l.keep, 60))
				})
				for _, g := range s.finish(base) {
					q.fail("c12:leak:"+g, cfg.id)
				}
			})
			l.o.line("END %s", cfg.id)
			if pan != "" {
				q.fail("c12:bubble-panic", cfg.id+": "+truncate(pan, 300))
			}
			q.stat("distinct_nontrivial", 1)
			q.stat("fin_after_handshake", 1)
		}
	}
	// ---- (2) Close at every point of a connection's life ----
	points := []string{"idle", "send-blocked", "recv-blocked", "mid-resend", "traffic", "both-blocked"}
	for _, point := range points {
		for _, who := range []string{"client", "server", "both", "twice", "concurrent"} {
			for _, transport := range []string{"working", "dead"} {
				for _, ka := range []bool{false, true} {
					id++
					n := r.pick([]int{1, 3, 20})
					cfg := simCfg{id: fmt.Sprintf("c%d", id), n: uint8(n), static: time.Second}
					if ka {
						cfg.ping, cfg.pong = 5*time.Second, 3*time.Second
					}
					l.keep = l.keep[:0]
					l.o.line("BEGIN %s n=%d chunk=0 class=close-%s-%s-%s", cfg.id, n, point, who, transport)
					pan := bubble(t, func(t *testing.T) {
						l.start = time.Now()
						l.last = 0
						base := runtime.NumGoroutine()
						s := newSim(t, l, cfg)
						if !s.cleanHandshake() {
							q.fail("c12:setup-handshake-failed", cfg.id)
							s.finish(base)
							return
						}
						deliver := func() {
							if transport == "dead" {
								return
							}
							for k := 0; k < 20; k++ {
								moved := false
								for x := 0; x < 2; x++ {
									for s.canOp(x) {
										s.op(x, "deliver")
										moved = true
									}
								}
								if !moved {
									return
								}
							}
						}
						// bring the connection to the chosen point
						switch point {
						case "send-blocked", "both-blocked", "mid-resend":
							for k := 0; k <= n; k++ { // n fill the window, one more blocks
								if sb, _ := s.busy(0); !sb {
									s.send(0, []byte{byte(k), 1})
								}
							}
							if point == "both-blocked" {
								s.recv(0)
								s.recv(1)
							}
							if point == "mid-resend" {
								s.advance(1200 * time.Millisecond) // the resend has fired, the sync wait is in progress
							}
						case "recv-blocked":
							s.recv(0)
							s.recv(1)
						case "traffic":
							s.recv(1)
							s.send(0, []byte("abc"))
							deliver()
						}
						// close
						t0 := time.Now()
						switch who {
						case "client":
							s.closeSide(0)
						case "server":
							s.closeSide(1)
						case "both":
							s.closeSide(0)
							s.closeSide(1)
						case "twice":
							s.closeSide(0)
							s.closed[0] = false
							s.closeSide(0)
						case "concurrent":
							s.l.ev("CL 0")
							s.closed[0] = true
							for k := 0; k < 3; k++ {
								s.wg.Add(1)
								go func() { defer s.wg.Done(); _ = s.conn[0].Close() }()
							}
						}
						deliver()
						// Close must return within a bounded time (FIN send timeout 1 s)
						closers := []int{0}
						if who == "server" {
							closers = []int{1}
						} else if who == "both" {
							closers = []int{0, 1}
						}
						s.advance(3 * time.Second)
						deliver()
						done := make(chan struct{})
						go func() { s.wg.Wait(); close(done) }()
						s.advance(3 * time.Second)
						returned := false
						select {
						case <-done:
							returned = true
						default:
						}
						desc := func() string {
							return fmt.Sprintf("scenario %s: point=%s closer=%s transport=%s keepalive=%v n=%d; events %v", cfg.id, point, who, transport, ka, n, lastN(l.keep, 40))
						}
						// all calls that were blocked on a closed side have returned
						for _, x := range closers {
							sb, rb := s.busy(x)
							q.check(!sb && !rb, fmt.Sprintf("c12:blocked-call-not-woken:%s", point), desc)
							// later calls fail
							if !sb && !rb {
								err := s.conn[x].Send([]byte("late"))
								_, err2 := s.conn[x].Recv()
								q.check(err != nil && err2 != nil, "c12:call-succeeds-after-close", desc)
							}
						}
						_ = returned
						_ = t0
						// the peer learns about it when the transport works
						if transport == "working" && who != "both" {
							peer := 1 - closers[0]
							s.advance(2 * time.Second)
							deliver()
							s.advance(2 * time.Second)
							_, rb := s.busy(peer)
							sbp, _ := s.busy(peer)
							q.check(!rb && !sbp && isClosedQuick(s, peer), fmt.Sprintf("c12:peer-not-told:%s", point), desc)
						}
						for _, g := range s.finish(base) {
							q.fail("c12:leak:"+g, desc())
						}
					})
					l.o.line("END %s", cfg.id)
					if pan != "" {
						q.fail("c12:bubble-panic", cfg.id+": "+truncate(pan, 400))
					}
					q.stat("close_scenarios", 1)
					q.stat("distinct_nontrivial", 1)
				}
			}
		}
	}
	// ---- (3) giving up during the handshake: cancelling the context makes the constructors return ----
	for _, side := range []int{0, 1} {
		id++
		cfg := simCfg{id: fmt.Sprintf("x%d", id), n: 3, hsTO: time.Second}
		l.o.line("BEGIN %s n=3 chunk=0 class=cancel-during-handshake", cfg.id)
		pan := bubble(t, func(t *testing.T) {
			l.start = time.Now()
			l.last = 0
			base := runtime.NumGoroutine()
			s := newSim(t, l, cfg)
			s.startEndpoints(side) // the peer never shows up
			s.advance(3500 * time.Millisecond)
			// (NewServerConn returns a nil error when its context is cancelled during the handshake;
			// the repository's TestServerHandshakeTimeout pins that, so it is not an observation here)
			s.l.ev("TEARDOWN")
			s.cancel()
			s.advance(2 * time.Second)
			q.check(s.hsReturned(side), "c12:constructor-hangs-after-cancel", func() string {
				return fmt.Sprintf("side %d: constructor did not return 2 s after its context was cancelled", side)
			})
			for _, g := range s.finish(base) {
				q.fail("c12:leak:"+g, "cancel during handshake")
			}
		})
		l.o.line("END %s", cfg.id)
		if pan != "" {
			q.fail("c12:bubble-panic", cfg.id+": "+truncate(pan, 400))
		}
		q.stat("distinct_nontrivial", 1)
	}
	q.sample("close points {idle, send-blocked, recv-blocked, mid-resend, traffic, both-blocked} x closer {client, server, both, twice, concurrent} x transport {working, dead} x keepalive {off,on}; FIN right after a retried handshake; context cancelled during the handshake")
}
