package harness

import (
	"context"
	"fmt"
	"runtime"
	"strings"
	"sync"
	"sync/atomic"
	"testing"
	"testing/synctest"
	"time"

	"github.com/lightninglabs/lightning-node-connect/gbn"
)

// C12: Close at every point of a connection's life. Scenario classes:
//
//	fin-after-retried-handshake: the handshake needed a retransmission, then the
//	  peer closes at once: its FIN must make the local calls fail.
//	close-points: Close during the handshake, idle, with Send / Recv blocked, with a
//	  full window, during a retransmission; by one side, both, twice, concurrently.
func TestGenC12(t *testing.T) {
	r := newRng(seed())
	o := newOut(t, "c12_hist.txt")
	defer o.close()
	q := newOracle(t, "c12")
	defer q.close()
	l := &evlog{o: o}
	id := 0

	// ---- (1) FIN right after a handshake that needed a retry ----
	for _, pat := range [][2][]string{
		{{}, {"drop"}}, // server's first SYN echo lost: client times out and resends
		{{"drop"}, {}}, // client's first SYN lost
		{{}, {"keep"}}, // duplicated echo
		{{}, {}},       // clean
	} {
		for _, closer := range []int{0, 1} {
			id++
			cfg := simCfg{id: fmt.Sprintf("f%d", id), n: 3, hsTO: time.Second}
			l.keep = l.keep[:0]
			l.o.line("BEGIN %s n=3 chunk=0", cfg.id)
			pan := bubble(t, func(t *testing.T) {
				l.start = time.Now()
				l.last = 0
				base := runtime.NumGoroutine()
				s := newSim(t, l, cfg)
				s.startEndpoints()
				synctest.Wait()
				idx := [2]int{}
				sentPing := false
				for it := 0; it < 400 && !(s.hsReturned(0) && s.hsReturned(1)); it++ {
					moved := false
					for x := 0; x < 2; x++ {
						if s.canOp(x) {
							what := "deliver"
							if idx[x] < len(pat[x]) {
								what = pat[x][idx[x]]
							}
							idx[x]++
							s.op(x, what)
							moved = true
						}
					}
					if s.hsReturned(0) && !s.hsReturned(1) && !sentPing && s.hsErr[0] == nil {
						// the server restarted its handshake: the client's data completes it
						sentPing = true
						s.send(0, []byte("poke"))
					}
					if !moved {
						s.advance(250 * time.Millisecond)
					}
				}
				if !(s.hsReturned(0) && s.hsReturned(1)) || s.hsErr[0] != nil || s.hsErr[1] != nil {
					q.fail("c12:setup-handshake-failed", fmt.Sprintf("pattern %v", pat))
					s.finish(base)
					return
				}
				victim := 1 - closer
				// the victim's application is blocked in Recv; the closer closes at once
				s.recv(victim)
				s.closeSide(closer)
				for k := 0; k < 10; k++ {
					for x := 0; x < 2; x++ {
						for s.canOp(x) {
							s.op(x, "deliver")
						}
					}
				}
				s.advance(30 * time.Second)
				for k := 0; k < 10; k++ {
					for x := 0; x < 2; x++ {
						for s.canOp(x) {
							s.op(x, "deliver")
						}
					}
				}
				_, rb := s.busy(victim)
				q.check(!rb, fmt.Sprintf("c12:peer-fin-lost:pattern=%v,%v", pat[0], pat[1]), func() string {
					return fmt.Sprintf("scenario %s: handshake pattern %v, side %d closed right after the handshake over a working transport (keepalive off); 30 s later side %d's Recv is still blocked; events: %v",
						cfg.id, pat, closer, victim, firstN(l.keep, 60))
				})
				for _, g := range s.finish(base) {
					q.fail("c12:leak:"+g, cfg.id)
				}
			})
			l.o.line("END %s", cfg.id)
			if pan != "" {
				q.fail("c12:bubble-panic", cfg.id+": "+truncate(pan, 300))
			}
			q.stat("distinct_nontrivial", 1)
			q.stat("fin_after_handshake", 1)
		}
	}
	// ---- (2) Close at every point of a connection's life ----
	points := []string{"idle", "send-blocked", "recv-blocked", "mid-resend", "traffic", "both-blocked", "recv-backlog"}
	for _, point := range points {
		for _, who := range []string{"client", "server", "both", "twice", "concurrent"} {
			for _, transport := range []string{"working", "dead"} {
				for _, ka := range []bool{false, true} {
					id++
					n := r.pick([]int{1, 3, 20})
					cfg := simCfg{id: fmt.Sprintf("c%d", id), n: uint8(n), static: time.Second}
					if ka {
						cfg.ping, cfg.pong = 5*time.Second, 3*time.Second
					}
					l.keep = l.keep[:0]
					l.o.line("BEGIN %s n=%d chunk=0 class=close-%s-%s-%s", cfg.id, n, point, who, transport)
					pan := bubble(t, func(t *testing.T) {
						l.start = time.Now()
						l.last = 0
						base := runtime.NumGoroutine()
						s := newSim(t, l, cfg)
						if !s.cleanHandshake() {
							q.fail("c12:setup-handshake-failed", cfg.id)
							s.finish(base)
							return
						}
						deliver := func() {
							if transport != "working" {
								return
							}
							for k := 0; k < 20; k++ {
								moved := false
								for x := 0; x < 2; x++ {
									for s.canOp(x) {
										s.op(x, "deliver")
										moved = true
									}
								}
								if !moved {
									return
								}
							}
						}
						// bring the connection to the chosen point
						switch point {
						case "send-blocked", "both-blocked", "mid-resend":
							for k := 0; k <= n; k++ { // n fill the window, one more blocks
								if sb, _ := s.busy(0); !sb {
									s.send(0, []byte{byte(k), 1})
								}
							}
							if point == "both-blocked" {
								s.recv(0)
								s.recv(1)
							}
							if point == "mid-resend" {
								s.advance(1200 * time.Millisecond) // the resend has fired, the sync wait is in progress
							}
						case "recv-blocked":
							s.recv(0)
							s.recv(1)
						case "recv-backlog":
							// the peer's messages pile up unread on side 0 until its receive loop is
							// stuck handing the next one to the application
							for k := 0; k < n+2; k++ {
								if sb, _ := s.busy(1); !sb {
									s.send(1, []byte{byte(k), 2})
								}
								for j := 0; j < 20; j++ {
									for x := 0; x < 2; x++ {
										for s.canOp(x) {
											s.op(x, "deliver")
										}
									}
								}
							}
						case "traffic":
							s.recv(1)
							s.send(0, []byte("abc"))
							deliver()
						}
						// close
						t0 := time.Now()
						switch who {
						case "client":
							s.closeSide(0)
						case "server":
							s.closeSide(1)
						case "both":
							s.closeSide(0)
							s.closeSide(1)
						case "twice":
							s.closeSide(0)
							s.closed[0] = false
							s.closeSide(0)
						case "concurrent":
							s.l.ev("CL 0")
							s.closed[0] = true
							for k := 0; k < 3; k++ {
								s.wg.Add(1)
								go func() {
									defer s.wg.Done()
									_ = s.conn[0].Close()
									s.mu.Lock()
									s.closeRetN[0]++
									s.closeRet[0] = s.closeRetN[0] == 3
									s.mu.Unlock()
								}()
							}
						}
						deliver()
						// Close must return within a bounded time (FIN send timeout 1 s)
						closers := []int{0}
						if who == "server" {
							closers = []int{1}
						} else if who == "both" {
							closers = []int{0, 1}
						}
						s.advance(3 * time.Second)
						deliver()
						done := make(chan struct{})
						go func() { s.wg.Wait(); close(done) }()
						s.advance(3 * time.Second)
						returned := false
						select {
						case <-done:
							returned = true
						default:
						}
						desc := func() string {
							return fmt.Sprintf("scenario %s: point=%s closer=%s transport=%s keepalive=%v n=%d; events %v", cfg.id, point, who, transport, ka, n, lastN(l.keep, 40))
						}
						// all calls that were blocked on a closed side have returned
						for _, x := range closers {
							q.check(s.closeReturned(x), fmt.Sprintf("c12:close-not-bounded:%s,%s", point, transport), desc)
							sb, rb := s.busy(x)
							q.check(!sb && !rb, fmt.Sprintf("c12:blocked-call-not-woken:%s", point), desc)
							// later calls fail
							if !sb && !rb {
								err := s.conn[x].Send([]byte("late"))
								_, err2 := s.conn[x].Recv()
								q.check(err != nil && err2 != nil, "c12:call-succeeds-after-close", desc)
							}
						}
						_ = returned
						_ = t0
						// the peer learns about it when the transport works
						if transport == "working" && who != "both" {
							peer := 1 - closers[0]
							s.advance(2 * time.Second)
							deliver()
							s.advance(2 * time.Second)
							_, rb := s.busy(peer)
							sbp, _ := s.busy(peer)
							told := !rb && !sbp && isClosedQuick(s, peer)
							if point == "recv-backlog" {
								// the peer's application first obtains the messages it had not read yet;
								// the FIN behind them is seen once they are drained
								for k := 0; k < n+4 && !told; k++ {
									deliver()
									s.advance(100 * time.Millisecond)
									if _, rb := s.busy(peer); !rb {
										told = isClosedQuick(s, peer)
									}
								}
							}
							q.check(told, fmt.Sprintf("c12:peer-not-told:%s", point), desc)
						}
						for _, g := range s.finish(base) {
							q.fail("c12:leak:"+g, desc())
						}
					})
					l.o.line("END %s", cfg.id)
					if pan != "" {
						q.fail("c12:bubble-panic", cfg.id+": "+truncate(pan, 400))
					}
					q.stat("close_scenarios", 1)
					q.stat("distinct_nontrivial", 1)
				}
			}
		}
	}
	// ---- (2b) Close while the transport's send hangs (real time: Close holds its once-lock while the FIN send
	// waits for its deadline, and a goroutine blocked on a mutex stops a bubble's clock) ----
	{
		var wg sync.WaitGroup
		var mu sync.Mutex
		type outc struct {
			name     string
			returned bool
			took     time.Duration
			setup    bool
		}
		var outs []outc
		for _, point := range []string{"idle", "send-blocked", "mid-resend"} {
			for _, who := range []int{0, 1} {
				wg.Add(1)
				go func(point string, who int) {
					defer wg.Done()
					oc := outc{name: fmt.Sprintf("%s,closer=%d", point, who)}
					defer func() { mu.Lock(); outs = append(outs, oc); mu.Unlock() }()
					ctx, cancel := context.WithCancel(context.Background())
					defer cancel()
					var blocked, dropAll atomic.Bool
					ab, ba := make(chan []byte, 4096), make(chan []byte, 4096)
					mk := func(out, in chan []byte) (func(context.Context, []byte) error, func(context.Context) ([]byte, error)) {
						return func(ctx context.Context, b []byte) error {
								if blocked.Load() {
									<-ctx.Done()
									return ctx.Err()
								}
								if dropAll.Load() {
									return nil
								}
								select {
								case out <- append([]byte{}, b...):
									return nil
								case <-ctx.Done():
									return ctx.Err()
								}
							}, func(ctx context.Context) ([]byte, error) {
								select {
								case b := <-in:
									return b, nil
								case <-ctx.Done():
									return nil, ctx.Err()
								}
							}
					}
					var conns [2]*gbn.GoBackNConn
					var hs sync.WaitGroup
					hs.Add(2)
					go func() {
						defer hs.Done()
						sf, rf := mk(ba, ab)
						if c, err := gbn.NewServerConn(ctx, sf, rf); err == nil {
							conns[1] = c
						}
					}()
					go func() {
						defer hs.Done()
						sf, rf := mk(ab, ba)
						if c, err := gbn.NewClientConn(ctx, 2, sf, rf); err == nil {
							conns[0] = c
						}
					}()
					hs.Wait()
					if conns[0] == nil || conns[1] == nil {
						return
					}
					oc.setup = true
					if point == "mid-resend" {
						// the closer's packet is lost, its retransmission (1 s later) then hangs in the transport
						dropAll.Store(true)
						_ = conns[who].Send([]byte("lost"))
						time.Sleep(200 * time.Millisecond) // first transmission done (and dropped)
						blocked.Store(true)
						time.Sleep(1300 * time.Millisecond) // the resend timer (1 s) has fired: queue.resend sits in the transport
					}
					blocked.Store(true)
					if point == "send-blocked" {
						go func() { _ = conns[who].Send([]byte("x")) }()
						time.Sleep(50 * time.Millisecond)
					}
					t0 := time.Now()
					done := make(chan struct{})
					go func() { _ = conns[who].Close(); close(done) }()
					select {
					case <-done:
						oc.returned = true
					case <-time.After(4 * time.Second): // FIN send timeout is 1 s
					}
					oc.took = time.Since(t0)
					cancel()
					select {
					case <-done:
					case <-time.After(2 * time.Second):
					}
					_ = conns[1-who].Close()
				}(point, who)
			}
		}
		wg.Wait()
		for _, oc := range outs {
			q.stat("close_blocked_transport_realtime", 1)
			if !oc.setup {
				q.fail("c12:setup-handshake-failed", "real-time "+oc.name)
				continue
			}
			oc := oc
			q.check(oc.returned, "c12:close-not-bounded:"+oc.name+",transport=blocked", func() string {
				return fmt.Sprintf("real time, transport send hangs until its context ends: Close did not return within 4 s (FIN send timeout 1 s); waited %v", oc.took)
			})
		}
	}
	// ---- (2c) the mailbox connections (ClientConn / ServerConn over an in-memory relay, real time): when one side
	// closes, the FIN reaches the peer, whose blocked Read fails long before its keepalive (10 s) would notice ----
	{
		var wg sync.WaitGroup
		var mu sync.Mutex
		// (the -over-grpc cases put a real gRPC client and server between the library and the mailboxes: a client
		// stream's Send only queues the message, and cancelling the stream's context drops what is still queued)
		for _, closer := range []string{"client", "server", "client-relay-send-down", "server-relay-send-down",
			"client-relay-unreachable-send-down", "server-relay-unreachable-send-down",
			"client-over-grpc", "server-over-grpc", "client-over-grpc-2", "server-over-grpc-2"} {
			wg.Add(1)
			go func(closer string) {
				defer wg.Done()
				rr := r.sub(len(closer) + 4242)
				c, s, cleanup, relay, err := kitPairRelayOver(rr, strings.Contains(closer, "over-grpc"))
				if cleanup != nil {
					defer func() {
						// closing everything must terminate too (not in a bubble: no watchdog here)
						cd := make(chan struct{})
						go func() { cleanup(); close(cd) }()
						select {
						case <-cd:
						case <-time.After(15 * time.Second):
							mu.Lock()
							q.fail("c12:mailbox-close-not-bounded:cleanup,"+closer, "closing both mailbox connections and the server did not return within 15 s")
							mu.Unlock()
						}
					}()
				}
				mu.Lock()
				q.stat("mailbox_close_cases", 1)
				mu.Unlock()
				if err != nil {
					mu.Lock()
					q.fail("c12:setup-handshake-failed", "mailbox pair: "+err.Error())
					mu.Unlock()
					return
				}
				a, b := c, s // a closes, b is blocked in Read
				if strings.HasPrefix(closer, "server") {
					a, b = s, c
				}
				if strings.HasSuffix(closer, "send-down") {
					// the relay starts failing every Send while the closer has a write under way (its retry loop is
					// at work); Close must still return
					_, _ = a.Write([]byte("hello"))
					buf := make([]byte, 16)
					_ = b.SetReadDeadline(time.Now().Add(5 * time.Second))
					_, _ = b.Read(buf)
					relay.mu.Lock()
					relay.fault = func(string, int) string { return "senderr" }
					relay.unreachable = strings.Contains(closer, "unreachable") // ... and no new send stream can be opened
					relay.mu.Unlock()
					go func() { _, _ = a.Write([]byte("stuck in the retry loop")) }()
					time.Sleep(300 * time.Millisecond)
					done := make(chan struct{})
					t0 := time.Now()
					go func() { _ = a.Close(); close(done) }()
					returned := false
					select {
					case <-done:
						returned = true
					case <-time.After(8 * time.Second):
					}
					took := time.Since(t0)
					mu.Lock()
					q.check(returned, "c12:mailbox-close-not-bounded:"+closer, func() string {
						return fmt.Sprintf("%s: the relay fails every Send and a Write is in its retry loop: Close did not return within 8 s (waited %v)", closer, took)
					})
					mu.Unlock()
					relay.mu.Lock()
					relay.fault = nil
					relay.mu.Unlock()
					return
				}
				// some traffic first, so both directions are past the handshake
				_, _ = a.Write([]byte("hello"))
				buf := make([]byte, 16)
				_ = b.SetReadDeadline(time.Now().Add(5 * time.Second))
				if _, err := b.Read(buf); err != nil {
					mu.Lock()
					q.fail("c12:setup-handshake-failed", "mailbox pair first read: "+err.Error())
					mu.Unlock()
					return
				}
				_ = b.SetReadDeadline(time.Time{})
				done := make(chan error, 1)
				go func() { _, e := b.Read(buf); done <- e }()
				time.Sleep(100 * time.Millisecond)
				t0 := time.Now()
				_ = a.Close()
				var rerr error
				returned := false
				select {
				case rerr = <-done:
					returned = true
				case <-time.After(4 * time.Second):
				}
				took := time.Since(t0)
				mu.Lock()
				relay.mu.Lock()
				finIn, finOut := relay.grpcFinReceived, relay.grpcFinForwarded
				relay.mu.Unlock()
				q.check(returned && rerr != nil, "c12:mailbox-peer-not-told:closer="+strings.TrimSuffix(closer, "-2"), func() string {
					return fmt.Sprintf("%s closed its mailbox connection over a working relay; the peer's blocked Read returned=%v err=%v after %v (keepalive alone would take about 10 s); FIN packets that reached the relay's gRPC SendStream handler: %d, forwarded by it: %d", closer, returned, rerr, took, finIn, finOut)
				})
				mu.Unlock()
			}(closer)
		}
		wg.Wait()
	}
	// ---- (3) giving up during the handshake: cancelling the context makes the constructors return ----
	for _, side := range []int{0, 1} {
		id++
		cfg := simCfg{id: fmt.Sprintf("x%d", id), n: 3, hsTO: time.Second}
		l.o.line("BEGIN %s n=3 chunk=0 class=cancel-during-handshake", cfg.id)
		pan := bubble(t, func(t *testing.T) {
			l.start = time.Now()
			l.last = 0
			base := runtime.NumGoroutine()
			s := newSim(t, l, cfg)
			s.startEndpoints(side) // the peer never shows up
			s.advance(3500 * time.Millisecond)
			// (NewServerConn returns a nil error when its context is cancelled during the handshake;
			// the repository's TestServerHandshakeTimeout pins that, so it is not an observation here)
			s.l.ev("TEARDOWN")
			s.cancel()
			s.advance(2 * time.Second)
			q.check(s.hsReturned(side), "c12:constructor-hangs-after-cancel", func() string {
				return fmt.Sprintf("side %d: constructor did not return 2 s after its context was cancelled", side)
			})
			for _, g := range s.finish(base) {
				q.fail("c12:leak:"+g, "cancel during handshake")
			}
		})
		l.o.line("END %s", cfg.id)
		if pan != "" {
			q.fail("c12:bubble-panic", cfg.id+": "+truncate(pan, 400))
		}
		q.stat("distinct_nontrivial", 1)
	}
	q.sample("close points {idle, send-blocked, recv-blocked, mid-resend, traffic, both-blocked, recv-backlog (n+1 unread messages)} x closer {client, server, both, twice, concurrent} x transport {working, dead} x keepalive {off,on}, Close must have returned 3 s later; Close over a transport whose send hangs (real time, 4 cases); FIN right after a retried handshake; context cancelled during the handshake")
}
