package harness

import (
	"fmt"
	"runtime"
	"testing"
	"testing/synctest"
	"time"
)

// C12: Close at every point of a connection's life. Scenario classes:
//   fin-after-retried-handshake: the handshake needed a retransmission, then the
//     peer closes at once: its FIN must make the local calls fail.
//   close-points: Close during the handshake, idle, with Send / Recv blocked, with a
//     full window, during a retransmission; by one side, both, twice, concurrently.
func TestGenC12(t *testing.T) {
	r := newRng(seed())
	o := newOut(t, "c12_hist.txt")
	defer o.close()
	q := newOracle(t, "c12")
	defer q.close()
	l := &evlog{o: o}
	id := 0

	// ---- (1) FIN right after a handshake that needed a retry ----
	for _, pat := range [][2][]string{
		{{}, {"drop"}},                 // server's first SYN echo lost: client times out and resends
		{{"drop"}, {}},                 // client's first SYN lost
		{{}, {"keep"}},                 // duplicated echo
		{{}, {}},                       // clean
	} {
		for _, closer := range []int{0, 1} {
			id++
			cfg := simCfg{id: fmt.Sprintf("f%d", id), n: 3, hsTO: time.Second}
			l.keep = l.keep[:0]
			l.o.line("BEGIN %s n=3 chunk=0", cfg.id)
			pan := bubble(t, func(t *testing.T) {
				l.start = time.Now()
				l.last = 0
				base := runtime.NumGoroutine()
				s := newSim(t, l, cfg)
				s.startEndpoints()
				synctest.Wait()
				idx := [2]int{}
				sentPing := false
				for it := 0; it < 400 && !(s.hsReturned(0) && s.hsReturned(1)); it++ {
					moved := false
					for x := 0; x < 2; x++ {
						if s.canOp(x) {
							what := "deliver"
							if idx[x] < len(pat[x]) {
								what = pat[x][idx[x]]
							}
							idx[x]++
							s.op(x, what)
							moved = true
						}
					}
					if s.hsReturned(0) && !s.hsReturned(1) && !sentPing && s.hsErr[0] == nil {
						// the server restarted its handshake: the client's data completes it
						sentPing = true
						s.send(0, []byte("poke"))
					}
					if !moved {
						s.advance(250 * time.Millisecond)
					}
				}
				if !(s.hsReturned(0) && s.hsReturned(1)) || s.hsErr[0] != nil || s.hsErr[1] != nil {
					q.fail("c12:setup-handshake-failed", fmt.Sprintf("pattern %v", pat))
					s.finish(base)
					return
				}
				victim := 1 - closer
				// the victim's application is blocked in Recv; the closer closes at once
				s.recv(victim)
				s.closeSide(closer)
				for k := 0; k < 10; k++ {
					for x := 0; x < 2; x++ {
						for s.canOp(x) {
							s.op(x, "deliver")
						}
					}
				}
				s.advance(30 * time.Second)
				for k := 0; k < 10; k++ {
					for x := 0; x < 2; x++ {
						for s.canOp(x) {
							s.op(x, "deliver")
						}
					}
				}
				_, rb := s.busy(victim)
				q.check(!rb, fmt.Sprintf("c12:peer-fin-lost:pattern=%v,%v", pat[0], pat[1]), func() string {
					return fmt.Sprintf("scenario %s: handshake pattern %v, side %d closed right after the handshake over a working transport (keepalive off); 30 s later side %d's Recv is still blocked; events: %v",
						cfg.id, pat, closer, victim, firstN(l.keep, 60))
				})
				for _, g := range s.finish(base) {
					q.fail("c12:leak:"+g, cfg.id)
				}
			})
			l.o.line("END %s", cfg.id)
			if pan != "" {
				q.fail("c12:bubble-panic", cfg.id+": "+truncate(pan, 300))
			}
			q.stat("distinct_nontrivial", 1)
			q.stat("fin_after_handshake", 1)
		}
	}
	_ = r
}
