package harness

import (
	"context"
	"fmt"
	"net"
	"os"
	"regexp"
	"runtime"
	"sort"
	"strings"
	"sync"
	"sync/atomic"
	"testing"
	"testing/synctest"
	"time"

	"github.com/lightninglabs/lightning-node-connect/gbn"
	"github.com/lightninglabs/lightning-node-connect/mailbox"
)

// C18: concurrent use. The scenarios run in a child process built with -race
// (VERIF_RACE_BIN). The two endpoints are joined by plain channels, without any
// lock or log of the harness in between, so that the only happens-before edges
// are the protocol's own; API calls come from several goroutines; keepalive is on
// with the ping period equal to the application's send period so that timer
// expiries coincide with packet arrivals.

func raceScenario(t *testing.T, variant int) {
	synctest.Test(t, func(t *testing.T) {
		ctx, cancel := context.WithCancel(context.Background())
		defer cancel()
		ab, ba := make(chan []byte, 4096), make(chan []byte, 4096)
		mk := func(out, in chan []byte) (func(context.Context, []byte) error, func(context.Context) ([]byte, error)) {
			return func(ctx context.Context, b []byte) error {
					select {
					case out <- append([]byte{}, b...):
						return nil
					case <-ctx.Done():
						return ctx.Err()
					}
				}, func(ctx context.Context) ([]byte, error) {
					select {
					case b := <-in:
						return b, nil
					case <-ctx.Done():
						return nil, ctx.Err()
					}
				}
		}
		period := []time.Duration{time.Second, 2 * time.Second, time.Second}[variant%3]
		opts := []gbn.Option{gbn.WithTimeoutOptions(gbn.WithKeepalivePing(period, 3*period), gbn.WithHandshakeTimeout(time.Second))}
		if variant%2 == 1 {
			opts = []gbn.Option{gbn.WithTimeoutOptions(gbn.WithKeepalivePing(period, 3*period), gbn.WithStaticResendTimeout(period))}
		}
		var conns [2]*gbn.GoBackNConn
		var wg sync.WaitGroup
		wg.Add(2)
		go func() {
			defer wg.Done()
			s, r := mk(ba, ab)
			c, err := gbn.NewServerConn(ctx, s, r, opts...)
			if err == nil {
				conns[1] = c
			}
		}()
		go func() {
			defer wg.Done()
			s, r := mk(ab, ba)
			c, err := gbn.NewClientConn(ctx, uint8([]int{2, 5, 20}[variant%3]), s, r, opts...)
			if err == nil {
				conns[0] = c
			}
		}()
		wg.Wait()
		if conns[0] == nil || conns[1] == nil {
			fmt.Println("RACE-SCENARIO handshake failed")
			return
		}
		stop := make(chan struct{})
		var api sync.WaitGroup
		for x := 0; x < 2; x++ {
			c := conns[x]
			// two senders, a receiver and a timeout setter per endpoint, from different goroutines
			for k := 0; k < 2; k++ {
				api.Add(1)
				go func(k int) {
					defer api.Done()
					for i := 0; ; i++ {
						select {
						case <-stop:
							return
						default:
						}
						if err := c.Send([]byte{byte(k), byte(i)}); err != nil {
							return
						}
						// send exactly when the ping ticker is due
						time.Sleep(period)
					}
				}(k)
			}
			api.Add(1)
			go func() {
				defer api.Done()
				for {
					if _, err := c.Recv(); err != nil {
						return
					}
				}
			}()
			api.Add(1)
			go func() {
				defer api.Done()
				for i := 0; ; i++ {
					select {
					case <-stop:
						return
					default:
					}
					c.SetSendTimeout(time.Hour + time.Duration(i))
					c.SetRecvTimeout(time.Hour + time.Duration(i))
					time.Sleep(period / 2)
				}
			}()
		}
		time.Sleep(time.Duration(20+variant) * period)
		close(stop)
		// Close from two goroutines at once, on both ends
		var cl sync.WaitGroup
		for x := 0; x < 2; x++ {
			for k := 0; k < 2; k++ {
				cl.Add(1)
				go func(x int) { defer cl.Done(); _ = conns[x].Close() }(x)
			}
		}
		cl.Wait()
		cancel()
		api.Wait()
		fmt.Println("RACE-SCENARIO done")
	})
}

// raceScenarioMailbox: the mailbox-level objects under concurrent use (real time, child process with -race).
//
//	100: deadline setters of a ClientConn and a ServerConn from several goroutines while data flows
//	101: the TCP noise listener closed from four goroutines at once (1500 listeners: the window is narrow)
//	102: Server.Accept against Server.Close (as grpc.Server.Serve / Stop), closes at staggered moments
func raceScenarioMailbox(t *testing.T, variant int) {
	r := newRng(uint64(variant) + 77)
	switch variant {
	case 100:
		c, s, cleanup, _, err := kitPairRelay(r)
		if err != nil {
			fmt.Println("RACE-SCENARIO handshake failed:", err)
			return
		}
		var wg sync.WaitGroup
		stop := make(chan struct{})
		for _, conn := range []net.Conn{c, s} {
			conn := conn
			for k := 0; k < 3; k++ {
				wg.Add(1)
				go func(k int) {
					defer wg.Done()
					for i := 0; i < 300; i++ {
						select {
						case <-stop:
							return
						default:
						}
						switch k {
						case 0:
							_ = conn.SetReadDeadline(time.Now().Add(time.Hour))
						case 1:
							_ = conn.SetDeadline(time.Time{})
						default:
							_ = conn.SetWriteDeadline(time.Now().Add(time.Hour))
						}
					}
				}(k)
			}
		}
		wg.Add(1)
		go func() {
			defer wg.Done()
			buf := make([]byte, 64)
			for i := 0; i < 5; i++ {
				if _, err := c.Write([]byte("ping")); err != nil {
					return
				}
				if _, err := s.Read(buf); err != nil {
					return
				}
			}
		}()
		wg.Wait()
		close(stop)
		cleanup()
	case 101:
		for i := 0; i < 1500; i++ {
			l, err := mailbox.NewListener(r.bytes(14), keyECDH(privFromRng(r)), "127.0.0.1:0", nil)
			if err != nil {
				fmt.Println("RACE-SCENARIO listen failed:", err)
				return
			}
			var wg sync.WaitGroup
			var start atomic.Bool
			for k := 0; k < 4; k++ {
				wg.Add(1)
				go func() {
					defer wg.Done()
					for !start.Load() { // spin: the closers leave together
					}
					_ = l.Close()
				}()
			}
			runtime.Gosched()
			start.Store(true)
			wg.Wait()
		}
	case 102:
		for i := 0; i < 6; i++ {
			relay := newFakeRelay()
			entropy := r.bytes(14)
			cdS := mailbox.NewConnData(keyECDH(privFromRng(r)), nil, entropy, []byte("macaroon"), nil, nil)
			cdC := mailbox.NewConnData(keyECDH(privFromRng(r)), nil, entropy, nil, nil, nil)
			srv, err := mailbox.VerifNewServer("relay", cdS, relay, func(mailbox.ServerStatus) {})
			if err != nil {
				fmt.Println("RACE-SCENARIO setup failed:", err)
				return
			}
			ctx, cancel := context.WithCancel(context.Background())
			cli, _ := mailbox.VerifNewClient(ctx, "relay", cdC, relay)
			var wg sync.WaitGroup
			wg.Add(2)
			go func() {
				defer wg.Done()
				for {
					c, err := srv.Accept()
					if err != nil {
						return
					}
					_ = srv.Addr()
					_ = c.Close()
				}
			}()
			go func() {
				defer wg.Done()
				if cli != nil && i%2 == 0 {
					if c, err := cli.Dial(ctx, ""); err == nil {
						_ = c.Close()
					}
				}
			}()
			time.Sleep(time.Duration(50+i*70) * time.Millisecond)
			_ = srv.Addr()
			_ = srv.Close()
			cancel()
			wg.Wait()
		}
	}
	fmt.Println("RACE-SCENARIO done")
}

func TestChildRace(t *testing.T) {
	if os.Getenv("VERIF_CHILD") == "" {
		t.Skip("child only")
	}
	if v := int(envInt("VERIF_VARIANT", 0)); v >= 100 {
		raceScenarioMailbox(t, v)
	} else {
		raceScenario(t, v)
	}
}

var raceFrame = regexp.MustCompile(`lightning-node-connect/(?:gbn|mailbox)\.\(?\*?([A-Za-z]+)\)?\.([A-Za-z0-9_]+)`)

func TestGenC18(t *testing.T) {
	o := newOut(t, "c18_impl.txt")
	defer o.close()
	q := newOracle(t, "c18")
	defer q.close()
	bin := os.Getenv("VERIF_RACE_BIN")
	if bin == "" {
		bin = "/verif/build/harness_race.test"
	}
	if _, err := os.Stat(bin); err != nil {
		t.Fatalf("race binary missing: %v", err)
	}
	saved := os.Args[0]
	os.Args[0] = bin
	defer func() { os.Args[0] = saved }()
	n := scale(6, 40)
	type res struct {
		exit int
		out  string
	}
	variants := make([]int, 0, n+3)
	for v := 0; v < n; v++ {
		variants = append(variants, v)
	}
	variants = append(variants, 100, 101, 102) // the mailbox-level objects
	results := make([]res, len(variants))
	var wg sync.WaitGroup
	for i, v := range variants {
		i, v := i, v
		wg.Add(1)
		go func() {
			defer wg.Done()
			e, outp := runChild("TestChildRace", fmt.Sprintf("VERIF_VARIANT=%d", v), "GORACE=halt_on_error=0")
			results[i] = res{e, outp}
		}()
	}
	wg.Wait()
	for i, r := range results {
		v := variants[i]
		races := strings.Count(r.out, "WARNING: DATA RACE")
		q.stat("race_children", 1)
		q.stat("distinct_nontrivial", 1)
		o.line("RACE variant=%d exit=%d races=%d done=%d", v, r.exit, races, b2i(strings.Contains(r.out, "RACE-SCENARIO done")))
		q.checks++
		// classify each report by the gbn functions of its two stacks
		for _, rep := range strings.Split(r.out, "WARNING: DATA RACE")[1:] {
			seen := map[string]bool{}
			var fs []string
			for _, m := range raceFrame.FindAllStringSubmatch(rep, -1) {
				f := m[1] + "." + m[2]
				if !seen[f] && len(fs) < 4 {
					seen[f] = true
					fs = append(fs, f)
				}
			}
			sort.Strings(fs)
			q.fail("c18:data-race:"+strings.Join(fs, ","), fmt.Sprintf("variant %d: race detector report: %s", v, truncate(strings.Join(strings.Fields(rep), " "), 700)))
		}
		for _, p := range []string{"close of closed channel", "send on closed channel", "all goroutines are asleep", "fatal error"} {
			if strings.Contains(r.out, p) {
				q.fail("c18:panic:"+strings.ReplaceAll(p, " ", "-"), fmt.Sprintf("variant %d: %s", v, truncate(lastLines(r.out, 14), 900)))
			}
		}
		if races == 0 && r.exit != 0 && !strings.Contains(r.out, "panic") {
			q.fail("c18:child-failed", fmt.Sprintf("variant %d exit %d: %s", v, r.exit, truncate(lastLines(r.out, 8), 600)))
		}
	}
	q.sample("child process with -race: two endpoints joined by bare channels, per endpoint 2 Send goroutines + Recv + timeout setter, keepalive period = send period, then Close from two goroutines on both ends")
}
