package harness

import (
	"bytes"
	"fmt"
	"github.com/lightningnetwork/lnd/keychain"
	"io"
	"strings"
	"sync"
	"testing"

	"github.com/btcsuite/btcd/btcec/v2"
	"github.com/lightninglabs/lightning-node-connect/mailbox"
)

// ---- handshake transport with a man in the middle and deadlock detection --------

type hsNet struct {
	mu      sync.Mutex
	cond    *sync.Cond
	buf     [2][]byte // buf[x]: bytes readable by party x (0 = initiator, 1 = responder)
	waiting [2]bool
	done    [2]bool
	closed  bool
	sent    [2][][]byte // messages written by party x, as written
	tamper  func(from int, idx int, msg []byte) []byte
}

func newHsNet() *hsNet {
	n := &hsNet{}
	n.cond = sync.NewCond(&n.mu)
	return n
}

type hsEnd struct {
	n *hsNet
	x int
}

func (e *hsEnd) Write(p []byte) (int, error) {
	n := e.n
	n.mu.Lock()
	defer n.mu.Unlock()
	if n.closed {
		return 0, io.ErrClosedPipe
	}
	msg := append([]byte{}, p...)
	idx := len(n.sent[e.x])
	n.sent[e.x] = append(n.sent[e.x], msg)
	out := msg
	if n.tamper != nil {
		out = n.tamper(e.x, idx, append([]byte{}, msg...))
	}
	n.buf[1-e.x] = append(n.buf[1-e.x], out...)
	n.cond.Broadcast()
	return len(p), nil
}

func (e *hsEnd) Read(p []byte) (int, error) {
	n := e.n
	n.mu.Lock()
	defer n.mu.Unlock()
	for len(n.buf[e.x]) == 0 && !n.closed {
		n.waiting[e.x] = true
		o := 1 - e.x
		if n.done[o] || (n.waiting[o] && len(n.buf[o]) == 0) {
			// nobody can make progress any more
			n.closed = true
			n.cond.Broadcast()
			break
		}
		n.cond.Wait()
	}
	n.waiting[e.x] = false
	if len(n.buf[e.x]) == 0 {
		return 0, io.EOF
	}
	k := copy(p, n.buf[e.x])
	n.buf[e.x] = n.buf[e.x][k:]
	return k, nil
}

func (n *hsNet) finish(x int) {
	n.mu.Lock()
	n.done[x] = true
	o := 1 - x
	if n.waiting[o] && len(n.buf[o]) == 0 {
		n.closed = true
	}
	n.cond.Broadcast()
	n.mu.Unlock()
}

// ---- scenarios -------------------------------------------------------------------

type symCfg struct {
	kk                     bool
	minI, maxI, minR, maxR int
	pwI, pwR               []byte
	expI, expR             bool // KK: the stored key of the peer is the true one
	payload                []byte
	tamper                 []string // "v<act>=<ver>" | "f<act>:<byte>:<bit>"
	staleAuth              []byte   // auth payload the initiator's ConnData holds from an earlier handshake
	refuseStatic           bool     // the responder's application refuses the initiator's static key (callback error)
	failAuth               bool     // the initiator's application rejects the auth payload (callback error)
	impostor               bool     // KK: the initiator presents the paired client's PUBLIC key without holding its private key
}

// forgedECDH reports one key pair's public key and computes Diffie-Hellman with another private key: a party that
// knows the paired client's public key (which is no secret) but not its private key.
type forgedECDH struct {
	pub  *btcec.PublicKey
	priv *btcec.PrivateKey
}

func (f *forgedECDH) PubKey() *btcec.PublicKey { return f.pub }
func (f *forgedECDH) ECDH(pub *btcec.PublicKey) ([32]byte, error) {
	return (&keychain.PrivKeyECDH{PrivKey: f.priv}).ECDH(pub)
}

type symObs struct {
	okI, okR     bool
	ctorI, ctorR bool // constructor succeeded
	sent         [2][][]byte
	verI, verR   int
	keysI, keysR [2][32]byte // send, recv
	remI, remR   []byte      // ConnData.RemoteKey after the handshake (set only from version 2 on)
	authI        []byte
	authSet      bool
	sidI, sidR   [64]byte // ConnData.SID() of either side after the handshake
	sidOK        bool
	remRafter    []byte // the responder's stored remote key after the handshake, whatever its outcome
	authRafter   []byte // the responder's own auth payload as its ConnData holds it after the handshake
}

func applyTamper(specs []string) func(from, idx int, msg []byte) []byte {
	return func(from, idx int, msg []byte) []byte {
		// act number: XX: I sends acts 1,3; R sends act 2. KK: I act 1, R act 2.
		act := 2
		if from == 0 {
			act = 1 + 2*idx
		}
		for _, s := range specs {
			var a, v, off, bit int
			if n, _ := fmt.Sscanf(s, "v%d=%d", &a, &v); n == 2 && a == act && len(msg) > 0 {
				msg[0] = byte(v)
			} else if n, _ := fmt.Sscanf(s, "f%d:%d:%d", &a, &off, &bit); n == 3 && a == act && off < len(msg) {
				msg[off] ^= 1 << bit
			}
		}
		return msg
	}
}

func runSym(r *rng, c symCfg, keys [5]*btcec.PrivateKey) symObs {
	var o symObs
	var remI, remR *btcec.PublicKey
	pat := mailbox.XXPattern
	if c.kk {
		pat = mailbox.KKPattern
		remI, remR = keys[1].PubKey(), keys[0].PubKey()
		if !c.expI {
			remI = keys[4].PubKey()
		}
		if !c.expR {
			remR = keys[4].PubKey()
		}
	}
	var localI keychain.SingleKeyECDH = keyECDH(keys[0])
	if c.impostor {
		localI = &forgedECDH{pub: keys[0].PubKey(), priv: keys[4]}
	}
	cdI := mailbox.NewConnData(localI, remI, c.pwI, c.staleAuth, nil, func(d []byte) error {
		o.authSet = true
		if c.failAuth {
			return fmt.Errorf("application rejects the auth data")
		}
		return nil
	})
	var onStatic func(*btcec.PublicKey) error
	if c.refuseStatic {
		onStatic = func(*btcec.PublicKey) error { return fmt.Errorf("application refuses this client key") }
	}
	// the responder's auth payload lives in a slice with spare capacity (as one built with append has): the
	// handshake must not write into the application's data
	stored := make([]byte, len(c.payload), len(c.payload)+64)
	copy(stored, c.payload)
	cdR := mailbox.NewConnData(keyECDH(keys[1]), remR, c.pwR, stored, onStatic, nil)
	fixed := func(k *btcec.PrivateKey) func() (*btcec.PrivateKey, error) {
		return func() (*btcec.PrivateKey, error) { return k, nil }
	}
	mI, errI := mailbox.NewBrontideMachine(&mailbox.BrontideMachineConfig{Initiator: true, HandshakePattern: pat,
		MinHandshakeVersion: byte(c.minI), MaxHandshakeVersion: byte(c.maxI), ConnData: cdI, EphemeralGen: fixed(keys[2])})
	mR, errR := mailbox.NewBrontideMachine(&mailbox.BrontideMachineConfig{Initiator: false, HandshakePattern: pat,
		MinHandshakeVersion: byte(c.minR), MaxHandshakeVersion: byte(c.maxR), ConnData: cdR, EphemeralGen: fixed(keys[3])})
	o.ctorI, o.ctorR = errI == nil, errR == nil
	n := newHsNet()
	n.tamper = applyTamper(c.tamper)
	var wg sync.WaitGroup
	var hI, hR error = fmt.Errorf("not run"), fmt.Errorf("not run")
	both := o.ctorI && o.ctorR // a side that cannot even be constructed never dials
	if both {
		wg.Add(1)
		go func() {
			defer wg.Done()
			hI = mI.DoHandshake(&hsEnd{n, 0})
			n.finish(0)
		}()
	} else {
		n.finish(0)
	}
	if both {
		wg.Add(1)
		go func() {
			defer wg.Done()
			hR = mR.DoHandshake(&hsEnd{n, 1})
			n.finish(1)
		}()
	} else {
		n.finish(1)
	}
	wg.Wait()
	o.okI, o.okR = hI == nil, hR == nil
	o.sent = n.sent
	if o.okI {
		o.verI = int(mI.VerifVersion())
		s, _, rv, _, _, _ := mI.VerifCipherKeys()
		o.keysI = [2][32]byte{s, rv}
		if k := cdI.RemoteKey(); k != nil {
			o.remI = k.SerializeCompressed()
		}
		o.authI = cdI.AuthData()
	}
	if k := cdR.RemoteKey(); k != nil {
		o.remRafter = k.SerializeCompressed()
	}
	if a, err1 := cdI.SID(); err1 == nil {
		if b, err2 := cdR.SID(); err2 == nil {
			o.sidI, o.sidR, o.sidOK = a, b, true
		}
	}
	if o.okR {
		o.verR = int(mR.VerifVersion())
		s, _, rv, _, _, _ := mR.VerifCipherKeys()
		o.keysR = [2][32]byte{s, rv}
		if k := cdR.RemoteKey(); k != nil {
			o.remR = k.SerializeCompressed()
		}
	}
	o.authRafter = append([]byte{}, cdR.AuthData()...)
	return o
}

func hexList(ms [][]byte) string {
	if len(ms) == 0 {
		return "-"
	}
	var p []string
	for _, m := range ms {
		p = append(p, hx(m))
	}
	return strings.Join(p, ",")
}

func TestGenSym(t *testing.T) {
	r := newRng(seed())
	o := newOut(t, "sym_impl.txt")
	defer o.close()
	q := newOracle(t, "sym")
	defer q.close()
	id := 0
	emit := func(c symCfg, class string) symObs {
		id++
		rr := r.sub(id)
		var keys [5]*btcec.PrivateKey
		for i := range keys {
			keys[i] = privFromRng(rr)
		}
		ob := runSym(rr, c, keys)
		var ks []string
		for _, k := range keys {
			ks = append(ks, hx(k.Serialize()))
		}
		tam := "-"
		if len(c.tamper) > 0 {
			tam = strings.Join(c.tamper, ",")
		}
		if !c.refuseStatic && !c.failAuth && !c.impostor { // the symbolic model has no application callbacks / forged key holders: oracles only
			o.line("SYM s%d kk=%d mini=%d maxi=%d minr=%d maxr=%d pwi=%s pwr=%s expi=%d expr=%d payload=%s tamper=%s keys=%s | ctor=%d,%d ok=%d,%d ver=%d,%d sentI=%s sentR=%s keysI=%s,%s keysR=%s,%s remI=%s remR=%s authI=%s authset=%d",
				id, b2i(c.kk), c.minI, c.maxI, c.minR, c.maxR, hx(c.pwI), hx(c.pwR), b2i(c.expI), b2i(c.expR), hx(c.payload), tam, strings.Join(ks, ","),
				b2i(ob.ctorI), b2i(ob.ctorR), b2i(ob.okI), b2i(ob.okR), ob.verI, ob.verR, hexList(ob.sent[0]), hexList(ob.sent[1]),
				hx(ob.keysI[0][:]), hx(ob.keysI[1][:]), hx(ob.keysR[0][:]), hx(ob.keysR[1][:]), hx(ob.remI), hx(ob.remR), hx(ob.authI), b2i(ob.authSet))
		}
		q.stat("scenarios", 1)
		q.stat("class_"+class, 1)
		q.stat("distinct_nontrivial", 1)
		desc := func() string {
			return fmt.Sprintf("scenario s%d class=%s kk=%v versions I[%d,%d] R[%d,%d] payload=%d bytes tamper=%v: initiator ok=%v ver=%d, responder ok=%v ver=%d, responder sent %d message(s)",
				id, class, c.kk, c.minI, c.maxI, c.minR, c.maxR, len(c.payload), c.tamper, ob.okI, ob.verI, ob.okR, ob.verR, len(ob.sent[1]))
		}
		// ---- direct oracles ----
		secretsMatch := bytes.Equal(c.pwI, c.pwR)
		if c.kk {
			secretsMatch = c.expI && c.expR && !c.impostor
		}
		if !secretsMatch {
			// C03: mismatch => responder silent, nobody completes
			q.check(!ob.okI && !ob.okR && len(ob.sent[1]) == 0, "c03:completed-or-responded-without-the-secret:"+class, desc)
		}
		if ob.okI && ob.okR {
			// C04: complementary keys, true statics, auth payload, same version
			q.check(ob.keysI[0] == ob.keysR[1] && ob.keysI[1] == ob.keysR[0], "c04:keys-not-complementary:"+class, desc)
			q.check(bytes.Equal(ob.authI, c.payload) || (len(ob.authI) == 0 && len(c.payload) == 0), "c04:auth-payload-differs:"+class, func() string {
				return desc() + fmt.Sprintf("; initiator holds %d bytes, responder sent %d", len(ob.authI), len(c.payload))
			})
			vk := "c04:version-split:" + class
			if len(c.tamper) > 0 {
				pat := "xx"
				if c.kk {
					pat = "kk"
				}
				vk = fmt.Sprintf("c04:version-split:%s:%s:%s:I=%d,R=%d", class, pat, strings.Join(c.tamper, "+"), ob.verI, ob.verR)
			}
			q.check(ob.verI == ob.verR, vk, desc)
		}
		if len(c.tamper) == 0 && secretsMatch && ob.ctorI && ob.ctorR {
			// untampered: both fail or both complete (XX); KK responder may finish alone
			if !c.kk && !c.refuseStatic && !c.failAuth {
				q.check(ob.okI == ob.okR, "c04:one-sided-completion:"+class, desc)
			}
			// C17: after an untampered handshake between holders of the same secret both sides derive the same
			// session identifier for the next connection (pass phrase before a key exchange, static keys after),
			// also when the initiator's application then rejects the auth data. (A responder whose application
			// refused the client keeps the pass-phrase rendezvous on purpose: excluded.)
			if !c.refuseStatic && ob.sidOK {
				q.check(ob.sidI == ob.sidR, "c17:session-identifiers-differ-after-handshake:"+class, func() string {
					return desc() + fmt.Sprintf("; client SID %x.., server SID %x..", ob.sidI[:6], ob.sidR[:6])
				})
			}
		}
		// C04: the responder still holds the auth payload it was configured with (the next handshake sends it again)
		q.check(bytes.Equal(ob.authRafter, c.payload), "c04:responder-auth-payload-altered:"+class, func() string {
			return desc() + fmt.Sprintf("; the responder's ConnData now holds %x.. (%d bytes), it was configured with %x.. (%d bytes)",
				ob.authRafter[:min(8, len(ob.authRafter))], len(ob.authRafter), c.payload[:min(8, len(c.payload))], len(c.payload))
		})
		if c.refuseStatic {
			// C11: a client the application refused must not move the server to a new rendezvous
			q.check(len(ob.remRafter) == 0, "c11:refused-client-key-stored:"+class, func() string {
				return desc() + fmt.Sprintf("; the server's ConnData holds remote key %x after refusing it, handshake ok=%v", ob.remRafter, ob.okR)
			})
		}
		return ob
	}
	pw := func(rr *rng) []byte { return rr.bytes(14) }

	// (1) all version quadruples, both patterns, honest
	for a := 0; a < 81; a++ {
		v := [4]int{a % 3, a / 3 % 3, a / 9 % 3, a / 27}
		for _, kk := range []bool{false, true} {
			p := pw(r.sub(a))
			emit(symCfg{kk: kk, minI: v[0], maxI: v[1], minR: v[2], maxR: v[3], pwI: p, pwR: p, expI: true, expR: true,
				payload: r.sub(a).bytes(r.pick([]int{0, 1, 60, 498}))}, "versions")
		}
	}
	// (2) pass phrases differing in every single bit; wrong stored keys
	base := pw(r)
	for bit := 0; bit < 112; bit++ {
		if !thorough() && bit%4 != int(seed()%4) {
			continue
		}
		other := append([]byte{}, base...)
		other[bit/8] ^= 1 << (bit % 8)
		emit(symCfg{minI: 0, maxI: 2, minR: 0, maxR: 2, pwI: base, pwR: other, payload: []byte("macaroon-secret")}, "pw-bitflip")
	}
	for i := 0; i < 12; i++ {
		emit(symCfg{kk: true, minI: 2, maxI: 2, minR: 2, maxR: 2, pwI: base, pwR: base, expI: i%3 != 0, expR: i%3 != 1, payload: []byte("macaroon-secret")}, "kk-wrong-key")
		emit(symCfg{minI: 0, maxI: 2, minR: 0, maxR: 2, pwI: pw(r), pwR: pw(r), payload: []byte("macaroon-secret")}, "pw-random")
	}
	// (2b) the initiator's ConnData still holds the auth payload of an earlier handshake; application callbacks that
	// refuse the client's static key (responder) or reject the auth data (initiator)
	for _, ver := range [][4]int{{0, 0, 0, 0}, {1, 1, 1, 1}, {2, 2, 2, 2}, {0, 2, 0, 2}, {0, 2, 0, 1}, {0, 2, 0, 0}, {0, 1, 0, 2}} {
		for _, pl := range [][]byte{nil, []byte("new-macaroon")} {
			emit(symCfg{minI: ver[0], maxI: ver[1], minR: ver[2], maxR: ver[3], pwI: base, pwR: base, expI: true, expR: true,
				payload: pl, staleAuth: []byte("old-macaroon-of-an-earlier-session")}, "stale-auth")
			emit(symCfg{minI: ver[0], maxI: ver[1], minR: ver[2], maxR: ver[3], pwI: base, pwR: base, expI: true, expR: true,
				payload: pl, refuseStatic: true}, "refused-client")
			emit(symCfg{minI: ver[0], maxI: ver[1], minR: ver[2], maxR: ver[3], pwI: base, pwR: base, expI: true, expR: true,
				payload: pl, failAuth: true}, "auth-rejected")
		}
	}
	emit(symCfg{kk: true, minI: 2, maxI: 2, minR: 2, maxR: 2, pwI: base, pwR: base, expI: true, expR: true, staleAuth: []byte("old")}, "stale-auth")
	// the key-based pattern against a party that presents the paired client's public key but does not hold the
	// private key: the responder must stay silent (the static-static DH of act one is the proof of possession)
	for i := 0; i < 4; i++ {
		emit(symCfg{kk: true, minI: 2, maxI: 2, minR: 2, maxR: 2, pwI: base, pwR: base, expI: true, expR: true,
			payload: []byte("macaroon-secret"), impostor: true}, "kk-impostor")
	}
	// (2c) pass phrases of other lengths than the 14 bytes of a pairing phrase (the API takes any byte string):
	// differing only in the tail, or only by a trailing zero byte
	for _, L := range []int{10, 15, 32} {
		long := r.sub(4400 + L).bytes(L)
		tail := append([]byte{}, long...)
		tail[L-1] ^= 0x40
		emit(symCfg{minI: 0, maxI: 2, minR: 0, maxR: 2, pwI: long, pwR: tail, payload: []byte("macaroon-secret")}, "pw-tail")
		emit(symCfg{minI: 0, maxI: 2, minR: 0, maxR: 2, pwI: long, pwR: append(append([]byte{}, long...), 0), payload: []byte("macaroon-secret")}, "pw-tail")
		emit(symCfg{minI: 0, maxI: 2, minR: 0, maxR: 2, pwI: append(append([]byte{}, long...), 0), pwR: long, payload: []byte("macaroon-secret")}, "pw-tail")
		emit(symCfg{minI: 0, maxI: 2, minR: 0, maxR: 2, pwI: long, pwR: long, expI: true, expR: true, payload: []byte("macaroon-secret")}, "pw-length")
	}
	// (3) payload sizes incl. the version-0 limit and large ones
	sizes := []int{0, 1, 497, 498, 499, 600, 65535, 65536, 70000}
	if thorough() {
		sizes = append(sizes, 1<<20, 4<<20)
	}
	for _, sz := range sizes {
		for _, ver := range []int{0, 1, 2} {
			emit(symCfg{minI: ver, maxI: ver, minR: ver, maxR: ver, pwI: base, pwR: base, payload: r.bytes(sz)}, fmt.Sprintf("payload-v%d", ver))
		}
	}
	// (corpus) the known finding C04/version-byte-unauthenticated, deterministically
	emit(symCfg{minI: 0, maxI: 2, minR: 0, maxR: 2, pwI: base, pwR: base, expI: true, expR: true,
		payload: []byte("auth-payload"), tamper: []string{"v2=1", "v3=2"}}, "version-bytes")
	emit(symCfg{minI: 0, maxI: 2, minR: 0, maxR: 1, pwI: base, pwR: base, expI: true, expR: true,
		payload: []byte("auth-payload"), tamper: []string{"v2=2", "v3=1"}}, "version-bytes")
	// (4) version-byte substitutions, all combinations over the acts
	for _, kk := range []bool{false, true} {
		nacts := 3
		if kk {
			nacts = 2
		}
		combos := 1
		for i := 0; i < nacts; i++ {
			combos *= 5 // keep, 0, 1, 2, 3
		}
		for _, rng3 := range [][4]int{{0, 2, 0, 2}, {0, 2, 0, 1}, {1, 2, 0, 2}, {0, 1, 0, 2}, {2, 2, 2, 2}} {
			for cidx := 0; cidx < combos; cidx++ {
				if !thorough() && cidx%2 != int(seed()%2) && cidx != 0 {
					continue
				}
				var tam []string
				x := cidx
				for act := 1; act <= nacts; act++ {
					if ch := x % 5; ch > 0 {
						tam = append(tam, fmt.Sprintf("v%d=%d", act, ch-1))
					}
					x /= 5
				}
				if len(tam) == 0 {
					continue
				}
				emit(symCfg{kk: kk, minI: rng3[0], maxI: rng3[1], minR: rng3[2], maxR: rng3[3], pwI: base, pwR: base, expI: true, expR: true,
					payload: []byte("auth-payload"), tamper: tam}, "version-bytes")
			}
		}
	}
	// (5) single-bit flips of every byte of every act (one configuration per pattern / version)
	for _, kk := range []bool{false, true} {
		for _, ver := range []int{0, 1, 2} {
			if kk && ver < 2 {
				continue
			}
			probe := emit(symCfg{kk: kk, minI: ver, maxI: ver, minR: ver, maxR: ver, pwI: base, pwR: base, expI: true, expR: true, payload: []byte("xy")}, "bitflip-base")
			lens := map[int]int{}
			for i, m := range probe.sent[0] {
				lens[1+2*i] = len(m)
			}
			for _, m := range probe.sent[1] {
				lens[2] = len(m)
			}
			for act, l := range lens {
				for off := 0; off < l; off++ {
					if !thorough() && off%6 != int(seed()%6) && off > 2 {
						continue
					}
					emit(symCfg{kk: kk, minI: ver, maxI: ver, minR: ver, maxR: ver, pwI: base, pwR: base, expI: true, expR: true, payload: []byte("xy"),
						tamper: []string{fmt.Sprintf("f%d:%d:%d", act, off, r.intn(8))}}, "bitflip")
				}
			}
		}
	}
	q.sample("classes: all 81 version quadruples x {XX,KK}; pass phrases differing in each single bit; wrong stored keys; payload sizes 0..70000 (4 MiB thorough) per version; all version-byte substitutions; single-bit flips of every handshake byte")
}
