package harness

import (
	"context"
	"fmt"
	"net/http"
	"net/http/httptest"
	"strings"
	"time"

	"github.com/coder/websocket"
	"github.com/grpc-ecosystem/grpc-gateway/v2/runtime"
	"github.com/lightninglabs/lightning-node-connect/hashmailrpc"
	"google.golang.org/protobuf/encoding/protojson"
)

// The WebSocket face of the fake relay: the two REST/WebSocket endpoints a browser (WASM) client talks to, over the
// same mailboxes as the gRPC face. The hashmail proxy delivers every message as a JSON text frame
// {"result": <CipherBox>} with base64 bytes; the client names the stream in its first frame.

var wsMarshaler = &runtime.JSONPb{
	MarshalOptions: protojson.MarshalOptions{UseProtoNames: true, EmitUnpopulated: true},
}

func (r *fakeRelay) box(id string, create bool) *relayBox {
	r.mu.Lock()
	defer r.mu.Unlock()
	b, ok := r.boxes[id]
	if !ok && create {
		b = &relayBox{ch: make(chan []byte, 100000)}
		r.boxes[id] = b
	}
	return b
}

func (r *fakeRelay) wsReceive(w http.ResponseWriter, req *http.Request) {
	r.mu.Lock()
	d := r.wsRecvDelay
	r.wsRecvDelay = 0 // only the first receive dial is slow
	r.mu.Unlock()
	if d > 0 {
		time.Sleep(d)
	}
	c, err := websocket.Accept(w, req, nil)
	if err != nil {
		return
	}
	defer func() { _ = c.CloseNow() }()
	r.mu.Lock()
	r.wsRecvDials++
	r.mu.Unlock()
	ctx := req.Context()
	_, init, err := c.Read(ctx)
	if err != nil {
		return
	}
	desc := &hashmailrpc.CipherBoxDesc{}
	if err := wsMarshaler.Unmarshal(init, desc); err != nil {
		return
	}
	box := r.box(string(desc.StreamId), false)
	if box == nil {
		_ = c.Write(ctx, websocket.MessageText, []byte(`{"error":{"code":5,"message":"stream not found"}}`))
		return
	}
	ctx = c.CloseRead(ctx)
	for {
		select {
		case <-ctx.Done():
			return
		case msg := <-box.ch:
			b, err := wsMarshaler.Marshal(&hashmailrpc.CipherBox{Desc: desc, Msg: msg})
			if err != nil {
				return
			}
			if err := c.Write(ctx, websocket.MessageText, []byte(fmt.Sprintf("{\"result\":%s}", b))); err != nil {
				// the frame is lost with the socket, as with a real proxy
				return
			}
		}
	}
}

func (r *fakeRelay) wsSend(w http.ResponseWriter, req *http.Request) {
	c, err := websocket.Accept(w, req, nil)
	if err != nil {
		return
	}
	defer func() { _ = c.CloseNow() }()
	r.mu.Lock()
	r.wsSendDials++
	r.wsSendOpen++
	r.mu.Unlock()
	defer func() { r.mu.Lock(); r.wsSendOpen--; r.mu.Unlock() }()
	c.SetReadLimit(-1)
	for {
		_, b, err := c.Read(req.Context())
		if err != nil {
			return
		}
		cb := &hashmailrpc.CipherBox{}
		if err := wsMarshaler.Unmarshal(b, cb); err != nil || cb.Desc == nil {
			return
		}
		id := string(cb.Desc.StreamId)
		box := r.box(id, false)
		if box == nil {
			return
		}
		r.mu.Lock()
		r.counts[id]++
		r.seen = append(r.seen, relaySeen{id, append([]byte{}, cb.Msg...)})
		r.mu.Unlock()
		box.ch <- append([]byte{}, cb.Msg...)
	}
}

// serveWS starts an HTTP server with the two WebSocket endpoints; host is what a client is given as server address
// (with mailbox.VerifSetAddrFormat("ws://%s%s?method=POST")).
func (r *fakeRelay) serveWS() (host string, stop func()) {
	mux := http.NewServeMux()
	mux.HandleFunc("/v1/lightning-node-connect/hashmail/receive", r.wsReceive)
	mux.HandleFunc("/v1/lightning-node-connect/hashmail/send", r.wsSend)
	srv := httptest.NewServer(mux)
	return strings.TrimPrefix(srv.URL, "http://"), srv.Close
}

var _ = context.Background
