package harness

import (
	"bytes"
	"context"
	"fmt"
	"os"
	"path/filepath"
	"runtime"
	"strings"
	"sync"
	"sync/atomic"
	"testing"
	"testing/synctest"
	"time"

	"github.com/lightninglabs/lightning-node-connect/gbn"
)

// A pair of real GoBackNConn endpoints inside a synctest bubble, joined by two
// FIFO channels that the driver controls packet by packet (deliver, deliver
// and keep = in-order duplicate, drop, not-yet = delay). Every observable is
// written to one totally ordered event log with virtual timestamps:
//
//   T <ns>                  virtual time changed
//   SC x <hex> | SR x ok|err:<enum>          Send call / return
//   RC x       | RR x ok <hex> | RR x err:<enum>   Recv call / return
//   TX x <hex>              endpoint x handed these bytes to its send callback
//   CH x deliver|keep|drop  driver decision on the head of the channel x -> peer
//   RX x <hex>              recv callback of x returned these bytes
//   CL x | CR x             Close call / return
//   HS x ok|err             constructor (handshake) of side x returned
//   SNAP x n s base top recv   verif snapshot at a quiescent point
//
// sides: 0 = client, 1 = server.

type evlog struct {
	mu    sync.Mutex
	o     *out
	start time.Time
	last  int64
	n     int
	keep  []string // events of the current scenario (for oracles / replay)
}

func (l *evlog) ev(format string, a ...interface{}) {
	lastEvlog.Store(l)
	l.mu.Lock()
	defer l.mu.Unlock()
	now := int64(time.Since(l.start))
	if now != l.last {
		l.last = now
		l.o.line("T %d", now)
	}
	s := fmt.Sprintf(format, a...)
	l.o.line("%s", s)
	l.n++
	if len(l.keep) < 4000 {
		l.keep = append(l.keep, s)
	}
}

type simCfg struct {
	id        string
	n         uint8
	chunk     int
	static    time.Duration // 0 = adaptive
	ping      time.Duration
	pong      time.Duration
	hsTO      time.Duration
	mult      int
	boost     float32
	srvChunk  int
	freq      int  // timeout update frequency (0 = default)
	srvNoPing bool // keepalive on the client only
}

type sim struct {
	t      *testing.T
	cfg    simCfg
	l      *evlog
	mu     sync.Mutex
	ch     [2][][]byte    // ch[x]: packets in flight from x to its peer
	chT    [2][]time.Time // transmission instants of those packets
	inb    [2]chan []byte // inbox of side x (capacity 1)
	conn   [2]*gbn.GoBackNConn
	hsErr  [2]error
	hsDone [2]chan struct{}
	ctx    context.Context
	cancel func()

	sendBusy  [2]bool
	recvBusy  [2]bool
	closed    [2]bool
	sentMsgs  [2][][]byte // messages for which Send was called on side x
	sendOK    [2][]bool
	recvMsgs  [2][][]byte // messages returned by Recv on side x (copied at return time)
	recvRaw   [2][][]byte // the very slices Recv returned, kept to see whether the library writes to them later
	txCount   [2]int
	wg        sync.WaitGroup
	blockTx   [2]bool // the transport's send blocks until its context ends (under mu)
	closeRet  [2]bool // Close returned on side x (under mu)
	closeRetN [2]int
	rxCalls   [2]atomic.Int64 // calls of side x's receive callback
}

func errEnum(err error) string {
	if err == nil {
		return "ok"
	}
	s := err.Error()
	switch {
	case strings.Contains(s, "send timeout"):
		return "err:send-timeout"
	case strings.Contains(s, "receive timeout"):
		return "err:recv-timeout"
	case strings.Contains(s, "EOF"):
		return "err:eof"
	case strings.Contains(s, "exited"):
		return "err:exited"
	case strings.Contains(s, "context"):
		return "err:ctx"
	}
	return "err:other"
}

func (s *sim) sendFunc(x int) func(ctx context.Context, b []byte) error {
	return func(ctx context.Context, b []byte) error {
		if ctx.Err() != nil {
			return ctx.Err()
		}
		c := append([]byte{}, b...)
		s.mu.Lock()
		if s.blockTx[x] {
			s.mu.Unlock()
			<-ctx.Done()
			return ctx.Err()
		}
		s.ch[x] = append(s.ch[x], c)
		s.chT[x] = append(s.chT[x], time.Now())
		s.txCount[x]++
		s.mu.Unlock()
		s.l.ev("TX %d %s", x, hx(c))
		return nil
	}
}

func (s *sim) recvFunc(x int) func(ctx context.Context) ([]byte, error) {
	return func(ctx context.Context) ([]byte, error) {
		s.rxCalls[x].Add(1)
		select {
		case b := <-s.inb[x]:
			s.l.ev("RX %d %s", x, hx(b))
			return b, nil
		case <-ctx.Done():
			return nil, ctx.Err()
		}
	}
}

func (s *sim) timeoutOpts(side ...int) []gbn.TimeoutOptions {
	var o []gbn.TimeoutOptions
	if s.cfg.static > 0 {
		o = append(o, gbn.WithStaticResendTimeout(s.cfg.static))
	}
	if s.cfg.mult > 0 {
		o = append(o, gbn.WithResendMultiplier(s.cfg.mult))
	}
	if s.cfg.hsTO > 0 {
		o = append(o, gbn.WithHandshakeTimeout(s.cfg.hsTO))
	}
	if s.cfg.ping > 0 && !(s.cfg.srvNoPing && len(side) > 0 && side[0] == 1) {
		o = append(o, gbn.WithKeepalivePing(s.cfg.ping, s.cfg.pong))
	}
	if s.cfg.boost > 0 {
		o = append(o, gbn.WithBoostPercent(s.cfg.boost))
	}
	if s.cfg.freq > 0 {
		o = append(o, gbn.WithTimeoutUpdateFrequency(s.cfg.freq))
	}
	return o
}

func newSim(t *testing.T, l *evlog, cfg simCfg) *sim {
	s := &sim{t: t, cfg: cfg, l: l}
	s.inb[0] = make(chan []byte, 1)
	s.inb[1] = make(chan []byte, 1)
	s.hsDone[0] = make(chan struct{})
	s.hsDone[1] = make(chan struct{})
	s.ctx, s.cancel = context.WithCancel(context.Background())
	return s
}

// startEndpoints launches both constructors (they block in the handshake).
func (s *sim) startEndpoints(which ...int) {
	if len(which) == 0 {
		which = []int{1, 0}
	}
	for _, x := range which {
		x := x
		go func() {
			var c *gbn.GoBackNConn
			var err error
			opts := []gbn.Option{gbn.WithTimeoutOptions(s.timeoutOpts(x)...)}
			if x == 0 {
				if s.cfg.chunk > 0 {
					opts = append(opts, gbn.WithMaxSendSize(s.cfg.chunk))
				}
				c, err = gbn.NewClientConn(s.ctx, s.cfg.n, s.sendFunc(0), s.recvFunc(0), opts...)
			} else {
				ch := s.cfg.chunk
				if s.cfg.srvChunk != 0 {
					ch = s.cfg.srvChunk
				}
				if ch > 0 {
					opts = append(opts, gbn.WithMaxSendSize(ch))
				}
				c, err = gbn.NewServerConn(s.ctx, s.sendFunc(1), s.recvFunc(1), opts...)
			}
			s.mu.Lock()
			s.conn[x], s.hsErr[x] = c, err
			s.mu.Unlock()
			s.l.ev("HS %d %s", x, errEnum(err))
			close(s.hsDone[x])
		}()
	}
}

func (s *sim) hsReturned(x int) bool {
	select {
	case <-s.hsDone[x]:
		return true
	default:
		return false
	}
}

func (s *sim) chanLen(x int) int {
	s.mu.Lock()
	defer s.mu.Unlock()
	return len(s.ch[x])
}

// canOp: there is a packet at the head of channel x and the peer's inbox is free.
func (s *sim) canOp(x int) bool {
	return s.chanLen(x) > 0 && len(s.inb[1-x]) == 0
}

// op applies one channel decision to the head of channel x -> peer.
func (s *sim) op(x int, what string) {
	s.mu.Lock()
	if len(s.ch[x]) == 0 {
		s.mu.Unlock()
		return
	}
	head := s.ch[x][0]
	if what != "keep" {
		s.ch[x] = s.ch[x][1:]
		s.chT[x] = s.chT[x][1:]
	}
	s.mu.Unlock()
	s.l.ev("CH %d %s", x, what)
	if what != "drop" {
		s.inb[1-x] <- append([]byte{}, head...)
	}
	synctest.Wait()
}

// opNoWait is op for callers that are themselves one of the connection's goroutines (no synctest.Wait)
func (s *sim) opNoWait(x int, what string) {
	s.mu.Lock()
	if len(s.ch[x]) == 0 {
		s.mu.Unlock()
		return
	}
	head := s.ch[x][0]
	s.ch[x] = s.ch[x][1:]
	s.chT[x] = s.chT[x][1:]
	s.mu.Unlock()
	s.l.ev("CH %d %s", x, what)
	s.inb[1-x] <- append([]byte{}, head...)
}

func (s *sim) txTotal() int {
	s.mu.Lock()
	defer s.mu.Unlock()
	return s.txCount[0] + s.txCount[1]
}

// headAge: how long the packet at the head of channel x has been in flight.
func (s *sim) headAge(x int) time.Duration {
	s.mu.Lock()
	defer s.mu.Unlock()
	if len(s.chT[x]) == 0 {
		return -1
	}
	return time.Since(s.chT[x][0])
}

// injectRaw puts arbitrary bytes at the tail of channel x -> peer (stale / hostile packets).
func (s *sim) injectRaw(x int, b []byte) {
	s.mu.Lock()
	s.ch[x] = append(s.ch[x], append([]byte{}, b...))
	s.chT[x] = append(s.chT[x], time.Now())
	s.mu.Unlock()
	s.l.ev("INJ %d %s", x, hx(b))
}

func (s *sim) advance(d time.Duration) {
	time.Sleep(d)
	synctest.Wait()
}

// cleanHandshake delivers everything until both constructors returned.
func (s *sim) cleanHandshake() bool {
	s.startEndpoints()
	synctest.Wait()
	for i := 0; i < 200; i++ {
		if s.hsReturned(0) && s.hsReturned(1) {
			return s.hsErr[0] == nil && s.hsErr[1] == nil
		}
		moved := false
		for x := 0; x < 2; x++ {
			if s.canOp(x) {
				s.op(x, "deliver")
				moved = true
			}
		}
		if !moved {
			s.advance(100 * time.Millisecond)
		}
	}
	return false
}

// scriptedHandshake applies pat[x][i] to the i-th packet of direction x ("deliver", "keep", "drop") and delivers
// the rest. When the client has completed alone (its SYNACK was lost and the server restarted its handshake) the
// client's first message `poke` is sent: DATA completes a restarted server handshake. Reports whether poke was used.
func (s *sim) scriptedHandshake(pat [2][]string, poke []byte) (ok, poked bool) {
	s.startEndpoints()
	synctest.Wait()
	idx := [2]int{}
	for it := 0; it < 600 && !(s.hsReturned(0) && s.hsReturned(1)); it++ {
		moved := false
		for x := 0; x < 2; x++ {
			if s.canOp(x) {
				what := "deliver"
				if idx[x] < len(pat[x]) {
					what = pat[x][idx[x]]
				}
				idx[x]++
				s.op(x, what)
				moved = true
			}
		}
		if s.hsReturned(0) && !s.hsReturned(1) && !poked && s.hsErr[0] == nil && poke != nil && !moved {
			// nothing in flight any more and the server still waits: let its SYNACK timeout pass (it restarts and
			// waits for a SYN; DATA arriving before that would abort it), then send data
			s.advance(s.cfg.hsTO + 300*time.Millisecond)
			poked = true
			s.send(0, poke)
		}
		if !moved {
			s.advance(250 * time.Millisecond)
		}
	}
	return s.hsReturned(0) && s.hsReturned(1) && s.hsErr[0] == nil && s.hsErr[1] == nil, poked
}

func (s *sim) send(x int, msg []byte) {
	s.sendBusy[x] = true
	idx := len(s.sentMsgs[x])
	s.sentMsgs[x] = append(s.sentMsgs[x], msg)
	s.sendOK[x] = append(s.sendOK[x], false)
	s.l.ev("SC %d %s", x, hx(msg))
	s.wg.Add(1)
	go func() {
		defer s.wg.Done()
		// the caller's buffer: handed to Send and reused by the caller as soon as Send has returned (what an
		// application that sends from one scratch buffer does); the harness keeps its own copy in sentMsgs
		buf := append([]byte{}, msg...)
		err := s.conn[x].Send(buf)
		for i := range buf {
			buf[i] = 0xEE
		}
		s.mu.Lock()
		s.sendBusy[x] = false
		s.sendOK[x][idx] = err == nil
		s.mu.Unlock()
		s.l.ev("SR %d %s", x, errEnum(err))
	}()
	synctest.Wait()
}

func (s *sim) recv(x int) {
	s.recvBusy[x] = true
	s.l.ev("RC %d", x)
	s.wg.Add(1)
	go func() {
		defer s.wg.Done()
		b, err := s.conn[x].Recv()
		s.mu.Lock()
		s.recvBusy[x] = false
		if err == nil {
			s.recvMsgs[x] = append(s.recvMsgs[x], append([]byte{}, b...))
			s.recvRaw[x] = append(s.recvRaw[x], b)
		}
		s.mu.Unlock()
		if err != nil {
			s.l.ev("RR %d %s", x, errEnum(err))
		} else {
			s.l.ev("RR %d ok %s", x, hx(b))
		}
	}()
	synctest.Wait()
}

// overwritten returns the index of the first message on side x whose returned slice no longer holds
// what it held when Recv returned it (-1 if none).
func (s *sim) overwritten(x int) int {
	s.mu.Lock()
	defer s.mu.Unlock()
	for i := range s.recvRaw[x] {
		if i < len(s.recvMsgs[x]) && !bytes.Equal(s.recvRaw[x][i], s.recvMsgs[x][i]) {
			return i
		}
	}
	return -1
}

func (s *sim) busy(x int) (bool, bool) {
	s.mu.Lock()
	defer s.mu.Unlock()
	return s.sendBusy[x], s.recvBusy[x]
}

func (s *sim) snapshot(x int) {
	if s.conn[x] == nil {
		return
	}
	n, ss, base, top, recv := s.conn[x].VerifSnapshot()
	s.l.ev("SNAP %d %d %d %d %d %d", x, n, ss, base, top, recv)
}

func (s *sim) closeReturned(x int) bool {
	s.mu.Lock()
	defer s.mu.Unlock()
	return s.closeRet[x]
}

func (s *sim) setBlockTx(v bool) {
	s.mu.Lock()
	s.blockTx[0], s.blockTx[1] = v, v
	s.mu.Unlock()
}

func (s *sim) closeSide(x int) {
	if s.conn[x] == nil || s.closed[x] {
		return
	}
	s.closed[x] = true
	s.l.ev("CL %d", x)
	s.wg.Add(1)
	go func() {
		defer s.wg.Done()
		_ = s.conn[x].Close()
		s.mu.Lock()
		s.closeRet[x] = true
		s.mu.Unlock()
		s.l.ev("CR %d", x)
	}()
	synctest.Wait()
}

// finish closes both ends, drains the FIN exchange, and reports goroutines the
// connections left behind. Returns the names of leaked roles.
func (s *sim) finish(baseGoroutines int) []string {
	s.l.ev("TEARDOWN")
	for x := 0; x < 2; x++ {
		s.closeSide(x)
		// let FINs through
		for i := 0; i < 4; i++ {
			for y := 0; y < 2; y++ {
				if s.canOp(y) {
					s.op(y, "deliver")
				}
			}
		}
	}
	s.cancel()
	synctest.Wait()
	s.advance(2 * time.Second)
	// drain inboxes nobody will read
	for x := 0; x < 2; x++ {
		select {
		case <-s.inb[x]:
		default:
		}
	}
	s.wg.Wait()
	synctest.Wait()
	var leaked []string
	if runtime.NumGoroutine() > baseGoroutines {
		buf := make([]byte, 1<<20)
		buf = buf[:runtime.Stack(buf, true)]
		for _, g := range strings.Split(string(buf), "\n\n") {
			switch {
			case strings.Contains(g, "IntervalAwareForceTicker"):
				leaked = append(leaked, "IntervalAwareForceTicker")
			case strings.Contains(g, "lightning-node-connect/gbn"):
				first := strings.SplitN(g, "\n", 3)
				name := "gbn-goroutine"
				if len(first) > 1 {
					name = strings.TrimSpace(first[1])
				}
				leaked = append(leaked, name)
			}
		}
		for x := 0; x < 2; x++ {
			if s.conn[x] != nil {
				s.conn[x].VerifStopPongTicker()
			}
		}
		synctest.Wait()
	}
	return leaked
}

// bubble runs one scenario in its own synctest bubble; a panic inside the
// bubble (including the runtime's "blocked goroutines remain") is returned.
// stuckLimit is the real time one bubble may take. Scenarios take milliseconds; a bubble whose
// clock cannot advance (some goroutine waits for a mutex another one holds while blocked forever)
// never finishes, and the watchdog turns that into a reported failure instead of a 25 minute hang.
const stuckLimit = 75 * time.Second

var lastEvlog atomic.Pointer[evlog]

func stuckWatchdog(done chan struct{}) {
	select {
	case <-done:
		return
	case <-time.After(stuckLimit):
	}
	buf := make([]byte, 4<<20)
	buf = buf[:runtime.Stack(buf, true)]
	var gs []string
	for _, g := range strings.Split(string(buf), "\n\n") {
		if !strings.Contains(g, "lightning-node-connect/") {
			continue
		}
		lines := strings.Split(g, "\n")
		fn := ""
		for _, ln := range lines[1:] {
			if strings.Contains(ln, "lightning-node-connect/") && !strings.HasPrefix(ln, "\t") {
				fn = strings.TrimSpace(ln)
				if i := strings.LastIndex(fn, "("); i > 0 {
					fn = fn[:i]
				}
				fn = fn[strings.LastIndex(fn, "/")+1:]
				break
			}
		}
		st := lines[0]
		if i := strings.Index(st, "["); i >= 0 {
			st = st[i:]
		}
		gs = append(gs, fn+" "+st)
	}
	evs := ""
	if l := lastEvlog.Load(); l != nil {
		l.mu.Lock()
		evs = fmt.Sprint(lastN(l.keep, 40))
		l.mu.Unlock()
	}
	name := "?"
	if q := curOracle.Load(); q != nil {
		name = q.name
	}
	f, err := os.Create(filepath.Join(outDir(), "stuck_"+name+"_oracle.txt"))
	if err == nil {
		fmt.Fprintf(f, "FAIL\tstuck:%s\tscenario made no progress for %v of real time (a call or goroutine of the connection is blocked forever and the virtual clock cannot advance); library goroutines: %s; last events %s\n",
			name, stuckLimit, strings.Join(gs, " | "), evs)
		f.Close()
	}
	os.Stderr.Write(buf)
	os.Exit(7)
}

func bubble(t *testing.T, f func(t *testing.T)) (panicked string) {
	done := make(chan struct{})
	go stuckWatchdog(done) // started outside the bubble: real time
	defer close(done)
	defer func() {
		if r := recover(); r != nil {
			panicked = fmt.Sprint(r)
		}
	}()
	synctest.Test(t, f)
	return ""
}
