package harness

import (
	"bytes"
	"crypto/hmac"
	"crypto/sha256"
	"crypto/sha512"
	"fmt"
	"testing"

	"github.com/lightninglabs/lightning-node-connect/mailbox"
	"github.com/lightningnetwork/lnd/aezeed"
)

// C17: pairing phrase codec (against Model/Pairing.v), word list consistency,
// session identifiers on both sides, GetSID (against the go2coq translation).
func TestGenC17(t *testing.T) {
	r := newRng(seed())
	o := newOut(t, "c17_impl.txt")
	defer o.close()
	q := newOracle(t, "c17")
	defer q.close()

	index := map[string]int{}
	for i, w := range aezeed.DefaultWordList {
		index[w] = i
	}
	// the reverse word map the code uses agrees with the list, for all 2048 words
	bad := 0
	for i, w := range aezeed.DefaultWordList {
		if aezeed.ReverseWordMap[w] != i {
			bad++
		}
	}
	q.check(bad == 0 && len(aezeed.DefaultWordList) == 2048 && len(index) == 2048, "c17:word-list-inconsistent", func() string {
		return fmt.Sprintf("%d words map back to a different index; %d words, %d distinct", bad, len(aezeed.DefaultWordList), len(index))
	})
	q.stat("word_list_entries_checked", 2048)

	e2w := func(e [14]byte) {
		ws, err := mailbox.PassphraseEntropyToMnemonic(e)
		if err != nil {
			q.fail("c17:entropy-to-mnemonic-error", err.Error())
			return
		}
		var idx []int
		for _, w := range ws {
			idx = append(idx, index[w])
		}
		o.line("E2W %s %s", hx(e[:]), intsString(idx))
		back := mailbox.PassphraseMnemonicToEntropy(ws)
		want := e
		want[13] &^= 3
		q.check(back == want, "c17:phrase-does-not-return-entropy", func() string {
			return fmt.Sprintf("entropy %x -> words %v -> entropy %x (expected %x)", e, idx, back, want)
		})
		o.line("W2E %s %s", intsString(idx), hx(back[:]))
		q.stat("distinct_nontrivial", 1)
	}
	// all single-bit entropies and their complements
	for bit := 0; bit < 112; bit++ {
		var e, c [14]byte
		e[bit/8] = 1 << (7 - bit%8)
		for i := range c {
			c[i] = ^e[i]
		}
		e2w(e)
		e2w(c)
	}
	for i := 0; i < scale(300, 20000); i++ {
		var e [14]byte
		copy(e[:], r.bytes(14))
		e2w(e)
	}
	// every word index in every position
	for pos := 0; pos < 10; pos++ {
		for wi := 0; wi < 2048; wi++ {
			if !thorough() && wi%8 != int(seed()%8) && wi > 3 && wi < 2044 {
				continue
			}
			var ws [10]string
			var idx []int
			for k := range ws {
				j := (wi*7 + k*131) % 2048
				if k == pos {
					j = wi
				}
				ws[k] = aezeed.DefaultWordList[j]
				idx = append(idx, j)
			}
			e := mailbox.PassphraseMnemonicToEntropy(ws)
			o.line("W2E %s %s", intsString(idx), hx(e[:]))
			back, _ := mailbox.PassphraseEntropyToMnemonic(e)
			q.check(back == ws, "c17:entropy-does-not-return-phrase", func() string {
				return fmt.Sprintf("words %v -> entropy %x -> different words", idx, e)
			})
			q.stat("distinct_nontrivial", 1)
		}
	}
	// session identifiers
	for i := 0; i < scale(40, 400); i++ {
		rr := r.sub(i)
		a, b := privFromRng(rr), privFromRng(rr)
		ent := rr.bytes(14)
		// before pairing: both derive sha512(entropy)
		ca := mailbox.NewConnData(keyECDH(a), nil, ent, nil, nil, nil)
		cb := mailbox.NewConnData(keyECDH(b), nil, ent, nil, nil, nil)
		sa, _ := ca.SID()
		sb, _ := cb.SID()
		want := sha512.Sum512(ent)
		q.check(sa == sb && sa == want, "c17:passphrase-sid", func() string { return fmt.Sprintf("%x vs %x", sa[:4], sb[:4]) })
		// after pairing: each side holds the other's key
		pa := mailbox.NewConnData(keyECDH(a), b.PubKey(), ent, nil, nil, nil)
		pb := mailbox.NewConnData(keyECDH(b), a.PubKey(), ent, nil, nil, nil)
		ka, _ := pa.SID()
		kb, _ := pb.SID()
		mac := hmac.New(sha256.New, ecdhHash(a, b.PubKey()))
		mac.Write([]byte("mailbox"))
		wantK := sha512.Sum512(mac.Sum(nil))
		q.check(ka == kb && ka == wantK && ka != sa, "c17:key-sid", func() string {
			return fmt.Sprintf("client %x server %x expected %x passphrase-sid %x", ka[:4], kb[:4], wantK[:4], sa[:4])
		})
		// a different secret gives a different identifier
		ent2 := append([]byte{}, ent...)
		ent2[rr.intn(14)] ^= 1 << rr.intn(8)
		c2 := mailbox.NewConnData(keyECDH(a), nil, ent2, nil, nil, nil)
		s2, _ := c2.SID()
		q.check(s2 != sa, "c17:distinct-secrets-same-sid", func() string { return "collision" })
		// GetSID against the translated model
		for _, s2c := range []bool{true, false} {
			g := mailbox.GetSID(ka, s2c)
			o.line("SID %s %d %s", hx(ka[:]), b2i(s2c), hx(g[:]))
		}
		cs, cr := mailbox.GetSID(ka, false), mailbox.GetSID(ka, true) // client send / receive
		ss, sr := mailbox.GetSID(ka, true), mailbox.GetSID(ka, false) // server send / receive
		q.check(cs == sr && cr == ss && cs != cr && bytes.Equal(cs[:63], cr[:63]) && cs[63]^cr[63] == 1, "c17:directions", func() string { return "GetSID pairing" })
		q.stat("sid_cases", 1)
	}
	q.sample("entropy <-> 10 word indices for all single-bit entropies, complements, random; every index in every position; SIDs before/after pairing on both sides")
}
