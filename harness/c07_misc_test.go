package harness

import (
	"bytes"
	"fmt"
	"io"
	"testing"
	"time"

	"github.com/lightninglabs/lightning-node-connect/gbn"
	"github.com/lightninglabs/lightning-node-connect/mailbox"
)

// C07, the parts outside the translated decoders: the websocket JSON envelope
// (stripJSONWrapper, library regexp: exercised, not modelled) and the Noise
// handshake / record parsers fed arbitrary and truncated bytes. Oracle: no panic.
func TestGenC07Misc(t *testing.T) {
	r := newRng(seed())
	o := newOut(t, "c07misc_impl.txt")
	defer o.close()
	q := newOracle(t, "c07misc")
	defer q.close()
	noPanic := func(key, what string, f func()) {
		defer func() {
			if rec := recover(); rec != nil {
				q.fail(key, fmt.Sprintf("%s: panic: %v", what, rec))
			}
		}()
		q.checks++
		f()
	}
	// every string up to length 4 over a 12-symbol JSON alphabet, and longer random ones
	alpha := []byte("{}\":,[]\\resu0")
	var rec func(prefix []byte, depth int)
	count := 0
	rec = func(prefix []byte, depth int) {
		s := string(prefix)
		noPanic("c07:json-envelope-panic", fmt.Sprintf("stripJSONWrapper(%q)", s), func() { _, _ = mailbox.VerifStripJSONWrapper(s) })
		count++
		if depth == 4 {
			return
		}
		for _, a := range alpha {
			rec(append(append([]byte{}, prefix...), a), depth+1)
		}
	}
	rec(nil, 0)
	for i := 0; i < scale(2000, 50000); i++ {
		parts := []string{"{\"result\":", "{\"error\":", "}", "{", "\"msg\":\"", "aGVsbG8=", "\"", "null", ",", "{\"result\":{\"desc\":{\"stream_id\":\"AA==\"},\"msg\":\"AQI=\"}}", string(r.bytes(r.intn(6)))}
		s := ""
		for k := r.intn(6); k >= 0; k-- {
			s += parts[r.intn(len(parts))]
		}
		noPanic("c07:json-envelope-panic", fmt.Sprintf("stripJSONWrapper(%q)", s), func() { _, _ = mailbox.VerifStripJSONWrapper(s) })
		count++
	}
	q.stat("json_envelope_strings", count)
	// Noise: arbitrary / truncated bytes as handshake acts and as records
	for i := 0; i < scale(300, 6000); i++ {
		rr := r.sub(i)
		kk := i%2 == 1
		cfg := pairCfg{kk: kk, minI: 0, maxI: 2, minR: 0, maxR: 2, authData: []byte("a")}
		if kk {
			cfg.minI, cfg.minR = 2, 2
		}
		p := newMachinePair(rr, cfg)
		if p.errI != nil || p.errR != nil {
			continue
		}
		// records: random bytes, truncated real records, real header + junk body
		var wire bytes.Buffer
		_ = p.init.WriteMessage(rr.bytes(rr.intn(40)))
		_, _ = p.init.Flush(&wire)
		w := wire.Bytes()
		var in []byte
		switch rr.intn(4) {
		case 0:
			in = rr.bytes(rr.intn(60))
		case 1:
			in = w[:rr.intn(len(w)+1)]
		case 2:
			in = append(append([]byte{}, w[:18]...), rr.bytes(rr.intn(50))...)
		default:
			in = append(append([]byte{}, w...), rr.bytes(rr.intn(30))...)
		}
		noPanic("c07:noise-record-panic", fmt.Sprintf("ReadMessage on %d bytes", len(in)), func() {
			rd := bytes.NewReader(in)
			for k := 0; k < 3; k++ {
				if _, err := p.resp.ReadMessage(rd); err != nil {
					break
				}
			}
		})
		// handshake acts: a fresh responder / initiator fed junk
		m, err := mailbox.NewBrontideMachine(&mailbox.BrontideMachineConfig{Initiator: i%4 < 2, HandshakePattern: map[bool]mailbox.HandshakePattern{false: mailbox.XXPattern, true: mailbox.KKPattern}[kk],
			MinHandshakeVersion: cfg.minI, MaxHandshakeVersion: 2, ConnData: map[bool]*mailbox.ConnData{true: p.initCD, false: p.respCD}[i%4 < 2], EphemeralGen: ephGen(rr.sub(3))})
		if err == nil {
			junk := rr.bytes(rr.pick([]int{0, 1, 2, 33, 34, 50, 83, 120, 600}))
			if len(junk) > 0 && rr.chance(1, 2) {
				junk[0] = byte(rr.intn(3))
			}
			noPanic("c07:noise-handshake-panic", fmt.Sprintf("DoHandshake fed %d junk bytes", len(junk)), func() {
				_ = m.DoHandshake(&junkRW{r: bytes.NewReader(junk)})
			})
		}
		q.stat("noise_parser_cases", 1)
	}
	// configuration values an application may pass (zero, negative, huge), then relay-delivered packets:
	// the option setters guard against them, and nothing in the packet path may divide by or index with them
	tmCases := 0
	for _, freq := range []int{0, -1, 1, 1 << 40} {
		for _, mult := range []int{0, -3, 1, 1 << 40} {
			for _, boost := range []float32{0, -1, 0.5, 1e30} {
				for _, static := range []time.Duration{-1, 0, time.Second} {
					tmCases++
					noPanic("c07:timeout-manager-panic", fmt.Sprintf("TimeoutManager(freq=%d mult=%d boost=%v static=%v) fed Sent/Received", freq, mult, boost, static), func() {
						opts := []gbn.TimeoutOptions{gbn.WithTimeoutUpdateFrequency(freq), gbn.WithResendMultiplier(mult), gbn.WithBoostPercent(boost)}
						if static >= 0 {
							opts = append(opts, gbn.WithStaticResendTimeout(static))
						}
						m := gbn.NewTimeOutManager(nil, opts...)
						m.Sent(&gbn.PacketSYN{N: 20}, false)
						m.Received(&gbn.PacketSYN{N: 20})
						for seq := uint8(0); seq < 4; seq++ {
							m.Sent(&gbn.PacketData{Seq: seq}, false)
							m.Received(&gbn.PacketACK{Seq: seq})
							m.Sent(&gbn.PacketData{Seq: seq}, true)
							m.Received(&gbn.PacketNACK{Seq: seq})
							_ = m.GetResendTimeout()
							_ = m.GetHandshakeTimeout()
						}
					})
				}
			}
		}
	}
	q.stat("timeout_manager_option_cases", tmCases)
	q.stat("distinct_nontrivial", count)
	q.sample("stripJSONWrapper on every string of length <= 4 over {}\":,[]\\resu0 and random longer envelopes; ReadMessage / DoHandshake on random, truncated and extended byte strings")
	o.line("DONE %d", count)
}

type junkRW struct{ r io.Reader }

func (j *junkRW) Read(p []byte) (int, error)  { return j.r.Read(p) }
func (j *junkRW) Write(p []byte) (int, error) { return len(p), nil }
