package harness

import (
	"bufio"
	"bytes"
	"crypto/sha256"
	"encoding/binary"
	"encoding/hex"
	"fmt"
	"io"
	"os"
	"path/filepath"
	"strconv"
	"strings"
	"testing"

	"github.com/btcsuite/btcd/btcec/v2"
	"golang.org/x/crypto/chacha20poly1305"
	"golang.org/x/crypto/hkdf"
	"golang.org/x/crypto/scrypt"
)

// The term interpreter: an independent re-computation of the handshake bytes
// from the symbolic terms printed by the Coq model (ocaml/run_sym.ml). It uses
// sha256 / hkdf / chacha20poly1305 / btcec / scrypt directly and never calls
// the code under test.

type val struct {
	b    []byte // byte value (points: compressed serialisation)
	priv *btcec.PrivateKey
	pub  *btcec.PublicKey
}

var spakeN = func() *btcec.PublicKey {
	b, _ := hex.DecodeString("0254a58cd0f31c008fd0bc9b2dd5ba586144933829f6da33ac4130b555fb5ea32c")
	p, _ := btcec.ParsePubKey(b)
	return p
}()

func maskPoint(p *btcec.PublicKey, pw []byte, neg bool) *btcec.PublicKey {
	var s btcec.ModNScalar
	s.SetByteSlice(pw)
	if neg {
		s.Negate()
	}
	var nj, pwn, pj, res btcec.JacobianPoint
	spakeN.AsJacobian(&nj)
	btcec.ScalarMultNonConst(&s, &nj, &pwn)
	p.AsJacobian(&pj)
	btcec.AddNonConst(&pj, &pwn, &res)
	res.ToAffine()
	return btcec.NewPublicKey(&res.X, &res.Y)
}

func ecdhHash(priv *btcec.PrivateKey, pub *btcec.PublicKey) []byte {
	var pj, res btcec.JacobianPoint
	pub.AsJacobian(&pj)
	btcec.ScalarMultNonConst(&priv.Key, &pj, &res)
	res.ToAffine()
	shared := btcec.NewPublicKey(&res.X, &res.Y)
	h := sha256.Sum256(shared.SerializeCompressed())
	return h[:]
}

func hkdfPair(salt, ikm []byte) ([]byte, []byte) {
	h := hkdf.New(sha256.New, ikm, salt, nil)
	a, b := make([]byte, 32), make([]byte, 32)
	_, _ = io.ReadFull(h, a)
	_, _ = io.ReadFull(h, b)
	return a, b
}

func evalNode(ctor string, args []string, vals map[int]*val, keys map[int]*btcec.PrivateKey) (*val, error) {
	arg := func(i int) *val {
		n, _ := strconv.Atoi(args[i])
		return vals[n]
	}
	switch ctor {
	case "Lit":
		if args[0] == "-" {
			return &val{b: []byte{}}, nil
		}
		b, err := hex.DecodeString(args[0])
		return &val{b: b}, err
	case "Priv":
		id, _ := strconv.Atoi(args[0])
		k := keys[id]
		if k == nil {
			return nil, fmt.Errorf("unknown scalar %d", id)
		}
		return &val{priv: k}, nil
	case "Pub":
		p := arg(0).priv.PubKey()
		return &val{pub: p, b: p.SerializeCompressed()}, nil
	case "Mask", "Unmask":
		p := maskPoint(arg(0).pub, arg(1).b, ctor == "Unmask")
		return &val{pub: p, b: p.SerializeCompressed()}, nil
	case "DH":
		return &val{b: ecdhHash(arg(0).priv, arg(1).priv.PubKey())}, nil
	case "DHx":
		if arg(1).pub == nil {
			return nil, fmt.Errorf("DHx with a non-point")
		}
		return &val{b: ecdhHash(arg(0).priv, arg(1).pub)}, nil
	case "Hash":
		h := sha256.New()
		h.Write(arg(0).b)
		h.Write(arg(1).b)
		return &val{b: h.Sum(nil)}, nil
	case "Hkdf1":
		a, _ := hkdfPair(arg(0).b, arg(1).b)
		return &val{b: a}, nil
	case "Hkdf2":
		_, b := hkdfPair(arg(0).b, arg(1).b)
		return &val{b: b}, nil
	case "Seal":
		n, _ := strconv.Atoi(args[1])
		k, _ := strconv.Atoi(args[0])
		ad, _ := strconv.Atoi(args[2])
		p, _ := strconv.Atoi(args[3])
		aead, err := chacha20poly1305.New(vals[k].b)
		if err != nil {
			return nil, err
		}
		var nonce [12]byte
		binary.LittleEndian.PutUint64(nonce[4:], uint64(n))
		return &val{b: aead.Seal(nil, nonce[:], vals[p].b, vals[ad].b)}, nil
	case "Stretch":
		k, err := scrypt.Key(arg(0).b, arg(0).b, 16, 8, 1, 32) // the rpctest build tag's parameters
		return &val{b: k}, err
	case "V0Pad":
		out := make([]byte, 500)
		binary.BigEndian.PutUint16(out, uint16(len(arg(0).b)))
		copy(out[2:], arg(0).b)
		return &val{b: out}, nil
	case "Be32Len":
		var l [4]byte
		binary.BigEndian.PutUint32(l[:], uint32(len(arg(0).b)))
		return &val{b: l[:]}, nil
	case "Empty":
		return &val{b: []byte{}}, nil
	case "ZeroKey":
		return &val{b: make([]byte, 32)}, nil
	case "ProtoName":
		name := "Noise_XXeke+SPAKE2_secp256k1_ChaChaPoly_SHA256"
		if args[0] == "1" {
			name = "Noise_KK_secp256k1_ChaChaPoly_SHA256"
		}
		h := sha256.Sum256([]byte(name))
		return &val{b: h[:]}, nil
	case "Prologue":
		return &val{b: []byte("lightning-node-connect")}, nil
	}
	return nil, fmt.Errorf("unknown constructor %s", ctor)
}

func unhexField(s string) []byte {
	if s == "-" {
		return nil
	}
	b, _ := hex.DecodeString(s)
	return b
}

func TestInterpSym(t *testing.T) {
	dir := outDir()
	implF, err := os.Open(filepath.Join(dir, "sym_impl.txt"))
	if err != nil {
		t.Skip("no sym_impl.txt")
	}
	defer implF.Close()
	type scen struct {
		kv map[string]string
	}
	impl := map[string]map[string]string{}
	sc := bufio.NewScanner(implF)
	sc.Buffer(make([]byte, 1<<20), 64<<20)
	for sc.Scan() {
		toks := strings.Fields(sc.Text())
		if len(toks) < 2 || toks[0] != "SYM" {
			continue
		}
		kv := map[string]string{}
		for _, tk := range toks[2:] {
			if i := strings.IndexByte(tk, '='); i > 0 {
				kv[tk[:i]] = tk[i+1:]
			}
		}
		impl[toks[1]] = kv
	}
	modelF, err := os.Open(filepath.Join(dir, "sym_impl.txt.model"))
	if err != nil {
		t.Fatalf("model output missing: %v", err)
	}
	defer modelF.Close()
	res := newOut(t, "symi_result.txt")
	defer res.close()
	cases, bad := 0, 0
	mismatch := func(id, what string) {
		bad++
		if bad <= 20 {
			res.line("MISMATCH %s | %s", id, what)
		}
	}
	ms := bufio.NewScanner(modelF)
	ms.Buffer(make([]byte, 1<<20), 64<<20)
	var id string
	var vals map[int]*val
	var keys map[int]*btcec.PrivateKey
	var kv map[string]string
	for ms.Scan() {
		toks := strings.Fields(ms.Text())
		if len(toks) == 0 {
			continue
		}
		switch toks[0] {
		case "SYMB":
			id = toks[1]
			kv = impl[id]
			vals = map[int]*val{}
			keys = map[int]*btcec.PrivateKey{}
			for i, h := range strings.Split(kv["keys"], ",") {
				b, _ := hex.DecodeString(h)
				k, _ := btcec.PrivKeyFromBytes(b)
				keys[i+1] = k
			}
			cases++
		case "N":
			n, _ := strconv.Atoi(toks[1])
			v, err := evalNode(toks[2], toks[3:], vals, keys)
			if err != nil {
				mismatch(id, fmt.Sprintf("cannot evaluate node %d (%s): %v", n, toks[2], err))
				v = &val{}
			}
			vals[n] = v
		case "MSG":
			idx, _ := strconv.Atoi(toks[1])
			var want []byte
			for _, f := range toks[2:] {
				n, _ := strconv.Atoi(f)
				want = append(want, vals[n].b...)
			}
			// message idx of r_wire: XX: 0 -> I#0, 1 -> R#0, 2 -> I#1 ; KK: 0 -> I#0, 1 -> R#0
			var sent []string
			if idx%2 == 0 {
				sent = strings.Split(kv["sentI"], ",")
				idx = idx / 2
			} else {
				sent = strings.Split(kv["sentR"], ",")
				idx = idx / 2
			}
			if idx >= len(sent) || sent[0] == "-" {
				mismatch(id, fmt.Sprintf("model transmits message %s that the implementation did not send", toks[1]))
				continue
			}
			got := unhexField(sent[idx])
			if !bytes.Equal(got, want) {
				mismatch(id, fmt.Sprintf("act message %s: implementation bytes differ from the model's terms (len impl=%d model=%d, first difference at %d)", toks[1], len(got), len(want), firstDiff(got, want)))
			}
		case "SESS":
			side := toks[1]
			f := map[string]string{}
			for _, tk := range toks[2:] {
				if i := strings.IndexByte(tk, '='); i > 0 {
					f[tk[:i]] = tk[i+1:]
				}
			}
			ks := strings.Split(kv["keys"+side], ",")
			get := func(k string) []byte {
				n, err := strconv.Atoi(f[k])
				if err != nil {
					return nil
				}
				return vals[n].b
			}
			if !bytes.Equal(get("send"), unhexField(ks[0])) || !bytes.Equal(get("recv"), unhexField(ks[1])) {
				mismatch(id, "traffic keys of side "+side+" differ from the model's Hkdf terms")
			}
			if side == "I" {
				if a := get("auth"); f["auth"] != "-" && !bytes.Equal(a, unhexField(kv["authI"])) && !(len(a) == 0 && kv["authI"] == "-") {
					mismatch(id, "initiator's auth payload differs from the model's")
				}
			}
			rem := kv["rem"+side]
			if rem != "-" && f["remote"] != "-" && !bytes.Equal(get("remote"), unhexField(rem)) {
				mismatch(id, "stored remote static key of side "+side+" differs from the model's")
			}
		}
	}
	res.line("SUMMARY cases=%d mismatches=%d", cases, bad)
}

func firstDiff(a, b []byte) int {
	for i := 0; i < len(a) && i < len(b); i++ {
		if a[i] != b[i] {
			return i
		}
	}
	return min(len(a), len(b))
}
