package harness

import (
	"bytes"
	"context"
	"fmt"
	"net"
	"sync"
	"sync/atomic"
	"time"

	"github.com/lightninglabs/lightning-node-connect/mailbox"
)

// Real-time session scenarios of C11 / C12 at the mailbox layer (the retry loops sleep while holding a mutex,
// which a synctest bubble cannot get past): a Server and a Client over the fake relay, with relay incidents
// between or during the connections.

type rtSession struct {
	relay    *fakeRelay
	srv      *mailbox.Server
	cli      *mailbox.Client
	cdS, cdC *mailbox.ConnData
	ctx      context.Context
	cancel   func()
}

func newRtSession(r *rng) (*rtSession, error) { return newRtSessionOver(r, false) }

// newRtSessionOver: overGRPC puts a real gRPC client / server pair (relay_grpc_test.go) between the library and
// the relay's mailboxes
func newRtSessionOver(r *rng, overGRPC bool) (*rtSession, error) {
	s := &rtSession{relay: newFakeRelay()}
	s.ctx, s.cancel = context.WithCancel(context.Background())
	if overGRPC {
		gc, stop, err := s.relay.serveGRPC()
		if err != nil {
			return nil, err
		}
		cancel := s.cancel
		s.cancel = func() { cancel(); stop() }
		entropy := r.bytes(14)
		s.cdC = mailbox.NewConnData(keyECDH(privFromRng(r)), nil, entropy, nil, nil, nil)
		s.cdS = mailbox.NewConnData(keyECDH(privFromRng(r)), nil, entropy, []byte("macaroon"), nil, nil)
		var e1, e2 error
		s.srv, e1 = mailbox.VerifNewServer("relay", s.cdS, gc, func(mailbox.ServerStatus) {})
		s.cli, e2 = mailbox.VerifNewClient(s.ctx, "relay", s.cdC, gc)
		if e1 != nil || e2 != nil {
			s.cancel()
			return nil, fmt.Errorf("%v %v", e1, e2)
		}
		return s, nil
	}
	entropy := r.bytes(14)
	s.cdC = mailbox.NewConnData(keyECDH(privFromRng(r)), nil, entropy, nil, nil, nil)
	s.cdS = mailbox.NewConnData(keyECDH(privFromRng(r)), nil, entropy, []byte("macaroon"), nil, nil)
	var e1, e2 error
	s.srv, e1 = mailbox.VerifNewServer("relay", s.cdS, s.relay, func(mailbox.ServerStatus) {})
	s.cli, e2 = mailbox.VerifNewClient(s.ctx, "relay", s.cdC, s.relay)
	if e1 != nil || e2 != nil {
		s.cancel()
		return nil, fmt.Errorf("%v %v", e1, e2)
	}
	return s, nil
}

// connect runs Accept and Dial (the client a little later) and returns both connections or an error after `limit`.
func (s *rtSession) connect(limit time.Duration) (client, server net.Conn, err error) {
	type res struct {
		c   net.Conn
		err error
	}
	sc, cc := make(chan res, 1), make(chan res, 1)
	go func() { c, e := s.srv.Accept(); sc <- res{c, e} }()
	go func() {
		time.Sleep(150 * time.Millisecond)
		c, e := s.cli.Dial(s.ctx, "")
		cc <- res{c, e}
	}()
	deadline := time.After(limit)
	for client == nil || server == nil {
		select {
		case r := <-sc:
			if r.err != nil {
				// a temporary error: gRPC's Serve loop calls Accept again
				go func() { time.Sleep(200 * time.Millisecond); c, e := s.srv.Accept(); sc <- res{c, e} }()
				continue
			}
			server = r.c
		case r := <-cc:
			if r.err != nil {
				return nil, nil, fmt.Errorf("Dial: %v", r.err)
			}
			client = r.c
		case <-deadline:
			return client, server, fmt.Errorf("no connection within %v (client %v, server %v)", limit, client != nil, server != nil)
		}
	}
	return client, server, nil
}

func transfer(w, r net.Conn, msg []byte, limit time.Duration) error {
	go func() { _, _ = w.Write(msg) }()
	_ = r.SetReadDeadline(time.Now().Add(limit))
	defer func() { _ = r.SetReadDeadline(time.Time{}) }()
	got := make([]byte, 0, len(msg))
	buf := make([]byte, 4096)
	for len(got) < len(msg) {
		n, err := r.Read(buf)
		got = append(got, buf[:n]...)
		if err != nil {
			return fmt.Errorf("read after %d of %d bytes: %v", len(got), len(msg), err)
		}
	}
	if !bytes.Equal(got, msg) {
		return fmt.Errorf("bytes differ")
	}
	return nil
}

func (f *fakeRelay) dropBoxes() {
	f.mu.Lock()
	f.boxes = map[string]*relayBox{}
	f.mu.Unlock()
}

// rtSessionCases runs the incidents concurrently and reports into q (keys c11: / c12:).
func rtSessionCases(q *oracle, r *rng) {
	var wg sync.WaitGroup
	var mu sync.Mutex
	fail := func(key, detail string) { mu.Lock(); q.fail(key, detail); mu.Unlock() }
	ok := func(name string) { mu.Lock(); q.stat("realtime_session_"+name, 1); q.checks++; mu.Unlock() }
	run := func(name string, f func(rr *rng) (string, string)) {
		wg.Add(1)
		go func() {
			defer wg.Done()
			done := make(chan [2]string, 1)
			go func() {
				defer func() {
					if rec := recover(); rec != nil {
						done <- [2]string{"c12:mailbox-call-panics:" + name, fmt.Sprint(rec)}
					}
				}()
				k, d := f(r.sub(len(name) + 9100))
				done <- [2]string{k, d}
			}()
			select {
			case kd := <-done:
				if kd[0] != "" {
					fail(kd[0], kd[1])
				}
			case <-time.After(90 * time.Second):
				fail("c11:realtime-session-stuck:"+name, "the scenario did not finish within 90 s")
			}
			ok(name)
		}()
	}

	// the relay loses every mailbox (restart / expiry) while a connection is up; afterwards the session is closed and
	// re-established: the server has to create its mailboxes again
	run("relay-loses-mailboxes", func(rr *rng) (string, string) {
		s, err := newRtSession(rr)
		if err != nil {
			return "c11:setup", err.Error()
		}
		defer s.cancel()
		c1, s1, err := s.connect(30 * time.Second)
		if err != nil {
			return "c11:setup", "first connection: " + err.Error()
		}
		if err := transfer(c1, s1, []byte("before the incident"), 10*time.Second); err != nil {
			return "c11:setup", "first transfer: " + err.Error()
		}
		s.relay.dropBoxes()
		time.Sleep(300 * time.Millisecond)
		_ = c1.Close()
		_ = s1.Close()
		c2, s2, err := s.connect(40 * time.Second)
		if err != nil {
			return "c11:no-fresh-connection:after-relay-lost-mailboxes", err.Error()
		}
		if err := transfer(c2, s2, []byte("after the incident"), 20*time.Second); err != nil {
			return "c11:fresh-connection-does-not-work:after-relay-lost-mailboxes", "client -> server: " + err.Error()
		}
		if err := transfer(s2, c2, []byte("and back"), 20*time.Second); err != nil {
			return "c11:fresh-connection-does-not-work:after-relay-lost-mailboxes", "server -> client: " + err.Error()
		}
		_ = c2.Close()
		_ = s2.Close()
		_ = s.srv.Close()
		return "", ""
	})

	// first pairing (XX, static keys exchanged), then the switch to the key-derived rendezvous while the relay fails
	// ONE DelCipherBox call: the server must still come up there
	run("delete-fails-at-the-switch", func(rr *rng) (string, string) {
		s, err := newRtSession(rr)
		if err != nil {
			return "c11:setup", err.Error()
		}
		defer s.cancel()
		c1, s1, err := s.connect(30 * time.Second)
		if err != nil {
			return "c11:setup", "first connection: " + err.Error()
		}
		credS, credC := mailbox.NewNoiseGrpcConn(s.cdS), mailbox.NewNoiseGrpcConn(s.cdC)
		hs := func(cc, sc net.Conn) (net.Conn, net.Conn, error) {
			var nS, nC net.Conn
			var eS, eC error
			var hw sync.WaitGroup
			hw.Add(2)
			go func() { defer hw.Done(); nS, _, eS = credS.ServerHandshake(sc) }()
			go func() { defer hw.Done(); nC, _, eC = credC.ClientHandshake(s.ctx, "", cc) }()
			hw.Wait()
			if eS != nil || eC != nil {
				return nil, nil, fmt.Errorf("%v / %v", eS, eC)
			}
			return nC, nS, nil
		}
		n1c, n1s, err := hs(c1, s1)
		if err != nil {
			return "c11:setup", "pairing handshake: " + err.Error()
		}
		if err := transfer(n1c, n1s, []byte("paired"), 10*time.Second); err != nil {
			return "c11:setup", "first transfer: " + err.Error()
		}
		s.relay.mu.Lock()
		s.relay.failDelOnce = true
		s.relay.mu.Unlock()
		_ = n1c.Close()
		_ = n1s.Close()
		c2, s2, err := s.connect(40 * time.Second)
		if err != nil {
			return "c11:no-fresh-connection:delete-failed-at-the-switch", err.Error()
		}
		n2c, n2s, err := hs(c2, s2)
		if err != nil {
			return "c11:handshake-on-fresh-connection-failed:delete-failed-at-the-switch", err.Error()
		}
		if err := transfer(n2c, n2s, []byte("after the switch"), 20*time.Second); err != nil {
			return "c11:fresh-connection-does-not-work:delete-failed-at-the-switch", err.Error()
		}
		_ = n2c.Close()
		_ = n2s.Close()
		_ = s.srv.Close()
		return "", ""
	})

	// a session over the gRPC face of the relay (real client streams; one writer and one reader per mailbox, as the
	// deployed relay): connect, transfer both ways, one side closes, the other is told at once, and the next
	// connection comes about and works, several times over
	run("reconnects-over-grpc", func(rr *rng) (string, string) {
		s, err := newRtSessionOver(rr, true)
		if err != nil {
			return "c11:setup", err.Error()
		}
		defer s.cancel()
		defer func() { _ = s.srv.Close() }()
		for round := 0; round < 4; round++ {
			t0 := time.Now()
			c, sv, err := s.connect(40 * time.Second)
			if err != nil {
				s.relay.mu.Lock()
				occ := s.relay.grpcOccupied
				s.relay.mu.Unlock()
				return "c11:no-fresh-connection:over-grpc", fmt.Sprintf("round %d: %v (streams refused by the relay because the mailbox still had a writer / reader: %d)", round, err, occ)
			}
			took := time.Since(t0)
			if err := transfer(c, sv, []byte(fmt.Sprintf("round %d up", round)), 10*time.Second); err != nil {
				return "c11:fresh-connection-does-not-work:over-grpc", fmt.Sprintf("round %d client->server: %v", round, err)
			}
			if err := transfer(sv, c, []byte(fmt.Sprintf("round %d down", round)), 10*time.Second); err != nil {
				return "c11:fresh-connection-does-not-work:over-grpc", fmt.Sprintf("round %d server->client: %v", round, err)
			}
			if round > 0 && took > 20*time.Second {
				return "c11:no-fresh-connection:over-grpc", fmt.Sprintf("round %d: the connection after a Close took %v to come about", round, took)
			}
			a, b, who := c, sv, "client"
			if round%2 == 1 {
				a, b, who = sv, c, "server"
			}
			rd := make(chan error, 1)
			go func() { _, e := b.Read(make([]byte, 8)); rd <- e }()
			time.Sleep(100 * time.Millisecond)
			t1 := time.Now()
			_ = a.Close()
			select {
			case e := <-rd:
				if e == nil {
					return "c12:mailbox-peer-not-told:closer=" + who + "-over-grpc", "the peer's Read returned data after Close"
				}
			case <-time.After(4 * time.Second):
				return "c12:mailbox-peer-not-told:closer=" + who + "-over-grpc", fmt.Sprintf("round %d: %s closed over a working gRPC relay; the peer's blocked Read is still blocked after %v", round, who, time.Since(t1))
			}
			_ = b.Close()
		}
		return "", ""
	})

	// Server.Close with a live connection: the client is told (its blocked Read fails long before its keepalive)
	run("server-object-closed", func(rr *rng) (string, string) {
		s, err := newRtSession(rr)
		if err != nil {
			return "c11:setup", err.Error()
		}
		defer s.cancel()
		c1, s1, err := s.connect(30 * time.Second)
		if err != nil {
			return "c11:setup", "first connection: " + err.Error()
		}
		if err := transfer(c1, s1, []byte("hello"), 10*time.Second); err != nil {
			return "c11:setup", "first transfer: " + err.Error()
		}
		rd := make(chan error, 1)
		go func() { _, e := c1.Read(make([]byte, 8)); rd <- e }()
		time.Sleep(100 * time.Millisecond)
		t0 := time.Now()
		_ = s.srv.Close()
		select {
		case e := <-rd:
			if e == nil {
				return "c12:mailbox-peer-not-told:closer=server-object", "the client's Read returned data after Server.Close"
			}
		case <-time.After(4 * time.Second):
			return "c12:mailbox-peer-not-told:closer=server-object", fmt.Sprintf("Server.Close with a live connection: the client's blocked Read is still blocked after %v (its keepalive alone would take about 10 s)", time.Since(t0))
		}
		_ = c1.Close()
		// the listener is closed by whoever owns it and by the gRPC server it was handed to (grpc.Server.Stop closes
		// its listeners): a second Close, from another goroutine too, has no effect
		var pan atomic.Value
		var wg sync.WaitGroup
		for k := 0; k < 2; k++ {
			wg.Add(1)
			go func() {
				defer wg.Done()
				defer func() {
					if rec := recover(); rec != nil {
						pan.Store(fmt.Sprint(rec))
					}
				}()
				_ = s.srv.Close()
			}()
		}
		wg.Wait()
		if p := pan.Load(); p != nil {
			return "c12:close-again-panics:mailbox-listener", "Server.Close called again after it had returned: panic: " + p.(string)
		}
		return "", ""
	})

	// Server.Close while the first Accept is still waiting for a client (grpc.Server.Stop while Serve sits in
	// Accept): Accept returns an error, not a connection of a closed listener, and no mailbox stays at the relay
	run("server-closed-during-first-accept", func(rr *rng) (string, string) {
		s, err := newRtSession(rr)
		if err != nil {
			return "c11:setup", err.Error()
		}
		defer s.cancel()
		type res struct {
			c   net.Conn
			err error
		}
		ac := make(chan res, 1)
		go func() { c, e := s.srv.Accept(); ac <- res{c, e} }()
		for k := 0; k < 400; k++ { // until the server has created its mailboxes and waits for the client's SYN
			s.relay.mu.Lock()
			nb := len(s.relay.boxes)
			s.relay.mu.Unlock()
			if nb >= 1 {
				break
			}
			time.Sleep(5 * time.Millisecond)
		}
		time.Sleep(200 * time.Millisecond)
		_ = s.srv.Close()
		select {
		case r := <-ac:
			if r.err == nil && r.c != nil {
				time.Sleep(300 * time.Millisecond)
				s.relay.mu.Lock()
				nb := len(s.relay.boxes)
				s.relay.mu.Unlock()
				_ = r.c.Close()
				return "c12:accept-hands-out-a-connection-of-a-closed-listener", fmt.Sprintf("Server.Close was called while the first Accept was waiting for a client: Accept returned a connection and a nil error afterwards; %d mailboxes are still at the relay", nb)
			}
		case <-time.After(5 * time.Second):
			return "c12:accept-not-woken-by-close", "Server.Close was called while the first Accept was waiting for a client: Accept is still blocked 5 s later"
		}
		// (a mailbox may stay behind at the relay: the connection's context has been cancelled by then and the
		// deletion is sent under it; the relay expires idle mailboxes, and no property speaks about them)
		return "", ""
	})

	// Dial on a client whose context has been cancelled (before the first connection / while the relay is
	// unreachable / after a session): an error, never a panic
	run("dial-after-cancel", func(rr *rng) (string, string) {
		for _, when := range []string{"before-first-dial", "after-a-session"} {
			s, err := newRtSession(rr)
			if err != nil {
				return "c11:setup", err.Error()
			}
			if when == "after-a-session" {
				c1, s1, err := s.connect(30 * time.Second)
				if err != nil {
					s.cancel()
					return "c11:setup", "first connection: " + err.Error()
				}
				_ = transfer(c1, s1, []byte("hello"), 10*time.Second)
				_ = c1.Close()
				_ = s1.Close()
			}
			s.cancel()
			res := make(chan string, 1)
			go func() {
				defer func() {
					if rec := recover(); rec != nil {
						res <- fmt.Sprintf("Dial panicked (%s): %v", when, rec)
					}
				}()
				c, err := s.cli.Dial(context.Background(), "")
				if err == nil && c != nil {
					_ = c.Close()
				}
				res <- ""
			}()
			select {
			case m := <-res:
				if m != "" {
					return "c12:mailbox-call-panics:dial-after-cancel", m
				}
			case <-time.After(20 * time.Second):
				return "c12:mailbox-close-not-bounded:dial-after-cancel", "Dial on a cancelled client did not return within 20 s (" + when + ")"
			}
			_ = s.srv.Close()
		}
		return "", ""
	})
	wg.Wait()
}
