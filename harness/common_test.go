package harness

import (
	"bufio"
	"encoding/hex"
	"fmt"
	"os"
	"path/filepath"
	"strconv"
	"strings"
	"sync/atomic"
	"testing"
)

// ---- configuration from the environment -----------------------------------

func envInt(name string, def int64) int64 {
	if v := os.Getenv(name); v != "" {
		if n, err := strconv.ParseInt(v, 10, 64); err == nil {
			return n
		}
	}
	return def
}

func seed() uint64   { return uint64(envInt("VERIF_SEED", 1)) }
func thorough() bool { return os.Getenv("VERIF_TIER") == "thorough" }
func outDir() string {
	d := os.Getenv("VERIF_OUT")
	if d == "" {
		d = "/verif/build/out"
	}
	_ = os.MkdirAll(d, 0o755)
	return d
}

// scale picks the quick or thorough size of a sweep.
func scale(quick, thoroughN int) int {
	if thorough() {
		return thoroughN
	}
	return quick
}

// ---- PRNG: one splitmix64 state; every random choice derives from it -------

type rng struct{ s uint64 }

func newRng(sd uint64) *rng { return &rng{s: sd*0x9E3779B97F4A7C15 + 0x1234567} }

func (r *rng) u64() uint64 {
	r.s += 0x9E3779B97F4A7C15
	z := r.s
	z = (z ^ (z >> 30)) * 0xBF58476D1CE4E5B9
	z = (z ^ (z >> 27)) * 0x94D049BB133111EB
	return z ^ (z >> 31)
}
func (r *rng) intn(n int) int {
	if n <= 0 {
		return 0
	}
	return int(r.u64() % uint64(n))
}
func (r *rng) pick(xs []int) int { return xs[r.intn(len(xs))] }
func (r *rng) chance(num, den int) bool {
	return r.intn(den) < num
}
func (r *rng) bytes(n int) []byte {
	b := make([]byte, n)
	for i := range b {
		b[i] = byte(r.u64())
	}
	return b
}

// sub derives an independent stream for case i, so single cases replay.
func (r *rng) sub(i int) *rng { return newRng(r.s ^ (uint64(i)+1)*0xD1B54A32D192ED03) }

// ---- output -----------------------------------------------------------------

type out struct {
	f *os.File
	w *bufio.Writer
	n int
}

func newOut(t testing.TB, name string) *out {
	f, err := os.Create(filepath.Join(outDir(), name))
	if err != nil {
		t.Fatal(err)
	}
	return &out{f: f, w: bufio.NewWriterSize(f, 1<<20)}
}
func (o *out) line(format string, a ...interface{}) {
	if strings.HasPrefix(format, "BEGIN ") {
		// the scenario now running, on disk at once: if a library goroutine panics the whole process dies with the
		// buffered files unwritten, and the runner reports this line as the failing scenario
		_ = os.WriteFile(o.f.Name()+".current", []byte(fmt.Sprintf(format, a...)+"\n"), 0o644)
	}
	fmt.Fprintf(o.w, format, a...)
	o.w.WriteByte('\n')
	o.n++
}
func (o *out) close() { o.w.Flush(); o.f.Close() }

func hx(b []byte) string {
	if len(b) == 0 {
		return "-"
	}
	return hex.EncodeToString(b)
}
func b2i(b bool) int {
	if b {
		return 1
	}
	return 0
}

// ---- oracle / statistics file ------------------------------------------------
// FAIL <key> <detail>   : the property's direct oracle failed on a concrete input
// STAT <name> <count>   : distribution counters copied into the evidence file
// SAMPLE <text>         : a few explored cases written out

type oracle struct {
	o      *out
	stats  map[string]int
	order  []string
	nfail  int
	perKey map[string]int
	nsamp  int
	checks int
	name   string
}

var curOracle atomic.Pointer[oracle]

func newOracle(t testing.TB, prop string) *oracle {
	q := &oracle{o: newOut(t, prop+"_oracle.txt"), stats: map[string]int{}, name: prop}
	curOracle.Store(q)
	return q
}
func (q *oracle) fail(key, detail string) {
	q.nfail++
	if q.perKey == nil {
		q.perKey = map[string]int{}
	}
	q.perKey[key]++
	if q.perKey[key] <= 3 && len(q.perKey) <= 300 {
		q.o.line("FAIL\t%s\t%s", key, detail)
	}
}
func (q *oracle) check(ok bool, key string, detail func() string) {
	q.checks++
	if !ok {
		q.fail(key, detail())
	}
}
func (q *oracle) stat(name string, n int) {
	if _, ok := q.stats[name]; !ok {
		q.order = append(q.order, name)
	}
	q.stats[name] += n
}
func (q *oracle) sample(s string) {
	q.nsamp++
	if q.nsamp <= 8 {
		q.o.line("SAMPLE\t%s", s)
	}
}
func (q *oracle) close() {
	q.stat("direct_oracle_checks", q.checks)
	for _, k := range q.order {
		q.o.line("STAT\t%s\t%d", k, q.stats[k])
	}
	q.o.close()
}
