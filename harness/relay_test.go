package harness

import (
	"context"
	"errors"
	"fmt"
	"io"
	"sync"
	"time"

	"github.com/lightninglabs/lightning-node-connect/hashmailrpc"
	"google.golang.org/grpc"
	"google.golang.org/grpc/codes"
	"google.golang.org/grpc/metadata"
	"google.golang.org/grpc/status"
)

// An in-process hashmail relay implementing hashmailrpc.HashMailClient: named
// cipher boxes (FIFO pipes), one send and one receive stream per side, with
// per-message drop and stream-error injection. It records everything it sees.

type relaySeen struct {
	stream string
	msg    []byte
}

type relayBox struct {
	ch chan []byte
}

type fakeRelay struct {
	mu    sync.Mutex
	boxes map[string]*relayBox
	seen  []relaySeen
	// fault decides what happens to the n-th message sent to a stream:
	// "deliver", "drop", "senderr" (Send fails, message lost), "recverr" (the reader's Recv fails once)
	fault                   func(stream string, n int) string
	faultMsg                func(stream string, msg []byte) string // the same decision by content (consulted after fault)
	counts                  map[string]int
	recvErr                 map[string]int // pending injected receive errors per stream
	newBox                  int
	streams                 int
	failClose               bool          // closing a stream reports an error (the stream is closed all the same)
	unreachable             bool          // new send streams cannot be opened
	failDelOnce             bool          // the next DelCipherBox call fails
	wsRecvDelay             time.Duration // the first WebSocket receive dial is answered this late
	wsSendDials, wsSendOpen int           // WebSocket send sockets dialled / still open
	wsRecvDials             int           // WebSocket receive sockets dialled
	grpcFinReceived         int           // gRPC face: FIN packets that reached the SendStream handler
	grpcFinForwarded        int           // ... and that it passed on to the mailbox
	grpcOccupied            int           // gRPC face: streams refused because the mailbox already had a writer / reader
}

func (r *fakeRelay) setFailClose(v bool) {
	r.mu.Lock()
	r.failClose = v
	r.mu.Unlock()
}

func (r *fakeRelay) closeErr() error {
	r.mu.Lock()
	defer r.mu.Unlock()
	if r.failClose {
		return errors.New("injected close failure")
	}
	return nil
}

func newFakeRelay() *fakeRelay {
	return &fakeRelay{boxes: map[string]*relayBox{}, counts: map[string]int{}, recvErr: map[string]int{}}
}

func (r *fakeRelay) NewCipherBox(ctx context.Context, in *hashmailrpc.CipherBoxAuth, _ ...grpc.CallOption) (*hashmailrpc.CipherInitResp, error) {
	r.mu.Lock()
	defer r.mu.Unlock()
	id := string(in.Desc.StreamId)
	if _, ok := r.boxes[id]; ok {
		return nil, status.Error(codes.AlreadyExists, "stream already exists")
	}
	r.boxes[id] = &relayBox{ch: make(chan []byte, 100000)}
	r.newBox++
	return &hashmailrpc.CipherInitResp{}, nil
}

func (r *fakeRelay) DelCipherBox(ctx context.Context, in *hashmailrpc.CipherBoxAuth, _ ...grpc.CallOption) (*hashmailrpc.DelCipherBoxResp, error) {
	if ctx.Err() != nil {
		return nil, ctx.Err()
	}
	r.mu.Lock()
	defer r.mu.Unlock()
	if r.failDelOnce {
		r.failDelOnce = false
		return nil, errors.New("injected delete failure")
	}
	delete(r.boxes, string(in.Desc.StreamId))
	return &hashmailrpc.DelCipherBoxResp{}, nil
}

type dummyStream struct {
	ctx context.Context
}

func (d *dummyStream) Header() (metadata.MD, error) { return nil, nil }
func (d *dummyStream) Trailer() metadata.MD         { return nil }
func (d *dummyStream) Context() context.Context     { return d.ctx }
func (d *dummyStream) SendMsg(interface{}) error    { return nil }
func (d *dummyStream) RecvMsg(interface{}) error    { return nil }

type relaySend struct {
	dummyStream
	r      *fakeRelay
	closed bool
	broken bool // a stream that has reported an error stays unusable, as a gRPC stream does
}

func (s *relaySend) CloseSend() error { s.closed = true; return s.r.closeErr() }
func (s *relaySend) CloseAndRecv() (*hashmailrpc.CipherBoxDesc, error) {
	s.closed = true
	return &hashmailrpc.CipherBoxDesc{}, s.r.closeErr()
}
func (s *relaySend) Send(b *hashmailrpc.CipherBox) error {
	if s.ctx.Err() != nil {
		return s.ctx.Err()
	}
	if s.broken {
		return errors.New("send on a broken stream")
	}
	r := s.r
	r.mu.Lock()
	id := string(b.Desc.StreamId)
	box, ok := r.boxes[id]
	if !ok {
		r.mu.Unlock()
		return errors.New("stream not found")
	}
	n := r.counts[id]
	r.counts[id]++
	msg := append([]byte{}, b.Msg...)
	r.seen = append(r.seen, relaySeen{id, msg})
	act := "deliver"
	if r.fault != nil {
		act = r.fault(id, n)
	}
	if r.faultMsg != nil && act == "deliver" {
		act = r.faultMsg(id, msg)
	}
	if act == "recverr" {
		r.recvErr[id]++
		act = "deliver"
	}
	r.mu.Unlock()
	switch act {
	case "drop":
		return nil
	case "senderr":
		s.broken = true
		return errors.New("injected send failure")
	}
	box.ch <- msg
	return nil
}

func (r *fakeRelay) SendStream(ctx context.Context, _ ...grpc.CallOption) (hashmailrpc.HashMail_SendStreamClient, error) {
	r.mu.Lock()
	r.streams++
	down := r.unreachable
	r.mu.Unlock()
	if down {
		return nil, errors.New("relay unreachable")
	}
	return &relaySend{dummyStream: dummyStream{ctx}, r: r}, nil
}

type relayRecv struct {
	dummyStream
	r      *fakeRelay
	id     string
	closed chan struct{}
	once   sync.Once
}

func (s *relayRecv) CloseSend() error {
	s.once.Do(func() { close(s.closed) })
	return s.r.closeErr()
}
func (s *relayRecv) Recv() (*hashmailrpc.CipherBox, error) {
	r := s.r
	r.mu.Lock()
	box, ok := r.boxes[s.id]
	if ok && r.recvErr[s.id] > 0 {
		r.recvErr[s.id]--
		r.mu.Unlock()
		return nil, errors.New("injected receive failure")
	}
	r.mu.Unlock()
	if !ok {
		return nil, errors.New("stream not found")
	}
	select {
	case m := <-box.ch:
		return &hashmailrpc.CipherBox{Desc: &hashmailrpc.CipherBoxDesc{StreamId: []byte(s.id)}, Msg: m}, nil
	case <-s.ctx.Done():
		return nil, s.ctx.Err()
	case <-s.closed:
		return nil, io.EOF
	}
}

func (r *fakeRelay) RecvStream(ctx context.Context, in *hashmailrpc.CipherBoxDesc, _ ...grpc.CallOption) (hashmailrpc.HashMail_RecvStreamClient, error) {
	r.mu.Lock()
	r.streams++
	r.mu.Unlock()
	return &relayRecv{dummyStream: dummyStream{ctx}, r: r, id: string(in.StreamId), closed: make(chan struct{})}, nil
}

// inject puts a message into an existing mailbox (as if a sender had left it there); false if there is none.
func (r *fakeRelay) inject(id string, msg []byte) bool {
	r.mu.Lock()
	box, ok := r.boxes[id]
	r.mu.Unlock()
	if !ok {
		return false
	}
	select {
	case box.ch <- append([]byte{}, msg...):
		return true
	default:
		return false
	}
}

func (r *fakeRelay) streamIDs() []string {
	r.mu.Lock()
	defer r.mu.Unlock()
	m := map[string]bool{}
	var out []string
	for _, s := range r.seen {
		if !m[s.stream] {
			m[s.stream] = true
			out = append(out, s.stream)
		}
	}
	return out
}

var _ hashmailrpc.HashMailClient = (*fakeRelay)(nil)

func (r *fakeRelay) String() string {
	return fmt.Sprintf("relay(%d boxes, %d messages)", len(r.boxes), len(r.seen))
}
