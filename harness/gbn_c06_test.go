package harness

import (
	"fmt"
	"runtime"
	"testing"
	"time"
)

// C06: progress. A finite fault prefix, then a reliable transport with a fixed
// latency below the resend timeout. Every accepted message must be delivered
// within a bound; the connection must not stall silently; once everything is
// acknowledged it must stop retransmitting.
func TestGenC06(t *testing.T) {
	r := newRng(seed())
	o := newOut(t, "c06_hist.txt")
	defer o.close()
	q := newOracle(t, "c06")
	defer q.close()
	l := &evlog{o: o}
	id := 0
	type sc struct {
		class     string
		n         int
		lat       time.Duration
		keepalive bool
		static    bool
		bidir     bool
		tailLoss  bool
		chatter   time.Duration // the peer sends a message every `chatter` (0 = off)
		faults    int
	}
	var scs []sc
	for _, n := range []int{1, 2, 3, 20, 254} {
		for _, lat := range []time.Duration{0, 100 * time.Millisecond, 900 * time.Millisecond} {
			for v := 0; v < 4; v++ {
				scs = append(scs, sc{class: "faults-then-reliable", n: n, lat: lat, keepalive: v&1 == 1, static: v&2 == 2, bidir: r.chance(1, 2), faults: 5 + r.intn(30)})
			}
			scs = append(scs, sc{class: "tail-loss", n: n, lat: lat, tailLoss: true, static: true})
			scs = append(scs, sc{class: "tail-loss-with-inbound-traffic", n: n, lat: lat, tailLoss: true, static: true, chatter: 500 * time.Millisecond})
			scs = append(scs, sc{class: "tail-loss-with-inbound-traffic", n: n, lat: lat, tailLoss: true, keepalive: true, chatter: 400 * time.Millisecond})
		}
	}
	for _, c := range scs {
		id++
		rr := r.sub(id)
		cfg := simCfg{id: fmt.Sprintf("p%d", id), n: uint8(c.n)}
		if c.static {
			cfg.static = time.Second
		}
		if c.keepalive {
			cfg.ping, cfg.pong = 5*time.Second, 3*time.Second
		}
		if id%3 == 0 {
			cfg.hsTO = 2 * time.Second // the mailbox's setting: above the 1 s resend timeout
		}
		l.keep = l.keep[:0]
		l.o.line("BEGIN %s n=%d chunk=0 class=%s", cfg.id, c.n, c.class)
		pan := bubble(t, func(t *testing.T) {
			l.start = time.Now()
			l.last = 0
			base := runtime.NumGoroutine()
			s := newSim(t, l, cfg)
			if !s.cleanHandshake() {
				q.fail("c06:handshake", cfg.id)
				s.finish(base)
				return
			}
			nmsg := 3 + rr.intn(6)
			todo := [2]int{nmsg, 0}
			if c.bidir {
				todo[1] = 1 + rr.intn(5)
			}
			sentN := [2]int{}
			pump := func(faulty bool, dataSeen *int, dropData int) {
				// applies per-packet latency; in the fault phase drops / duplicates at random
				for x := 0; x < 2; x++ {
					for s.canOp(x) && s.headAge(x) >= c.lat {
						what := "deliver"
						if faulty {
							switch v := rr.intn(10); {
							case v < 3:
								what = "drop"
							case v < 5:
								what = "keep"
							}
						}
						if dropData > 0 && x == 0 && isData(s.head(0)) {
							*dataSeen++
							if *dataSeen == dropData {
								what = "drop"
							}
						}
						s.op(x, what)
					}
				}
			}
			startSend := func(x int) {
				if sb, _ := s.busy(x); !sb && sentN[x] < todo[x] {
					s.send(x, []byte{byte(x), byte(sentN[x]), 7})
					sentN[x]++
				}
			}
			keepRecv := func() {
				for x := 0; x < 2; x++ {
					if _, rb := s.busy(x); !rb && !isClosedQuick(s, x) {
						s.recv(x)
					}
				}
			}
			ds := 0
			dropData := 0
			if c.tailLoss {
				dropData = nmsg // the first transmission of the last packet of the burst is lost
			}
			// fault prefix
			decisions := 0
			for decisions < c.faults && !c.tailLoss {
				startSend(0)
				startSend(1)
				keepRecv()
				before := s.txTotal()
				pump(true, &ds, 0)
				decisions++
				if s.txTotal() == before {
					s.advance(100 * time.Millisecond)
				}
			}
			// reliable suffix
			l.ev("RELIABLE")
			t0 := time.Now()
			bound := 90 * time.Second
			lastChat := time.Now()
			chatN := 0
			delivered := func() bool {
				return len(s.recvMsgs[1]) >= todo[0] && len(s.recvMsgs[0]) >= todo[1]+chatN && sentN[0] == todo[0] && sentN[1] == todo[1]
			}
			for time.Since(t0) < bound+30*time.Second {
				startSend(0)
				startSend(1)
				keepRecv()
				if c.chatter > 0 && time.Since(lastChat) >= c.chatter && len(s.recvMsgs[1]) < todo[0] {
					if sb, _ := s.busy(1); !sb {
						s.send(1, []byte{0xCC, byte(chatN)})
						chatN++
						lastChat = time.Now()
					}
				}
				pump(false, &ds, dropData)
				if delivered() {
					break
				}
				if isClosedQuick(s, 0) || isClosedQuick(s, 1) {
					break
				}
				s.advance(50 * time.Millisecond)
			}
			took := time.Since(t0)
			closed := isClosedQuick(s, 0) || isClosedQuick(s, 1)
			okDelivered := len(s.recvMsgs[1]) >= todo[0] && len(s.recvMsgs[0]) >= todo[1]
			l.ev("DELIVERED %d", b2i(okDelivered))
			key := "c06:not-delivered-within-bound:" + c.class
			if !c.keepalive {
				q.check(!closed, "c06:closed-without-keepalive:"+c.class, func() string {
					return fmt.Sprintf("scenario %s (%+v): a connection without keepalive closed itself", cfg.id, c)
				})
			}
			q.check((okDelivered && took <= bound) || (closed && c.keepalive), key, func() string {
				return fmt.Sprintf("scenario %s (%+v): after the transport became reliable (latency %v) %d/%d and %d/%d messages were delivered in %v (bound %v), closed=%v; last events %v",
					cfg.id, c, c.lat, len(s.recvMsgs[1]), todo[0], len(s.recvMsgs[0]), todo[1], took, bound, closed, lastN(l.keep, 25))
			})
			// quiescence: after everything is delivered and acknowledged, no DATA except pings
			if okDelivered && !closed {
				for k := 0; k < 200; k++ {
					pump(false, &ds, 0)
					s.advance(50 * time.Millisecond)
				}
				mark := len(l.keep)
				l.ev("QUIESCENT")
				for k := 0; k < 300; k++ {
					pump(false, &ds, 0)
					s.advance(100 * time.Millisecond)
				}
				extra := 0
				l.mu.Lock()
				for _, e := range l.keep[min(mark, len(l.keep)):] {
					var x int
					var h string
					if n, _ := fmt.Sscanf(e, "TX %d %s", &x, &h); n == 2 && len(h) >= 8 && h[:2] == "02" && h[6:8] != "01" {
						extra++
					}
				}
				l.mu.Unlock()
				q.check(extra == 0, "c06:retransmits-after-everything-acknowledged:"+c.class, func() string {
					return fmt.Sprintf("scenario %s (%+v): %d non-ping DATA transmissions during 30 s after all messages had been delivered and acknowledged", cfg.id, c, extra)
				})
			}
			s.finish(base)
		})
		l.o.line("END %s", cfg.id)
		if pan != "" {
			q.fail("c06:bubble-panic", cfg.id+": "+truncate(pan, 300))
		}
		q.stat("class_"+c.class, 1)
		q.stat("distinct_nontrivial", 1)
	}
	q.sample("N in {1,2,3,20,254} x latency {0,100ms,900ms} x {keepalive,static} x {unidirectional,bidirectional}: random fault prefix then reliable; tail loss of the last packet of a burst, alone and with the peer sending a message every 400-500 ms")
}

// isClosedQuick does not disturb a pending Recv.
func isClosedQuick(s *sim, x int) bool {
	if s.conn[x] == nil {
		return true
	}
	if s.closed[x] {
		return true
	}
	if _, rb := s.busy(x); rb {
		return false
	}
	return isClosed(s, x)
}
