package harness

import (
	"bytes"
	"context"
	"fmt"
	"runtime"
	"sync"
	"testing"
	"time"

	"github.com/lightninglabs/lightning-node-connect/gbn"
)

// C14, deadline half: Send / Recv deadlines expiring inside a chunked message,
// followed by a retry of the call that timed out.
func TestGenC14Timeouts(t *testing.T) {
	r := newRng(seed())
	o := newOut(t, "c14t_hist.txt")
	defer o.close()
	q := newOracle(t, "c14t")
	defer q.close()
	l := &evlog{o: o}
	id := 0
	for _, chunk := range []int{1, 2, 3, 5} {
		for _, nchunks := range []int{2, 3, 4} {
			for cut := 1; cut < nchunks; cut++ { // the deadline expires after `cut` chunks
				for _, kind := range []string{"recv", "send"} {
					id++
					msg := r.sub(id).bytes(chunk*(nchunks-1) + 1 + r.intn(chunk))
					next := []byte("next-message")
					n := 20
					if kind == "send" {
						n = cut // the window admits exactly `cut` chunks
					}
					cfg := simCfg{id: fmt.Sprintf("t%d", id), n: uint8(n), chunk: chunk, static: time.Second}
					l.keep = l.keep[:0]
					l.o.line("BEGIN %s n=%d chunk=%d", cfg.id, n, chunk)
					pan := bubble(t, func(t *testing.T) {
						l.start = time.Now()
						l.last = 0
						base := runtime.NumGoroutine()
						s := newSim(t, l, cfg)
						if !s.cleanHandshake() {
							q.fail("c14:handshake", cfg.id)
							s.finish(base)
							return
						}
						deliverAll := func() {
							for k := 0; k < 400; k++ {
								moved := false
								for x := 0; x < 2; x++ {
									for s.canOp(x) {
										s.op(x, "deliver")
										moved = true
									}
								}
								if !moved {
									return
								}
							}
						}
						if kind == "recv" {
							s.conn[1].SetRecvTimeout(time.Second)
							s.send(0, msg)
							// deliver exactly `cut` DATA packets
							for k := 0; k < cut; k++ {
								if s.canOp(0) {
									s.op(0, "deliver")
								}
							}
							s.recv(1) // consumes `cut` chunks, then waits
							s.advance(2 * time.Second)
							_, rb := s.busy(1)
							q.check(!rb && len(s.recvMsgs[1]) == 0, "c14:recv-did-not-time-out", func() string { return cfg.id })
							s.conn[1].SetRecvTimeout(time.Hour)
							deliverAll()
							s.advance(3 * time.Second)
							deliverAll()
							s.recv(1) // the retry
							deliverAll()
							s.send(0, next)
							deliverAll()
							s.recv(1)
							deliverAll()
						} else {
							s.conn[0].SetSendTimeout(time.Second)
							s.send(0, msg) // `cut` chunks fit the window, the next blocks; peer mute
							s.advance(2 * time.Second)
							sb, _ := s.busy(0)
							q.check(!sb && !s.sendOK[0][0], "c14:send-did-not-time-out", func() string { return cfg.id })
							s.conn[0].SetSendTimeout(time.Hour)
							s.send(0, msg) // the retry
							pump := func(until func() bool) {
								for k := 0; k < 200 && !until(); k++ {
									deliverAll()
									if _, rb := s.busy(1); !rb && len(s.recvMsgs[1]) < 2 {
										s.recv(1)
									}
									deliverAll()
									if !until() {
										s.advance(500 * time.Millisecond)
									}
								}
							}
							pump(func() bool { sb, _ := s.busy(0); return !sb })
							if sb, _ := s.busy(0); sb {
								q.fail("c14:retry-send-stuck", cfg.id)
								s.finish(base)
								return
							}
							s.send(0, next)
							pump(func() bool { return len(s.recvMsgs[1]) >= 2 })
						}
						// oracle: every Recv result is one of the messages whose Send succeeded,
						// in order, nothing merged / split / altered
						var okSent [][]byte
						for i, m := range s.sentMsgs[0] {
							if s.sendOK[0][i] {
								okSent = append(okSent, m)
							}
						}
						good := len(s.recvMsgs[1]) == len(okSent)
						for i := 0; good && i < len(okSent); i++ {
							good = bytes.Equal(s.recvMsgs[1][i], okSent[i])
						}
						key := "c14:recv-timeout-retry-alters-message"
						if kind == "send" {
							key = "c14:send-timeout-retry-merges-partial-message"
						}
						q.check(good, key, func() string {
							return fmt.Sprintf("scenario=%s chunk=%d chunks=%d deadline after %d chunk(s): successful Sends %v (lengths), Recv results %v (lengths); first result %x vs message %x",
								cfg.id, chunk, nchunks, cut, lens(okSent), lens(s.recvMsgs[1]), first(s.recvMsgs[1]), msg)
						})
						s.finish(base)
					})
					l.o.line("END %s", cfg.id)
					if pan != "" {
						q.fail("gbn:bubble-panic", cfg.id+": "+truncate(pan, 300))
					}
					q.stat("distinct_nontrivial", 1)
					q.stat("deadline_"+kind, 1)
				}
			}
		}
	}
	// Send may be called from several goroutines (C18): with chunking every successful Send still produces exactly
	// one Recv result with identical bytes. Two senders per side, two receivers on the other, a pair of endpoints
	// joined by plain channels (no event log: the monitor's model has one Send at a time).
	for _, chunk := range []int{16, 0} {
		ok, detail := concurrentSendScenario(chunk)
		q.check(ok, "c14:concurrent-sends-interleave-their-chunks", func() string { return detail })
		q.stat("concurrent_send_scenarios", 1)
		q.stat("distinct_nontrivial", 1)
	}
	q.sample(fmt.Sprintf("chunk sizes 1,2,3,5 x 2..4 chunks x deadline after each chunk boundary x {Recv, Send} deadline; last: %v", firstN(l.keep, 16)))
}

func concurrentSendScenario(chunk int) (bool, string) {
	ctx, cancel := context.WithCancel(context.Background())
	defer cancel()
	ab, ba := make(chan []byte, 65536), make(chan []byte, 65536)
	mk := func(out, in chan []byte) (func(context.Context, []byte) error, func(context.Context) ([]byte, error)) {
		return func(ctx context.Context, b []byte) error {
				select {
				case out <- append([]byte{}, b...):
					return nil
				case <-ctx.Done():
					return ctx.Err()
				}
			}, func(ctx context.Context) ([]byte, error) {
				select {
				case b := <-in:
					return b, nil
				case <-ctx.Done():
					return nil, ctx.Err()
				}
			}
	}
	var opts []gbn.Option
	if chunk > 0 {
		opts = append(opts, gbn.WithMaxSendSize(chunk))
	}
	var srv, cli *gbn.GoBackNConn
	var e1, e2 error
	var wg sync.WaitGroup
	wg.Add(2)
	go func() { defer wg.Done(); s, r := mk(ba, ab); srv, e1 = gbn.NewServerConn(ctx, s, r, opts...) }()
	go func() { defer wg.Done(); s, r := mk(ab, ba); cli, e2 = gbn.NewClientConn(ctx, 20, s, r, opts...) }()
	wg.Wait()
	if e1 != nil || e2 != nil {
		return false, fmt.Sprintf("handshake: %v / %v", e1, e2)
	}
	defer func() { _ = cli.Close(); _ = srv.Close() }()
	const perSender, size = 20, 800
	var snd sync.WaitGroup
	for k := 0; k < 2; k++ {
		snd.Add(1)
		go func(k int) {
			defer snd.Done()
			for i := 0; i < perSender; i++ {
				if err := cli.Send(bytes.Repeat([]byte{byte('A' + k)}, size)); err != nil {
					return
				}
			}
		}(k)
	}
	bad, got := "", 0
	var mu sync.Mutex
	var rcv sync.WaitGroup
	srv.SetRecvTimeout(3 * time.Second)
	for k := 0; k < 2; k++ {
		rcv.Add(1)
		go func() {
			defer rcv.Done()
			for {
				mu.Lock()
				done := got >= 2*perSender
				mu.Unlock()
				if done {
					return
				}
				m, err := srv.Recv()
				if err != nil {
					return
				}
				mu.Lock()
				got++
				uniform := len(m) == size
				for _, b := range m {
					if b != m[0] {
						uniform = false
					}
				}
				if !uniform && bad == "" {
					na := bytes.Count(m, []byte("A"))
					bad = fmt.Sprintf("a Recv result of %d bytes with %d x 'A' and %d x 'B'", len(m), na, len(m)-na)
				}
				mu.Unlock()
			}
		}()
	}
	snd.Wait()
	rcv.Wait()
	if bad != "" || got != 2*perSender {
		return false, fmt.Sprintf("chunk size %d, two goroutines each Send %d messages of %d x 'A' resp. 'B', two goroutines Recv: %d results; %s", chunk, perSender, size, got, bad)
	}
	return true, ""
}

func first(ms [][]byte) []byte {
	if len(ms) == 0 {
		return nil
	}
	return ms[0]
}
