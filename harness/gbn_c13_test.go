package harness

import (
	"context"
	"fmt"
	"runtime"
	"strings"
	"sync"
	"sync/atomic"
	"testing"
	"testing/synctest"
	"time"

	"github.com/btcsuite/btclog/v2"
	"github.com/lightninglabs/lightning-node-connect/gbn"
)

// C13: keepalive. (a) dead peer: the transport goes silent with 0 .. more than N
// messages queued; the local endpoint must close within ping + pong + slack.
// (b) live idle peer: every ping answered, idle for a long time: never closed.
// The timed event log is also replayed through the keepalive monitor (Model/GbnTimed.v).
func TestGenC13(t *testing.T) {
	r := newRng(seed())
	o := newOut(t, "c13_hist.txt")
	defer o.close()
	q := newOracle(t, "c13")
	defer q.close()
	l := &evlog{o: o}
	id := 0
	settings := [][2]time.Duration{{5 * time.Second, 3 * time.Second}, {7 * time.Second, 3 * time.Second}, {time.Second, time.Second}, {2 * time.Second, 5 * time.Second}}
	for _, pp := range settings {
		for _, n := range []int{1, 3, 20} {
			queued := []int{0, 1, n - 1, n, n + 3}
			for _, qd := range queued {
				if qd < 0 {
					continue
				}
				for _, offset := range []time.Duration{0, 300 * time.Millisecond, pp[0] / 2, pp[0] - time.Millisecond} {
					id++
					cfg := simCfg{id: fmt.Sprintf("d%d", id), n: uint8(n), ping: pp[0], pong: pp[1], static: time.Second}
					l.keep = l.keep[:0]
					l.o.line("BEGIN %s n=%d chunk=0 ping=%d pong=%d class=dead", cfg.id, n, int64(pp[0]), int64(pp[1]))
					pan := bubble(t, func(t *testing.T) {
						l.start = time.Now()
						l.last = 0
						base := runtime.NumGoroutine()
						s := newSim(t, l, cfg)
						if !s.cleanHandshake() {
							q.fail("c13:handshake", cfg.id)
							s.finish(base)
							return
						}
						// some normal traffic first, then idle for `offset`, then the peer dies
						s.recv(1)
						s.send(0, []byte("warm-up"))
						for k := 0; k < 6; k++ {
							for x := 0; x < 2; x++ {
								for s.canOp(x) {
									s.op(x, "deliver")
								}
							}
						}
						s.advance(offset)
						silentFrom := time.Now()
						l.ev("SILENT")
						// queue `qd` messages with a dead transport (nothing is delivered any more)
						sentAll := 0
						for k := 0; k < qd; k++ {
							if sb, _ := s.busy(0); sb {
								break
							}
							s.send(0, []byte{byte(k), 9})
							sentAll++
						}
						deadline := pp[0] + pp[1] + 40*time.Second // ping + pong + slack for retransmission sync waits in progress (3 x boosted resend timeout each)
						closedAt := time.Duration(-1)
						for time.Since(silentFrom) < deadline+60*time.Second {
							s.advance(250 * time.Millisecond)
							if isClosed(s, 0) {
								closedAt = time.Since(silentFrom)
								break
							}
						}
						l.ev("CLOSED %d", b2i(closedAt >= 0))
						q.check(closedAt >= 0 && closedAt <= deadline, fmt.Sprintf("c13:dead-peer-not-detected:queued=%s", qclass(qd+1, n)), func() string {
							return fmt.Sprintf("scenario %s: n=%d ping=%v pong=%v, %d message(s) queued when the transport went silent (%v after the last packet): closed after %v (bound %v)",
								cfg.id, n, pp[0], pp[1], qd, offset, closedAt, deadline)
						})
						s.finish(base)
					})
					l.o.line("END %s", cfg.id)
					if pan != "" {
						q.fail("c13:bubble-panic", cfg.id+": "+truncate(pan, 300))
					}
					q.stat("dead_peer_scenarios", 1)
					q.stat("distinct_nontrivial", 1)
				}
			}
		}
	}
	// live idle peer: all packets delivered after a latency below the pong timeout
	for _, pp := range settings {
		// one-way latencies; the response to a ping takes two of them and stays below the pong timeout
		for li, lat := range []time.Duration{0, 100 * time.Millisecond, pp[1]/2 - time.Millisecond, pp[1] / 4, 0, 100 * time.Millisecond} {
			// the last two rounds: every second ACK is lost (the answer to a ping then is the NACK that the
			// retransmitted ping draws); only where the pong timeout leaves room for a retransmission (1 s)
			lossyAcks := li >= 4
			if lossyAcks && pp[1] < 2500*time.Millisecond {
				continue
			}
			id++
			cfg := simCfg{id: fmt.Sprintf("a%d", id), n: 3, ping: pp[0], pong: pp[1]}
			if lossyAcks {
				// a static resend timeout: with the adaptive one every lost ACK boosts the timeout (samples are rare),
				// until a retransmission comes later than the pong timeout and a lost answer legitimately closes
				cfg.static = time.Second
			}
			l.keep = l.keep[:0]
			l.o.line("BEGIN %s n=3 chunk=0 ping=%d pong=%d class=alive", cfg.id, int64(pp[0]), int64(pp[1]))
			idle := time.Duration(scale(600, 3600)) * time.Second
			pan := bubble(t, func(t *testing.T) {
				l.start = time.Now()
				l.last = 0
				base := runtime.NumGoroutine()
				s := newSim(t, l, cfg)
				if !s.cleanHandshake() {
					q.fail("c13:handshake", cfg.id)
					s.finish(base)
					return
				}
				start := time.Now()
				closed := false
				acks := 0
				for time.Since(start) < idle && !closed {
					// every packet is delivered exactly `lat` after it was transmitted
					moved := false
					for x := 0; x < 2; x++ {
						for s.canOp(x) && s.headAge(x) >= lat {
							what := "deliver"
							if h := s.head(x); lossyAcks && len(h) == 2 && h[0] == 3 {
								acks++
								if acks%2 == 1 {
									what = "drop"
								}
							}
							s.op(x, what)
							moved = true
						}
					}
					if !moved {
						step := 50 * time.Millisecond
						for x := 0; x < 2; x++ {
							if a := s.headAge(x); a >= 0 && lat-a > 0 && lat-a < step {
								step = lat - a
							}
						}
						s.advance(step)
					}
					if time.Since(start)%(20*time.Second) < 60*time.Millisecond {
						closed = isClosed(s, 0) || isClosed(s, 1)
					}
				}
				closed = closed || isClosed(s, 0) || isClosed(s, 1)
				q.check(!closed, "c13:live-peer-closed", func() string {
					return fmt.Sprintf("scenario %s: ping=%v pong=%v latency=%v every-second-ACK-lost=%v: an idle connection whose pings are all answered was closed after %v; last events %v",
						cfg.id, pp[0], pp[1], lat, lossyAcks, time.Since(start), lastN(l.keep, 30))
				})
				s.finish(base)
			})
			l.o.line("END %s", cfg.id)
			if pan != "" {
				q.fail("c13:bubble-panic", cfg.id+": "+truncate(pan, 300))
			}
			q.stat("live_peer_scenarios", 1)
			if lossyAcks {
				q.stat("live_peer_scenarios_with_lost_acks", 1)
			}
			q.stat("distinct_nontrivial", 1)
		}
	}
	// (b2) live peer, window freed without the send loop being told at the usual moment: (i) the ACKs of a full
	// window are lost and an in-order duplicate draws NACK(top), which empties the window; (ii) all ACKs are processed
	// in the gap between the send loop's window test and its wait (gap held open through the package logger). From
	// then on the transport is perfect and the peer answers everything at once: the connection is never closed.
	for _, variant := range []string{"nack-top", "ack-in-the-gap"} {
		for _, n := range []int{1, 2, 3} {
			id++
			cfg := simCfg{id: fmt.Sprintf("w%d", id), n: uint8(n), ping: time.Second, pong: 500 * time.Millisecond, static: 5 * time.Second, srvNoPing: true}
			l.keep = l.keep[:0]
			l.o.line("BEGIN %s n=%d chunk=0 ping=%d pong=%d class=alive", cfg.id, n, int64(cfg.ping), int64(cfg.pong))
			pan := bubble(t, func(t *testing.T) {
				l.start = time.Now()
				l.last = 0
				base := runtime.NumGoroutine()
				s := newSim(t, l, cfg)
				var armed, fired atomic.Bool
				if variant == "ack-in-the-gap" {
					gbn.UseLogger(&hookLogger{Logger: btclog.Disabled, hook: func(prefix, format string) {
						if !strings.Contains(prefix, "client") || format != "The queue is full." || !armed.CompareAndSwap(true, false) {
							return
						}
						for k := 0; k < n; k++ {
							s.opNoWait(0, "deliver")
							for s.chanLen(1) == 0 {
								time.Sleep(time.Microsecond)
							}
							before := s.rxCalls[0].Load()
							s.opNoWait(1, "deliver")
							for s.rxCalls[0].Load() == before {
								time.Sleep(time.Microsecond)
							}
						}
						fired.Store(true)
					}})
					defer gbn.UseLogger(btclog.Disabled)
				}
				if !s.cleanHandshake() {
					q.fail("c13:handshake", cfg.id)
					s.finish(base)
					return
				}
				for i := 0; i < n; i++ {
					s.recv(1)
				}
				if variant == "nack-top" {
					for i := 0; i < n; i++ {
						s.send(0, []byte{byte(i), 7})
					}
					for i := 0; i < n; i++ {
						if i == n-1 {
							s.op(0, "keep")
						}
						s.op(0, "deliver")
					}
					for i := 0; i < n && s.chanLen(1) > 1; i++ {
						s.op(1, "drop")
					}
				} else {
					for i := 0; i < n; i++ {
						if i == n-1 {
							armed.Store(true)
						}
						s.send(0, []byte{byte(i), 9})
					}
					for k := 0; k < 10000 && !fired.Load(); k++ {
						s.advance(time.Microsecond)
					}
				}
				start := time.Now()
				closed := false
				for time.Since(start) < 20*time.Second && !closed {
					moved := false
					for x := 0; x < 2; x++ {
						for s.canOp(x) {
							s.op(x, "deliver")
							moved = true
						}
					}
					if !moved {
						s.advance(50 * time.Millisecond)
					}
					closed = isClosed(s, 0) || isClosed(s, 1)
				}
				q.check(!closed, "c13:live-peer-closed:window-freed-"+variant, func() string {
					return fmt.Sprintf("scenario %s: n=%d ping=1s pong=0.5s (client only) resend=5s, %s, then a perfect transport and a peer that answers at once: closed after %v; last events %v",
						cfg.id, n, variant, time.Since(start), lastN(noPolls(l.keep), 24))
				})
				s.finish(base)
			})
			l.o.line("END %s", cfg.id)
			if pan != "" {
				q.fail("c13:bubble-panic", cfg.id+": "+truncate(pan, 300))
			}
			q.stat("live_peer_scenarios", 1)
			q.stat("live_peer_window_freed_"+variant, 1)
			q.stat("distinct_nontrivial", 1)
		}
	}
	// (b3) live peers whose applications are not receiving for a while: each side has sent the other n+1 messages,
	// nobody calls Recv; every packet (pings and their answers included) is delivered at once. Keepalive must not
	// close the connection: the peer answers every ping within microseconds. (n >= 3: with n <= 2 the packet that
	// found no room at the receiver and the ping fill the sender's window, no further ping can be sent, and the
	// retransmissions of that packet are not answered while the peer's application is not receiving: the premise
	// "the peer answers" does not hold then.)
	for _, n := range []int{3, 5} {
		id++
		cfg := simCfg{id: fmt.Sprintf("u%d", id), n: uint8(n), ping: time.Second, pong: 500 * time.Millisecond, static: 2 * time.Second}
		l.keep = l.keep[:0]
		l.o.line("BEGIN %s n=%d chunk=0 ping=%d pong=%d class=alive", cfg.id, n, int64(cfg.ping), int64(cfg.pong))
		pan := bubble(t, func(t *testing.T) {
			l.start = time.Now()
			l.last = 0
			base := runtime.NumGoroutine()
			s := newSim(t, l, cfg)
			if !s.cleanHandshake() {
				q.fail("c13:handshake", cfg.id)
				s.finish(base)
				return
			}
			deliverAll := func() {
				for k := 0; k < 200; k++ {
					moved := false
					for x := 0; x < 2; x++ {
						if s.canOp(x) {
							s.op(x, "deliver")
							moved = true
						}
					}
					if !moved {
						return
					}
				}
			}
			for i := 0; i <= n; i++ {
				for x := 0; x < 2; x++ {
					deliverAll()
					if sb, _ := s.busy(x); !sb {
						s.send(x, []byte{byte(0xA0 + x), byte(i)})
					}
				}
			}
			start := time.Now()
			closed := false
			for time.Since(start) < 12*time.Second && !closed {
				deliverAll()
				s.advance(50 * time.Millisecond)
				for x := 0; x < 2; x++ {
					for _, e := range l.keep[max(0, len(l.keep)-6):] {
						if e == fmt.Sprintf("TX %d 05", x) {
							closed = true
						}
					}
				}
			}
			q.check(!closed, "c13:live-peer-closed:application-not-receiving", func() string {
				return fmt.Sprintf("scenario %s: n=%d ping=1s pong=0.5s; each side sent %d messages, no Recv is called; every packet is delivered at once: a FIN was sent after %v; last events %v", cfg.id, n, n+1, time.Since(start), lastN(l.keep, 16))
			})
			s.finish(base)
		})
		l.o.line("END %s", cfg.id)
		if pan != "" {
			q.fail("c13:bubble-panic", cfg.id+": "+truncate(pan, 300))
		}
		q.stat("live_peer_scenarios", 1)
		q.stat("live_peer_application_not_receiving", 1)
		q.stat("distinct_nontrivial", 1)
	}
	_ = r
	_ = synctest.Wait
	// (c) rendezvous transport, real time: a send returns only when the peer has taken the packet, and for a ping
	// only after the peer's ACK has come back and been processed. A live peer that answers at once is never closed,
	// whatever the order in which the two goroutines of the endpoint get to run (ping interval > pong timeout).
	for _, pp := range [][2]time.Duration{{400 * time.Millisecond, 150 * time.Millisecond}, {300 * time.Millisecond, 250 * time.Millisecond}} {
		ctx, cancel := context.WithCancel(context.Background())
		var inbox [2]chan []byte
		inbox[0], inbox[1] = make(chan []byte), make(chan []byte)
		var ackSeen [2]chan struct{}
		ackSeen[0], ackSeen[1] = make(chan struct{}, 64), make(chan struct{}, 64)
		mk := func(x int) (func(context.Context, []byte) error, func(context.Context) ([]byte, error)) {
			return func(ctx context.Context, b []byte) error {
					c := append([]byte{}, b...)
					select {
					case inbox[1-x] <- c:
					case <-ctx.Done():
						return ctx.Err()
					}
					if len(c) == 4 && c[0] == 2 && c[3] == 1 { // a ping: wait for its ACK to have been handled
						select {
						case <-ackSeen[x]:
							time.Sleep(5 * time.Millisecond)
						case <-time.After(100 * time.Millisecond):
						case <-ctx.Done():
						}
					}
					return nil
				}, func(ctx context.Context) ([]byte, error) {
					select {
					case b := <-inbox[x]:
						if len(b) == 2 && b[0] == 3 {
							select {
							case ackSeen[x] <- struct{}{}:
							default:
							}
						}
						return b, nil
					case <-ctx.Done():
						return nil, ctx.Err()
					}
				}
		}
		var conns [2]*gbn.GoBackNConn
		var hs sync.WaitGroup
		hs.Add(2)
		go func() {
			defer hs.Done()
			sf, rf := mk(1)
			if c, err := gbn.NewServerConn(ctx, sf, rf); err == nil {
				conns[1] = c
			}
		}()
		go func() {
			defer hs.Done()
			sf, rf := mk(0)
			if c, err := gbn.NewClientConn(ctx, 3, sf, rf, gbn.WithTimeoutOptions(gbn.WithKeepalivePing(pp[0], pp[1]))); err == nil {
				conns[0] = c
			}
		}()
		hs.Wait()
		q.stat("rendezvous_cases", 1)
		if conns[0] == nil || conns[1] == nil {
			q.fail("c13:setup-handshake-failed", "rendezvous transport")
			cancel()
			continue
		}
		time.Sleep(3*pp[0] + 2*pp[1]) // several ping rounds on an idle link
		err := conns[0].Send([]byte("still-there"))
		q.check(err == nil, "c13:live-peer-closed:rendezvous-transport", func() string {
			return fmt.Sprintf("ping %v pong %v, the peer ACKs every ping before the ping's send call returns: after %v of idling Send fails with %v", pp[0], pp[1], 3*pp[0]+2*pp[1], err)
		})
		cancel()
		_ = conns[0].Close()
		_ = conns[1].Close()
	}
	q.sample("dead peer: (ping,pong) in {(5,3),(7,3),(1,1),(2,5)} s x N in {1,3,20} x queued in {0,1,N-1,N,N+3} x silence offset {0,0.3 s,ping/2,ping-1ms}; live peer: idle 600 s (1 h thorough) with one-way latencies {0,100ms,pong/4,pong/2-1ms}")
}

// qclass: does the window still have a free slot once the ping itself is queued?
func qclass(withPing, n int) string {
	if withPing <= n-1 {
		return "window-has-room"
	}
	if withPing == n {
		return "ping-fills-window"
	}
	return "window-full-before-ping"
}

// noPolls drops the harness's own is-it-closed probes (a Recv with a 1 ns timeout) from an event list
func noPolls(l []string) []string {
	var out []string
	for _, e := range l {
		if strings.HasPrefix(e, "RC ") || strings.HasSuffix(e, "err:recv-timeout") {
			continue
		}
		out = append(out, e)
	}
	return out
}

func lastN(l []string, n int) []string {
	if len(l) > n {
		return l[len(l)-n:]
	}
	return l
}

// isClosed: the connection has shut itself down (its calls fail at once). The probe is a
// Recv with a 1 ns deadline; a message it happens to obtain is recorded like any other.
func isClosed(s *sim, x int) bool {
	if s.conn[x] == nil {
		return true
	}
	if _, rb := s.busy(x); rb {
		return false
	}
	s.conn[x].SetRecvTimeout(time.Nanosecond)
	s.l.ev("RC %d", x)
	b, err := s.conn[x].Recv()
	s.conn[x].SetRecvTimeout(time.Hour)
	if err == nil {
		s.mu.Lock()
		s.recvMsgs[x] = append(s.recvMsgs[x], append([]byte{}, b...))
		s.recvRaw[x] = append(s.recvRaw[x], b)
		s.mu.Unlock()
		s.l.ev("RR %d ok %s", x, hx(b))
		return false
	}
	s.l.ev("RR %d %s", x, errEnum(err))
	return errEnum(err) != "err:recv-timeout"
}
