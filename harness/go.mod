module verif/harness

go 1.26.8

require (
	github.com/btcsuite/btcd/btcec/v2 v2.3.4
	github.com/btcsuite/btclog/v2 v2.0.1-0.20250110154127-3ae4bf1cb318
	github.com/coder/websocket v1.8.13
	github.com/grpc-ecosystem/grpc-gateway/v2 v2.16.0
	github.com/lightninglabs/lightning-node-connect/gbn v1.0.0
	github.com/lightninglabs/lightning-node-connect/hashmailrpc v1.0.2
	github.com/lightninglabs/lightning-node-connect/mailbox v0.0.0
	github.com/lightningnetwork/lnd v0.19.0-beta
	golang.org/x/crypto v0.35.0
	google.golang.org/grpc v1.59.0
	google.golang.org/protobuf v1.33.0
)

require (
	github.com/Yawning/aez v0.0.0-20211027044916-e49e68abd344 // indirect
	github.com/aead/siphash v1.0.1 // indirect
	github.com/btcsuite/btcd v0.24.3-0.20250318170759-4f4ea81776d6 // indirect
	github.com/btcsuite/btcd/btcutil v1.1.5 // indirect
	github.com/btcsuite/btcd/btcutil/psbt v1.1.8 // indirect
	github.com/btcsuite/btcd/chaincfg/chainhash v1.1.0 // indirect
	github.com/btcsuite/btclog v0.0.0-20241003133417-09c4e92e319c // indirect
	github.com/btcsuite/btcwallet v0.16.13 // indirect
	github.com/btcsuite/btcwallet/wallet/txauthor v1.3.5 // indirect
	github.com/btcsuite/btcwallet/wallet/txrules v1.2.2 // indirect
	github.com/btcsuite/btcwallet/wallet/txsizes v1.2.5 // indirect
	github.com/btcsuite/btcwallet/walletdb v1.5.1 // indirect
	github.com/btcsuite/btcwallet/wtxmgr v1.5.6 // indirect
	github.com/btcsuite/go-socks v0.0.0-20170105172521-4720035b7bfd // indirect
	github.com/btcsuite/websocket v0.0.0-20150119174127-31079b680792 // indirect
	github.com/davecgh/go-spew v1.1.1 // indirect
	github.com/decred/dcrd/crypto/blake256 v1.0.1 // indirect
	github.com/decred/dcrd/dcrec/secp256k1/v4 v4.3.0 // indirect
	github.com/decred/dcrd/lru v1.1.2 // indirect
	github.com/golang/protobuf v1.5.3 // indirect
	github.com/jrick/logrotate v1.1.2 // indirect
	github.com/kkdai/bstream v1.0.0 // indirect
	github.com/klauspost/compress v1.17.9 // indirect
	github.com/lightninglabs/gozmq v0.0.0-20191113021534-d20a764486bf // indirect
	github.com/lightninglabs/neutrino v0.16.1 // indirect
	github.com/lightninglabs/neutrino/cache v1.1.2 // indirect
	github.com/lightningnetwork/lnd/clock v1.1.1 // indirect
	github.com/lightningnetwork/lnd/fn/v2 v2.0.8 // indirect
	github.com/lightningnetwork/lnd/queue v1.1.1 // indirect
	github.com/lightningnetwork/lnd/ticker v1.1.1 // indirect
	github.com/lightningnetwork/lnd/tlv v1.3.1 // indirect
	github.com/lightningnetwork/lnd/tor v1.1.6 // indirect
	github.com/miekg/dns v1.1.43 // indirect
	github.com/pmezard/go-difflib v1.0.0 // indirect
	github.com/stretchr/objx v0.5.2 // indirect
	github.com/stretchr/testify v1.9.0 // indirect
	gitlab.com/yawning/bsaes.git v0.0.0-20190805113838-0a714cd429ec // indirect
	golang.org/x/exp v0.0.0-20240325151524-a685a6edb6d8 // indirect
	golang.org/x/net v0.25.0 // indirect
	golang.org/x/sync v0.11.0 // indirect
	golang.org/x/sys v0.30.0 // indirect
	golang.org/x/term v0.29.0 // indirect
	golang.org/x/text v0.22.0 // indirect
	google.golang.org/genproto/googleapis/api v0.0.0-20231016165738-49dd2c1f3d0b // indirect
	google.golang.org/genproto/googleapis/rpc v0.0.0-20231030173426-d783a09b4405 // indirect
	gopkg.in/yaml.v3 v3.0.1 // indirect
)

replace github.com/lightninglabs/lightning-node-connect/gbn => /repo/gbn

replace github.com/lightninglabs/lightning-node-connect/hashmailrpc => /repo/hashmailrpc

replace github.com/lightninglabs/lightning-node-connect/mailbox => /repo/mailbox
