package harness

import (
	"context"
	"fmt"
	"runtime"
	"sync"
	"testing"
	"time"

	"github.com/lightninglabs/lightning-node-connect/gbn"
)

// C20: the real TimeoutManager driven op by op under virtual time; the
// timeouts it reports after every operation are compared with Model/Timeout.v
// (float32 arithmetic by Flocq) and checked against the property directly.
func TestGenC20(t *testing.T) {
	r := newRng(seed())
	o := newOut(t, "c20_impl.txt")
	defer o.close()
	q := newOracle(t, "c20")
	defer q.close()
	kinds := []string{"syn", "synack", "data", "ack", "nack", "fin"}
	mkMsg := func(k string, seq uint8) gbn.Message {
		switch k {
		case "syn":
			return &gbn.PacketSYN{N: seq}
		case "synack":
			return &gbn.PacketSYNACK{}
		case "data":
			return &gbn.PacketData{Seq: seq}
		case "ack":
			return &gbn.PacketACK{Seq: seq}
		case "nack":
			return &gbn.PacketNACK{Seq: seq}
		}
		return &gbn.PacketFIN{}
	}
	pcts := []struct {
		num, den int
		f        float32
	}{{1, 2, 0.5}, {1, 10, 0.1}, {2, 1, 2}, {1, 4, 0.25}, {3, 1, 3}}
	nh := scale(600, 20000)
	for h := 0; h < nh; h++ {
		rr := r.sub(h)
		static := rr.chance(1, 5)
		resend := time.Duration(rr.pick([]int{1000, 1500, 250, 4000})) * time.Millisecond
		mult := rr.pick([]int{1, 5, 5, 3, 1 << 40})
		freq := rr.pick([]int{1, 2, 3, 100})
		hs := time.Duration(rr.pick([]int{1000, 2000, 700})) * time.Millisecond
		pc := pcts[rr.intn(len(pcts))]
		o.line("BEGIN c%d static=%d resend=%d mult=%d freq=%d hs=%d pnum=%d pden=%d", h, b2i(static), int64(resend), mult, freq, int64(hs), pc.num, pc.den)
		nops := rr.pick([]int{2, 10, 40, 150, 400})
		pan := bubble(t, func(t *testing.T) {
			opts := []gbn.TimeoutOptions{gbn.WithResendMultiplier(mult), gbn.WithTimeoutUpdateFrequency(freq),
				gbn.WithHandshakeTimeout(hs), gbn.WithBoostPercent(pc.f)}
			if static {
				opts = append(opts, gbn.WithStaticResendTimeout(resend))
			}
			m := gbn.NewTimeOutManager(nil, opts...)
			prevRT := m.GetResendTimeout()
			o.line("I %d %d", int64(prevRT), int64(m.GetHandshakeTimeout()))
			base := prevRT
			// independent bookkeeping of which responses are fresh samples (packets sent once, not retransmitted)
			var synAt time.Time
			dataAt := map[uint8]time.Time{}
			for i := 0; i < nops; i++ {
				var desc string
				mayChange := false
				switch a := rr.intn(10); {
				case a < 4:
					k := kinds[rr.pick([]int{0, 2, 2, 2, 2, 1, 3, 4})]
					seq := uint8(rr.pick([]int{0, 1, 2, 3, 3, 254}))
					resent := rr.chance(1, 3)
					m.Sent(mkMsg(k, seq), resent)
					desc = fmt.Sprintf("S %s %d %d", k, seq, b2i(resent))
					mayChange = k == "data" && resent
					switch {
					case k == "syn" && !resent:
						synAt = time.Now()
					case k == "syn":
						synAt = time.Time{}
					case k == "data" && !resent:
						dataAt[seq] = time.Now()
					case k == "data":
						delete(dataAt, seq)
					}
				case a < 7:
					k := kinds[rr.pick([]int{0, 1, 3, 3, 3, 3, 2, 4, 5})]
					seq := uint8(rr.pick([]int{0, 1, 2, 3, 3, 254}))
					var sample time.Duration = -1
					answersFreshPacket := false // the response matches a packet that was sent once and not yet answered
					switch {
					case (k == "syn" || k == "synack") && !synAt.IsZero():
						sample = time.Since(synAt)
						synAt = time.Time{}
						answersFreshPacket = true
					case k == "ack":
						if t0, ok := dataAt[seq]; ok {
							delete(dataAt, seq)
							answersFreshPacket = true
							if freq == 1 {
								sample = time.Since(t0)
							}
						}
					}
					m.Received(mkMsg(k, seq))
					desc = fmt.Sprintf("R %s %d", k, seq)
					// only a response to a packet that was not retransmitted may be used as a round-trip sample
					mayChange = answersFreshPacket
					if sample >= 0 && !static && mult <= 5 {
						want := time.Duration(mult) * sample
						if want < time.Second {
							want = time.Second
						}
						got := m.GetResendTimeout()
						q.check(got == want, "c20:fresh-sample-does-not-give-the-measured-value", func() string {
							return fmt.Sprintf("history c%d op %d `%s`: a response to a packet that was sent once arrived after %v (multiplier %d): the resend timeout must be %v, it is %v (timeout before: %v)",
								h, i, desc, sample, mult, want, got, prevRT)
						})
						q.stat("fresh_samples_checked", 1)
					}
				default:
					dt := time.Duration(rr.pick([]int{0, 1, 1000000, 999000000, 1000000000, 1500000000, 7000000000, 250000000}))
					time.Sleep(dt)
					desc = fmt.Sprintf("K %d", int64(dt))
				}
				rt, ht := m.GetResendTimeout(), m.GetHandshakeTimeout()
				o.line("%s -> %d %d", desc, int64(rt), int64(ht))
				// ---- direct oracles ----
				if static {
					q.check(rt == base, "c20:static-timeout-changed", func() string {
						return fmt.Sprintf("history c%d op %d `%s`: static resend timeout %v became %v", h, i, desc, base, rt)
					})
				} else {
					q.check(rt >= time.Second, "c20:below-floor", func() string {
						return fmt.Sprintf("history c%d op %d `%s`: adaptive resend timeout %v < 1 s (mult=%d)", h, i, desc, rt, mult)
					})
					q.check(rt == prevRT || mayChange, "c20:changed-without-fresh-sample-or-resend", func() string {
						return fmt.Sprintf("history c%d op %d `%s`: resend timeout %v -> %v", h, i, desc, prevRT, rt)
					})
				}
				prevRT = rt
			}
		})
		if pan != "" {
			q.fail("c20:panic", fmt.Sprintf("history c%d: %s", h, truncate(pan, 300)))
		}
		o.line("END c%d", h)
		q.stat("histories", 1)
		q.stat("ops", nops)
		q.stat("distinct_nontrivial", 1)
		if static {
			q.stat("static_histories", 1)
		}
	}
	// Integration: the connection must tell its timeout manager the truth about retransmissions, on both roles.
	// A real pair; one side sends a message whose first transmission is lost; the retransmission (1 s later, one
	// boost: 1.5 s) is delivered and its ACK comes back 400 ms later. A retransmitted packet gives no sample, so the
	// sender's resend timeout is exactly the boosted default.
	lg := &evlog{o: newOut(t, "c20_integration_hist.txt")}
	defer lg.o.close()
	for _, sender := range []int{0, 1} {
		for _, n := range []int{1, 5, 20} {
			var got time.Duration
			ok := false
			pan := bubble(t, func(t *testing.T) {
				lg.start = time.Now()
				base := runtime.NumGoroutine()
				s := newSim(t, lg, simCfg{id: fmt.Sprintf("i%d-%d", sender, n), n: uint8(n)})
				if !s.cleanHandshake() {
					s.finish(base)
					return
				}
				s.recv(1 - sender)
				s.send(sender, []byte("lost-once"))
				if s.canOp(sender) {
					s.op(sender, "drop")
				}
				s.advance(1100 * time.Millisecond) // the resend timer (1 s) fires
				for k := 0; k < 5 && s.canOp(sender); k++ {
					s.op(sender, "deliver")
				}
				s.advance(400 * time.Millisecond)
				for k := 0; k < 5 && s.canOp(1-sender); k++ {
					s.op(1-sender, "deliver")
				}
				s.advance(10 * time.Millisecond)
				got = s.conn[sender].VerifResendTimeout()
				ok = true
				s.finish(base)
			})
			if pan != "" {
				q.fail("c20:panic", "integration: "+truncate(pan, 300))
				continue
			}
			q.stat("integration_cases", 1)
			if !ok {
				q.fail("c20:integration-setup", fmt.Sprintf("sender %d n %d: handshake failed", sender, n))
				continue
			}
			q.check(got == 1500*time.Millisecond, fmt.Sprintf("c20:retransmission-not-reported-to-the-timeout-manager:sender=%d", sender), func() string {
				return fmt.Sprintf("side %d (0 = client, 1 = server), n=%d: one lost DATA packet, retransmitted after 1 s, ACK 400 ms later: resend timeout %v, expected the boosted default 1.5s (a retransmitted packet gives no sample)", sender, n, got)
			})
		}
	}
	// A lost ACK that a later cumulative ACK makes up for leaves the send time of its packet behind. When the sequence
	// number comes round again - here for a keepalive ping after an idle period - the response must be credited to
	// the packet that now carries the number, not to the old one.
	for _, n := range []int{2, 3} {
		var got time.Duration
		ok := false
		pan := bubble(t, func(t *testing.T) {
			lg.start = time.Now()
			base := runtime.NumGoroutine()
			s := newSim(t, lg, simCfg{id: fmt.Sprintf("w%d", n), n: uint8(n), freq: 1, ping: 2 * time.Second, pong: 5 * time.Second})
			if !s.cleanHandshake() {
				s.finish(base)
				return
			}
			pump := func() {
				for k := 0; k < 20; k++ {
					for x := 0; x < 2; x++ {
						for s.canOp(x) {
							s.op(x, "deliver")
						}
					}
				}
			}
			s.recv(1)
			// one full cycle of sequence numbers 0..n; the ACK of packet 0 is lost, the next ACK covers it
			for k := 0; k <= n; k++ {
				s.send(0, []byte{byte(k)})
				for s.canOp(0) {
					s.op(0, "deliver")
				}
				if k == 0 && s.canOp(1) {
					s.op(1, "drop")
				}
				pump()
				if _, rb := s.busy(1); !rb {
					s.recv(1)
				}
			}
			pump()
			for k := 0; k < 260; k++ { // idle: the keepalive ping goes out with sequence number 0; no latency
				s.advance(10 * time.Millisecond)
				pump()
			}
			got = s.conn[0].VerifResendTimeout()
			ok = true
			s.finish(base)
		})
		if pan != "" {
			q.fail("c20:panic", "integration: "+truncate(pan, 300))
			continue
		}
		q.stat("integration_cases", 1)
		if ok {
			q.check(got == time.Second, "c20:response-credited-to-an-earlier-packet-with-the-same-sequence-number", func() string {
				return fmt.Sprintf("n=%d, update frequency 1, no latency: the ACK of packet 0 lost and covered by the next ACK, one full cycle later an idle ping reuses sequence number 0: resend timeout %v (round trips are instantaneous: 1s)", n, got)
			})
		}
	}
	// Ordering between the two goroutines of an endpoint: over a transport whose send returns only after the peer has
	// answered (a rendezvous transport; an in-process or very fast link behaves like it), the ACK of a packet can be
	// processed before the send call returns. No response may then be credited to a packet of an earlier window cycle:
	// with round trips of microseconds the resend timeout stays at its floor.
	{
		ctx, cancel := context.WithCancel(context.Background())
		var inbox [2]chan []byte
		inbox[0], inbox[1] = make(chan []byte), make(chan []byte)
		var ackSeen [2]chan struct{}
		ackSeen[0], ackSeen[1] = make(chan struct{}, 64), make(chan struct{}, 64)
		mk := func(x int) (func(context.Context, []byte) error, func(context.Context) ([]byte, error)) {
			return func(ctx context.Context, b []byte) error {
					c := append([]byte{}, b...)
					select {
					case inbox[1-x] <- c:
					case <-ctx.Done():
						return ctx.Err()
					}
					if len(c) > 4 && c[0] == 2 { // a DATA packet: return once its ACK has been handled
						select {
						case <-ackSeen[x]:
							time.Sleep(3 * time.Millisecond)
						case <-time.After(200 * time.Millisecond):
						case <-ctx.Done():
						}
					}
					return nil
				}, func(ctx context.Context) ([]byte, error) {
					select {
					case b := <-inbox[x]:
						if len(b) == 2 && b[0] == 3 {
							select {
							case ackSeen[x] <- struct{}{}:
							default:
							}
						}
						return b, nil
					case <-ctx.Done():
						return nil, ctx.Err()
					}
				}
		}
		var conns [2]*gbn.GoBackNConn
		var hs sync.WaitGroup
		hs.Add(2)
		go func() {
			defer hs.Done()
			sf, rf := mk(1)
			if c, err := gbn.NewServerConn(ctx, sf, rf); err == nil {
				conns[1] = c
			}
		}()
		go func() {
			defer hs.Done()
			sf, rf := mk(0)
			if c, err := gbn.NewClientConn(ctx, 2, sf, rf, gbn.WithTimeoutOptions(gbn.WithTimeoutUpdateFrequency(1))); err == nil {
				conns[0] = c
			}
		}()
		hs.Wait()
		q.stat("rendezvous_transport_cases", 1)
		if conns[0] == nil || conns[1] == nil {
			q.fail("c20:integration-setup", "rendezvous transport: handshake failed")
		} else {
			go func() {
				for {
					if _, err := conns[1].Recv(); err != nil {
						return
					}
				}
			}()
			var worst time.Duration
			for k := 0; k < 7; k++ { // sequence numbers 0,1,2,0,1,2,0 with an idle second in between
				if err := conns[0].Send([]byte{byte(k)}); err != nil {
					q.fail("c20:integration-setup", "rendezvous transport: Send: "+err.Error())
					break
				}
				time.Sleep(30 * time.Millisecond)
				if k == 2 {
					time.Sleep(1200 * time.Millisecond)
				}
				if rt := conns[0].VerifResendTimeout(); rt > worst {
					worst = rt
				}
			}
			q.check(worst <= time.Second, "c20:response-credited-to-a-packet-of-an-earlier-cycle", func() string {
				return fmt.Sprintf("rendezvous transport, n=2, update frequency 1, no loss, round trips of microseconds, an idle period of 1.2 s between two window cycles: the resend timeout rose to %v (floor 1s)", worst)
			})
		}
		cancel()
		if conns[0] != nil {
			_ = conns[0].Close()
		}
		if conns[1] != nil {
			_ = conns[1].Close()
		}
	}
	q.sample("history = random Sent/Received/Tick ops over kinds {syn,synack,data,ack,nack,fin}, seqs {0,1,2,3,254}, gaps {0,1ns,1ms,999ms,1s,1.5s,7s,250ms}; multipliers {1,3,5,2^40}; frequencies {1,2,3,100}; boost {0.5,0.1,2,0.25,3}")
}
