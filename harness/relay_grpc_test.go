package harness

import (
	"context"
	"errors"
	"net"
	"sync"

	"github.com/lightninglabs/lightning-node-connect/hashmailrpc"
	"google.golang.org/grpc"
	"google.golang.org/grpc/credentials/insecure"
	"google.golang.org/grpc/test/bufconn"
)

// The gRPC face of the fake relay: a real gRPC server (in-process, over bufconn) in front of the same mailboxes, and
// a real gRPC client for the library to use. The in-process face (fakeRelay as a HashMailClient) forwards a message
// before Send returns; a real client stream only queues it, and cancelling the stream's context aborts the RPC with
// whatever is still queued. The handlers follow the relay that LNC is deployed with (aperture's hashmail_server.go,
// v0.3.11): SendStream looks at its context before every read, and a write to the mailbox starts with a rate limiter
// wait on that context, which fails once the context is done; RecvStream forwards until its context ends.

type grpcFace struct {
	hashmailrpc.UnimplementedHashMailServer
	r *fakeRelay

	mu      sync.Mutex
	writers map[string]bool // mailboxes whose (single) write / read stream is taken
	readers map[string]bool
}

// take / release: one writer and one reader per mailbox, as aperture's RequestWriteStream / RequestReadStream
func (g *grpcFace) take(m map[string]bool, id string) bool {
	g.mu.Lock()
	defer g.mu.Unlock()
	if m[id] {
		g.r.mu.Lock()
		g.r.grpcOccupied++
		g.r.mu.Unlock()
		return false
	}
	m[id] = true
	return true
}

func (g *grpcFace) release(m map[string]bool, id string) {
	g.mu.Lock()
	delete(m, id)
	g.mu.Unlock()
}

func (g *grpcFace) NewCipherBox(ctx context.Context, in *hashmailrpc.CipherBoxAuth) (*hashmailrpc.CipherInitResp, error) {
	return g.r.NewCipherBox(ctx, in)
}

func (g *grpcFace) DelCipherBox(ctx context.Context, in *hashmailrpc.CipherBoxAuth) (*hashmailrpc.DelCipherBoxResp, error) {
	return g.r.DelCipherBox(ctx, in)
}

func (g *grpcFace) SendStream(rs hashmailrpc.HashMail_SendStreamServer) error {
	ctx := rs.Context()
	// the forwarding itself is the in-process face's (recording, fault injection), on a context of its own: what
	// the handler's context decides is decided here, as aperture does
	fwd := &relaySend{dummyStream: dummyStream{context.Background()}, r: g.r}
	first := true
	taken := ""
	for {
		if !first {
			select {
			case <-ctx.Done():
				return nil
			default:
			}
		}
		first = false
		cb, err := rs.Recv()
		if err != nil {
			return err
		}
		if cb.Desc == nil || cb.Desc.StreamId == nil {
			return errors.New("stream_id required")
		}
		if taken == "" {
			if g.r.box(string(cb.Desc.StreamId), false) == nil {
				return errors.New("stream not found")
			}
			if !g.take(g.writers, string(cb.Desc.StreamId)) {
				return errors.New("write stream occupied")
			}
			taken = string(cb.Desc.StreamId)
			defer g.release(g.writers, taken)
		}
		isFIN := len(cb.Msg) == 1 && cb.Msg[0] == 5
		if isFIN {
			g.r.mu.Lock()
			g.r.grpcFinReceived++
			g.r.mu.Unlock()
		}
		// WriteMsg: limiter.Wait(ctx) first
		if ctx.Err() != nil {
			return ctx.Err()
		}
		if err := fwd.Send(cb); err != nil {
			return err
		}
		if isFIN {
			g.r.mu.Lock()
			g.r.grpcFinForwarded++
			g.r.mu.Unlock()
		}
	}
}

func (g *grpcFace) RecvStream(desc *hashmailrpc.CipherBoxDesc, ws hashmailrpc.HashMail_RecvStreamServer) error {
	ctx := ws.Context()
	if g.r.box(string(desc.StreamId), false) == nil {
		return errors.New("stream not found")
	}
	if !g.take(g.readers, string(desc.StreamId)) {
		return errors.New("read stream occupied")
	}
	defer g.release(g.readers, string(desc.StreamId))
	in, err := g.r.RecvStream(ctx, desc)
	if err != nil {
		return err
	}
	for {
		cb, err := in.Recv()
		if err != nil {
			return err
		}
		if err := ws.Send(cb); err != nil {
			return err
		}
	}
}

// serveGRPC starts the gRPC face; the returned client is what the library is given as its hashmail client.
func (r *fakeRelay) serveGRPC() (hashmailrpc.HashMailClient, func(), error) {
	lis := bufconn.Listen(1 << 20)
	srv := grpc.NewServer()
	hashmailrpc.RegisterHashMailServer(srv, &grpcFace{r: r, writers: map[string]bool{}, readers: map[string]bool{}})
	go func() { _ = srv.Serve(lis) }()
	cc, err := grpc.Dial("bufnet",
		grpc.WithContextDialer(func(ctx context.Context, _ string) (net.Conn, error) { return lis.DialContext(ctx) }),
		grpc.WithTransportCredentials(insecure.NewCredentials()))
	if err != nil {
		srv.Stop()
		return nil, nil, err
	}
	return hashmailrpc.NewHashMailClient(cc), func() { _ = cc.Close(); srv.Stop() }, nil
}
