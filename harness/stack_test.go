package harness

import (
	"bytes"
	"context"
	"fmt"
	"net"
	"runtime"
	"strings"
	"sync"
	"testing"
	"testing/synctest"
	"time"

	"github.com/btcsuite/btclog/v2"
	"github.com/lightninglabs/lightning-node-connect/gbn"
	"github.com/lightninglabs/lightning-node-connect/hashmailrpc"
	"github.com/lightninglabs/lightning-node-connect/mailbox"
)

// The whole stack inside one synctest bubble: fake hashmail relay ->
// mailbox.NewServerConn / NewClientConn -> GBN -> MsgData framing ->
// NoiseGrpcConn (real XX handshake) -> Read / Write, with relay faults.

type stackCfg struct {
	id              int
	writes          [2][]int // write sizes: [0] client->server, [1] server->client
	faultN          int      // faults are injected into the first faultN messages of every stream
	pDrop           int      // per mille
	pSendErr        int
	pRecvErr        int
	idleAt          [2]int        // the writer of side x pauses before this write (-1: never) ...
	idle            time.Duration // ... for this long: keepalive pings (5 s / 7 s) go out on the idle connection
	wsSlowFirstDial bool          // the relay answers the first WebSocket receive dial only after 2.5 s
	wsClientFirst   bool          // the server creates its mailboxes 1.5 s after the client has started: the client's first receive sockets are answered with "stream not found"
	ws              bool          // the client uses the WebSocket transport (JSON text frames, base64 payloads) instead of gRPC
	plain           bool          // plain connKit (no Noise): ClientConn / ServerConn used directly
	realTime        bool          // outside the bubble (stream errors make the code sleep while holding a mutex,
	// which the fake clock of synctest cannot get past)
}

type stackRes struct {
	hsErr           [2]error
	written         [2][]byte // bytes accepted by Write on side x
	read            [2][]byte // bytes read on side x
	ioErr           [2]string
	done            bool
	virtual         time.Duration
	sidOK           bool
	sidDetail       string
	wsLeft, wsDials int
	wsRecvDials     int
	wsLoops         int // goroutines of the WebSocket library (one per open socket) above the number before the case, 3 s after Close
	readNs          []int
	readBufs        []int
}

func runStack(t *testing.T, r *rng, cfg stackCfg, marker []byte) (res stackRes, relay *fakeRelay, leaked []string, pan string) {
	relay = newFakeRelay()
	if cfg.realTime {
		defer func() {
			if rec := recover(); rec != nil {
				pan = fmt.Sprint(rec)
			}
		}()
		stackBody(r, cfg, marker, relay, &res, &leaked, func() {}, 100*time.Millisecond)
		return
	}
	pan = bubble(t, func(t *testing.T) {
		stackBody(r, cfg, marker, relay, &res, &leaked, synctest.Wait, 500*time.Millisecond)
	})
	return
}

func stackBody(r *rng, cfg stackCfg, marker []byte, relay *fakeRelay, resp *stackRes, leakedp *[]string, wait func(), tick time.Duration) {
	var res stackRes
	var leaked []string
	defer func() { *resp = res; *leakedp = leaked }()
	{
		base := runtime.NumGoroutine()
		start := time.Now()
		ctx, cancel := context.WithCancel(context.Background())
		fr := r.sub(99)
		relay.fault = func(stream string, n int) string {
			if n >= cfg.faultN {
				return "deliver"
			}
			v := fr.intn(1000)
			switch {
			case v < cfg.pDrop:
				return "drop"
			case v < cfg.pDrop+cfg.pSendErr:
				return "senderr"
			case v < cfg.pDrop+cfg.pSendErr+cfg.pRecvErr:
				return "recverr"
			}
			return "deliver"
		}
		wsHost := ""
		if cfg.ws {
			var stop func()
			wsHost, stop = relay.serveWS()
			defer stop()
			if cfg.wsSlowFirstDial {
				relay.mu.Lock()
				relay.wsRecvDelay = 2500 * time.Millisecond // longer than the 2 s GBN handshake timeout
				relay.mu.Unlock()
			}
		}
		entropy := r.bytes(14)
		auth := append([]byte("macaroon:"), marker...)
		cdC := mailbox.NewConnData(keyECDH(privFromRng(r)), nil, entropy, nil, nil, nil)
		cdS := mailbox.NewConnData(keyECDH(privFromRng(r)), nil, entropy, auth, nil, nil)
		sid, _ := cdS.SID()
		var conns [2]net.Conn // 0 client, 1 server
		var raw [2]net.Conn
		var wg sync.WaitGroup
		wg.Add(2)
		wsLoopsBefore := countGoroutines("websocket.(*Conn).timeoutLoop")
		go func() {
			defer wg.Done()
			if cfg.wsClientFirst {
				time.Sleep(1500 * time.Millisecond)
			}
			sc, err := mailbox.NewServerConn(ctx, "relay", relay, sid, btclog.Disabled, func(mailbox.ServerStatus) {})
			if err != nil {
				res.hsErr[1] = err
				return
			}
			raw[1] = sc
			if cfg.plain {
				conns[1] = sc
				return
			}
			c, _, err := mailbox.NewNoiseGrpcConn(cdS).ServerHandshake(sc)
			res.hsErr[1] = err
			conns[1] = c
		}()
		go func() {
			defer wg.Done()
			var cc *mailbox.ClientConn
			var err error
			if cfg.ws {
				cc, err = mailbox.NewClientConn(ctx, sid, wsHost, nil, btclog.Disabled, func(mailbox.ClientStatus) {})
			} else {
				cc, err = mailbox.NewClientConn(ctx, sid, "relay", relay, btclog.Disabled, func(mailbox.ClientStatus) {})
			}
			if err != nil {
				res.hsErr[0] = err
				return
			}
			raw[0] = cc
			if cfg.plain {
				conns[0] = cc
				return
			}
			c, _, err := mailbox.NewNoiseGrpcConn(cdC).ClientHandshake(ctx, "", cc)
			res.hsErr[0] = err
			conns[0] = c
		}()
		hsDone := make(chan struct{})
		go func() { wg.Wait(); close(hsDone) }()
		for i := 0; i < 400; i++ {
			select {
			case <-hsDone:
				i = 1000
			default:
				time.Sleep(tick)
				wait()
			}
		}
		select {
		case <-hsDone:
		default:
			res.hsErr[0] = fmt.Errorf("handshake still pending after 200 s")
		}
		if res.hsErr[0] == nil && res.hsErr[1] == nil && conns[0] != nil && conns[1] != nil {
			// stream identifiers line up (C17)
			if a0, ok := raw[0].LocalAddr().(*mailbox.Addr); ok {
				a1 := raw[0].RemoteAddr().(*mailbox.Addr)
				b0 := raw[1].LocalAddr().(*mailbox.Addr)
				b1 := raw[1].RemoteAddr().(*mailbox.Addr)
				res.sidOK = a0.SID == b1.SID && a1.SID == b0.SID && a0.SID != a1.SID
				x := a0.SID
				x[63] ^= 1
				res.sidOK = res.sidOK && x == a1.SID
				res.sidDetail = fmt.Sprintf("client send=%x.. recv=%x.. server send=%x.. recv=%x..", a0.SID[60:], a1.SID[60:], b0.SID[60:], b1.SID[60:])
			}
			var io sync.WaitGroup
			var mu sync.Mutex
			for x := 0; x < 2; x++ {
				x := x
				io.Add(2)
				total := 0
				for _, w := range cfg.writes[x] {
					total += w
				}
				go func() { // writer on side x
					defer io.Done()
					wr := r.sub(10 + x)
					for wi, w := range cfg.writes[x] {
						if cfg.idle > 0 && wi == cfg.idleAt[x] {
							time.Sleep(cfg.idle)
						}
						data := wr.bytes(w)
						if w >= len(marker) {
							copy(data, marker)
						}
						n, err := conns[x].Write(data)
						mu.Lock()
						res.written[x] = append(res.written[x], data[:n]...)
						if err != nil {
							res.ioErr[x] += "write:" + truncate(err.Error(), 60) + ";"
						}
						mu.Unlock()
						if err != nil {
							return
						}
					}
				}()
				go func() { // reader on the other side
					defer io.Done()
					y := 1 - x
					rr := r.sub(20 + x)
					got := 0
					for got < total {
						bs := rr.pick([]int{1, 7, 100, 4096, 32768, 65535, 100000})
						buf := make([]byte, bs)
						n, err := conns[y].Read(buf)
						mu.Lock()
						if n > bs {
							res.ioErr[y] += fmt.Sprintf("read n=%d > buf %d;", n, bs)
							n = bs
						}
						res.read[y] = append(res.read[y], buf[:n]...)
						if x == 0 {
							res.readNs = append(res.readNs, n)
							res.readBufs = append(res.readBufs, bs)
						}
						if err != nil {
							res.ioErr[y] += "read:" + truncate(err.Error(), 60) + ";"
						}
						mu.Unlock()
						got += n
						if err != nil {
							return
						}
					}
				}()
			}
			ioDone := make(chan struct{})
			go func() { io.Wait(); close(ioDone) }()
			for i := 0; i < 1200; i++ {
				select {
				case <-ioDone:
					res.done = true
					i = 5000
				default:
					time.Sleep(tick)
					wait()
				}
			}
		}
		res.virtual = time.Since(start)
		for x := 0; x < 2; x++ {
			if raw[x] != nil {
				_ = raw[x].Close()
			}
		}
		cancel()
		wait()
		if !cfg.realTime {
			time.Sleep(10 * time.Second)
			wait()
		}
		if cfg.ws {
			// every WebSocket the client dialled is closed again once the connection is closed
			for k := 0; k < 40; k++ {
				relay.mu.Lock()
				open := relay.wsSendOpen
				relay.mu.Unlock()
				if open == 0 {
					break
				}
				time.Sleep(50 * time.Millisecond)
			}
			relay.mu.Lock()
			res.wsLeft, res.wsDials, res.wsRecvDials = relay.wsSendOpen, relay.wsSendDials, relay.wsRecvDials
			relay.mu.Unlock()
			if cfg.wsClientFirst { // (these cases run one at a time)
				for k := 0; k < 60; k++ {
					res.wsLoops = countGoroutines("websocket.(*Conn).timeoutLoop") - wsLoopsBefore
					if res.wsLoops <= 0 {
						break
					}
					time.Sleep(50 * time.Millisecond)
				}
			}
		}
		if !cfg.realTime && runtime.NumGoroutine() > base {
			buf := make([]byte, 1<<20)
			buf = buf[:runtime.Stack(buf, true)]
			for _, g := range strings.Split(string(buf), "\n\n") {
				if strings.Contains(g, "lightning-node-connect") && !strings.Contains(g, "runStack") {
					first := strings.SplitN(g, "\n", 3)
					if len(first) > 1 {
						leaked = append(leaked, strings.TrimSpace(first[1]))
					}
				}
			}
		}
	}
}

// countGoroutines: live goroutines whose stack mentions what
func countGoroutines(what string) int {
	buf := make([]byte, 4<<20)
	buf = buf[:runtime.Stack(buf, true)]
	n := 0
	for _, g := range strings.Split(string(buf), "\n\n") {
		if strings.Contains(g, what) {
			n++
		}
	}
	return n
}

func TestGenC05(t *testing.T) {
	r := newRng(seed())
	o := newOut(t, "c05_impl.txt")
	defer o.close()
	q := newOracle(t, "c05")
	defer q.close()
	sizes := []int{0, 1, 2, 100, 300, 4096, 32768, 32769, 65535}
	mkCfg := func(i int, rr *rng, real bool) (stackCfg, string) {
		cfg := stackCfg{id: i, plain: i%5 == 4, realTime: real}
		for x := 0; x < 2; x++ {
			for k := rr.intn(5); k >= 0; k-- {
				w := rr.pick(sizes)
				if rr.chance(2, 3) {
					w = rr.pick([]int{0, 1, 16, 100, 300, 1000})
				}
				cfg.writes[x] = append(cfg.writes[x], w)
			}
		}
		cfg.idleAt = [2]int{-1, -1}
		if !real && rr.chance(1, 2) {
			// an idle period longer than both keepalive intervals somewhere in the transfer
			cfg.idle = time.Duration(rr.pick([]int{6, 8, 16})) * time.Second
			for x := 0; x < 2; x++ {
				cfg.idleAt[x] = rr.intn(len(cfg.writes[x]))
			}
		}
		class := "clean"
		if real {
			class = "stream-errors"
			cfg.faultN = 3 + rr.intn(12)
			cfg.pDrop = rr.pick([]int{0, 100})
			cfg.pSendErr = rr.pick([]int{60, 150})
			cfg.pRecvErr = rr.pick([]int{60, 150})
		} else if i%2 == 1 {
			class = "drops"
			cfg.faultN = 3 + rr.intn(25)
			cfg.pDrop = rr.pick([]int{50, 150, 300})
		}
		return cfg, class
	}
	judge := func(i int, cfg stackCfg, class string, marker []byte, res stackRes, relay *fakeRelay, leaked []string, pan string) {
		kind := map[bool]string{false: "noise", true: "plain"}[cfg.plain]
		desc := func() string {
			return fmt.Sprintf("case %d (%s, %s) writes c->s %v s->c %v faults(first %d msgs: drop %d/1000 senderr %d recverr %d): handshake errs [%v | %v], written %d/%d bytes, read by server %d, by client %d, io errors [%q | %q], done=%v after %v",
				i, kind, class, cfg.writes[0], cfg.writes[1], cfg.faultN, cfg.pDrop, cfg.pSendErr, cfg.pRecvErr, res.hsErr[0], res.hsErr[1],
				len(res.written[0]), len(res.written[1]), len(res.read[1]), len(res.read[0]), res.ioErr[0], res.ioErr[1], res.done, res.virtual)
		}
		if pan != "" {
			q.fail("c05:panic", fmt.Sprintf("case %d: %s", i, truncate(pan, 400)))
		}
		if cfg.idle > 0 {
			q.stat("cases_with_idle_period", 1)
		}
		if cfg.ws {
			q.stat("cases_websocket_client", 1)
			q.check(res.wsLeft == 0, "c12:websocket-left-open-after-close", func() string {
				return desc() + fmt.Sprintf("; the client dialled %d WebSocket send sockets, %d are still open 2 s after Close", res.wsDials, res.wsLeft)
			})
			if cfg.wsClientFirst {
				q.stat("cases_websocket_client_before_server", 1)
				q.check(res.wsLoops <= 0, "c12:websocket-abandoned-on-reconnect", func() string {
					return desc() + fmt.Sprintf("; the client started 1.5 s before the server's mailboxes existed, dialled %d receive and %d send sockets; 3 s after Close %d sockets of the client are still open (each with its websocket.(*Conn).timeoutLoop goroutine)", res.wsRecvDials, res.wsDials, res.wsLoops)
				})
			}
		}
		for x := 0; x < 2; x++ {
			y := 1 - x
			okp := len(res.read[y]) <= len(res.written[x]) && bytes.Equal(res.read[y], res.written[x][:len(res.read[y])])
			q.check(okp, "c05:stream-not-a-prefix:"+kind+":"+class, desc)
		}
		visible := res.hsErr[0] != nil || res.hsErr[1] != nil || res.ioErr[0] != "" || res.ioErr[1] != ""
		complete := res.done && len(res.read[1]) == len(res.written[0]) && len(res.read[0]) == len(res.written[1])
		q.check(complete || visible, "c05:silent-stall:"+kind+":"+class, desc)
		if class == "clean" {
			// no relay fault at all: nothing entitles the connection to fail, visibly or not
			q.check(complete, "c05:fault-free-relay-transfer-incomplete:"+kind, desc)
		}
		relay.mu.Lock()
		nseen := len(relay.seen)
		if !cfg.plain {
			for _, s := range relay.seen {
				if bytes.Contains(s.msg, marker) {
					q.fail("c05:plaintext-at-relay", fmt.Sprintf("case %d: a relay message of %d bytes contains the planted plaintext / auth marker", i, len(s.msg)))
					break
				}
			}
		}
		for _, s := range relay.seen {
			m, err := gbn.Deserialize(s.msg)
			if err != nil {
				q.fail("c05:relay-message-not-a-gbn-packet", fmt.Sprintf("case %d: %x", i, s.msg[:min(8, len(s.msg))]))
				break
			}
			if d, ok := m.(*gbn.PacketData); ok && d.IsPing {
				q.stat("keepalive_pings_at_relay", 1)
			}
			if d, ok := m.(*gbn.PacketData); ok && !d.IsPing {
				md := mailbox.NewMsgData(0, nil)
				if err := md.Deserialize(d.Payload); err != nil {
					q.fail("c05:data-payload-not-a-control-message", fmt.Sprintf("case %d: %v", i, err))
					break
				}
			}
		}
		relay.mu.Unlock()
		if res.hsErr[0] == nil && res.hsErr[1] == nil {
			q.check(res.sidOK, "c17:stream-ids-not-paired", func() string { return res.sidDetail })
			ids := relay.streamIDs()
			q.check(len(ids) == 2 && len(ids[0]) == 64 && ids[0][:63] == ids[1][:63] && ids[0][63]^ids[1][63] == 1, "c17:relay-stream-ids", func() string {
				return fmt.Sprintf("case %d: relay saw %d stream ids", i, len(ids))
			})
		}
		for _, g := range leaked {
			q.fail("c12:leak:stack:"+g, fmt.Sprintf("case %d", i))
		}
		if cfg.plain && res.hsErr[0] == nil && res.hsErr[1] == nil && class == "clean" && complete && !visible {
			o.line("RD tcp %s | %s | %s", intsString(cfg.writes[0]), intsString(res.readBufs), intsString(res.readNs))
		}
		q.stat("cases", 1)
		q.stat("class_"+class, 1)
		q.stat("kind_"+kind, 1)
		q.stat("relay_messages", nseen)
		q.stat("distinct_nontrivial", 1)
		if i < 2 {
			q.sample(desc())
		}
	}
	// virtual time: clean and drop-only relays
	n := scale(40, 800)
	for i := 0; i < n; i++ {
		rr := r.sub(i)
		cfg, class := mkCfg(i, rr, false)
		marker := rr.bytes(16)
		res, relay, leaked, pan := runStack(t, rr, cfg, marker)
		judge(i, cfg, class, marker, res, relay, leaked, pan)
	}
	// real time, concurrently: relay stream errors (the code sleeps while holding a mutex)
	type outc struct {
		cfg    stackCfg
		class  string
		marker []byte
		res    stackRes
		relay  *fakeRelay
		leaked []string
		pan    string
	}
	m := scale(8, 48)
	nws := scale(3, 12) // the last nws cases: WebSocket client transport over a fault-free relay, large records both ways
	m += nws
	mailbox.VerifSetAddrFormat("ws://%s%s?method=POST")
	outs := make([]outc, m)
	var wg sync.WaitGroup
	for k := 0; k < m; k++ {
		k := k
		wg.Add(1)
		go func() {
			defer wg.Done()
			rr := r.sub(100000 + k)
			cfg, class := mkCfg(100000+k, rr, true)
			if k >= m-nws {
				cfg.ws, cfg.plain = true, false
				cfg.faultN, cfg.pDrop, cfg.pSendErr, cfg.pRecvErr = 0, 0, 0, 0
				class = "clean"
				cfg.writes[1] = append([]int{rr.pick([]int{49000, 50000, 65535}), 65535}, cfg.writes[1]...)
				cfg.writes[0] = append([]int{65535}, cfg.writes[0]...)
				cfg.wsSlowFirstDial = k == m-1
			}
			marker := rr.bytes(16)
			res, relay, leaked, pan := runStack(t, rr, cfg, marker)
			outs[k] = outc{cfg, class, marker, res, relay, leaked, pan}
		}()
	}
	wg.Wait()
	for k, oc := range outs {
		judge(100000+k, oc.cfg, oc.class, oc.marker, oc.res, oc.relay, oc.leaked, oc.pan)
	}
	// one at a time: a WebSocket dial that is given up (its context ends while the peer is absent) or fails (the relay
	// delivers something that is not a GBN packet in answer to the SYN): the constructor returns an error and the
	// caller gets nothing it could close, so nothing may be left open
	for _, how := range []string{"context-ends", "hostile-answer"} {
		rr := r.sub(300000 + len(how))
		relay := newFakeRelay()
		wsHost, stop := relay.serveWS()
		entropy := rr.bytes(14)
		cd := mailbox.NewConnData(keyECDH(privFromRng(rr)), nil, entropy, nil, nil, nil)
		sid, _ := cd.SID()
		for _, toClient := range []bool{true, false} {
			id := mailbox.GetSID(sid, toClient)
			_, _ = relay.NewCipherBox(context.Background(), &hashmailrpc.CipherBoxAuth{Desc: &hashmailrpc.CipherBoxDesc{StreamId: id[:]}})
		}
		before := countGoroutines("websocket.(*Conn).timeoutLoop")
		ctx, cancel := context.WithTimeout(context.Background(), 1500*time.Millisecond)
		if how == "hostile-answer" {
			id := mailbox.GetSID(sid, true)
			relay.inject(string(id[:]), []byte{0x09, 0x09, 0x09})
		}
		cc, err := mailbox.NewClientConn(ctx, sid, wsHost, nil, btclog.Disabled, func(mailbox.ClientStatus) {})
		cancel()
		left := 0
		if err == nil && cc != nil {
			_ = cc.Close() // (the dial unexpectedly succeeded: then Close must clean up)
		}
		for k := 0; k < 60; k++ {
			left = countGoroutines("websocket.(*Conn).timeoutLoop") - before
			if left <= 0 {
				break
			}
			time.Sleep(50 * time.Millisecond)
		}
		relay.mu.Lock()
		rd, sd := relay.wsRecvDials, relay.wsSendDials
		relay.mu.Unlock()
		q.check(left <= 0, "c12:websocket-left-open-after-failed-dial:"+how, func() string {
			return fmt.Sprintf("NewClientConn over WebSockets with the peer absent (%s) returned err=%v; it had dialled %d receive and %d send sockets; 3 s later %d sockets of the client are still open (websocket.(*Conn).timeoutLoop goroutines)", how, err, rd, sd, left)
		})
		q.stat("websocket_failed_dial_cases", 1)
		stop()
	}
	// one at a time: a WebSocket client that starts before the server has created the mailboxes (its receive socket
	// is answered with "stream not found" and re-dialled every 2 s); every socket it dialled is closed by Close
	for k := 0; k < scale(1, 3); k++ {
		rr := r.sub(200000 + k)
		cfg, _ := mkCfg(200000+k, rr, true)
		cfg.ws, cfg.plain, cfg.wsClientFirst = true, false, true
		cfg.faultN, cfg.pDrop, cfg.pSendErr, cfg.pRecvErr = 0, 0, 0, 0
		marker := rr.bytes(16)
		res, relay, leaked, pan := runStack(t, rr, cfg, marker)
		judge(200000+k, cfg, "clean", marker, res, relay, leaked, pan)
	}
}
