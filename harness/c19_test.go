package harness

import (
	"fmt"
	"testing"

	"github.com/lightninglabs/lightning-node-connect/gbn"
	"github.com/lightninglabs/lightning-node-connect/mailbox"
)

// Differential tie of the go2coq-generated codecs (C19, C07): the Go
// functions are run on enumerated + random inputs and the results written in
// a canonical text form; ocaml/modelrun evaluates the generated Gallina on
// the same inputs and compares.

func msgString(m gbn.Message) string {
	switch p := m.(type) {
	case *gbn.PacketData:
		return fmt.Sprintf("data %d %d %d %s", p.Seq, b2i(p.FinalChunk), b2i(p.IsPing), hx(p.Payload))
	case *gbn.PacketACK:
		return fmt.Sprintf("ack %d", p.Seq)
	case *gbn.PacketNACK:
		return fmt.Sprintf("nack %d", p.Seq)
	case *gbn.PacketSYN:
		return fmt.Sprintf("syn %d", p.N)
	case *gbn.PacketFIN:
		return "fin"
	case *gbn.PacketSYNACK:
		return "synack"
	}
	return "unknown"
}

func deserString(b []byte) (s string) {
	defer func() {
		if r := recover(); r != nil {
			s = "panic"
		}
	}()
	m, err := gbn.Deserialize(b)
	if err != nil {
		return "none"
	}
	return msgString(m)
}

func msgDataDecode(b []byte) (s string) {
	defer func() {
		if r := recover(); r != nil {
			s = "panic"
		}
	}()
	m := mailbox.NewMsgData(mailbox.ProtocolVersion, nil)
	if err := m.Deserialize(b); err != nil {
		return "none"
	}
	return fmt.Sprintf("msg %d %s", m.ProtocolVersion(), hx(m.Payload))
}

func genByteStrings(r *rng, emit func(b []byte)) {
	alpha := []byte{0, 1, 2, 7, 255}
	// position 0 over all 256 values, the rest over the small alphabet, length 0..5
	emit(nil)
	var rec func(prefix []byte, depth, max int)
	rec = func(prefix []byte, depth, max int) {
		if depth == max {
			emit(append([]byte{}, prefix...))
			return
		}
		for _, a := range alpha {
			rec(append(prefix, a), depth+1, max)
		}
	}
	for l := 1; l <= 5; l++ {
		for b0 := 0; b0 < 256; b0++ {
			rec([]byte{byte(b0)}, 1, l)
		}
	}
	// every value in every position of valid-looking frames
	frames := [][]byte{
		{gbn.DATA, 3, 1, 0, 9, 9}, {gbn.ACK, 5}, {gbn.NACK, 5}, {gbn.SYN, 20}, {gbn.FIN}, {gbn.SYNACK},
		{0, 0, 0, 0, 2, 7, 7}, {0, 0, 0, 0, 0},
		// control-message length fields at the top of the uint32 range, with 0..6 bytes following
		{0, 255, 255, 255, 251}, {0, 255, 255, 255, 252, 1}, {0, 255, 255, 255, 253, 1, 2}, {0, 255, 255, 255, 254, 1, 2, 3},
		{0, 255, 255, 255, 255, 1, 2, 3, 4, 5, 6}, {0, 128, 0, 0, 0, 1}, {0, 127, 255, 255, 255, 1},
	}
	for _, f := range frames {
		for pos := range f {
			for v := 0; v < 256; v++ {
				g := append([]byte{}, f...)
				g[pos] = byte(v)
				emit(g)
			}
		}
	}
	// random longer ones, mostly valid type byte
	n := scale(3000, 60000)
	for i := 0; i < n; i++ {
		l := r.pick([]int{0, 1, 2, 3, 4, 5, 6, 8, 16, 64, 300})
		b := r.bytes(l)
		if l > 0 && r.chance(3, 4) {
			b[0] = byte(1 + r.intn(6))
		}
		emit(b)
	}
}

func TestGenC19(t *testing.T) {
	r := newRng(seed())
	o := newOut(t, "c19_impl.txt")
	defer o.close()
	q := newOracle(t, "c19")
	defer q.close()
	distinct := map[string]bool{}

	// decoders on arbitrary bytes
	genByteStrings(r, func(b []byte) {
		d := deserString(b)
		o.line("D %s %s", hx(b), d)
		md := msgDataDecode(b)
		o.line("MD %s %s", hx(b), md)
		q.stat("decode_inputs", 1)
		// C07: no input makes a decoder panic
		q.check(d != "panic", "c07:gbn-deserialize-panics", func() string { return "gbn.Deserialize(" + hx(b) + ") panicked" })
		q.check(md != "panic", "c07:msgdata-deserialize-panics", func() string { return "MsgData.Deserialize(" + hx(b) + ") panicked" })
		if d != "none" && d != "panic" {
			if !distinct["D"+string(b)] {
				distinct["D"+string(b)] = true
				q.stat("distinct_nontrivial", 1)
			}
			q.stat("gbn_decodes_ok", 1)
			// direct oracle (stability): decode(encode(decode b)) == decode b
			m, _ := gbn.Deserialize(b)
			b2, err := m.Serialize()
			d2 := ""
			if err == nil {
				d2 = deserString(b2)
			}
			q.check(err == nil && d2 == d, "c19:gbn-stable:"+d, func() string {
				return fmt.Sprintf("bytes=%s decode=%q re-encoded=%s decode-again=%q", hx(b), d, hx(b2), d2)
			})
			if len(b) > 4 {
				q.sample(fmt.Sprintf("Deserialize(%s) = %s", hx(b), d))
			}
		}
		if md != "none" && md != "panic" {
			q.stat("msgdata_decodes_ok", 1)
			m := mailbox.NewMsgData(mailbox.ProtocolVersion, nil)
			_ = m.Deserialize(b)
			b2, err := m.Serialize()
			md2 := ""
			if err == nil {
				md2 = msgDataDecode(b2)
			}
			q.check(err == nil && md2 == md, "c19:msgdata-stable", func() string {
				return fmt.Sprintf("bytes=%s decode=%q re-encoded=%s decode-again=%q", hx(b), md, hx(b2), md2)
			})
		}
	})

	// encoders: all 256 values of each one-byte field, both flags, payload lengths
	ser := func(m gbn.Message) {
		b, err := m.Serialize()
		if err != nil {
			o.line("S %s err", msgString(m))
			return
		}
		o.line("S %s %s", msgString(m), hx(b))
		// round trip through the implementation as well
		d := deserString(b)
		o.line("D %s %s", hx(b), d)
		q.stat("encode_inputs", 1)
		if !distinct["S"+msgString(m)] {
			distinct["S"+msgString(m)] = true
			q.stat("distinct_nontrivial", 1)
		}
		q.check(d == msgString(m), "c19:gbn-roundtrip:"+msgString(m), func() string {
			return fmt.Sprintf("message=%q bytes=%s decoded=%q", msgString(m), hx(b), d)
		})
	}
	for v := 0; v < 256; v++ {
		ser(&gbn.PacketACK{Seq: uint8(v)})
		ser(&gbn.PacketNACK{Seq: uint8(v)})
		ser(&gbn.PacketSYN{N: uint8(v)})
		for fl := 0; fl < 4; fl++ {
			ser(&gbn.PacketData{Seq: uint8(v), FinalChunk: fl&1 == 1, IsPing: fl&2 == 2, Payload: r.bytes(r.intn(4))})
		}
	}
	ser(&gbn.PacketFIN{})
	ser(&gbn.PacketSYNACK{})
	// 65551 = a maximal Noise record body (65535 + 16-byte MAC), which the mailbox sends as one MsgData
	plens := []int{0, 1, 2, 3, 4, 5, 255, 256, 257, 1000, 65535, 65536, 65551}
	if thorough() {
		plens = append(plens, 70000, 131072, 200000)
	}
	for _, l := range plens {
		ser(&gbn.PacketData{Seq: uint8(l), FinalChunk: true, Payload: r.bytes(l)})
		for _, ver := range []uint8{0, 1, 2, 255} {
			m := mailbox.NewMsgData(ver, r.bytes(l))
			b, err := m.Serialize()
			if err != nil {
				t.Fatalf("MsgData.Serialize: %v", err)
			}
			o.line("MS %d %s %s", ver, hx(m.Payload), hx(b))
			// what the receiving side does with it (connKit.Read path)
			md := msgDataDecode(b)
			o.line("MD %s %s", hx(b), md)
			want := fmt.Sprintf("msg %d %s", ver, hx(m.Payload))
			q.stat("msgdata_encode_inputs", 1)
			q.stat("distinct_nontrivial", 1)
			// a fresh MsgData carries ProtocolVersion until Deserialize overwrites it
			q.check(md == want, fmt.Sprintf("c19:msgdata-roundtrip:len%d", l), func() string {
				return fmt.Sprintf("version=%d payload_len=%d decoded=%q", ver, l, md[:min(len(md), 80)])
			})
		}
	}
	for ver := 0; ver < 256; ver++ {
		m := mailbox.NewMsgData(uint8(ver), []byte{1, 2, 3})
		b, _ := m.Serialize()
		o.line("MS %d %s %s", ver, hx(m.Payload), hx(b))
		// decode with version preserved: Deserialize overwrites version from the wire
		m2 := mailbox.NewMsgData(0, nil)
		if err := m2.Deserialize(b); err != nil {
			o.line("MDV %s none", hx(b))
		} else {
			o.line("MDV %s msg %d %s", hx(b), m2.ProtocolVersion(), hx(m2.Payload))
		}
	}
	t.Logf("cases=%d", o.n)
}
