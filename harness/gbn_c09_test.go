package harness

import (
	"fmt"
	"runtime"
	"strings"
	"sync/atomic"
	"testing"
	"testing/synctest"
	"time"

	"github.com/btcsuite/btclog/v2"
	"github.com/lightninglabs/lightning-node-connect/gbn"
)

// hookLogger calls hook on every Tracef (with the logger's prefix and the format string).
type hookLogger struct {
	btclog.Logger
	prefix string
	hook   func(prefix, format string)
}

func (l *hookLogger) WithPrefix(p string) btclog.Logger {
	return &hookLogger{Logger: l.Logger.WithPrefix(p), prefix: l.prefix + p, hook: l.hook}
}

func (l *hookLogger) Tracef(format string, params ...any) {
	l.hook(l.prefix, format)
}

// C09, blocking half: with a mute peer the first N Sends return at the instant
// they are called, the (N+1)-th stays blocked however long the peer stays
// mute, and returns at the instant an acknowledgement frees a slot.
func TestGenC09(t *testing.T) {
	o := newOut(t, "c09_hist.txt")
	defer o.close()
	q := newOracle(t, "c09")
	defer q.close()
	l := &evlog{o: o}
	ns := []int{1, 2, 3, 4, 5, 20, 127, 254}
	if thorough() {
		ns = nil
		for n := 1; n <= 254; n++ {
			ns = append(ns, n)
		}
	}
	for _, n := range ns {
		for variant := 0; variant < 4; variant++ {
			static, mute := variant&1 == 1, variant&2 == 2
			cfg := simCfg{id: fmt.Sprintf("b%d_%v_%v", n, static, mute), n: uint8(n)}
			if static {
				cfg.static = time.Second
			}
			l.keep = l.keep[:0]
			l.o.line("BEGIN %s n=%d chunk=0", cfg.id, n)
			pan := bubble(t, func(t *testing.T) {
				l.start = time.Now()
				l.last = 0
				base := runtime.NumGoroutine()
				s := newSim(t, l, cfg)
				if !s.cleanHandshake() {
					q.fail("c09:handshake", cfg.id)
					s.finish(base)
					return
				}
				t0 := time.Now()
				for i := 0; i < n; i++ {
					s.send(0, []byte{byte(i), 1})
					sb, _ := s.busy(0)
					q.check(!sb && time.Since(t0) == 0, "c09:blocked-before-window-full", func() string {
						return fmt.Sprintf("n=%d: Send #%d did not return immediately with a mute peer", n, i+1)
					})
					if sb {
						break
					}
				}
				s.send(0, []byte{0xEE})
				sb, _ := s.busy(0)
				q.check(sb, "c09:not-blocked-on-full-window", func() string {
					return fmt.Sprintf("n=%d: Send #%d returned although %d packets are unacknowledged", n, n+1, n)
				})
				if mute {
					s.advance(7 * time.Second) // peer mute: resends happen, still no slot
					sb, _ = s.busy(0)
					q.check(sb, "c09:not-blocked-on-full-window", func() string {
						return fmt.Sprintf("n=%d: Send #%d returned after 7 s of a mute peer", n, n+1)
					})
				}
				// let exactly one DATA through and its ACK back
				for k := 0; k < 3 && s.chanLen(0) > 0 && len(s.recvMsgs[1]) == 0; k++ {
					if s.canOp(0) {
						s.op(0, "deliver")
					}
				}
				t1 := time.Now()
				for k := 0; k < 4 && s.canOp(1); k++ {
					s.op(1, "deliver")
					if sb, _ := s.busy(0); !sb {
						break
					}
				}
				sb, _ = s.busy(0)
				if !mute {
					// no retransmission in progress: the release is immediate
					q.check(!sb && time.Since(t1) == 0, "c09:not-released-by-ack", func() string {
						return fmt.Sprintf("n=%d: blocked Send did not return at the instant an ACK was delivered (busy=%v, waited %v)", n, sb, time.Since(t1))
					})
				} else {
					// a retransmission + sync wait may be in progress: bounded delay
					for k := 0; k < 200 && sb; k++ {
						moved := false
						for x := 0; x < 2; x++ {
							for s.canOp(x) {
								s.op(x, "deliver")
								moved = true
							}
						}
						if !moved {
							s.advance(250 * time.Millisecond)
						}
						sb, _ = s.busy(0)
					}
					q.check(!sb, "c09:not-released-by-ack", func() string {
						return fmt.Sprintf("n=%d: blocked Send still blocked %v after acknowledgements started flowing", n, time.Since(t1))
					})
				}
				synctest.Wait()
				for _, g := range s.finish(base) {
					q.fail("c12:leak:"+g, cfg.id)
				}
			})
			l.o.line("END %s", cfg.id)
			if pan != "" {
				q.fail("gbn:bubble-panic", cfg.id+": "+truncate(pan, 300))
			}
			q.stat("distinct_nontrivial", 1)
			q.stat("blocking_scenarios", 1)
		}
	}
	// a window emptied by other means than an ACK: both ACKs of a full window are lost, the transport duplicates
	// the last DATA packet (in order), the receiver answers the duplicate with NACK(top) ("I have everything"),
	// which empties the sender's window. The next Send finds a free window and must not wait for anything.
	for _, n := range []int{1, 2, 3, 5} {
		cfg := simCfg{id: fmt.Sprintf("nacktop%d", n), n: uint8(n), static: 2 * time.Second}
		l.keep = l.keep[:0]
		l.o.line("BEGIN %s n=%d chunk=0", cfg.id, n)
		pan := bubble(t, func(t *testing.T) {
			l.start = time.Now()
			l.last = 0
			base := runtime.NumGoroutine()
			s := newSim(t, l, cfg)
			if !s.cleanHandshake() {
				q.fail("c09:handshake", cfg.id)
				s.finish(base)
				return
			}
			for i := 0; i < n; i++ {
				s.send(0, []byte{byte(i), 7})
			}
			for i := 0; i < n; i++ {
				s.recv(1)
				if i == n-1 {
					s.op(0, "keep") // delivered, and once more below: an in-order duplicate
				}
				s.op(0, "deliver")
			}
			// the server has answered with n ACKs and one NACK(top): lose the ACKs
			for i := 0; i < n && s.chanLen(1) > 1; i++ {
				s.op(1, "drop")
			}
			nack := s.chanLen(1) == 1
			if s.canOp(1) {
				s.op(1, "deliver")
			}
			t1 := time.Now()
			s.send(0, []byte{0xAB})
			sb, _ := s.busy(0)
			q.check(!nack || (!sb && time.Since(t1) == 0), "c09:blocked-with-free-window:after-nack-emptied-window", func() string {
				return fmt.Sprintf("n=%d: %d messages sent and received, their ACKs lost, the duplicate of the last DATA answered by NACK(top) which the sender received (window empty): the next Send did not return (busy=%v); events %v", n, n, sb, lastN(l.keep, 12))
			})
			q.stat("nack_top_scenarios", 1)
			for k := 0; k < 50 && sb; k++ {
				s.advance(250 * time.Millisecond)
				sb, _ = s.busy(0)
			}
			synctest.Wait()
			for _, g := range s.finish(base) {
				q.fail("c12:leak:"+g, cfg.id)
			}
		})
		l.o.line("END %s", cfg.id)
		if pan != "" {
			q.fail("gbn:bubble-panic", cfg.id+": "+truncate(pan, 300))
		}
		q.stat("distinct_nontrivial", 1)
	}
	// the acknowledgement that frees the window is processed in the gap between the send loop's "is the window full?"
	// test and its wait for the wake-up. The gap is widened with nothing but the package logger (gbn.UseLogger, a
	// public setter): the Tracef that sits between the two returns only after the receive loop has processed the ACK.
	for _, n := range []int{1, 2, 4} {
		cfg := simCfg{id: fmt.Sprintf("ackgap%d", n), n: uint8(n), static: 2 * time.Second}
		l.keep = l.keep[:0]
		l.o.line("BEGIN %s n=%d chunk=0", cfg.id, n)
		pan := bubble(t, func(t *testing.T) {
			l.start = time.Now()
			l.last = 0
			base := runtime.NumGoroutine()
			s := newSim(t, l, cfg)
			var armed, fired atomic.Bool
			gbn.UseLogger(&hookLogger{Logger: btclog.Disabled, hook: func(prefix, format string) {
				if !strings.Contains(prefix, "client") || format != "The queue is full." || !armed.CompareAndSwap(true, false) {
					return
				}
				// we are on the client's send goroutine, after size() >= n was seen and before the select:
				// let the peer receive everything and let this side process all the ACKs
				for k := 0; k < n; k++ {
					s.opNoWait(0, "deliver")
					for s.chanLen(1) == 0 {
						time.Sleep(time.Microsecond)
					}
					before := s.rxCalls[0].Load()
					s.opNoWait(1, "deliver")
					for s.rxCalls[0].Load() == before {
						time.Sleep(time.Microsecond)
					}
				}
				fired.Store(true)
			}})
			defer gbn.UseLogger(btclog.Disabled)
			if !s.cleanHandshake() {
				q.fail("c09:handshake", cfg.id)
				s.finish(base)
				return
			}
			for i := 0; i < n; i++ {
				s.recv(1)
			}
			for i := 0; i < n; i++ {
				if i == n-1 {
					armed.Store(true)
				}
				s.send(0, []byte{byte(i), 9})
			}
			for k := 0; k < 10000 && !fired.Load(); k++ {
				s.advance(time.Microsecond)
			}
			synctest.Wait()
			s.send(0, []byte{0xAC})
			sb, _ := s.busy(0)
			q.check(!fired.Load() || !sb, "c09:blocked-with-free-window:ack-processed-between-check-and-wait", func() string {
				return fmt.Sprintf("n=%d: %d messages sent, received and acknowledged, all ACKs processed by the sender while its send loop was between the window test and the wait: the next Send did not return (busy=%v); events %v", n, n, sb, lastN(l.keep, 10))
			})
			if fired.Load() {
				q.stat("ack_in_the_gap_scenarios", 1)
			}
			for k := 0; k < 50 && sb; k++ {
				s.advance(250 * time.Millisecond)
				sb, _ = s.busy(0)
			}
			synctest.Wait()
			for _, g := range s.finish(base) {
				q.fail("c12:leak:"+g, cfg.id)
			}
		})
		l.o.line("END %s", cfg.id)
		if pan != "" {
			q.fail("gbn:bubble-panic", cfg.id+": "+truncate(pan, 300))
		}
		q.stat("distinct_nontrivial", 1)
	}
	// an application that sends before it receives: both sides send n+1 messages and only then start to receive. The
	// acknowledgements of the first n arrive at once; the (n+1)-th Send returns as soon as they have been delivered
	// (the receive loop must not be stuck handing data to an application that is not receiving yet)
	for _, n := range []int{1, 2, 5} {
		cfg := simCfg{id: fmt.Sprintf("sendfirst%d", n), n: uint8(n), static: 2 * time.Second}
		l.keep = l.keep[:0]
		l.o.line("BEGIN %s n=%d chunk=0", cfg.id, n)
		pan := bubble(t, func(t *testing.T) {
			l.start = time.Now()
			l.last = 0
			base := runtime.NumGoroutine()
			s := newSim(t, l, cfg)
			if !s.cleanHandshake() {
				q.fail("c09:handshake", cfg.id)
				s.finish(base)
				return
			}
			deliverAll := func() {
				for k := 0; k < 200; k++ {
					moved := false
					for x := 0; x < 2; x++ {
						if s.canOp(x) {
							s.op(x, "deliver")
							moved = true
						}
					}
					if !moved {
						return
					}
				}
			}
			// the client's application sends n+1 messages, all delivered and acknowledged at once: the server holds n
			// of them for an application that is not receiving yet, the (n+1)-th is in front of its receive loop
			for i := 0; i <= n; i++ {
				deliverAll()
				if sb, _ := s.busy(0); !sb {
					s.send(0, []byte{0xC1, byte(i)})
				}
			}
			deliverAll()
			// now the server's application sends n+1 messages; the client acknowledges each at once
			for i := 0; i <= n; i++ {
				deliverAll()
				if sb, _ := s.busy(1); !sb {
					s.send(1, []byte{0x51, byte(i)})
				}
			}
			deliverAll()
			// (the receive loop may give the application a moment - 100 ms - before it goes on without it)
			for k := 0; k < 4; k++ {
				s.advance(100 * time.Millisecond)
				deliverAll()
			}
			t1 := time.Now()
			sb1, _ := s.busy(1)
			q.check(!sb1, "c09:blocked-with-free-window:acks-unread-while-application-not-receiving", func() string {
				return fmt.Sprintf("n=%d: both applications send n+1 messages before they receive; every packet and every ACK is delivered at once, yet 400 ms later the server's Send #%d is still blocked (its first %d packets were acknowledged on the wire; %d packets wait in front of its receive loop); events %v", n, n+1, n, len(s.inb[1]), lastN(l.keep, 14))
			})
			q.stat("send_before_receive_scenarios", 1)
			// now the applications receive: everything arrives
			for k := 0; k < 40; k++ {
				for x := 0; x < 2; x++ {
					if _, rb := s.busy(x); !rb && len(s.recvMsgs[x]) < n+1 {
						s.recv(x)
					}
				}
				deliverAll()
				if len(s.recvMsgs[0]) >= n+1 && len(s.recvMsgs[1]) >= n+1 {
					break
				}
				s.advance(500 * time.Millisecond)
			}
			q.check(len(s.recvMsgs[0]) >= n+1 && len(s.recvMsgs[1]) >= n+1, "c06:not-delivered:send-before-receive", func() string {
				return fmt.Sprintf("n=%d: after both applications started to receive, %v later: client received %d of %d, server %d of %d", n, time.Since(t1), len(s.recvMsgs[0]), n+1, len(s.recvMsgs[1]), n+1)
			})
			synctest.Wait()
			for _, g := range s.finish(base) {
				q.fail("c12:leak:"+g, cfg.id)
			}
		})
		l.o.line("END %s", cfg.id)
		if pan != "" {
			q.fail("gbn:bubble-panic", cfg.id+": "+truncate(pan, 300))
		}
		q.stat("distinct_nontrivial", 1)
	}
	// after a timer-driven retransmission the send loop waits for the peer's answer to it (syncer.waitForSync, up to
	// three resend timeouts) and takes no new data meanwhile: one of five slots in use, every answer lost
	for _, n := range []int{2, 5} {
		cfg := simCfg{id: fmt.Sprintf("syncwait%d", n), n: uint8(n), static: time.Second}
		l.keep = l.keep[:0]
		l.o.line("BEGIN %s n=%d chunk=0", cfg.id, n)
		pan := bubble(t, func(t *testing.T) {
			l.start = time.Now()
			l.last = 0
			base := runtime.NumGoroutine()
			s := newSim(t, l, cfg)
			if !s.cleanHandshake() {
				q.fail("c09:handshake", cfg.id)
				s.finish(base)
				return
			}
			s.send(0, []byte{1, 1})
			for k := 0; k < 6; k++ { // 1.5 s with a mute peer: one retransmission at 1 s
				for s.chanLen(0) > 0 {
					s.op(0, "drop")
				}
				s.advance(250 * time.Millisecond)
			}
			retx := 0
			for _, e := range l.keep {
				if strings.HasPrefix(e, "TX 0 02") {
					retx++
				}
			}
			t1 := time.Now()
			s.send(0, []byte{2, 2})
			sb, _ := s.busy(0)
			waited := time.Duration(0)
			for k := 0; k < 80 && sb; k++ {
				for s.chanLen(0) > 0 {
					s.op(0, "drop")
				}
				s.advance(100 * time.Millisecond)
				sb, _ = s.busy(0)
				waited = time.Since(t1)
			}
			q.check(waited == 0, "c09:blocked-with-free-window:sync-wait-after-timer-resend", func() string {
				return fmt.Sprintf("n=%d, resend timeout 1 s, peer mute: message 1 sent at 0 (transmitted %d times by 1.5 s), Send of message 2 at 1.5 s with 1 of %d slots in use returned only after %v", n, retx, n, waited)
			})
			q.stat("sync_wait_scenarios", 1)
			synctest.Wait()
			for _, g := range s.finish(base) {
				q.fail("c12:leak:"+g, cfg.id)
			}
		})
		l.o.line("END %s", cfg.id)
		if pan != "" {
			q.fail("gbn:bubble-panic", cfg.id+": "+truncate(pan, 300))
		}
		q.stat("distinct_nontrivial", 1)
	}
	q.sample(fmt.Sprintf("n=%v x {static, adaptive}: n Sends, one more blocked, 7 s mute, one ACK; last events %v", ns, firstN(l.keep, 14)))
}
