package harness

import (
	"fmt"
	"runtime"
	"testing"
	"testing/synctest"
	"time"
)

// C09, blocking half: with a mute peer the first N Sends return at the instant
// they are called, the (N+1)-th stays blocked however long the peer stays
// mute, and returns at the instant an acknowledgement frees a slot.
func TestGenC09(t *testing.T) {
	o := newOut(t, "c09_hist.txt")
	defer o.close()
	q := newOracle(t, "c09")
	defer q.close()
	l := &evlog{o: o}
	ns := []int{1, 2, 3, 4, 5, 20, 127, 254}
	if thorough() {
		ns = nil
		for n := 1; n <= 254; n++ {
			ns = append(ns, n)
		}
	}
	for _, n := range ns {
		for variant := 0; variant < 4; variant++ {
			static, mute := variant&1 == 1, variant&2 == 2
			cfg := simCfg{id: fmt.Sprintf("b%d_%v_%v", n, static, mute), n: uint8(n)}
			if static {
				cfg.static = time.Second
			}
			l.keep = l.keep[:0]
			l.o.line("BEGIN %s n=%d chunk=0", cfg.id, n)
			pan := bubble(t, func(t *testing.T) {
				l.start = time.Now()
				l.last = 0
				base := runtime.NumGoroutine()
				s := newSim(t, l, cfg)
				if !s.cleanHandshake() {
					q.fail("c09:handshake", cfg.id)
					s.finish(base)
					return
				}
				t0 := time.Now()
				for i := 0; i < n; i++ {
					s.send(0, []byte{byte(i), 1})
					sb, _ := s.busy(0)
					q.check(!sb && time.Since(t0) == 0, "c09:blocked-before-window-full", func() string {
						return fmt.Sprintf("n=%d: Send #%d did not return immediately with a mute peer", n, i+1)
					})
					if sb {
						break
					}
				}
				s.send(0, []byte{0xEE})
				sb, _ := s.busy(0)
				q.check(sb, "c09:not-blocked-on-full-window", func() string {
					return fmt.Sprintf("n=%d: Send #%d returned although %d packets are unacknowledged", n, n+1, n)
				})
				if mute {
					s.advance(7 * time.Second) // peer mute: resends happen, still no slot
					sb, _ = s.busy(0)
					q.check(sb, "c09:not-blocked-on-full-window", func() string {
						return fmt.Sprintf("n=%d: Send #%d returned after 7 s of a mute peer", n, n+1)
					})
				}
				// let exactly one DATA through and its ACK back
				for k := 0; k < 3 && s.chanLen(0) > 0 && len(s.recvMsgs[1]) == 0; k++ {
					if s.canOp(0) {
						s.op(0, "deliver")
					}
				}
				t1 := time.Now()
				for k := 0; k < 4 && s.canOp(1); k++ {
					s.op(1, "deliver")
					if sb, _ := s.busy(0); !sb {
						break
					}
				}
				sb, _ = s.busy(0)
				if !mute {
					// no retransmission in progress: the release is immediate
					q.check(!sb && time.Since(t1) == 0, "c09:not-released-by-ack", func() string {
						return fmt.Sprintf("n=%d: blocked Send did not return at the instant an ACK was delivered (busy=%v, waited %v)", n, sb, time.Since(t1))
					})
				} else {
					// a retransmission + sync wait may be in progress: bounded delay
					for k := 0; k < 200 && sb; k++ {
						moved := false
						for x := 0; x < 2; x++ {
							for s.canOp(x) {
								s.op(x, "deliver")
								moved = true
							}
						}
						if !moved {
							s.advance(250 * time.Millisecond)
						}
						sb, _ = s.busy(0)
					}
					q.check(!sb, "c09:not-released-by-ack", func() string {
						return fmt.Sprintf("n=%d: blocked Send still blocked %v after acknowledgements started flowing", n, time.Since(t1))
					})
				}
				synctest.Wait()
				for _, g := range s.finish(base) {
					q.fail("c12:leak:"+g, cfg.id)
				}
			})
			l.o.line("END %s", cfg.id)
			if pan != "" {
				q.fail("gbn:bubble-panic", cfg.id+": "+truncate(pan, 300))
			}
			q.stat("distinct_nontrivial", 1)
			q.stat("blocking_scenarios", 1)
		}
	}
	q.sample(fmt.Sprintf("n=%v x {static, adaptive}: n Sends, one more blocked, 7 s mute, one ACK; last events %v", ns, firstN(l.keep, 14)))
}
