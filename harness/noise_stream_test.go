package harness

import (
	"bytes"
	"context"
	"errors"
	"fmt"
	"io"
	"net"
	"strings"
	"sync"
	"testing"
	"time"

	"github.com/btcsuite/btcd/btcec/v2"
	"github.com/lightninglabs/lightning-node-connect/hashmailrpc"
	"github.com/lightninglabs/lightning-node-connect/mailbox"
)

// ---- mock ProxyConn over the in-memory pipes ------------------------------------

type memAddr struct{}

func (memAddr) Network() string { return "mem" }
func (memAddr) String() string  { return "mem" }

type memConn struct {
	r, w *halfPipe
}

func (c *memConn) Read(p []byte) (int, error)                 { return c.r.Read(p) }
func (c *memConn) Write(p []byte) (int, error)                { return c.w.Write(p) }
func (c *memConn) Close() error                               { c.w.Close(); return nil }
func (c *memConn) LocalAddr() net.Addr                        { return memAddr{} }
func (c *memConn) RemoteAddr() net.Addr                       { return memAddr{} }
func (c *memConn) SetDeadline(time.Time) error                { return nil }
func (c *memConn) SetReadDeadline(time.Time) error            { return nil }
func (c *memConn) SetWriteDeadline(time.Time) error           { return nil }
func (c *memConn) ReceiveControlMsg(mailbox.ControlMsg) error { return nil }
func (c *memConn) SendControlMsg(mailbox.ControlMsg) error    { return nil }
func (c *memConn) SetRecvTimeout(time.Duration)               {}
func (c *memConn) SetSendTimeout(time.Duration)               {}

var _ mailbox.ProxyConn = (*memConn)(nil)

func memPair() (*memConn, *memConn, *halfPipe, *halfPipe) {
	ab, ba := newHalfPipe(), newHalfPipe()
	return &memConn{r: ba, w: ab}, &memConn{r: ab, w: ba}, ab, ba
}

// grpcPair returns two NoiseGrpcConn after a real XX handshake over memory.
func grpcPair(r *rng) (client, server net.Conn, err error) {
	skI, skR := privFromRng(r), privFromRng(r)
	pass := r.bytes(14)
	cd := mailbox.NewConnData(keyECDH(skI), nil, pass, nil, nil, nil)
	sd := mailbox.NewConnData(keyECDH(skR), nil, pass, []byte("macaroon"), nil, nil)
	ca, cb, _, _ := memPair()
	cn, sn := mailbox.NewNoiseGrpcConn(cd), mailbox.NewNoiseGrpcConn(sd)
	errc := make(chan error, 1)
	go func() {
		var e error
		server, _, e = sn.ServerHandshake(cb)
		errc <- e
	}()
	client, _, err = cn.ClientHandshake(context.Background(), "", ca)
	if e := <-errc; err == nil {
		err = e
	}
	return client, server, err
}

// kitPair returns the two plain mailbox connections (connKit over GBN over an in-memory hashmail relay,
// no Noise layer) of a client and a server.
func kitPair(r *rng) (client, server net.Conn, cleanup func(), err error) {
	client, server, cleanup, _, err = kitPairRelay(r)
	return
}

func kitPairRelay(r *rng) (client, server net.Conn, cleanup func(), relay *fakeRelay, err error) {
	return kitPairRelayOver(r, false)
}

// kitPairRelayOver: overGRPC puts a real gRPC client and server (bufconn) between the library and the relay's
// mailboxes instead of handing the library the relay itself as its hashmail client.
func kitPairRelayOver(r *rng, overGRPC bool) (client, server net.Conn, cleanup func(), relayOut *fakeRelay, err error) {
	fr := newFakeRelay()
	relayOut = fr
	var relay hashmailrpc.HashMailClient = fr
	stopGRPC := func() {}
	if overGRPC {
		gc, stop, gerr := fr.serveGRPC()
		if gerr != nil {
			return nil, nil, nil, fr, gerr
		}
		relay, stopGRPC = gc, stop
	}
	ctx, cancel := context.WithCancel(context.Background())
	entropy := r.bytes(14)
	cdC := mailbox.NewConnData(keyECDH(privFromRng(r)), nil, entropy, nil, nil, nil)
	cdS := mailbox.NewConnData(keyECDH(privFromRng(r)), nil, entropy, []byte("macaroon"), nil, nil)
	srv, err1 := mailbox.VerifNewServer("relay", cdS, relay, func(mailbox.ServerStatus) {})
	cli, err2 := mailbox.VerifNewClient(ctx, "relay", cdC, relay)
	if err1 != nil || err2 != nil {
		cancel()
		stopGRPC()
		return nil, nil, nil, fr, fmt.Errorf("%v %v", err1, err2)
	}
	errc := make(chan error, 1)
	go func() {
		var e error
		server, e = srv.Accept()
		errc <- e
	}()
	for k := 0; k < 400; k++ { // the server creates both mailboxes first; a client that comes early waits 2 s
		fr.mu.Lock()
		nb := fr.newBox
		fr.mu.Unlock()
		if nb >= 2 {
			break
		}
		time.Sleep(5 * time.Millisecond)
	}
	client, err = cli.Dial(ctx, "")
	select {
	case e := <-errc:
		if err == nil {
			err = e
		}
	case <-time.After(20 * time.Second):
		err = fmt.Errorf("Accept did not return")
	}
	cleanup = func() {
		if client != nil {
			_ = client.Close()
		}
		if server != nil {
			_ = server.Close()
		}
		_ = srv.Close()
		cancel()
		stopGRPC()
	}
	return client, server, cleanup, fr, err
}

// tcpPair returns two NoiseConn (the TCP variant) over memory.
func tcpPair(r *rng) (a, b *mailbox.NoiseConn, ab, ba *halfPipe, err error) {
	p := newMachinePair(r, pairCfg{minI: 0, maxI: 2, minR: 0, maxR: 2})
	if p.errI != nil || p.errR != nil {
		return nil, nil, nil, nil, fmt.Errorf("handshake: %v / %v", p.errI, p.errR)
	}
	ca, cb, ab, ba := memPair()
	return mailbox.VerifNewNoiseConn(ca, p.init), mailbox.VerifNewNoiseConn(cb, p.resp), ab, ba, nil
}

func intsString(xs []int) string {
	if len(xs) == 0 {
		return "-"
	}
	var sb strings.Builder
	for i, x := range xs {
		if i > 0 {
			sb.WriteByte(',')
		}
		fmt.Fprintf(&sb, "%d", x)
	}
	return sb.String()
}

// C15: any sequence of writes and any sequence of read-buffer sizes.
func TestGenC15(t *testing.T) {
	r := newRng(seed())
	o := newOut(t, "c15_impl.txt")
	defer o.close()
	q := newOracle(t, "c15")
	defer q.close()
	wsizes := []int{0, 1, 2, 3, 100, 4096, 32767, 32768, 32769, 65535}
	bsizes := []int{1, 2, 7, 100, 4096, 32768, 32769, 65535, 100000}
	n := scale(150, 3000)
	var kitC, kitS net.Conn
	var kitClean func()
	defer func() {
		if kitC != nil {
			c := kitC
			kitClean()
			// a Write that fails reports that nothing was accepted (the record layer above trusts the count:
			// bytes reported as written are never sent again)
			n, err := c.Write([]byte("after close"))
			q.check(err != nil && n == 0, "c15:failed-write-reports-bytes:kit", func() string {
				return fmt.Sprintf("Write on a closed mailbox connection returned n=%d err=%v", n, err)
			})
		}
	}()
	for i := 0; i < n; i++ {
		rr := r.sub(i)
		kind := []string{"grpc", "tcp"}[i%2]
		if i%5 == 4 {
			kind = "kit"
		}
		var writes []int
		for k := 1 + rr.intn(5); k > 0; k-- {
			w := wsizes[rr.intn(len(wsizes))]
			if rr.chance(2, 3) {
				w = rr.pick([]int{0, 1, 2, 3, 100, 300})
			}
			if kind == "tcp" && rr.chance(1, 12) {
				w = rr.pick([]int{65536, 65537, 131070, 140000})
			}
			if kind == "grpc" && rr.chance(1, 15) {
				w = 65536 + rr.intn(10) // must be rejected, not truncated
			}
			writes = append(writes, w)
		}
		var rd io.Reader
		var wr io.Writer
		var closeW func()
		afterReads := func() {}
		var all, got []byte
		bad := ""
		if kind == "kit" {
			// one connection pair serves consecutive cases (setting one up takes 2 s of retry waits) as long
			// as every byte written so far has been read back
			if kitC == nil {
				c, s, cleanup, err := kitPair(rr.sub(5))
				if err != nil {
					q.fail("c15:handshake", "kit: "+err.Error())
					if cleanup != nil {
						cleanup()
					}
					continue
				}
				kitC, kitS, kitClean = c, s, cleanup
				q.stat("kit_pairs", 1)
			}
			wr, rd = kitC, kitReader{kitS}
			closeW = func() {} // a GBN FIN may overtake unread data: no close between the cases
			afterReads = func() {
				if bad != "" || len(got) != len(all) {
					go kitClean()
					kitC, kitS = nil, nil
				}
			}
		} else if kind == "grpc" {
			c, s, err := grpcPair(rr.sub(5))
			if err != nil {
				q.fail("c15:handshake", err.Error())
				continue
			}
			wr, rd = c, s
			closeW = func() { c.Close() }
		} else {
			a, b, ab, _, err := tcpPair(rr.sub(5))
			if err != nil {
				q.fail("c15:handshake", err.Error())
				continue
			}
			if rr.chance(1, 3) {
				// the transport hands the reader a few bytes per read (TCP segmentation): no effect on the stream
				fr := rr.sub(6)
				ab.mu.Lock()
				ab.frag = func() int { return 1 + fr.intn(9) }
				ab.mu.Unlock()
				q.stat("fragmenting_transport_cases", 1)
			}
			wr, rd = a, b
			closeW = func() { a.Close() }
		}
		var accepted []int
		var wres []string
		for _, w := range writes {
			data := rr.bytes(w)
			nw, err := wr.Write(data)
			switch {
			case err == nil && nw == w:
				all = append(all, data...)
				accepted = append(accepted, w)
				wres = append(wres, "ok")
			case err != nil && nw == 0:
				wres = append(wres, "rejected")
			default:
				wres = append(wres, fmt.Sprintf("partial:%d", nw))
				q.fail("c15:write-truncated:"+kind, fmt.Sprintf("Write of %d bytes returned n=%d err=%v", w, nw, err))
			}
			if w > 65535 && kind == "grpc" {
				q.check(err != nil, "c15:oversize-write-not-rejected:grpc", func() string { return fmt.Sprintf("Write(%d) = %d, %v", w, nw, err) })
			}
		}
		closeW()
		// reads
		var bufs, ns []int
		for k := 0; k < 400; k++ {
			bs := bsizes[rr.intn(len(bsizes))]
			if rr.chance(1, 2) {
				bs = rr.pick([]int{1, 2, 7, 100})
			}
			buf := make([]byte, bs)
			nr, err := safeRead(rd, buf)
			if err != nil && nr == 0 {
				if len(got) < len(all) {
					bad = fmt.Sprintf("read error %v after %d of %d bytes", err, len(got), len(all))
				}
				break
			}
			bufs = append(bufs, bs)
			ns = append(ns, nr)
			if nr > bs {
				bad = fmt.Sprintf("Read with a %d-byte buffer reported n=%d", bs, nr)
				break
			}
			got = append(got, buf[:nr]...)
			if len(got) >= len(all) {
				break
			}
		}
		afterReads()
		o.line("RD %s %s | %s | %s", kind, intsString(accepted), intsString(bufs), intsString(ns))
		key := "c15:stream-contract:" + kind
		if bad == "" && !bytes.Equal(got, all[:min(len(got), len(all))]) {
			bad = "bytes read differ from bytes written"
		}
		if bad == "" && len(got) != len(all) {
			bad = fmt.Sprintf("only %d of %d bytes could be read", len(got), len(all))
		}
		q.check(bad == "", key, func() string {
			return fmt.Sprintf("case %d %s: writes %v (%v), buffers %v, n %v: %s", i, kind, writes, wres, bufs, ns, bad)
		})
		q.stat("distinct_nontrivial", 1)
		q.stat("conn_"+kind, 1)
		if i < 3 {
			q.sample(fmt.Sprintf("%s writes=%v bufs=%v -> n=%v", kind, writes, bufs, ns))
		}
	}
	duplexCases(q, r, scale(12, 200), "c15:full-duplex")
}

// duplexCases: both endpoints write and read at the same time over a transport whose Write, like net.Pipe,
// hands the bytes over only when the peer reads (so an endpoint's pending output sits in its own buffers
// while its reader is at work). Each direction's bytes must arrive intact.
func duplexCases(q *oracle, r *rng, n int, key string) {
	for i := 0; i < n; i++ {
		rr := r.sub(7000 + i)
		kind := []string{"grpc", "tcp"}[i%2]
		var a, b net.Conn
		var hab, hba *halfPipe
		if kind == "grpc" {
			skI, skR := privFromRng(rr), privFromRng(rr)
			pass := rr.bytes(14)
			cd := mailbox.NewConnData(keyECDH(skI), nil, pass, nil, nil, nil)
			sd := mailbox.NewConnData(keyECDH(skR), nil, pass, []byte("macaroon"), nil, nil)
			ca, cb, ab, ba := memPair()
			hab, hba = ab, ba
			errc := make(chan error, 1)
			go func() {
				var e error
				b, _, e = mailbox.NewNoiseGrpcConn(sd).ServerHandshake(cb)
				errc <- e
			}()
			var err error
			a, _, err = mailbox.NewNoiseGrpcConn(cd).ClientHandshake(context.Background(), "", ca)
			if e := <-errc; err != nil || e != nil {
				q.fail(key+":handshake", fmt.Sprintf("duplex: %v %v", err, e))
				continue
			}
		} else {
			x, y, ab, ba, err := tcpPair(rr.sub(5))
			if err != nil {
				q.fail("c15:handshake", err.Error())
				continue
			}
			a, b, hab, hba = x, y, ab, ba
		}
		hab.mu.Lock()
		hab.lazy = true
		hab.mu.Unlock()
		hba.mu.Lock()
		hba.lazy = true
		hba.mu.Unlock()
		var sent, got [2][]byte
		var errs [2]string
		var wg sync.WaitGroup
		conns := [2]net.Conn{a, b}
		nmsg := 2 + rr.intn(4)
		totals := [2]int{}
		var msgs [2][][]byte
		for x := 0; x < 2; x++ {
			for k := 0; k < nmsg; k++ {
				m := rr.bytes(rr.pick([]int{1, 3, 100, 4096, 40000}))
				msgs[x] = append(msgs[x], m)
				totals[x] += len(m)
			}
		}
		for x := 0; x < 2; x++ {
			x := x
			wg.Add(2)
			go func() { // writer
				defer wg.Done()
				for _, m := range msgs[x] {
					nw, err := conns[x].Write(m)
					sent[x] = append(sent[x], m[:nw]...)
					if err != nil {
						errs[x] += "write:" + err.Error() + ";"
						return
					}
				}
			}()
			go func() { // reader of the other direction, starting a little later on one side
				defer wg.Done()
				if x == 1 {
					time.Sleep(30 * time.Millisecond)
				}
				buf := make([]byte, 8192)
				for len(got[x]) < totals[1-x] {
					nr, err := conns[x].Read(buf)
					got[x] = append(got[x], buf[:nr]...)
					if err != nil {
						errs[x] += "read:" + err.Error() + ";"
						return
					}
				}
			}()
		}
		done := make(chan struct{})
		go func() { wg.Wait(); close(done) }()
		select {
		case <-done:
		case <-time.After(10 * time.Second):
			hab.Close()
			hba.Close()
			<-done
			errs[0] += "stalled;"
		}
		ok := errs[0] == "" && errs[1] == "" && bytes.Equal(got[1], sent[0]) && bytes.Equal(got[0], sent[1])
		q.check(ok, key+":"+kind, func() string {
			return fmt.Sprintf("duplex case %d (%s): %d messages each way over a hand-over transport: errors [%q | %q], a->b %d/%d bytes, b->a %d/%d bytes",
				i, kind, nmsg, errs[0], errs[1], len(got[1]), len(sent[0]), len(got[0]), len(sent[1]))
		})
		q.stat("duplex_cases", 1)
		hab.Close()
		hba.Close()
	}
}

func safeRead(rd io.Reader, buf []byte) (n int, err error) {
	defer func() {
		if r := recover(); r != nil {
			err = fmt.Errorf("panic: %v", r)
		}
	}()
	return rd.Read(buf)
}

// ---- C16 -------------------------------------------------------------------------

type limitWriter struct {
	limits []int
	calls  int
	out    []byte
}

var errTimeout = errors.New("i/o timeout")

// cutConn accepts `cut` bytes in total, reports a timeout on the Write that crosses that point (taking the
// bytes up to it), and accepts everything afterwards.
type cutConn struct {
	memConn
	cut   int
	fired bool
	out   []byte
}

func (c *cutConn) Write(p []byte) (int, error) {
	if !c.fired && len(c.out)+len(p) > c.cut {
		c.fired = true
		n := c.cut - len(c.out)
		if n < 0 {
			n = 0
		}
		c.out = append(c.out, p[:n]...)
		return n, errTimeout
	}
	c.out = append(c.out, p...)
	return len(p), nil
}

// gatedConn lets the handshake write, and read the acts that come before its first own write; every Read after
// its first Write waits until the gate is opened.
type gatedConn struct {
	*memConn
	gate   chan struct{}
	mu     sync.Mutex
	writes int
}

func (g *gatedConn) Write(p []byte) (int, error) {
	g.mu.Lock()
	g.writes++
	g.mu.Unlock()
	return g.memConn.Write(p)
}

func (g *gatedConn) Read(p []byte) (int, error) {
	g.mu.Lock()
	w := g.writes
	g.mu.Unlock()
	if w >= 1 {
		<-g.gate
	}
	return g.memConn.Read(p)
}

// deadlineConn records the deadlines it is given.
type deadlineConn struct {
	memConn
	read, write               time.Time
	readAfterRW, writeAfterRW time.Time
}

func (d *deadlineConn) SetReadDeadline(t time.Time) error { d.read, d.readAfterRW = t, t; return nil }
func (d *deadlineConn) SetWriteDeadline(t time.Time) error {
	d.write, d.writeAfterRW = t, t
	return nil
}
func (d *deadlineConn) SetDeadline(t time.Time) error { d.read, d.write = t, t; return nil }

type readConn struct {
	memConn
	r io.Reader
}

func (c *readConn) Read(p []byte) (int, error) { return c.r.Read(p) }

func (w *limitWriter) Write(p []byte) (int, error) {
	lim := len(p)
	if w.calls < len(w.limits) {
		lim = w.limits[w.calls]
	}
	w.calls++
	if lim >= len(p) {
		w.out = append(w.out, p...)
		return len(p), nil
	}
	w.out = append(w.out, p[:lim]...)
	return lim, errTimeout
}

func TestGenC16(t *testing.T) {
	r := newRng(seed())
	o := newOut(t, "c16_impl.txt")
	defer o.close()
	q := newOracle(t, "c16")
	defer q.close()

	// (1) handshakes and records over transports that return 1..k bytes per Read
	id := 0
	for _, kk := range []bool{false, true} {
		for _, ver := range [][2]byte{{0, 0}, {1, 1}, {2, 2}, {0, 2}} {
			if kk && ver[1] < 2 {
				continue
			}
			for _, k := range []int{0, 1, 2, 3, 17, 33} {
				for _, who := range []string{"initiator", "responder", "both"} {
					if k == 0 && who != "both" {
						continue
					}
					id++
					rr := r.sub(id)
					frag := func() int { return 1 + rr.intn(k) }
					cfg := pairCfg{kk: kk, minI: ver[0], maxI: ver[1], minR: ver[0], maxR: ver[1], authData: rr.bytes(rr.pick([]int{0, 5, 300}))}
					if kk {
						cfg.minI, cfg.minR = 2, 2
					}
					if k > 0 {
						if who != "responder" {
							cfg.fragI = frag
						}
						if who != "initiator" {
							cfg.fragR = frag
						}
					}
					done := make(chan *machinePair, 1)
					go func() { done <- newMachinePair(r.sub(9000+int(ver[1])), cfg) }()
					var p *machinePair
					select {
					case p = <-done:
					case <-time.After(10 * time.Second):
						q.fail("c16:handshake-hangs-under-fragmentation", fmt.Sprintf("pattern kk=%v versions %v fragment<=%d on %s: DoHandshake did not return", kk, ver, k, who))
						continue
					}
					ok := p.errI == nil && p.errR == nil
					o.line("HSFRAG kk=%d vmin=%d vmax=%d k=%d who=%s | %s", b2i(kk), ver[0], ver[1], k, who, map[bool]string{true: "ok", false: "fail"}[ok])
					q.check(ok, "c16:handshake-fails-under-fragmentation", func() string {
						return fmt.Sprintf("pattern kk=%v versions %v, reads return at most %d bytes on %s: initiator err=%v responder err=%v", kk, ver, k, who, p.errI, p.errR)
					})
					q.stat("handshake_fragmentations", 1)
					q.stat("distinct_nontrivial", 1)
					if !ok {
						continue
					}
					// a record read through a fragmenting reader
					pl := rr.bytes(rr.pick([]int{0, 1, 17, 300}))
					var wire bytes.Buffer
					_ = p.init.WriteMessage(pl)
					_, _ = p.init.Flush(&wire)
					hp := newHalfPipe()
					if k > 0 {
						hp.frag = frag
					}
					_, _ = hp.Write(wire.Bytes())
					hp.Close()
					got, err := p.resp.ReadMessage(hp)
					q.check(err == nil && bytes.Equal(got, pl), "c16:record-fails-under-fragmentation", func() string {
						return fmt.Sprintf("record of %d bytes, fragments <= %d: err=%v got %d bytes", len(pl), k, err, len(got))
					})
				}
			}
		}
	}

	// (1b) the last handshake act and the peer's first record arrive together: the party that writes the last act
	// (client in XX, server in KK) sends a record at once, and the reader of that act only gets to read when both
	// are already in its stream. The record must come out of the secured connection.
	for ci := 0; ci < scale(6, 40); ci++ {
		rr := r.sub(660000 + ci)
		kk := ci%2 == 1
		skI, skR := privFromRng(rr), privFromRng(rr)
		pass := rr.bytes(14)
		var remI, remR *btcec.PublicKey
		if kk {
			remI, remR = skR.PubKey(), skI.PubKey()
		}
		cd := mailbox.NewConnData(keyECDH(skI), remI, pass, nil, nil, nil)
		sd := mailbox.NewConnData(keyECDH(skR), remR, pass, []byte("macaroon"), nil, nil)
		ca, cb, _, _ := memPair()
		gate := make(chan struct{})
		var cConn, sConn net.Conn = ca, cb
		if kk {
			cConn = &gatedConn{memConn: ca, gate: gate} // the client reads act two only after the gate opens
		} else {
			sConn = &gatedConn{memConn: cb, gate: gate} // the server reads act three only after the gate opens
		}
		msg := rr.bytes(1 + rr.intn(300))
		var cs, ss net.Conn
		var ce, se error
		var wg sync.WaitGroup
		wg.Add(2)
		go func() {
			defer wg.Done()
			cs, _, ce = mailbox.NewNoiseGrpcConn(cd).ClientHandshake(context.Background(), "", cConn)
			if !kk && ce == nil {
				_, ce = cs.Write(msg)
				close(gate)
			}
		}()
		go func() {
			defer wg.Done()
			ss, _, se = mailbox.NewNoiseGrpcConn(sd).ServerHandshake(sConn)
			if kk && se == nil {
				_, se = ss.Write(msg)
				close(gate)
			}
		}()
		done := make(chan struct{})
		go func() { wg.Wait(); close(done) }()
		got := []byte(nil)
		var rerr error
		select {
		case <-done:
			rd := ss
			if kk {
				rd = cs
			}
			if ce == nil && se == nil && rd != nil {
				buf := make([]byte, 400)
				rc := make(chan struct{})
				go func() {
					defer close(rc)
					for len(got) < len(msg) && rerr == nil {
						var k int
						k, rerr = rd.Read(buf)
						got = append(got, buf[:k]...)
					}
				}()
				select {
				case <-rc:
				case <-time.After(3 * time.Second):
					rerr = fmt.Errorf("read did not return within 3 s")
					ca.Close()
					cb.Close()
				}
			}
		case <-time.After(5 * time.Second):
			ce = fmt.Errorf("handshake did not return within 5 s")
			select {
			case <-gate:
			default:
				close(gate)
			}
			ca.Close()
			cb.Close()
		}
		q.check(ce == nil && se == nil && rerr == nil && bytes.Equal(got, msg), "c16:record-right-behind-the-last-act", func() string {
			return fmt.Sprintf("case %d (%s): the first record (%d bytes) is in the stream before the last act is read: handshake errors %v / %v, read error %v, got %d bytes",
				ci, map[bool]string{false: "XX", true: "KK"}[kk], len(msg), ce, se, rerr, len(got))
		})
		q.stat("act_and_record_together_cases", 1)
	}

	// (1c) deadlines of the TCP variant reach the transport for the right direction
	{
		pp := newMachinePair(r.sub(515151), pairCfg{minI: 0, maxI: 2, minR: 0, maxR: 2})
		if pp.errI == nil && pp.errR == nil {
			rec := &deadlineConn{}
			nc := mailbox.VerifNewNoiseConn(rec, pp.init)
			tr, tw, tb := time.Unix(1000, 0), time.Unix(2000, 0), time.Unix(3000, 0)
			_ = nc.SetReadDeadline(tr)
			_ = nc.SetWriteDeadline(tw)
			okRW := rec.read.Equal(tr) && rec.write.Equal(tw)
			_ = nc.SetDeadline(tb)
			okB := rec.read.Equal(tb) && rec.write.Equal(tb)
			q.check(okRW && okB, "c16:deadline-forwarded-to-the-wrong-direction", func() string {
				return fmt.Sprintf("NoiseConn: after SetReadDeadline(%d) and SetWriteDeadline(%d) the transport has read=%d write=%d; after SetDeadline(%d): read=%d write=%d",
					tr.Unix(), tw.Unix(), rec.readAfterRW.Unix(), rec.writeAfterRW.Unix(), tb.Unix(), rec.read.Unix(), rec.write.Unix())
			})
		}
	}

	// (2) Flush against a writer that accepts part of the record and times out
	p := newMachinePair(r.sub(424242), pairCfg{minI: 0, maxI: 2, minR: 0, maxR: 2})
	if p.errI != nil || p.errR != nil {
		q.fail("c16:handshake", fmt.Sprintf("%v %v", p.errI, p.errR))
		return
	}
	sk, ss, _, _, _, _ := p.init.VerifCipherKeys()
	ref := &refCipher{key: sk, salt: ss}
	interleave := false // while a flush is pending, the same endpoint reads a record of the other direction
	flushCase := func(plen int, limits []int) {
		pl := r.bytes(plen)
		want := ref.record(pl)
		if err := p.init.WriteMessage(pl); err != nil {
			q.fail("c16:write-message", err.Error())
			return
		}
		w := &limitWriter{limits: limits}
		var calls []string
		total := 0
		okSeq := true
		for c := 0; c < len(limits)+3; c++ {
			// while something is pending a new record must be refused
			if len(w.out) < len(want) {
				e := p.init.WriteMessage([]byte("x"))
				q.check(errors.Is(e, mailbox.ErrMessageNotFlushed), "c16:new-record-started-while-pending", func() string {
					return fmt.Sprintf("payload %d limits %v: WriteMessage during a pending flush returned %v", plen, limits, e)
				})
				if e == nil {
					okSeq = false
					break
				}
			}
			before, callsBefore := len(w.out), w.calls
			nn, err := p.init.Flush(w)
			a1, a2 := -1, -1
			if w.calls-callsBefore >= 1 && callsBefore < len(limits) {
				a1 = limits[callsBefore]
			}
			if w.calls-callsBefore >= 2 && callsBefore+1 < len(limits) {
				a2 = limits[callsBefore+1]
			}
			calls = append(calls, fmt.Sprintf("%d,%d,%d:%d:%d:%d", w.calls-callsBefore, a1, a2, len(w.out)-before, nn, b2i(err != nil)))
			total += nn
			if err == nil {
				break
			}
			if interleave {
				msg := r.bytes(1 + r.intn(40))
				var back bytes.Buffer
				e1 := p.resp.WriteMessage(msg)
				_, e2 := p.resp.Flush(&back)
				got, e3 := p.init.ReadMessage(&back)
				q.check(e1 == nil && e2 == nil && e3 == nil && bytes.Equal(got, msg), "c16:read-while-flush-pending", func() string {
					return fmt.Sprintf("payload %d limits %v: reading the peer's record while a flush is pending: %v %v %v", plen, limits, e1, e2, e3)
				})
				q.stat("reads_during_pending_flush", 1)
			}
		}
		o.line("FL %d | %s", plen, strings.Join(calls, " "))
		q.check(okSeq && bytes.Equal(w.out, want) && total == plen, "c16:flush", func() string {
			return fmt.Sprintf("payload %d, writer limits %v: emitted %d bytes (record is %d, equal=%v), plaintext bytes reported %d; calls %v",
				plen, limits, len(w.out), len(want), bytes.Equal(w.out, want), total, calls)
		})
		q.stat("flush_cases", 1)
		q.stat("distinct_nontrivial", 1)
	}
	for _, plen := range []int{0, 1, 15, 16, 17, 100} {
		total := 18 + plen + 16
		// all two-way and three-way splits of the record's wire bytes
		for a := 0; a <= total; a++ {
			flushCase(plen, splitLimits(plen, []int{a}))
			interleave = true
			flushCase(plen, splitLimits(plen, []int{a}))
			interleave = false
			if !thorough() && a%3 != 0 {
				continue
			}
			for b := a; b <= total; b += 1 + (total-a)/6 {
				flushCase(plen, splitLimits(plen, []int{a, b}))
			}
		}
	}
	for i := 0; i < scale(200, 5000); i++ {
		plen := r.pick([]int{0, 1, 2, 16, 17, 33, 500})
		var lim []int
		for k := r.intn(8); k > 0; k-- {
			lim = append(lim, r.intn(40))
		}
		flushCase(plen, lim)
	}
	// (3) NoiseConn.Write of more than one record with a write timeout somewhere in the wire stream: the count it
	// returns is the number of plaintext bytes the connection has taken responsibility for, so flushing what is
	// pending and resubmitting b[count:] must give the peer exactly b
	for i := 0; i < scale(40, 160); i++ {
		rr := r.sub(880000 + i)
		pp := newMachinePair(rr.sub(1), pairCfg{minI: 0, maxI: 2, minR: 0, maxR: 2})
		if pp.errI != nil || pp.errR != nil {
			q.fail("c16:handshake", fmt.Sprintf("%v %v", pp.errI, pp.errR))
			continue
		}
		size := rr.pick([]int{65536, 65537, 70535, 131070, 131071, 140000})
		b := rr.bytes(size)
		// the timeout strikes after `cut` wire bytes (one limit per Write call of Flush: header, body)
		cut := rr.intn(size + 200)
		if rr.chance(1, 3) {
			cut = 65535 + 34 + rr.pick([]int{0, 1, 17, 18, 19, 2000}) // inside the second record
		}
		lc := &cutConn{cut: cut}
		nc := mailbox.VerifNewNoiseConn(lc, pp.init)
		total, err := nc.Write(b)
		steps := fmt.Sprintf("Write(%d)=%d,%v", size, total, err != nil)
		for k := 0; err != nil && k < 6; k++ {
			var n int
			n, err = nc.Flush()
			total += n
			steps += fmt.Sprintf(" Flush=%d,%v", n, err != nil)
		}
		if err == nil && total < size && total >= 0 {
			var n int
			n, err = nc.Write(b[total:])
			steps += fmt.Sprintf(" Write(rest %d)=%d,%v", size-total, n, err != nil)
			total += n
		}
		// what the peer reads from the wire
		rd := mailbox.VerifNewNoiseConn(&readConn{r: bytes.NewReader(lc.out)}, pp.resp)
		got := make([]byte, 0, size)
		buf := make([]byte, 65536)
		var rerr error
		for len(got) < size+10 {
			n, e := rd.Read(buf)
			got = append(got, buf[:n]...)
			if e != nil {
				rerr = e
				break
			}
		}
		q.check(err == nil && total == size && bytes.Equal(got, b), "c16:multi-record-write-count", func() string {
			return fmt.Sprintf("Write of %d bytes, timeout after %d wire bytes: %s; total reported %d; the peer read %d bytes (equal=%v, read error %v)",
				size, cut, steps, total, len(got), bytes.Equal(got, b), rerr)
		})
		q.stat("multi_record_write_cases", 1)
	}
	q.sample("flush: payload sizes {0,1,15,16,17,100} x all two-way and (sampled) three-way splits of header+body, plus random finer partitions")
}

// splitLimits turns cut positions in the record's wire bytes into per-Write limits
// (Flush issues one Write for the rest of the header, then one for the rest of the body).
func splitLimits(plen int, cuts []int) []int {
	hdr := 18
	var lims []int
	pos := 0
	for _, c := range cuts {
		if c < pos {
			c = pos
		}
		// bytes accepted before the timeout in this Flush call, spread over its Write calls
		n := c - pos
		if pos < hdr {
			if pos+n < hdr {
				lims = append(lims, n) // header write cut short: body write not reached
			} else {
				lims = append(lims, hdr-pos, n-(hdr-pos))
			}
		} else {
			lims = append(lims, n)
		}
		pos = c
	}
	return lims
}

// kitReader bounds every Read of a plain mailbox connection: lost bytes must show up as an error, not a hang.
type kitReader struct{ c net.Conn }

func (k kitReader) Read(b []byte) (int, error) {
	_ = k.c.SetReadDeadline(time.Now().Add(5 * time.Second))
	return k.c.Read(b)
}
