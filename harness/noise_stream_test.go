package harness

import (
	"bytes"
	"context"
	"errors"
	"fmt"
	"io"
	"net"
	"strings"
	"testing"
	"time"

	"github.com/lightninglabs/lightning-node-connect/mailbox"
)

// ---- mock ProxyConn over the in-memory pipes ------------------------------------

type memAddr struct{}

func (memAddr) Network() string { return "mem" }
func (memAddr) String() string  { return "mem" }

type memConn struct {
	r, w *halfPipe
}

func (c *memConn) Read(p []byte) (int, error)                  { return c.r.Read(p) }
func (c *memConn) Write(p []byte) (int, error)                 { return c.w.Write(p) }
func (c *memConn) Close() error                                { c.w.Close(); return nil }
func (c *memConn) LocalAddr() net.Addr                         { return memAddr{} }
func (c *memConn) RemoteAddr() net.Addr                        { return memAddr{} }
func (c *memConn) SetDeadline(time.Time) error                 { return nil }
func (c *memConn) SetReadDeadline(time.Time) error             { return nil }
func (c *memConn) SetWriteDeadline(time.Time) error            { return nil }
func (c *memConn) ReceiveControlMsg(mailbox.ControlMsg) error  { return nil }
func (c *memConn) SendControlMsg(mailbox.ControlMsg) error     { return nil }
func (c *memConn) SetRecvTimeout(time.Duration)                {}
func (c *memConn) SetSendTimeout(time.Duration)                {}

var _ mailbox.ProxyConn = (*memConn)(nil)

func memPair() (*memConn, *memConn, *halfPipe, *halfPipe) {
	ab, ba := newHalfPipe(), newHalfPipe()
	return &memConn{r: ba, w: ab}, &memConn{r: ab, w: ba}, ab, ba
}

// grpcPair returns two NoiseGrpcConn after a real XX handshake over memory.
func grpcPair(r *rng) (client, server net.Conn, err error) {
	skI, skR := privFromRng(r), privFromRng(r)
	pass := r.bytes(14)
	cd := mailbox.NewConnData(keyECDH(skI), nil, pass, nil, nil, nil)
	sd := mailbox.NewConnData(keyECDH(skR), nil, pass, []byte("macaroon"), nil, nil)
	ca, cb, _, _ := memPair()
	cn, sn := mailbox.NewNoiseGrpcConn(cd), mailbox.NewNoiseGrpcConn(sd)
	errc := make(chan error, 1)
	go func() {
		var e error
		server, _, e = sn.ServerHandshake(cb)
		errc <- e
	}()
	client, _, err = cn.ClientHandshake(context.Background(), "", ca)
	if e := <-errc; err == nil {
		err = e
	}
	return client, server, err
}

// kitPair returns the two plain mailbox connections (connKit over GBN over an in-memory hashmail relay,
// no Noise layer) of a client and a server.
func kitPair(r *rng) (client, server net.Conn, cleanup func(), err error) {
	relay := newFakeRelay()
	ctx, cancel := context.WithCancel(context.Background())
	entropy := r.bytes(14)
	cdC := mailbox.NewConnData(keyECDH(privFromRng(r)), nil, entropy, nil, nil, nil)
	cdS := mailbox.NewConnData(keyECDH(privFromRng(r)), nil, entropy, []byte("macaroon"), nil, nil)
	srv, err1 := mailbox.VerifNewServer("relay", cdS, relay, func(mailbox.ServerStatus) {})
	cli, err2 := mailbox.VerifNewClient(ctx, "relay", cdC, relay)
	if err1 != nil || err2 != nil {
		cancel()
		return nil, nil, nil, fmt.Errorf("%v %v", err1, err2)
	}
	errc := make(chan error, 1)
	go func() {
		var e error
		server, e = srv.Accept()
		errc <- e
	}()
	for k := 0; k < 400; k++ { // the server creates both mailboxes first; a client that comes early waits 2 s
		relay.mu.Lock()
		nb := relay.newBox
		relay.mu.Unlock()
		if nb >= 2 {
			break
		}
		time.Sleep(5 * time.Millisecond)
	}
	client, err = cli.Dial(ctx, "")
	select {
	case e := <-errc:
		if err == nil {
			err = e
		}
	case <-time.After(20 * time.Second):
		err = fmt.Errorf("Accept did not return")
	}
	cleanup = func() {
		if client != nil {
			_ = client.Close()
		}
		if server != nil {
			_ = server.Close()
		}
		_ = srv.Close()
		cancel()
	}
	return client, server, cleanup, err
}

// tcpPair returns two NoiseConn (the TCP variant) over memory.
func tcpPair(r *rng) (a, b *mailbox.NoiseConn, ab, ba *halfPipe, err error) {
	p := newMachinePair(r, pairCfg{minI: 0, maxI: 2, minR: 0, maxR: 2})
	if p.errI != nil || p.errR != nil {
		return nil, nil, nil, nil, fmt.Errorf("handshake: %v / %v", p.errI, p.errR)
	}
	ca, cb, ab, ba := memPair()
	return mailbox.VerifNewNoiseConn(ca, p.init), mailbox.VerifNewNoiseConn(cb, p.resp), ab, ba, nil
}

func intsString(xs []int) string {
	if len(xs) == 0 {
		return "-"
	}
	var sb strings.Builder
	for i, x := range xs {
		if i > 0 {
			sb.WriteByte(',')
		}
		fmt.Fprintf(&sb, "%d", x)
	}
	return sb.String()
}

// C15: any sequence of writes and any sequence of read-buffer sizes.
func TestGenC15(t *testing.T) {
	r := newRng(seed())
	o := newOut(t, "c15_impl.txt")
	defer o.close()
	q := newOracle(t, "c15")
	defer q.close()
	wsizes := []int{0, 1, 2, 3, 100, 4096, 32767, 32768, 32769, 65535}
	bsizes := []int{1, 2, 7, 100, 4096, 32768, 32769, 65535, 100000}
	n := scale(150, 3000)
	var kitC, kitS net.Conn
	var kitClean func()
	defer func() {
		if kitC != nil {
			kitClean()
		}
	}()
	for i := 0; i < n; i++ {
		rr := r.sub(i)
		kind := []string{"grpc", "tcp"}[i%2]
		if i%5 == 4 {
			kind = "kit"
		}
		var writes []int
		for k := 1 + rr.intn(5); k > 0; k-- {
			w := wsizes[rr.intn(len(wsizes))]
			if rr.chance(2, 3) {
				w = rr.pick([]int{0, 1, 2, 3, 100, 300})
			}
			if kind == "tcp" && rr.chance(1, 12) {
				w = rr.pick([]int{65536, 65537, 131070, 140000})
			}
			if kind == "grpc" && rr.chance(1, 15) {
				w = 65536 + rr.intn(10) // must be rejected, not truncated
			}
			writes = append(writes, w)
		}
		var rd io.Reader
		var wr io.Writer
		var closeW func()
		afterReads := func() {}
		var all, got []byte
		bad := ""
		if kind == "kit" {
			// one connection pair serves consecutive cases (setting one up takes 2 s of retry waits) as long
			// as every byte written so far has been read back
			if kitC == nil {
				c, s, cleanup, err := kitPair(rr.sub(5))
				if err != nil {
					q.fail("c15:handshake", "kit: "+err.Error())
					if cleanup != nil {
						cleanup()
					}
					continue
				}
				kitC, kitS, kitClean = c, s, cleanup
				q.stat("kit_pairs", 1)
			}
			wr, rd = kitC, kitReader{kitS}
			closeW = func() {} // a GBN FIN may overtake unread data: no close between the cases
			afterReads = func() {
				if bad != "" || len(got) != len(all) {
					go kitClean()
					kitC, kitS = nil, nil
				}
			}
		} else if kind == "grpc" {
			c, s, err := grpcPair(rr.sub(5))
			if err != nil {
				q.fail("c15:handshake", err.Error())
				continue
			}
			wr, rd = c, s
			closeW = func() { c.Close() }
		} else {
			a, b, _, _, err := tcpPair(rr.sub(5))
			if err != nil {
				q.fail("c15:handshake", err.Error())
				continue
			}
			wr, rd = a, b
			closeW = func() { a.Close() }
		}
		var accepted []int
		var wres []string
		for _, w := range writes {
			data := rr.bytes(w)
			nw, err := wr.Write(data)
			switch {
			case err == nil && nw == w:
				all = append(all, data...)
				accepted = append(accepted, w)
				wres = append(wres, "ok")
			case err != nil && nw == 0:
				wres = append(wres, "rejected")
			default:
				wres = append(wres, fmt.Sprintf("partial:%d", nw))
				q.fail("c15:write-truncated:"+kind, fmt.Sprintf("Write of %d bytes returned n=%d err=%v", w, nw, err))
			}
			if w > 65535 && kind == "grpc" {
				q.check(err != nil, "c15:oversize-write-not-rejected:grpc", func() string { return fmt.Sprintf("Write(%d) = %d, %v", w, nw, err) })
			}
		}
		closeW()
		// reads
		var bufs, ns []int
		for k := 0; k < 400; k++ {
			bs := bsizes[rr.intn(len(bsizes))]
			if rr.chance(1, 2) {
				bs = rr.pick([]int{1, 2, 7, 100})
			}
			buf := make([]byte, bs)
			nr, err := safeRead(rd, buf)
			if err != nil && nr == 0 {
				if len(got) < len(all) {
					bad = fmt.Sprintf("read error %v after %d of %d bytes", err, len(got), len(all))
				}
				break
			}
			bufs = append(bufs, bs)
			ns = append(ns, nr)
			if nr > bs {
				bad = fmt.Sprintf("Read with a %d-byte buffer reported n=%d", bs, nr)
				break
			}
			got = append(got, buf[:nr]...)
			if len(got) >= len(all) {
				break
			}
		}
		afterReads()
		o.line("RD %s %s | %s | %s", kind, intsString(accepted), intsString(bufs), intsString(ns))
		key := "c15:stream-contract:" + kind
		if bad == "" && !bytes.Equal(got, all[:min(len(got), len(all))]) {
			bad = "bytes read differ from bytes written"
		}
		if bad == "" && len(got) != len(all) {
			bad = fmt.Sprintf("only %d of %d bytes could be read", len(got), len(all))
		}
		q.check(bad == "", key, func() string {
			return fmt.Sprintf("case %d %s: writes %v (%v), buffers %v, n %v: %s", i, kind, writes, wres, bufs, ns, bad)
		})
		q.stat("distinct_nontrivial", 1)
		q.stat("conn_"+kind, 1)
		if i < 3 {
			q.sample(fmt.Sprintf("%s writes=%v bufs=%v -> n=%v", kind, writes, bufs, ns))
		}
	}
}

func safeRead(rd io.Reader, buf []byte) (n int, err error) {
	defer func() {
		if r := recover(); r != nil {
			err = fmt.Errorf("panic: %v", r)
		}
	}()
	return rd.Read(buf)
}

// ---- C16 -------------------------------------------------------------------------

type limitWriter struct {
	limits []int
	calls  int
	out    []byte
}

var errTimeout = errors.New("i/o timeout")

func (w *limitWriter) Write(p []byte) (int, error) {
	lim := len(p)
	if w.calls < len(w.limits) {
		lim = w.limits[w.calls]
	}
	w.calls++
	if lim >= len(p) {
		w.out = append(w.out, p...)
		return len(p), nil
	}
	w.out = append(w.out, p[:lim]...)
	return lim, errTimeout
}

func TestGenC16(t *testing.T) {
	r := newRng(seed())
	o := newOut(t, "c16_impl.txt")
	defer o.close()
	q := newOracle(t, "c16")
	defer q.close()

	// (1) handshakes and records over transports that return 1..k bytes per Read
	id := 0
	for _, kk := range []bool{false, true} {
		for _, ver := range [][2]byte{{0, 0}, {1, 1}, {2, 2}, {0, 2}} {
			if kk && ver[1] < 2 {
				continue
			}
			for _, k := range []int{0, 1, 2, 3, 17, 33} {
				for _, who := range []string{"initiator", "responder", "both"} {
					if k == 0 && who != "both" {
						continue
					}
					id++
					rr := r.sub(id)
					frag := func() int { return 1 + rr.intn(k) }
					cfg := pairCfg{kk: kk, minI: ver[0], maxI: ver[1], minR: ver[0], maxR: ver[1], authData: rr.bytes(rr.pick([]int{0, 5, 300}))}
					if kk {
						cfg.minI, cfg.minR = 2, 2
					}
					if k > 0 {
						if who != "responder" {
							cfg.fragI = frag
						}
						if who != "initiator" {
							cfg.fragR = frag
						}
					}
					done := make(chan *machinePair, 1)
					go func() { done <- newMachinePair(r.sub(9000+int(ver[1])), cfg) }()
					var p *machinePair
					select {
					case p = <-done:
					case <-time.After(10 * time.Second):
						q.fail("c16:handshake-hangs-under-fragmentation", fmt.Sprintf("pattern kk=%v versions %v fragment<=%d on %s: DoHandshake did not return", kk, ver, k, who))
						continue
					}
					ok := p.errI == nil && p.errR == nil
					o.line("HSFRAG kk=%d vmin=%d vmax=%d k=%d who=%s | %s", b2i(kk), ver[0], ver[1], k, who, map[bool]string{true: "ok", false: "fail"}[ok])
					q.check(ok, "c16:handshake-fails-under-fragmentation", func() string {
						return fmt.Sprintf("pattern kk=%v versions %v, reads return at most %d bytes on %s: initiator err=%v responder err=%v", kk, ver, k, who, p.errI, p.errR)
					})
					q.stat("handshake_fragmentations", 1)
					q.stat("distinct_nontrivial", 1)
					if !ok {
						continue
					}
					// a record read through a fragmenting reader
					pl := rr.bytes(rr.pick([]int{0, 1, 17, 300}))
					var wire bytes.Buffer
					_ = p.init.WriteMessage(pl)
					_, _ = p.init.Flush(&wire)
					hp := newHalfPipe()
					if k > 0 {
						hp.frag = frag
					}
					_, _ = hp.Write(wire.Bytes())
					hp.Close()
					got, err := p.resp.ReadMessage(hp)
					q.check(err == nil && bytes.Equal(got, pl), "c16:record-fails-under-fragmentation", func() string {
						return fmt.Sprintf("record of %d bytes, fragments <= %d: err=%v got %d bytes", len(pl), k, err, len(got))
					})
				}
			}
		}
	}

	// (2) Flush against a writer that accepts part of the record and times out
	p := newMachinePair(r.sub(424242), pairCfg{minI: 0, maxI: 2, minR: 0, maxR: 2})
	if p.errI != nil || p.errR != nil {
		q.fail("c16:handshake", fmt.Sprintf("%v %v", p.errI, p.errR))
		return
	}
	sk, ss, _, _, _, _ := p.init.VerifCipherKeys()
	ref := &refCipher{key: sk, salt: ss}
	flushCase := func(plen int, limits []int) {
		pl := r.bytes(plen)
		want := ref.record(pl)
		if err := p.init.WriteMessage(pl); err != nil {
			q.fail("c16:write-message", err.Error())
			return
		}
		w := &limitWriter{limits: limits}
		var calls []string
		total := 0
		okSeq := true
		for c := 0; c < len(limits)+3; c++ {
			// while something is pending a new record must be refused
			if len(w.out) < len(want) {
				e := p.init.WriteMessage([]byte("x"))
				q.check(errors.Is(e, mailbox.ErrMessageNotFlushed), "c16:new-record-started-while-pending", func() string {
					return fmt.Sprintf("payload %d limits %v: WriteMessage during a pending flush returned %v", plen, limits, e)
				})
				if e == nil {
					okSeq = false
					break
				}
			}
			before, callsBefore := len(w.out), w.calls
			nn, err := p.init.Flush(w)
			a1, a2 := -1, -1
			if w.calls-callsBefore >= 1 && callsBefore < len(limits) {
				a1 = limits[callsBefore]
			}
			if w.calls-callsBefore >= 2 && callsBefore+1 < len(limits) {
				a2 = limits[callsBefore+1]
			}
			calls = append(calls, fmt.Sprintf("%d,%d,%d:%d:%d:%d", w.calls-callsBefore, a1, a2, len(w.out)-before, nn, b2i(err != nil)))
			total += nn
			if err == nil {
				break
			}
		}
		o.line("FL %d | %s", plen, strings.Join(calls, " "))
		q.check(okSeq && bytes.Equal(w.out, want) && total == plen, "c16:flush", func() string {
			return fmt.Sprintf("payload %d, writer limits %v: emitted %d bytes (record is %d, equal=%v), plaintext bytes reported %d; calls %v",
				plen, limits, len(w.out), len(want), bytes.Equal(w.out, want), total, calls)
		})
		q.stat("flush_cases", 1)
		q.stat("distinct_nontrivial", 1)
	}
	for _, plen := range []int{0, 1, 15, 16, 17, 100} {
		total := 18 + plen + 16
		// all two-way and three-way splits of the record's wire bytes
		for a := 0; a <= total; a++ {
			flushCase(plen, splitLimits(plen, []int{a}))
			if !thorough() && a%3 != 0 {
				continue
			}
			for b := a; b <= total; b += 1 + (total-a)/6 {
				flushCase(plen, splitLimits(plen, []int{a, b}))
			}
		}
	}
	for i := 0; i < scale(200, 5000); i++ {
		plen := r.pick([]int{0, 1, 2, 16, 17, 33, 500})
		var lim []int
		for k := r.intn(8); k > 0; k-- {
			lim = append(lim, r.intn(40))
		}
		flushCase(plen, lim)
	}
	q.sample("flush: payload sizes {0,1,15,16,17,100} x all two-way and (sampled) three-way splits of header+body, plus random finer partitions")
}

// splitLimits turns cut positions in the record's wire bytes into per-Write limits
// (Flush issues one Write for the rest of the header, then one for the rest of the body).
func splitLimits(plen int, cuts []int) []int {
	hdr := 18
	var lims []int
	pos := 0
	for _, c := range cuts {
		if c < pos {
			c = pos
		}
		// bytes accepted before the timeout in this Flush call, spread over its Write calls
		n := c - pos
		if pos < hdr {
			if pos+n < hdr {
				lims = append(lims, n) // header write cut short: body write not reached
			} else {
				lims = append(lims, hdr-pos, n-(hdr-pos))
			}
		} else {
			lims = append(lims, n)
		}
		pos = c
	}
	return lims
}

// kitReader bounds every Read of a plain mailbox connection: lost bytes must show up as an error, not a hang.
type kitReader struct{ c net.Conn }

func (k kitReader) Read(b []byte) (int, error) {
	_ = k.c.SetReadDeadline(time.Now().Add(5 * time.Second))
	return k.c.Read(b)
}
